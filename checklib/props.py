"""Per-property configuration of ./check (what runs besides the Lean build)."""

TRUSTED_BASE = [
    "Lean 4.33.0 kernel (thorough tier: re-checked by leanchecker)",
    "axioms allowed in property theorems: propext, Classical.choice, Quot.sound (audited every run via collectAxioms)",
    "harness/cmd/extract (go/ast + reflect fact extractor) and harness/cmd/drive (correspondence + oracle), written for this task",
    "the hand-written Lean model is tied to /repo by the correspondence run of this check (sampled unless stated exhaustive)",
    "Go runtime, reflect, bufio, bytes, io, encoding/binary modelled, not verified",
]

PDU_RULE = ("type-directed generation from the real Go struct types by reflection (all 33 PDU types round-robin, then random), "
            "sizes biased to 0/1/139-141/254-256/4060-4120/58000, every chunking kind (whole, 1-octet, uniform, single split, cyclic sizes)")

PROPS = {
    "C01": {"rule": PDU_RULE + "; op rt = Marshal then ReadPDU under a chunking, oracle compares every field"},
    "C03": {"rule": PDU_RULE + "; op stream = repeated ReadPDU over concatenated valid frames, truncations at random and at every cut of short streams, every single split point and uniform size 1..32"},
    "C04": {"rule": "unstructured octets, valid header of every registered id + arbitrary body, mutated valid frames (bit flips, truncation, length edits, duplicated slices), all chunkings"},
    "C12": {"rule": PDU_RULE + "; unconstrained domain: sequence over the int32 range incl. 0/-1/min, any status, containers 254-300, TLV 65534-65536, UDH element 250-300, message 141-300; destination writer counts Write calls"},
    "C13": {"rule": "reenc = ReadPDU -> Marshal -> ReadPDU -> Marshal x8 on valid and mutated frames of every type; det = 16 re-marshals of values with 2..50 TLVs after rebuilding the maps"},
}
