"""Per-property configuration of ./check (what runs besides the Lean build)."""

TRUSTED_BASE = [
    "Lean 4.33.0 kernel (thorough tier: re-checked by leanchecker)",
    "axioms allowed in property theorems: propext, Classical.choice, Quot.sound (audited every run via collectAxioms)",
    "harness/cmd/extract (go/ast + reflect fact extractor) and harness/cmd/drive (correspondence + oracle), written for this task",
    "the hand-written Lean model is tied to /repo by the correspondence run of this check (sampled unless stated exhaustive)",
    "Go runtime, reflect, bufio, bytes, io, encoding/binary modelled, not verified",
]

PDU_RULE = ("type-directed generation from the real Go struct types by reflection (all 33 PDU types round-robin, then random), "
            "sizes biased to 0/1/139-141/254-256/4060-4120/58000, every chunking kind (whole, 1-octet, uniform, single split, cyclic sizes)")

HOOK_COMMITS = []

PDU_NOTE = ("Theorems are about the Lean model of package pdu's codec (Smpp/Model/Pdu.lean) over the REGENERATED struct layouts; "
            "the model is tied to /repo by the correspondence run (sampled) and by decide-checked expectations on regenerated facts "
            "(layout shapes, registry, read primitives, panic-site and make-site inventories, guards). Trusted: Lean kernel, the extractor, "
            "the harness, and the models of bufio/bytes/io/binary (exact reads over the private frame copy).")

PROPS = {
    "C01": {"rule": PDU_RULE + "; op rt = Marshal then ReadPDU under a chunking, oracle compares every field",
            "level_text": "Round trip proved in Lean for every layout passing LayoutOK (decided on the regenerated 33 layouts), every representable value of unbounded size and every fragmentation (C01_roundtrip_partial, C01_fields_equal); the full-strength statement is refuted by a proved witness for the one known finding (QuerySMResp.ErrorCode).",
            "level_note": PDU_NOTE + " Partial: fields the reflection walk skips must be zero (known finding C01-queryresp-errorcode)."},
    "C02": {"rule": PDU_RULE + "; op spec: the Go side prints Marshal's frame, the Lean side prints the frame its INDEPENDENT SMPP v5 table (Spec/SmppV5Layout.lean) prescribes; a differing line is a deviation from the specification; the Go side also decodes the frame and compares with the values laid out; 15% of the values lie just outside what the length fields can state",
            "diff_violation_ops": {"spec": "C02:marshal-differs-from-spec-frame"},
            "level_text": "The regenerated Go layouts equal an independent transcription of SMPP v5 §4.1-4.6 (names, order, kinds; decide), the model's octets equal the specification encoder's for every representable value (C02_encode, by induction over fields), and a value whose lengths cannot be stated makes Marshal fail (C02_unrepresentable); the converse direction follows with C01.",
            "level_note": PDU_NOTE + " The specification table is my transcription of docs/SMPP_v5.pdf (DESIGN.md Appendix D). Known finding: query_sm_resp.error_code."},
    "C03": {"level_text": "Fragmentation independence of one and of repeated ReadPDU calls, exact consumption for every acceptable header (decodable, undecodable or unknown id), in-order delivery then EOF for any frame sequence, and error on every truncation inside a PDU are Lean theorems over arbitrary chunk lists.",
            "level_note": PDU_NOTE + " The io.Reader is modelled as a list of chunks (a Read returns at most the head chunk); that io.ReadFull/binary.Read behave as the loop over Read is trusted and checked by the correspondence run under every chunking kind.",
            "rule": PDU_RULE + "; op stream = repeated ReadPDU over concatenated valid frames, truncations at random and at every cut of short streams, every single split point and uniform size 1..32"},
    "C04": {"level_text": "Consumed <= 65536, error-or-registered-PDU classification, early rejection of bad lengths before any allocation and the allocation log bound are Lean theorems for every byte string and fragmentation; totality is Lean's own totality of the model plus the regenerated panic-site inventory.",
            "level_note": PDU_NOTE + " Partial: real heap bytes and running time of the Go process are not carried by the model (the model's allocation log is); panic freedom of the Go code itself rests on the inventory + correspondence on hostile input.",
            "rule": "unstructured octets, valid header of every registered id + arbitrary body, mutated valid frames (bit flips, truncation, length edits, duplicated slices), all chunkings"},
    "C12": {"level_text": "For every layout and every value with no domain restriction: Marshal's model never reaches the panic outcome, success writes exactly one frame whose first four octets state its size, failure writes nothing (Lean theorems); single write site and guards are regenerated facts.",
            "level_note": PDU_NOTE,
            "rule": PDU_RULE + "; unconstrained domain: sequence over the int32 range incl. 0/-1/min, any status, containers 254-300, TLV 65534-65536, UDH element 250-300, message 141-300; destination writer counts Write calls"},
    "C13": {"level_text": "Determinism over Go's map iteration order is proved for all maps (any permutation of the entries sorts to the same key list: C13_deterministic_tags/_udh); stability is proved in the form: what Marshal wrote decodes, under any fragmentation, to the value Marshal left with empty TLVs dropped (C13_redecode_partial). The second re-encoding being byte-identical, and decoder output being well-formed, are checked differentially only (reenc op), not yet mechanised.",
            "level_note": PDU_NOTE + " Partial as stated in level_text.",
            "rule": "reenc = ReadPDU -> Marshal -> ReadPDU -> Marshal x8 on valid and mutated frames of every type; det = 16 re-marshals of values with 2..50 TLVs after rebuilding the maps"},
    "C20": {"rule": "esm/regdlv/ifver: all 256 octets (exhaustive); time strings: full product of the boundary values named in the property (year 00/99, month 1/12, day 1/28-31, hour 0/23, minute and second 0/59, tenth 0/9, offset 0/1/48, both signs) parsed AND formatted, plus random valid strings, malformed/out-of-calendar strings, random instants incl. out-of-domain years/offsets/nanoseconds; durations on random grid points, unit boundaries +-1 tenth, out-of-domain values",
            "level_text": "Octet codecs: identity and bit positions for all 256 values by kernel evaluation, positions stated arithmetically (and equal to the independent Spec encoders). Time: format->parse and parse->format are Lean theorems for EVERY valid civil date of 2000-2099 x every tenth x every quarter-hour offset within +-12h, resting on an exhaustive kernel check of the day-number calendar over all 36525 days; duration round trip for every period 1 s .. <100 y at 0.1 s resolution by mixed-radix arithmetic (omega).",
            "level_note": "Model of pdu/time.go, interface_version.go, esm_class.go, registered_delivery.go; the literal ingredients (format strings, argument order, multipliers, slices, bit statements) are regenerated and compared by decide. Trusted and validated differentially: that Go's time.Date + accessors equal GoDate.norm (also on out-of-calendar input), strconv.ParseInt and fmt %02d/%d models, encoding/json quoting.",
            "exhaustive_note": "256 x 3 octet cases enumerated completely"},
    "C08": {"rule": "gsm7repertoire: EXHAUSTIVE sweep of all 1,112,064 scalar values through the real encoder, Validate and BestCoding (one op; both accepted sets compared with the model's); gsm7rt: every single character, pairs (all 18769 in thorough), random texts up to 170 chars with 15% extension characters and every ending in {CR, '@', CR CR, ext+CR, ...}, exact lengths 0..24 x endings (all residues mod 8), one foreign character at a random place; gsm7dec: arbitrary octets; gsm7bytes: arbitrary (invalid UTF-8) input (oracle only)",
            "impl_only_ops": ("gsm7bytes",),
            "level_text": "Alphabet and detector are decided for EVERY scalar value (general membership lemma + kernel-evaluated finite tables compared with an independent GSM 03.38 transcription); length, LSB-first bit positions, filler rule and unpack(pack s) are theorems for all septet lists; the round trip (with the single-trailing-CR exception exactly in the ambiguous case) is a theorem for all texts.",
            "level_note": "Model of coding/gsm7bit over the REGENERATED tables (reverseLookup, forwardEscapes, DefaultAlphabet) and regenerated statement texts of init / packSeptets / unpackSeptets / the strip rule. Trusted and validated differentially: the model's bit-stream formulation equals the Go loops; golang.org/x/text's transform.Bytes driver (grow/retry) is transparent; range-over-string yields scalars (U+FFFD for invalid input).",
            "exhaustive_note": "all scalar values enumerated through the implementation"},
}
