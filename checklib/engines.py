"""Property-specific extra engines of ./check (called with (tier, seed, BUILD, ROOT, GOENV))."""
import os, re, subprocess, time


def race_engine(tier, seed, BUILD, ROOT, GOENV):
    """C06: the README workload under the race detector (search for a failing execution; not the proof)."""
    harness = os.path.join(ROOT, "harness")
    exe = os.path.join(BUILD, "racerun")
    p = subprocess.run(["go", "build", "-race", "-o", exe, "./cmd/racerun"], cwd=harness, env=GOENV,
                       stdout=subprocess.PIPE, stderr=subprocess.STDOUT, text=True, timeout=900)
    out = {"failures": [], "broken": [], "coverage": {}, "stats": {"evaluations": 0, "distinct_nontrivial": 0}}
    if p.returncode != 0:
        out["broken"].append("race workload does not build against /repo: " + p.stdout[-500:])
        return out
    runs = []
    seeds = [seed] if tier == "quick" else [seed, seed + 1, seed + 2, seed + 3]
    k, rounds = (6, 40) if tier == "quick" else (12, 150)
    samples = []
    for s in seeds:
        for sc in ("normal", "peerdrop", "kafail", "badresp"):
            op = "racerun %s %d %d %d" % (sc, k, rounds, s)
            env = dict(GOENV, GORACE="halt_on_error=0 history_size=3")
            t0 = time.time()
            try:
                r = subprocess.run([exe, sc, str(k), str(rounds), str(s)], env=env, stdout=subprocess.PIPE,
                                   stderr=subprocess.PIPE, text=True, timeout=120)
                so, se, rc = r.stdout, r.stderr, r.returncode
            except subprocess.TimeoutExpired:
                so, se, rc = "", "timeout", -1
            runs.append(op)
            line = (so.strip().splitlines() or ["(no output)"])[-1]
            samples.append({"op": op, "impl": line, "wall_s": round(time.time() - t0, 2)})
            marker = None
            if "concurrent map" in se:
                marker = "C06:fatal-concurrent-map-access"
            for block in se.split("=================="):
                if "DATA RACE" in block and "/repo/" in block:
                    m = re.search(r"(\S+\(\*?\w*\)?\.\w+|\S+)\(\)\n\s+/repo/(\S+):(\d+)", block)
                    where = "%s:%s" % (m.group(2), m.group(3)) if m else "?"
                    marker = "C06:data-race-in-library at=" + where
                    break
            if marker is None and rc == -1:
                marker = "C06:workload-hangs"
            if marker:
                out["failures"].append((op, marker, line))
    out["stats"] = {"evaluations": len(runs), "distinct_nontrivial": len(runs),
                    "op_kinds": {"racerun": len(runs)}}
    out["coverage"] = {"samples": samples[:3], "race_detector_runs": len(runs),
                       "race_workload": "Watch + EnquireLink + %d submitting goroutines x %d rounds + consumer answering with Resp() + Close; scenarios normal (ReadTimeout shorter than a keep-alive round) / peer drops the link with requests in flight / keep-alive fails while the application closes / every third response undecodable" % (k, rounds)}
    return out
