#!/bin/bash
# usage: tools/try_mutation.sh <patch.diff> <tier> <Cxx> [<Cyy> ...]
# applies the patch to /repo, runs the listed checks, prints their verdict lines, and ALWAYS reverts /repo.
set -u
PATCH=$1; TIER=$2; shift 2
cd /verif
if ! git -C /repo diff --quiet; then echo "/repo working tree not clean"; exit 2; fi
git -C /repo apply "$PATCH" || { echo "patch does not apply"; exit 2; }
# evidence files are written by every run: keep the clean-tree ones (a run against a mutation must never be what gets committed)
BK=$(mktemp -d)
cp -a /verif/evidence/. "$BK"/ 2>/dev/null
trap 'git -C /repo checkout -- . ; git -C /repo clean -fdq -- . 2>/dev/null; cp -a "$BK"/. /verif/evidence/ 2>/dev/null; rm -rf "$BK"' EXIT
for P in "$@"; do
  out=$(./check $P --tier $TIER 2>&1); rc=$?
  echo "== $P rc=$rc"; echo "$out" | grep -E "VIOLATION|KNOWN-FINDING|\[check\]" | cut -c1-300
  rp=$(echo "$out" | grep -oE "replay=[^ ]+" | head -1 | cut -d= -f2)
  if [ -n "$rp" ] && [ -f "$rp" ]; then
    python3 - "$rp" <<'PY'
import json,sys
d=json.load(open(sys.argv[1]))
print("REPLAY op:", str(d.get("op"))[:300])
print("REPLAY verdict:", str(d.get("verdict"))[:300])
for b in (d.get("broken") or [])[:3]: print("REPLAY broken:", b[:300])
PY
  fi
done
