#!/usr/bin/env python3
"""usage: archive_wave.py <prefix> <log> <origin-note> [<first-attempt-notes.json>]
Archives the sub-agent mutations under /tmp/mut/Cxx-out/{A,B} as seeded/<prefix>-Cxx-{A,B}/ with the detection record
parsed from a tools/try_mutation.sh log (sections `#### Cxx X`)."""
import json, os, re, shutil, sys, datetime
prefix, log, origin = sys.argv[1:4]
first = json.load(open(sys.argv[4])) if len(sys.argv) > 4 else {}
root = os.path.dirname(os.path.dirname(os.path.abspath(__file__)))
sections = {}
cur = None
for line in open(log, errors="replace"):
    m = re.match(r"#### (C\d\d) ([ABC])", line)
    if m:
        cur = (m.group(1), m.group(2)); sections[cur] = []
    elif cur:
        sections[cur].append(line.rstrip("\n"))
today = datetime.date.today().isoformat()
summary = []
for (p, x), lines in sorted(sections.items()):
    src = f"/tmp/mut/{p}-out/{x}"
    mid = f"{prefix}-{p}-{x}"
    d = os.path.join(root, "seeded", mid)
    os.makedirs(d, exist_ok=True)
    shutil.copy(f"{src}/patch.diff", f"{d}/patch.diff")
    shutil.copy(f"{src}/zz_seeded_demo_test.go", f"{d}/zz_seeded_demo_test.go.txt")
    notes = open(f"{src}/NOTES.md", errors="replace").read()
    open(f"{d}/NOTES.md", "w").write(notes)
    demo_dir = notes.splitlines()[0].split(":", 1)[1].strip()
    race = "yes" in notes.splitlines()[1]
    m = re.search(r"WHAT:\s*(.+)", notes)
    what = m.group(1).strip() if m else "see NOTES.md"
    text = "\n".join(lines)
    rc = re.search(r"rc=(\d)", text)
    nfi = "no-failing-input-found" in text
    op = re.search(r"REPLAY op: (.*)", text)
    verdict = re.search(r"REPLAY verdict: (.*)", text)
    broken = re.findall(r"REPLAY broken: (.*)", text)
    if rc and rc.group(1) == "1":
        result = "VIOLATION … no-failing-input-found" if nfi else "VIOLATION with a concrete replay input"
    else:
        result = "NOT DETECTED"
    how = ""
    if verdict and not nfi:
        how = f"verdict {verdict.group(1).strip()} on op `{op.group(1).strip()[:160]}`"
    if broken:
        how += (" | " if how else "") + "broken obligation: " + broken[0][:220]
    if mid in first:
        how += " | first attempt: " + first[mid]
    meta = {"id": mid, "breaks_property": p, "what": what, "needs_to_manifest": "see NOTES.md",
            "demo_location": f"{demo_dir}/zz_seeded_demo_test.go" + (" (go test -race)" if race else ""),
            "origin": origin,
            "confirmed": f"tools/confirm_seeded.sh: demo passes on the unchanged tree; with the change: go build ok, existing suite 0 failures, demo FAILS ({today})",
            "detected_by": {"check": f"./check {p} --tier quick", "result": result, "how": how}}
    json.dump(meta, open(f"{d}/meta.json", "w"), indent=1, ensure_ascii=False)
    summary.append((mid, result, what[:110], (verdict.group(1).strip()[:70] if verdict and not nfi else (broken[0][:70] if broken else ""))))
for s in summary:
    print("| %s | %s | %s | %s |" % (s[0], s[2], s[3], "concrete" if "concrete" in s[1] else ("NFI" if "no-failing" in s[1] else "MISSED")))
