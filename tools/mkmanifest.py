#!/usr/bin/env python3
"""Regenerates MANIFEST.json from checklib/props.py (single source of truth for what is claimed)."""
import json, os, sys
ROOT = os.path.dirname(os.path.dirname(os.path.abspath(__file__)))
sys.path.insert(0, os.path.join(ROOT, "checklib"))
import props

hooks_commits = props.HOOK_COMMITS
checks, na = [], []
all_ids = ["C%02d" % i for i in range(1, 21)]
for pid in all_ids:
    p = props.PROPS.get(pid)
    if not p or not p.get("claimed", True):
        na.append({"property_id": pid, "reason": (p or {}).get("na_reason", "check not built yet in this round (work in progress, see DESIGN.md §5)")})
        continue
    checks.append({
        "property_id": pid,
        "quick_cmd": "./check %s --tier quick" % pid,
        "thorough_cmd": "./check %s --tier thorough" % pid,
        "evidence_file": "/verif/evidence/%s.json" % pid,
        "replay_cmd_template": "./check %s --replay {path}" % pid,
        "engine": "lean4-proof+correspondence",
        "level_claimed": {"category": "proof", "text": p["level_text"], "design_ref": p.get("design_ref", "DESIGN.md §5 " + pid)},
        "level_note": p["level_note"],
        "technique": p.get("technique", "Lean 4 theorems over a model of the code + regenerated fact expectations (decide) + differential correspondence run"),
    })
m = {
    "version": 1,
    "setup_cmd": "./check --setup",
    "hooks": {"guard": "verif", "enable": "no hooks are compiled into /repo: the harness passes -tags verif but no file of /repo is guarded by it (DESIGN.md section 0)",
              "baseline_off_cmd": "cd /repo && GOFLAGS=-mod=mod GOPROXY=off GOSUMDB=off go test -vet=off -count=1 -timeout 25m ./...",
              "source_commits": hooks_commits, "add_only": True},
    "engines": [{"name": "lean4-proof+correspondence", "path": "/verif/check",
                 "serves_properties": [c["property_id"] for c in checks],
                 "kind_free_text": "Lean 4 (core only) model + theorems in /verif/lean, fact extractor and differential harness in /verif/harness (Go, builds against /repo's working tree), python3 orchestrator"}],
    "checks": checks,
    "notes": "VERIF_SEED seeds every generator; VERIF_TIER is honoured as an alternative to --tier. Known findings: known_findings.json. Seeded mutations used to test the checks: seeded/.",
    "not_applicable": na,
}
json.dump(m, open(os.path.join(ROOT, "MANIFEST.json"), "w"), indent=1)
print("claimed:", [c["property_id"] for c in checks])
print("not claimed:", [n["property_id"] for n in na])
