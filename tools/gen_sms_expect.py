#!/usr/bin/env python3
"""Snapshot of the statement texts of package sms / coding/semioctet the Lean model was written and
validated against -> lean/Smpp/Properties/SmsSource.lean (committed; compared with the REGENERATED
definitions of Smpp.Generated.SmsFacts on every run: identical string literals are equal by `rfl`,
anything else fails to type-check and names the function).  Re-run only after re-validating the model
against changed source."""
import re, os
root = os.path.dirname(os.path.dirname(os.path.abspath(__file__)))
src = open(os.path.join(root, "lean/Smpp/Generated/SmsFacts.lean"), encoding="utf-8").read()
out = ["-- Expectations on the regenerated source facts of package sms (snapshot written by tools/gen_sms_expect.py",
       "-- after the model was validated against this source).  A changed statement breaks the lemma of its function.",
       "import Smpp.Generated.SmsFacts", "namespace Smpp.Properties.SmsSource", "open Smpp.Generated", ""]
n = 0
for m in re.finditer(r"^def (smsSrc_\w+) : List String := (\[.*?\])\n(?=def |\n)", src, re.S | re.M):
    out.append("theorem %s : %s = %s := rfl\n" % (m.group(1).replace("smsSrc_", "src_"), m.group(1), m.group(2)))
    n += 1
m = re.search(r"^def smsSrcFunctions : List String := (\[.*?\])\n", src, re.M)
out.append("theorem functions : smsSrcFunctions = %s := rfl\n" % m.group(1))
m = re.search(r"^def smsSites : List \(String × Nat\) := (\[.*?\])\n\n", src, re.S | re.M)
out.append("/-- inventory of index / slice / make / unchecked-assertion sites and read primitives: the model has a partial\nprimitive or a totality argument for each -/")
out.append("theorem sites : smsSites = %s := by decide +kernel\n" % m.group(1))
out.append("end Smpp.Properties.SmsSource")
open(os.path.join(root, "lean/Smpp/Properties/SmsSource.lean"), "w", encoding="utf-8").write("\n".join(out) + "\n")
print("functions pinned:", n)
