#!/usr/bin/env python3
"""usage: archive_seeded.py <Cxx> <mutation-id> <what> <needs> <detected-how> [result]  (copies from /tmp/wt/<Cxx>, removes the worktree)"""
import json, os, shutil, subprocess, sys
p, mid, what, needs, how = sys.argv[1:6]
result = sys.argv[6] if len(sys.argv) > 6 else "VIOLATION with a concrete replay input"
w = f"/tmp/wt/{p}"
d = f"/verif/seeded/{mid}"
os.makedirs(d, exist_ok=True)
shutil.copy(f"{w}/mutation.diff", f"{d}/patch.diff")
demo = subprocess.run(f"cd {w} && git status --porcelain | awk '$1==\"??\" && /zz_seeded_demo_test.go/{{print $2}}'", shell=True, capture_output=True, text=True).stdout.strip()
shutil.copy(f"{w}/{demo}", f"{d}/zz_seeded_demo_test.go.txt")
if os.path.exists(f"{w}/report.md"):
    shutil.copy(f"{w}/report.md", f"{d}/report.md")
json.dump({"id": mid, "breaks_property": p, "what": what, "needs_to_manifest": needs, "demo_location": demo,
           "origin": "fresh sub-agent given only the property text and a scratch worktree",
           "confirmed": "tools/verify_seeded.sh: existing suite passes with the change; demo fails with it and passes without it",
           "detected_by": {"check": f"./check {p} --tier quick", "result": result, "how": how}}, open(f"{d}/meta.json", "w"), indent=1)
subprocess.run(["git", "-C", "/repo", "worktree", "remove", "--force", w])
print("archived", d)
