#!/bin/bash
# usage: tools/confirm_seeded.sh <worktree> <outdir-with-patch-and-demo> <pkgdir> [race]
# confirms a sub-agent's change: demo passes without it; with it: builds, existing suite passes, demo fails.
set -u
W=$1; O=$2; PKG=$3; RACE=${4:-}
export GOFLAGS=-mod=mod GOPROXY=off GOSUMDB=off GOTOOLCHAIN=local
cd "$W" || exit 2
git checkout -q -- . && git clean -fdq
FLAGS="-vet=off -count=1 -timeout 120s"; [ -n "$RACE" ] && FLAGS="$FLAGS -race"
cp "$O/zz_seeded_demo_test.go" "$PKG/zz_seeded_demo_test.go"
WITHOUT=$(timeout 300 go test $FLAGS -run 'TestSeeded' ./$PKG 2>&1 | tail -1)
rm "$PKG/zz_seeded_demo_test.go"
git apply "$O/patch.diff" || { echo "patch does not apply"; exit 2; }
BUILD=$(go build ./... 2>&1 | tail -1)
SUITE=$(timeout 600 go test -vet=off -count=1 -timeout 300s ./... 2>&1 | grep -c "^FAIL\|^--- FAIL\|^panic:")
cp "$O/zz_seeded_demo_test.go" "$PKG/zz_seeded_demo_test.go"
WITH=$(timeout 300 go test $FLAGS -run 'TestSeeded' ./$PKG 2>&1 | grep -E "^(ok|FAIL|---|panic)" | tail -1)
git checkout -q -- . && git clean -fdq
echo "$(basename $(dirname $O))/$(basename $O): build='$BUILD' suite_failures=$SUITE | without: $WITHOUT | with: $WITH"
