#!/usr/bin/env python3
"""usage: gen_src_expect.py <GeneratedModule> <prefix> <OutModule>
Snapshot of regenerated per-function statement lists (defs named <prefix>_<fn>) of lean/Smpp/Generated/<GeneratedModule>.lean
-> lean/Smpp/Properties/<OutModule>.lean as `theorem src_<fn> : <prefix>_<fn> = [...] := rfl`.
Re-run only after re-validating the model against changed source."""
import re, os, sys
gen, prefix, outm = sys.argv[1:4]
root = os.path.dirname(os.path.dirname(os.path.abspath(__file__)))
src = open(os.path.join(root, "lean/Smpp/Generated/%s.lean" % gen), encoding="utf-8").read()
out = ["-- Expectations on regenerated source facts (snapshot written by tools/gen_src_expect.py after the model was",
       "-- validated against this source).  A changed statement breaks the lemma of its function.",
       "import Smpp.Generated.%s" % gen, "namespace Smpp.Properties.%s" % outm, "open Smpp.Generated", ""]
n = 0
for m in re.finditer(r"^def (%s_\w+) : List String := (\[.*?\])\n(?=def |\n)" % prefix, src, re.S | re.M):
    out.append("theorem %s : %s = %s := rfl\n" % (m.group(1).replace(prefix + "_", "src_"), m.group(1), m.group(2)))
    n += 1
out.append("end Smpp.Properties.%s" % outm)
open(os.path.join(root, "lean/Smpp/Properties/%s.lean" % outm), "w", encoding="utf-8").write("\n".join(out) + "\n")
print("functions pinned:", n)
