#!/usr/bin/env python3
"""usage: gen_srcgroup_expect.py <Group>...   (no argument: every group)
Snapshot of lean/Smpp/Generated/Src<Group>.lean -> lean/Smpp/Properties/Src<Group>.lean
(`theorem exp_<def> : <def> = [...] := rfl`).  Re-run ONLY after re-validating the models against changed source."""
import re, os, sys, glob
root = os.path.dirname(os.path.dirname(os.path.abspath(__file__)))
groups = sys.argv[1:] or [os.path.basename(p)[3:-5] for p in glob.glob(os.path.join(root, "lean/Smpp/Generated/Src*.lean"))]
for g in sorted(groups):
    src = open(os.path.join(root, "lean/Smpp/Generated/Src%s.lean" % g), encoding="utf-8").read()
    out = ["-- Expectations on the regenerated source snapshot group %s (written by tools/gen_srcgroup_expect.py after the models" % g,
           "-- were validated against this source).  A changed statement or declaration breaks the lemma of its function / file.",
           "import Smpp.Generated.Src%s" % g, "namespace Smpp.Properties.Src%s" % g, "open Smpp.Generated.Src%s" % g, ""]
    n = 0
    for m in re.finditer(r"^def (src_\w+) : List String := (\[.*?\])\n(?=def |\n)", src, re.S | re.M):
        out.append("theorem exp_%s : %s = %s := rfl\n" % (m.group(1)[4:], m.group(1), m.group(2)))
        n += 1
    out.append("end Smpp.Properties.Src%s" % g)
    open(os.path.join(root, "lean/Smpp/Properties/Src%s.lean" % g), "w", encoding="utf-8").write("\n".join(out) + "\n")
    print(g, "definitions pinned:", n)
