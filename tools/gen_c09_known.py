#!/usr/bin/env python3
"""One-off generator of the COMMITTED known-finding data for C09 (F17): per coding c the scalar values
that DataCoding(c).Validate accepts but the encoder of c rejects, computed from the current
lean/Smpp/Generated/CodingFacts.lean.  Output: lean/Smpp/Properties/C09Known.lean and
known_c09_intervals.json.  NOT run by ./check (the known set is fixed data, never written at run time)."""
import json, re, os
ROOT = os.path.dirname(os.path.dirname(os.path.abspath(__file__)))
src = open(os.path.join(ROOT, "lean/Smpp/Generated/CodingFacts.lean")).read()

def load(name):
    out = []
    for m in re.finditer(r"def %s_\d+ : List \(Nat × Nat\) := \[(.*?)\]\n" % name, src, re.S):
        out += [(int(a), int(b)) for a, b in re.findall(r"\((\d+), (\d+)\)", m.group(1))]
    return out

def diff(V, A):
    res = []
    for lo, hi in V:
        p = lo
        for a, b in A:
            if b < p: continue
            if a > hi: break
            if a > p: res.append((p, a - 1))
            p = max(p, b + 1)
            if p > hi: break
        if p <= hi: res.append((p, hi))
    return res

codings = [0, 1, 3, 6, 7, 5, 14, 8]
known = {}
for c in codings:
    known[c] = diff(load("validate_%d" % c), load("accept_%d" % c))
json.dump({str(c): known[c] for c in codings}, open(os.path.join(ROOT, "known_c09_intervals.json"), "w"))
with open(os.path.join(ROOT, "lean/Smpp/Properties/C09Known.lean"), "w") as f:
    f.write("/-\nCOMMITTED DATA (not regenerated): known finding C09-script-tables (DESIGN.md F17).\nPer data_coding c, the scalar values DataCoding(c).Validate accepts although the encoder of c rejects\nthem, as of the pinned commit.  A failing scalar outside these intervals is a NEW violation.\nProduced once by tools/gen_c09_known.py.\n-/\nnamespace Smpp.Properties.C09Known\n\n")
    for c in codings:
        items = ["(%d, %d)" % p for p in known[c]]
        parts = []
        for i in range(0, max(len(items), 1), 200):
            chunk = items[i:i + 200]
            f.write("def knownBad_%d_%d : List (Nat × Nat) := [%s]\n" % (c, i // 200, ", ".join(chunk)))
            parts.append("knownBad_%d_%d" % (c, i // 200))
        f.write("def knownBad_%d : List (Nat × Nat) := %s\n\n" % (c, " ++ ".join(parts)))
    f.write("end Smpp.Properties.C09Known\n")
for c in codings:
    n = sum(b - a + 1 for a, b in known[c])
    print("coding", c, "intervals", len(known[c]), "scalars", n, known[c][:3])
