#!/bin/bash
# usage: tools/verify_seeded.sh <worktree>   -- confirms a sub-agent's seeded change:
#  (1) with the change the existing suite passes, (2) the demo fails with it, (3) the demo passes without it.
set -u
W=$1
export GOFLAGS=-mod=mod GOPROXY=off GOSUMDB=off GOTOOLCHAIN=local
cd "$W" || exit 2
DEMO=$(git status --porcelain | awk '$1=="??" && /zz_seeded_demo_test.go/{print $2}' | head -1)
[ -z "$DEMO" ] && { echo "no demo file"; exit 2; }
PKG=./$(dirname "$DEMO")
mv "$DEMO" /tmp/_demo_hold.go
go build ./... >/dev/null 2>&1 && SUITE=$(go test -vet=off -count=1 -timeout 120s ./... 2>&1 | grep -c "^FAIL\|^---.FAIL\|panic:")
mv /tmp/_demo_hold.go "$DEMO"
WITH=$(go test -vet=off -count=1 -timeout 120s -run 'Seeded|ZZ|Zz|zz' "$PKG" 2>&1 | tail -1)
git stash -q
WITHOUT=$(go test -vet=off -count=1 -timeout 120s -run 'Seeded|ZZ|Zz|zz' "$PKG" 2>&1 | tail -1)
git stash pop -q
echo "suite_failures_with_change=$SUITE | demo_with_change: $WITH | demo_without: $WITHOUT"
