-- Root of the `Smpp` library: model, generated facts, specifications, proofs, property theorems.
import Smpp.Prelude
import Smpp.Model.Pdu
import Smpp.Generated.Layouts
