-- Expectations on the regenerated source snapshot group PduCodec (written by tools/gen_srcgroup_expect.py after the models
-- were validated against this source).  A changed statement or declaration breaks the lemma of its function / file.
import Smpp.Generated.SrcPduCodec
namespace Smpp.Properties.SrcPduCodec
open Smpp.Generated.SrcPduCodec

theorem exp_pdu_marshal_unmarshal : src_pdu_marshal_unmarshal = [
  "sig: func(r io.Reader, packet interface{}) (n int64, err error)",
  "buf := bufio.NewReader(r)",
  "v := reflect.ValueOf(packet)",
  "if v.Kind() == reflect.Ptr { v = v.Elem() }",
  "for i := 0; i < v.NumField(); i++ { switch field := v.Field(i); field.Kind() { case reflect.String: var value string if value, err = readCString(buf); err == nil { field.SetString(value) } case reflect.Uint8: var value byte if value, err = buf.ReadByte(); err == nil { field.SetUint(uint64(value)) } case reflect.Bool: var value byte if value, err = buf.ReadByte(); err == nil { field.SetBool(value == 1) } case reflect.Array, reflect.Map, reflect.Slice, reflect.Struct: switch v := (field.Addr().Interface()).(type) { case *Header: err = readHeaderFrom(buf, v) if v.CommandStatus != 0 { return } case io.ByteWriter: var value byte if value, err = buf.ReadByte(); err == nil { err = v.WriteByte(value) } case io.ReaderFrom: if m, ok := v.(*ShortMessage); ok { m.Prepare(packet) } _, err = v.ReadFrom(buf) } } n = int64(buf.Size()) if err != nil { err = ErrUnmarshalPDUFailed return } }",
  "return"] := rfl

theorem exp_pdu_marshal_Marshal : src_pdu_marshal_Marshal = [
  "sig: func(w io.Writer, packet interface{}) (n int64, err error)",
  "var buf bytes.Buffer",
  "p := reflect.ValueOf(packet)",
  "if p.Kind() == reflect.Ptr { p = p.Elem() }",
  "for i := 0; i < p.NumField(); i++ { field := p.Field(i) switch field.Kind() { case reflect.String: writeCString(&buf, field.String()) case reflect.Uint8: buf.WriteByte(byte(field.Uint())) case reflect.Bool: var value byte if field.Bool() { value = 1 } buf.WriteByte(value) case reflect.Array, reflect.Map, reflect.Slice, reflect.Struct: switch v := field.Addr().Interface().(type) { case *Header: var parsed uint64 if value := p.Type().Field(i).Tag.Get(_ID); value != \"\" { parsed, err = strconv.ParseUint(value, 16, 32) v.CommandID = CommandID(parsed) } if err == nil && v.Sequence > 0 { _ = binary.Write(&buf, binary.BigEndian, v) } else { err = ErrInvalidSequence } if err == nil && v.CommandStatus != 0 { goto write } case io.ByteReader: var value byte value, err = v.ReadByte() buf.WriteByte(value) case io.WriterTo: if m, ok := v.(*ShortMessage); ok { m.Prepare(packet) } _, err = v.WriteTo(&buf) } } if err != nil { return } }",
  "write: if p.Field(0).Type() == reflect.TypeOf(Header{}) { data := buf.Bytes() binary.BigEndian.PutUint32(data[0:4], uint32(buf.Len())) }",
  "return buf.WriteTo(w)"] := rfl

theorem exp_pdu_marshal__functions : src_pdu_marshal__functions = [
  "unmarshal", "Marshal"] := rfl

theorem exp_pdu_marshal__decls : src_pdu_marshal__decls = [] := rfl

theorem exp_pdu_internal_readCString : src_pdu_internal_readCString = [
  "sig: func(buf *bufio.Reader) (value string, err error)",
  "value, err = buf.ReadString(0)",
  "if err == nil { value = value[0 : len(value)-1] }",
  "return"] := rfl

theorem exp_pdu_internal_writeCString : src_pdu_internal_writeCString = [
  "sig: func(buf *bytes.Buffer, value string)",
  "buf.WriteString(value)",
  "buf.WriteByte(0)"] := rfl

theorem exp_pdu_internal_getBool : src_pdu_internal_getBool = [
  "sig: func(v bool) byte",
  "if v { return 1 }",
  "return 0"] := rfl

theorem exp_pdu_internal__functions : src_pdu_internal__functions = [
  "readCString", "writeCString", "getBool"] := rfl

theorem exp_pdu_internal__decls : src_pdu_internal__decls = [] := rfl

theorem exp_pdu_address_Address_ReadFrom : src_pdu_address_Address_ReadFrom = [
  "sig: func(r io.Reader) (n int64, err error)",
  "buf := bufio.NewReader(r)",
  "p.TON, err = buf.ReadByte()",
  "if err == nil { p.NPI, err = buf.ReadByte() }",
  "if err == nil { p.No, err = readCString(buf) }",
  "return"] := rfl

theorem exp_pdu_address_Address_WriteTo : src_pdu_address_Address_WriteTo = [
  "sig: func(w io.Writer) (n int64, err error)",
  "var buf bytes.Buffer",
  "buf.WriteByte(p.TON)",
  "buf.WriteByte(p.NPI)",
  "writeCString(&buf, p.No)",
  "return buf.WriteTo(w)"] := rfl

theorem exp_pdu_address_Address_String : src_pdu_address_Address_String = [
  "sig: func() string",
  "if p.TON == 1 && p.NPI == 1 && len(p.No) > 0 && p.No[0] != '+' { return \"+\" + p.No }",
  "return p.No"] := rfl

theorem exp_pdu_address_DestinationAddresses_ReadFrom : src_pdu_address_DestinationAddresses_ReadFrom = [
  "sig: func(r io.Reader) (n int64, err error)",
  "buf := bufio.NewReader(r)",
  "count, err := buf.ReadByte()",
  "if err != nil { err = ErrInvalidCommandLength return }",
  "*p = DestinationAddresses{}",
  "var destFlag byte",
  "var value string",
  "var address Address",
  "for i := byte(0); i < count; i++ { switch destFlag, _ = buf.ReadByte(); destFlag { case 1: if _, err = address.ReadFrom(buf); err == nil { p.Addresses = append(p.Addresses, address) } case 2: if value, err = readCString(buf); err == nil { p.DistributionList = append(p.DistributionList, value) } default: err = ErrInvalidDestFlag return } if err != nil { err = ErrInvalidCommandLength return } }",
  "return"] := rfl

theorem exp_pdu_address_DestinationAddresses_WriteTo : src_pdu_address_DestinationAddresses_WriteTo = [
  "sig: func(w io.Writer) (n int64, err error)",
  "length := len(p.Addresses) + len(p.DistributionList)",
  "if length > 0xFF { err = ErrInvalidDestCount return }",
  "var buf bytes.Buffer",
  "buf.WriteByte(byte(length))",
  "for _, address := range p.Addresses { buf.WriteByte(1) _, _ = address.WriteTo(&buf) }",
  "for _, distribution := range p.DistributionList { buf.WriteByte(2) writeCString(&buf, distribution) }",
  "return buf.WriteTo(w)"] := rfl

theorem exp_pdu_address_UnsuccessfulRecord_String : src_pdu_address_UnsuccessfulRecord_String = [
  "sig: func() string",
  "return fmt.Sprintf(\"%s#%s\", i.DestAddr, i.ErrorStatusCode)"] := rfl

theorem exp_pdu_address_UnsuccessfulRecords_ReadFrom : src_pdu_address_UnsuccessfulRecords_ReadFrom = [
  "sig: func(r io.Reader) (n int64, err error)",
  "buf := bufio.NewReader(r)",
  "count, err := buf.ReadByte()",
  "if err != nil { err = ErrInvalidCommandLength return }",
  "items := UnsuccessfulRecords{}",
  "var item UnsuccessfulRecord",
  "for i := byte(0); i < count; i++ { _, err = item.DestAddr.ReadFrom(buf) if err == nil { err = binary.Read(buf, binary.BigEndian, &item.ErrorStatusCode) } if err != nil { err = ErrInvalidCommandLength return } items = append(items, item) }",
  "*p = items",
  "return"] := rfl

theorem exp_pdu_address_UnsuccessfulRecords_WriteTo : src_pdu_address_UnsuccessfulRecords_WriteTo = [
  "sig: func(w io.Writer) (n int64, err error)",
  "if len(p) > 0xFF { err = ErrItemTooMany return }",
  "var buf bytes.Buffer",
  "buf.WriteByte(byte(len(p)))",
  "for _, item := range p { _, _ = item.DestAddr.WriteTo(&buf) _ = binary.Write(&buf, binary.BigEndian, item.ErrorStatusCode) }",
  "return buf.WriteTo(w)"] := rfl

theorem exp_pdu_address__functions : src_pdu_address__functions = [
  "Address.ReadFrom", "Address.WriteTo", "Address.String", "DestinationAddresses.ReadFrom", "DestinationAddresses.WriteTo", "UnsuccessfulRecord.String", "UnsuccessfulRecords.ReadFrom", "UnsuccessfulRecords.WriteTo"] := rfl

theorem exp_pdu_address__decls : src_pdu_address__decls = [
  "type Address struct { TON byte // see SMPP v5, section 4.7.1 (113p) NPI byte // see SMPP v5, section 4.7.2 (113p) No string }",
  "type DestinationAddresses struct { Addresses []Address DistributionList []string }",
  "type UnsuccessfulRecords []UnsuccessfulRecord",
  "type UnsuccessfulRecord struct { DestAddr Address ErrorStatusCode CommandStatus }"] := rfl

theorem exp_pdu_tag_Tags_ReadFrom : src_pdu_tag_Tags_ReadFrom = [
  "sig: func(r io.Reader) (n int64, err error)",
  "var values [2]uint16",
  "var data []byte",
  "tags := make(Tags)",
  "for { err = binary.Read(r, binary.BigEndian, values[:]) if err == nil { data = make([]byte, values[1]) _, err = io.ReadFull(r, data) } if err == nil { tags[values[0]] = data } if err == io.EOF { err = nil break } if err != nil { break } }",
  "if len(tags) > 0 { *t = tags }",
  "return"] := rfl

theorem exp_pdu_tag_Tags_WriteTo : src_pdu_tag_Tags_WriteTo = [
  "sig: func(w io.Writer) (n int64, err error)",
  "var buf bytes.Buffer",
  "var keys []uint16",
  "for tag := range t { keys = append(keys, tag) }",
  "sort.Slice(keys, func(i, j int) bool { return keys[i] < keys[j] })",
  "err = ErrInvalidTagLength",
  "for _, tag := range keys { data := t[tag] length := len(data) if length == 0 { continue } else if length < 0xFFFF { _ = binary.Write(&buf, binary.BigEndian, tag) _ = binary.Write(&buf, binary.BigEndian, uint16(len(data))) buf.Write(data) } else { return } }",
  "return buf.WriteTo(w)"] := rfl

theorem exp_pdu_tag__functions : src_pdu_tag__functions = [
  "Tags.ReadFrom", "Tags.WriteTo"] := rfl

theorem exp_pdu_tag__decls : src_pdu_tag__decls = [
  "type Tags map[uint16][]byte"] := rfl

theorem exp_pdu_udh_UserDataHeader_Len : src_pdu_udh_UserDataHeader_Len = [
  "sig: func() (length int)",
  "if h == nil { return }",
  "length = 1",
  "for _, data := range h { length += 2 length += len(data) }",
  "return"] := rfl

theorem exp_pdu_udh_UserDataHeader_ReadFrom : src_pdu_udh_UserDataHeader_ReadFrom = [
  "sig: func(r io.Reader) (n int64, err error)",
  "buf := bufio.NewReader(r)",
  "header := make(UserDataHeader)",
  "total, err := buf.ReadByte()",
  "if err != nil { return }",
  "var id, length byte",
  "for i := 0; i < int(total) && err == nil; i += 2 + int(length) { if id, err = buf.ReadByte(); err == nil { length, err = buf.ReadByte() } if err == nil { data := make([]byte, length) if _, err = io.ReadFull(buf, data); err == nil { header[id] = data } } }",
  "if len(header) > 0 { *h = header }",
  "return"] := rfl

theorem exp_pdu_udh_UserDataHeader_WriteTo : src_pdu_udh_UserDataHeader_WriteTo = [
  "sig: func(w io.Writer) (n int64, err error)",
  "if h == nil { return }",
  "var keys []byte",
  "for id := range h { keys = append(keys, id) }",
  "sort.Slice(keys, func(i, j int) bool { return keys[i] < keys[j] })",
  "var buf bytes.Buffer",
  "buf.WriteByte(0)",
  "err = ErrDataTooLarge",
  "for _, id := range keys { data := h[id] if len(data) > 0xFF { return } buf.WriteByte(id) buf.WriteByte(byte(len(data))) buf.Write(data) }",
  "data := buf.Bytes()",
  "if len(data)-1 > 0xFF { return }",
  "data[0] = byte(len(data) - 1)",
  "return buf.WriteTo(w)"] := rfl

theorem exp_pdu_udh__decls : src_pdu_udh__decls = [
  "type UserDataHeader map[byte][]byte"] := rfl

theorem exp_pdu_message_ShortMessage_ReadFrom : src_pdu_message_ShortMessage_ReadFrom = [
  "sig: func(r io.Reader) (n int64, err error)",
  "buf := bufio.NewReader(r)",
  "if p.DataCoding != NoCoding { coding, _ := buf.ReadByte() p.DataCoding = DataCoding(coding) }",
  "p.DefaultMessageID, err = buf.ReadByte()",
  "if err == nil { var length byte if length, err = buf.ReadByte(); err == nil && p.UDHeader != nil { _, err = p.UDHeader.ReadFrom(buf) } if err == nil { p.Message = make([]byte, length-byte(p.UDHeader.Len())) _, err = io.ReadFull(buf, p.Message) } }",
  "return"] := rfl

theorem exp_pdu_message_ShortMessage_WriteTo : src_pdu_message_ShortMessage_WriteTo = [
  "sig: func(w io.Writer) (n int64, err error)",
  "if len(p.Message) > MaxShortMessageLength { err = ErrShortMessageTooLarge return }",
  "var buf bytes.Buffer",
  "if p.DataCoding != NoCoding { buf.WriteByte(byte(p.DataCoding)) }",
  "buf.WriteByte(p.DefaultMessageID)",
  "start := buf.Len()",
  "buf.WriteByte(0)",
  "_, err = p.UDHeader.WriteTo(&buf)",
  "if err != nil { return }",
  "buf.Write(p.Message)",
  "data := buf.Bytes()",
  "if len(data)-1-start > 0xFF { err = ErrShortMessageTooLarge return }",
  "data[start] = byte(len(data) - 1 - start)",
  "return buf.WriteTo(w)"] := rfl

theorem exp_pdu_message_ShortMessage_Prepare : src_pdu_message_ShortMessage_Prepare = [
  "sig: func(pdu interface{})",
  "if _, ok := pdu.(*ReplaceSM); ok { p.DataCoding = NoCoding } else if p.UDHeader == nil { v := reflect.ValueOf(pdu).Elem().FieldByName(_ESMClass) if v.IsValid() && v.Interface().(ESMClass).UDHIndicator { p.UDHeader = UserDataHeader{} } }"] := rfl

theorem exp_pdu_message__decls : src_pdu_message__decls = [
  "type ShortMessage struct { DefaultMessageID byte // see SMPP v5, section 4.7.27 (134p) DataCoding DataCoding UDHeader UserDataHeader Message []byte }"] := rfl

theorem exp_pdu_esm_class_ESMClass_ReadByte : src_pdu_esm_class_ESMClass_ReadByte = [
  "sig: func() (c byte, err error)",
  "c |= e.MessageMode & 0b11",
  "c |= e.MessageType & 0b1111 << 2",
  "c |= getBool(e.UDHIndicator) << 6",
  "c |= getBool(e.ReplyPath) << 7",
  "return"] := rfl

theorem exp_pdu_esm_class_ESMClass_WriteByte : src_pdu_esm_class_ESMClass_WriteByte = [
  "sig: func(c byte) error",
  "e.MessageMode = c & 0b11",
  "e.MessageType = c >> 2 & 0b1111",
  "e.UDHIndicator = c>>6&0b1 == 1",
  "e.ReplyPath = c>>7&0b1 == 1",
  "return nil"] := rfl

theorem exp_pdu_esm_class_ESMClass_String : src_pdu_esm_class_ESMClass_String = [
  "sig: func() string",
  "c, _ := e.ReadByte()",
  "return fmt.Sprintf(\"%08b\", c)"] := rfl

theorem exp_pdu_esm_class__functions : src_pdu_esm_class__functions = [
  "ESMClass.ReadByte", "ESMClass.WriteByte", "ESMClass.String"] := rfl

theorem exp_pdu_esm_class__decls : src_pdu_esm_class__decls = [
  "// ESMClass see SMPP v5, section 4.7.12 (125p) type ESMClass struct { MessageMode byte // __ ____ ** MessageType byte // __ **** __ UDHIndicator bool // _* ____ __ ReplyPath bool // *_ ____ __ }"] := rfl

theorem exp_pdu_registered_delivery_RegisteredDelivery_ReadByte : src_pdu_registered_delivery_RegisteredDelivery_ReadByte = [
  "sig: func() (c byte, err error)",
  "c |= r.MCDeliveryReceipt & 0b11",
  "c |= r.SMEOriginatedAcknowledgment & 0b11 << 2",
  "c |= getBool(r.IntermediateNotification) << 4",
  "c |= r.Reserved & 0b111 << 5",
  "return"] := rfl

theorem exp_pdu_registered_delivery_RegisteredDelivery_WriteByte : src_pdu_registered_delivery_RegisteredDelivery_WriteByte = [
  "sig: func(c byte) error",
  "r.MCDeliveryReceipt = c & 0b11",
  "r.SMEOriginatedAcknowledgment = c >> 2 & 0b11",
  "r.IntermediateNotification = c>>4&0b1 == 1",
  "r.Reserved = c >> 5 & 0b111",
  "return nil"] := rfl

theorem exp_pdu_registered_delivery_RegisteredDelivery_String : src_pdu_registered_delivery_RegisteredDelivery_String = [
  "sig: func() string",
  "c, _ := r.ReadByte()",
  "return fmt.Sprintf(\"%08b\", c)"] := rfl

theorem exp_pdu_registered_delivery__functions : src_pdu_registered_delivery__functions = [
  "RegisteredDelivery.ReadByte", "RegisteredDelivery.WriteByte", "RegisteredDelivery.String"] := rfl

theorem exp_pdu_registered_delivery__decls : src_pdu_registered_delivery__decls = [
  "// RegisteredDelivery see SMPP v5, section 4.7.21 (130p) type RegisteredDelivery struct { MCDeliveryReceipt byte // ___ _ __ ** SMEOriginatedAcknowledgment byte // ___ _ ** __ IntermediateNotification bool // ___ * __ __ Reserved byte // *** _ __ __ }"] := rfl

theorem exp_pdu_factory_init : src_pdu_factory_init = [
  "sig: func()",
  "pduTypes := []interface{}{ AlertNotification{}, GenericNACK{}, Outbind{}, BindReceiver{}, BindReceiverResp{}, BindTransceiver{}, BindTransceiverResp{}, BindTransmitter{}, BindTransmitterResp{}, BroadcastSM{}, BroadcastSMResp{}, CancelBroadcastSM{}, CancelBroadcastSMResp{}, CancelSM{}, CancelSMResp{}, DataSM{}, DataSMResp{}, DeliverSM{}, DeliverSMResp{}, EnquireLink{}, EnquireLinkResp{}, QueryBroadcastSM{}, QueryBroadcastSMResp{}, QuerySM{}, QuerySMResp{}, ReplaceSM{}, ReplaceSMResp{}, SubmitMulti{}, SubmitMultiResp{}, SubmitSM{}, SubmitSMResp{}, Unbind{}, UnbindResp{}, }",
  "var _parsed uint64",
  "var _id CommandID",
  "for _, pduType := range pduTypes { t := reflect.TypeOf(pduType) _parsed, _ = strconv.ParseUint(t.Field(0).Tag.Get(_ID), 16, 32) _id = CommandID(_parsed) types[_id] = t commandIDNames[_id] = toCommandIDName(t.Name()) }"] := rfl

theorem exp_pdu_factory_toCommandIDName : src_pdu_factory_toCommandIDName = [
  "sig: func(name string) string",
  "isUpper := unicode.IsUpper",
  "toLower := unicode.ToLower",
  "var b strings.Builder",
  "for i, r := range strings.ReplaceAll(name, \"SM\", \"Sm\") { if i > 0 && isUpper(r) { b.WriteRune('_') } b.WriteRune(toLower(r)) }",
  "return b.String()"] := rfl

theorem exp_pdu_factory_CommandID_String : src_pdu_factory_CommandID_String = [
  "sig: func() string",
  "if name, ok := commandIDNames[c]; ok { return name }",
  "return fmt.Sprintf(\"%08X\", uint32(c))"] := rfl

theorem exp_pdu_factory__functions : src_pdu_factory__functions = [
  "init", "toCommandIDName", "CommandID.String"] := rfl

theorem exp_pdu_factory__decls : src_pdu_factory__decls = [
  "var types = map[CommandID]reflect.Type{}",
  "var commandIDNames = map[CommandID]string{}"] := rfl

theorem exp_pdu_constants__functions : src_pdu_constants__functions = [] := rfl

theorem exp_pdu_constants__decls : src_pdu_constants__decls = [
  "const ( _ID = \"id\" _ESMClass = \"ESMClass\" MaxShortMessageLength = 140 )"] := rfl

end Smpp.Properties.SrcPduCodec
