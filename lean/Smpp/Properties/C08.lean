/-
C08 — GSM 7-bit packed codec: exact alphabet, exact packing, lossless round trip.
-/
import Smpp.Properties.SrcGsm7
import Smpp.Proofs.Gsm7Text
import Smpp.Spec.Gsm0338
import Smpp.Generated.Gsm7Facts

namespace Smpp.Properties.C08
open Smpp Smpp.Gsm7 Smpp.Generated

abbrev enc := encode gsmReverse gsmEscapes
abbrev dec := decode gsmReverse gsmEscapes
abbrev septets := toSeptets gsmReverse gsmEscapes
abbrev acc := accepts gsmReverse gsmEscapes

/-! ## expectations on the regenerated tables and statements -/

theorem table_size : gsmReverse.length = 128 := by decide +kernel

/-- forward and inverse tables agree on every accepted rune, only U+000D maps to the CR septet,
no escape code equals CR, position CR decodes to U+000D -/
theorem tables_ok : tablesOK gsmReverse gsmEscapes = true := by decide +kernel

/-- the escape septets are pairwise distinct (so the derived inverse map does not depend on Go's
map iteration order) and so are the escaped runes -/
theorem escapes_distinct : (gsmEscapes.map (·.2)).Nodup ∧ (gsmEscapes.map (·.1)).Nodup := by decide +kernel

theorem consts_source : gsmConsts = ["esc, cr byte = 0x1B, 0x0D"] := by decide +kernel

theorem init_source : gsmInitStmts = [
  "init: for index, r := range reverseLookup[:0x80] { if byte(index) != esc { forwardLookup[r] = byte(index) } }",
  "init: for r, b := range forwardEscapes { reverseEscapes[b] = r }"] := by decide +kernel

/-- index expressions of encoder.go / decoder.go: `dst[index]` stays below nDst ≤ len(dst)
(pack_length: the packer fills exactly ⌈7n/8⌉ octets and the filler never needs another);
`forwardLookup[r]`, `forwardEscapes[r]`, `reverseEscapes[..]` are map lookups;
`reverseLookup[septet]` indexes a [256]rune with a byte; `septets[i]` is guarded by the loop
condition / the `i >= len` test; `septets[n-1]` by n%8 == 0 with n ≥ 1 (src non-empty). -/
theorem panic_sites_inventory : gsmPanicSites = [
  ("coding/gsm7bit/decoder.go|gsm7Decoder.Transform|index", 5),
  ("coding/gsm7bit/encoder.go|packSeptets|index", 1),
  ("coding/gsm7bit/encoder.go|toSeptets|index", 2)] := by decide +kernel

/-- the packing statements the model transcribes -/
theorem codec_source_pack :
    gsmCodecStmts.filter (fun s => s.startsWith "packSeptets" || s.startsWith "unpackSeptets" || s.startsWith "blocks") = [
  "packSeptets: var index int",
  "packSeptets: var bit byte",
  "packSeptets: pack := func(c byte) { for i := 0; i < 7; i++ { dst[index] |= c >> i & 1 << bit bit++ if bit == 8 { index++ bit = 0 } } }",
  "packSeptets: for _, c := range septets { pack(c) }",
  "packSeptets: if 8-bit == 7 { pack(cr) }",
  "blocks: length = n / 8",
  "blocks: if n%8 != 0 { length += 1 }",
  "blocks: return",
  "unpackSeptets: var septet, bit byte = 0, 0",
  "unpackSeptets: var buf bytes.Buffer",
  "unpackSeptets: buf.Grow(len(septets))",
  "unpackSeptets: for _, octet := range septets { for i := 0; i < 8; i++ { septet |= octet >> i & 1 << bit bit++ if bit == 7 { buf.WriteByte(septet) septet = 0 bit = 0 } } }",
  "unpackSeptets: return buf.Bytes()"] := by decide +kernel

/-- the decoder's strip rule as repaired (only a filler CR: multiple of eight septets, last = CR) -/
theorem codec_source_strip :
    gsmCodecStmts.filter (fun s => s.startsWith "gsm7Decoder.Transform: if len(dst)") = [
  "gsm7Decoder.Transform: if len(dst) < nDst { nDst = 0 err = transform.ErrShortDst } else { decoded := buf.Bytes() if n := len(septets); n%8 == 0 && septets[n-1] == cr { nDst-- } copy(dst, decoded) }"] := by
  decide +kernel

/-! ## alphabet: decided for EVERY natural number, not a sample -/

theorem accepted_in_spec : (acceptedList gsmReverse gsmEscapes).all (fun r => Spec.Gsm0338.repertoire.contains r) = true := by
  decide +kernel

theorem spec_accepted : Spec.Gsm0338.repertoire.all (fun r => acc r && septets [r] == Spec.Gsm0338.septetsOf r) = true := by
  decide +kernel

theorem repertoire_size : Spec.Gsm0338.repertoire.length = 137 ∧ Spec.Gsm0338.repertoire.Nodup := by decide +kernel

/-- **C08 alphabet.**  The encoder accepts a scalar value iff it is one of the 137 characters of
GSM 03.38 (default alphabet + extension table) — for all scalar values at once — and encodes
each of them with exactly the septet(s) the standard assigns. -/
theorem C08_alphabet (r : Nat) : acc r = true ↔ r ∈ Spec.Gsm0338.repertoire := by
  constructor
  · intro h
    have hm : r ∈ acceptedList gsmReverse gsmEscapes := by
      unfold acc accepts at h
      simp only [Bool.or_eq_true, Option.isSome_iff_exists] at h
      rcases h with ⟨v, hv⟩ | ⟨v, hv⟩
      · exact forwardOf_mem hv
      · exact escapeOf_mem hv
    have := List.all_eq_true.mp accepted_in_spec r hm
    simpa using this
  · intro h
    have := List.all_eq_true.mp spec_accepted r h
    simp only [Bool.and_eq_true] at this
    exact this.1

theorem C08_septets (r : Nat) (h : r ∈ Spec.Gsm0338.repertoire) : septets [r] = Spec.Gsm0338.septetsOf r := by
  have := List.all_eq_true.mp spec_accepted r h
  simp only [Bool.and_eq_true, beq_iff_eq] at this
  exact this.2

/-- a text is accepted iff each of its characters is; any other character gives an error, never a substitute -/
theorem C08_text_accepted (t : List Nat) : (septets t).isSome = t.all acc := by
  induction t with
  | nil => rfl
  | cons r t ih =>
    simp only [septets, toSeptets, List.all_cons, acc, accepts] at ih ⊢
    cases hf : forwardOf gsmReverse r with
    | some v => simp [hf, ← ih]
    | none =>
      cases he : escapeOf gsmEscapes r with
      | some v => simp [hf, he, ← ih]
      | none => simp [hf, he]

/-! ## detector -/

def rangeMembers : List Nat :=
  gsmAlphabetRanges.flatMap fun (lo, hi, _) => (List.range (hi - lo + 1)).map (· + lo)

theorem ranges_accepted : rangeMembers.all (fun r => !inRanges gsmAlphabetRanges r || acc r) = true := by decide +kernel
theorem accepted_in_ranges : (acceptedList gsmReverse gsmEscapes).all (inRanges gsmAlphabetRanges) = true := by
  decide +kernel

/-- **C08 detector.**  DefaultAlphabet (what Validate and BestCoding test) describes exactly the
encoder's repertoire, for every scalar value. -/
theorem C08_detector (r : Nat) : inRanges gsmAlphabetRanges r = acc r := by
  cases hin : inRanges gsmAlphabetRanges r with
  | true =>
    have hm : r ∈ rangeMembers := by
      unfold inRanges at hin
      simp only [List.any_eq_true, Bool.and_eq_true, decide_eq_true_eq] at hin
      obtain ⟨⟨lo, hi, st⟩, hmem, ⟨hlo, hhi⟩, _⟩ := hin
      unfold rangeMembers
      simp only [List.mem_flatMap, List.mem_map, List.mem_range]
      exact ⟨(lo, hi, st), hmem, r - lo, by omega, by omega⟩
    have := List.all_eq_true.mp ranges_accepted r hm
    simp only [hin, Bool.not_true, Bool.false_or] at this
    exact this.symm
  | false =>
    cases ha : acc r with
    | false => rfl
    | true =>
      have hm : r ∈ acceptedList gsmReverse gsmEscapes := by
        unfold acc accepts at ha
        simp only [Bool.or_eq_true, Option.isSome_iff_exists] at ha
        rcases ha with ⟨v, hv⟩ | ⟨v, hv⟩
        · exact forwardOf_mem hv
        · exact escapeOf_mem hv
      have := List.all_eq_true.mp accepted_in_ranges r hm
      rw [hin] at this
      exact absurd this (by simp)

/-! ## packing -/

/-- **C08 length.**  ⌈7n/8⌉ octets, n counting extension characters twice. -/
theorem C08_length (t s : List Nat) (b : List UInt8) (hs : septets t = some s) (ht : t ≠ [])
    (he : enc t = some b) : b.length = (7 * s.length + 7) / 8 := by
  unfold enc encode at he
  have : t.isEmpty = false := by cases t <;> simp_all
  simp only [this, Bool.false_eq_true, ↓reduceIte] at he
  rw [show toSeptets gsmReverse gsmEscapes t = some s from hs] at he
  simp only [Option.map_some, Option.some.injEq] at he
  rw [← he, pack_length]

/-- **C08 bits.**  Septet i is stored least-significant-bit first at bit offset 7i. -/
theorem C08_bits (s : List Nat) (i j : Nat) (hi : i < s.length) (hj : j < 7) :
    ((pack s).flatMap (fun o => bitsLE 8 o.toNat))[7 * i + j]? = some ((s[i]! / 2 ^ j) % 2 == 1) := by
  rw [pack_stream]
  unfold stream
  simp only
  have hi' : i < (withFiller s).length := by
    unfold withFiller
    split
    · simp only [List.length_append, List.length_cons, List.length_nil]; omega
    · exact hi
  have := stream_bit (withFiller s) (List.replicate ((8 - ((withFiller s).flatMap (bitsLE 7)).length % 8) % 8) false) i j hi' hj
  rw [this]
  have hget : (withFiller s)[i]! = s[i]! := by
    unfold withFiller
    split
    · simp only [List.getElem!_eq_getElem?_getD, List.getElem?_append_left hi]
    · rfl
  rw [hget]

/-- **C08 filler.**  A CR filler septet is packed exactly when seven bits would be spare
(n ≡ 7 mod 8); otherwise the spare bits are zero. -/
theorem C08_filler (s : List Nat) :
    (pack s).flatMap (fun o => bitsLE 8 o.toNat)
      = s.flatMap (bitsLE 7) ++
        (if s.length % 8 = 7 then bitsLE 7 cr else List.replicate ((8 - 7 * s.length % 8) % 8) false) := by
  rw [pack_stream]
  unfold stream withFiller
  by_cases h : s.length % 8 = 7
  · simp only [h, ↓reduceIte, List.flatMap_append, List.flatMap_cons, List.flatMap_nil, List.append_nil,
      List.length_append, flatMap_bits_length, bitsLE_length]
    have : (8 - (7 * s.length + 7) % 8) % 8 = 0 := by omega
    simp [this]
  · simp only [h, ↓reduceIte, flatMap_bits_length]

/-- **C08 round trip.**  Decoding the encoder's output returns the original text, except when the
text has a multiple of eight septets and ends in CR: then exactly that one trailing CR is lost. -/
theorem C08_roundtrip (t : List Nat) (b : List UInt8) (he : enc t = some b) :
    dec b = some t ∨
    (∃ s, septets t = some s ∧ s.length % 8 = 0 ∧ t.getLast? = some 13 ∧ dec b = some t.dropLast) :=
  decode_encode tables_ok t b he

/-! ## non-vacuity -/
example : enc [49, 50, 51, 52, 53, 54, 55] = some [0x31, 0xD9, 0x8C, 0x56, 0xB3, 0xDD, 0x1A] := by decide +kernel
example : dec [0x31, 0xD9, 0x8C, 0x56, 0xB3, 0xDD, 0x1A] = some [49, 50, 51, 52, 53, 54, 55] := by decide +kernel
example : septets [0x20AC, 91] = some [0x1B, 0x65, 0x1B, 0x3C] ∧ acc 0xA0 = false ∧ acc 0 = false := by decide +kernel

end Smpp.Properties.C08
