/-
C09 — The auto-detected data coding can always represent the text.

Decided for ALL 1,112,064 scalar values at once from the interval lists that an exhaustive dump
of the implementation regenerates on every run (DataCoding.Validate per coding, encoder
acceptance per coding), with a verified interval-inclusion test.
-/
import Smpp.Properties.SrcCoding
import Smpp.Properties.SrcPduAccess
import Smpp.Proofs.Intervals
import Smpp.Generated.CodingFacts
import Smpp.Properties.C09Known

namespace Smpp.Properties.C09
open Smpp.Coding Smpp.Generated Smpp.Properties.C09Known

/-- Validate(c) / encoder acceptance / committed known-bad set, per data_coding -/
def V : Nat → List (Nat × Nat)
  | 0 => validate_0 | 1 => validate_1 | 3 => validate_3 | 5 => validate_5 | 6 => validate_6
  | 7 => validate_7 | 8 => validate_8 | 14 => validate_14 | _ => []
def A : Nat → List (Nat × Nat)
  | 0 => accept_0 | 1 => accept_1 | 3 => accept_3 | 5 => accept_5 | 6 => accept_6
  | 7 => accept_7 | 8 => accept_8 | 14 => accept_14 | _ => []
def K : Nat → List (Nat × Nat)
  | 3 => knownBad_3 | 5 => knownBad_5 | 6 => knownBad_6 | 7 => knownBad_7 | 14 => knownBad_14 | _ => []

def validate (c r : Nat) : Bool := inIv (V c) r
def accepts (c r : Nat) : Bool := inIv (A c) r
def knownBad (c r : Nat) : Bool := inIv (K c) r

/-! ## expectations on regenerated facts -/

/-- BestCoding tries GSM 7-bit, ASCII, Latin-1, Cyrillic, Hebrew, Shift-JIS, EUC-KR in this order,
then UCS-2; BestSafeCoding only GSM 7-bit, then UCS-2 -/
theorem detector_source :
    codingStmts.filter (fun s => s.startsWith "Best") = [
      "BestCoding: codings := []DataCoding{ GSM7BitCoding, ASCIICoding, Latin1Coding, CyrillicCoding, HebrewCoding, ShiftJISCoding, EUCKRCoding, }",
      "BestCoding: for _, coding := range codings { if coding.Validate(input) { return coding } }",
      "BestCoding: return UCS2Coding",
      "BestSafeCoding: if GSM7BitCoding.Validate(input) { return GSM7BitCoding }",
      "BestSafeCoding: return UCS2Coding"] := by decide +kernel

theorem coding_constants : codingConsts = [
  ("ASCIICoding", 1), ("CyrillicCoding", 6), ("EUCJPCoding", 13), ("EUCKRCoding", 14),
  ("GSM7BitCoding", 0), ("HebrewCoding", 7), ("ISO2022JPCoding", 10), ("Latin1Coding", 3),
  ("NoCoding", 191), ("ShiftJISCoding", 5), ("UCS2Coding", 8)] := by decide +kernel

/-! ## the finite obligations: Validate(c) ⊆ accept(c) ∪ known(c), one sweep per interval -/

theorem cover_0 : coveredB (V 0) (mergeLo (A 0) (K 0)) = true := by decide +kernel
theorem cover_1 : coveredB (V 1) (mergeLo (A 1) (K 1)) = true := by decide +kernel
theorem cover_3 : coveredB (V 3) (mergeLo (A 3) (K 3)) = true := by decide +kernel
theorem cover_6 : coveredB (V 6) (mergeLo (A 6) (K 6)) = true := by decide +kernel
theorem cover_7 : coveredB (V 7) (mergeLo (A 7) (K 7)) = true := by decide +kernel
theorem cover_5 : coveredB (V 5) (mergeLo (A 5) (K 5)) = true := by decide +kernel
theorem cover_14 : coveredB (V 14) (mergeLo (A 14) (K 14)) = true := by decide +kernel
/-- the UTF-16 encoder accepts every scalar value -/
theorem cover_8 : coveredB [(0, 0xD7FF), (0xE000, 0x10FFFF)] (A 8) = true := by decide +kernel

/-! ## theorems -/

/-- **C09, per scalar (partial: known finding C09-script-tables).**  Whatever coding of the priority
list validates a scalar value, its encoder accepts that value — unless the value lies in the
committed known-bad set of that coding (Unicode script tables used as repertoires). -/
theorem C09_rune_partial (c : Nat) (hc : c ∈ priority) (r : Nat) (hv : validate c r = true) :
    accepts c r = true ∨ knownBad c r = true := by
  have key : ∀ c', coveredB (V c') (mergeLo (A c') (K c')) = true → validate c' r = true →
      accepts c' r = true ∨ knownBad c' r = true := by
    intro c' hcov hv'
    exact inIv_mergeLo _ _ r (covered_sound _ _ hcov r hv')
  simp only [priority, List.mem_cons, List.not_mem_nil, or_false] at hc
  rcases hc with rfl | rfl | rfl | rfl | rfl | rfl | rfl
  · exact key 0 cover_0 hv
  · exact key 1 cover_1 hv
  · exact key 3 cover_3 hv
  · exact key 6 cover_6 hv
  · exact key 7 cover_7 hv
  · exact key 5 cover_5 hv
  · exact key 14 cover_14 hv

theorem ucs2_accepts_all (r : Nat) (hs : isScalar r = true) : accepts 8 r = true := by
  apply covered_sound [(0, 0xD7FF), (0xE000, 0x10FFFF)] (A 8) cover_8 r
  simp only [isScalar, Bool.or_eq_true, Bool.and_eq_true, decide_eq_true_eq] at hs
  simp only [inIv, List.any_cons, List.any_nil, Bool.or_false, Bool.or_eq_true, Bool.and_eq_true, decide_eq_true_eq]
  omega

/-- what BestCoding returns: a coding of the list that validates every rune, or UCS-2 -/
theorem bestCoding_spec (t : List Nat) :
    (bestCoding validate t ∈ priority ∧ t.all (validate (bestCoding validate t)) = true) ∨
    bestCoding validate t = ucs2 := by
  unfold bestCoding
  cases h : priority.find? (fun c => t.all (validate c)) with
  | none => right; rfl
  | some c =>
    left
    exact ⟨List.mem_of_find?_eq_some h, by simpa using List.find?_some h⟩

/-- **C09, texts (partial).**  For every text of scalar values, every rune of the text is accepted by
the encoder of the coding BestCoding returns, or lies in that coding's known-bad set. -/
theorem C09_text_partial (t : List Nat) (hs : t.all isScalar = true) (r : Nat) (hr : r ∈ t) :
    accepts (bestCoding validate t) r = true ∨ knownBad (bestCoding validate t) r = true := by
  rcases bestCoding_spec t with ⟨hc, hall⟩ | h8
  · exact C09_rune_partial _ hc r (List.all_eq_true.mp hall r hr)
  · rw [h8]
    exact Or.inl (ucs2_accepts_all r (List.all_eq_true.mp hs r hr))

/-- **BestSafeCoding, full strength** (no exception): GSM 7-bit only when every rune is in the
encoder's repertoire, else UCS-2, which accepts everything. -/
theorem C09_safe (t : List Nat) (hs : t.all isScalar = true) (r : Nat) (hr : r ∈ t) :
    accepts (bestSafeCoding validate t) r = true := by
  unfold bestSafeCoding
  by_cases h : t.all (validate 0) = true
  · simp only [h, ↓reduceIte]
    have hv := List.all_eq_true.mp h r hr
    rcases C09_rune_partial 0 (by simp [priority]) r hv with h | h
    · exact h
    · simp [knownBad, K, inIv] at h
  · simp only [h, Bool.false_eq_true, ↓reduceIte]
    exact ucs2_accepts_all r (List.all_eq_true.mp hs r hr)

/-! ## known finding: the full-strength statement is false -/

def C09_full : Prop := ∀ r, isScalar r = true → accepts (bestCoding validate [r]) r = true

/-- KNOWN FINDING C09-script-tables, witnesses: U+0100 → Latin-1, U+05B0 → Hebrew (both pinned by
TestBestCoding), U+0460 → Cyrillic; each rejected by the chosen coding's encoder. -/
theorem C09_cex_latin1 : ¬ C09_full := by
  intro h
  have := h 0x100 (by decide)
  revert this
  decide +kernel

theorem C09_cex_values :
    bestCoding validate [0x100] = 3 ∧ accepts 3 0x100 = false ∧
    bestCoding validate [0x5B0] = 7 ∧ accepts 7 0x5B0 = false ∧
    bestCoding validate [0x460] = 6 ∧ accepts 6 0x460 = false := by decide +kernel

/-! ## non-vacuity -/
example : bestCoding validate [0x41, 0x20AC] = 0 ∧ bestCoding validate [0x41, 0x410] = 6 ∧
    bestCoding validate [0x1F48A] = 8 := by decide +kernel

end Smpp.Properties.C09
