-- Expectations on the regenerated source snapshot group Gsm7 (written by tools/gen_srcgroup_expect.py after the models
-- were validated against this source).  A changed statement or declaration breaks the lemma of its function / file.
import Smpp.Generated.SrcGsm7
namespace Smpp.Properties.SrcGsm7
open Smpp.Generated.SrcGsm7

theorem exp_coding_gsm7bit_encoder_gsm7Encoder_Reset : src_coding_gsm7bit_encoder_gsm7Encoder_Reset = [
  "sig: func()"] := rfl

theorem exp_coding_gsm7bit_encoder_gsm7Encoder_Transform : src_coding_gsm7bit_encoder_gsm7Encoder_Transform = [
  "sig: func(dst, src []byte, atEOF bool) (nDst, nSrc int, err error)",
  "if len(src) == 0 { return }",
  "septets, err := toSeptets(string(src))",
  "if err != nil { return }",
  "nDst = blocks(len(septets) * 7)",
  "if len(dst) < nDst { nDst = 0 err = transform.ErrShortDst return }",
  "packSeptets(dst, septets)",
  "return"] := rfl

theorem exp_coding_gsm7bit_encoder_packSeptets : src_coding_gsm7bit_encoder_packSeptets = [
  "sig: func(dst []byte, septets []byte)",
  "var index int",
  "var bit byte",
  "pack := func(c byte) { for i := 0; i < 7; i++ { dst[index] |= c >> i & 1 << bit bit++ if bit == 8 { index++ bit = 0 } } }",
  "for _, c := range septets { pack(c) }",
  "if 8-bit == 7 { pack(cr) }"] := rfl

theorem exp_coding_gsm7bit_encoder_toSeptets : src_coding_gsm7bit_encoder_toSeptets = [
  "sig: func(input string) (septets []byte, err error)",
  "var buf bytes.Buffer",
  "for _, r := range input { if v, ok := forwardLookup[r]; ok { buf.WriteByte(v) } else if v, ok := forwardEscapes[r]; ok { buf.WriteByte(esc) buf.WriteByte(v) } else { err = ErrInvalidCharacter return } }",
  "septets = buf.Bytes()",
  "return"] := rfl

theorem exp_coding_gsm7bit_encoder_blocks : src_coding_gsm7bit_encoder_blocks = [
  "sig: func(n int) (length int)",
  "length = n / 8",
  "if n%8 != 0 { length += 1 }",
  "return"] := rfl

theorem exp_coding_gsm7bit_encoder__functions : src_coding_gsm7bit_encoder__functions = [
  "gsm7Encoder.Reset", "gsm7Encoder.Transform", "packSeptets", "toSeptets", "blocks"] := rfl

theorem exp_coding_gsm7bit_encoder__decls : src_coding_gsm7bit_encoder__decls = [
  "type gsm7Encoder struct{}"] := rfl

theorem exp_coding_gsm7bit_decoder_gsm7Decoder_Reset : src_coding_gsm7bit_decoder_gsm7Decoder_Reset = [
  "sig: func()"] := rfl

theorem exp_coding_gsm7bit_decoder_gsm7Decoder_Transform : src_coding_gsm7bit_decoder_gsm7Decoder_Transform = [
  "sig: func(dst, src []byte, atEOF bool) (nDst, nSrc int, err error)",
  "if len(src) == 0 { return }",
  "var buf bytes.Buffer",
  "septets := unpackSeptets(src)",
  "err = ErrInvalidByte",
  "for i, septet := 0, byte(0); i < len(septets); i++ { septet = septets[i] if septet <= 0x7F && septet != esc { buf.WriteRune(reverseLookup[septet]) } else { i++ if i >= len(septets) { return } r, ok := reverseEscapes[septets[i]] if !ok { return } buf.WriteRune(r) } }",
  "err = nil",
  "nDst = buf.Len()",
  "if len(dst) < nDst { nDst = 0 err = transform.ErrShortDst } else { decoded := buf.Bytes() if n := len(septets); n%8 == 0 && septets[n-1] == cr { nDst-- } copy(dst, decoded) }",
  "return"] := rfl

theorem exp_coding_gsm7bit_decoder_unpackSeptets : src_coding_gsm7bit_decoder_unpackSeptets = [
  "sig: func(septets []byte) []byte",
  "var septet, bit byte = 0, 0",
  "var buf bytes.Buffer",
  "buf.Grow(len(septets))",
  "for _, octet := range septets { for i := 0; i < 8; i++ { septet |= octet >> i & 1 << bit bit++ if bit == 7 { buf.WriteByte(septet) septet = 0 bit = 0 } } }",
  "return buf.Bytes()"] := rfl

theorem exp_coding_gsm7bit_decoder__functions : src_coding_gsm7bit_decoder__functions = [
  "gsm7Decoder.Reset", "gsm7Decoder.Transform", "unpackSeptets"] := rfl

theorem exp_coding_gsm7bit_decoder__decls : src_coding_gsm7bit_decoder__decls = [
  "type gsm7Decoder struct{}"] := rfl

theorem exp_coding_gsm7bit_encoding_gsm7Encoding_NewDecoder : src_coding_gsm7bit_encoding_gsm7Encoding_NewDecoder = [
  "sig: func() *encoding.Decoder",
  "return &encoding.Decoder{Transformer: e.decoder}"] := rfl

theorem exp_coding_gsm7bit_encoding_gsm7Encoding_NewEncoder : src_coding_gsm7bit_encoding_gsm7Encoding_NewEncoder = [
  "sig: func() *encoding.Encoder",
  "return &encoding.Encoder{Transformer: e.encoder}"] := rfl

theorem exp_coding_gsm7bit_encoding__functions : src_coding_gsm7bit_encoding__functions = [
  "gsm7Encoding.NewDecoder", "gsm7Encoding.NewEncoder"] := rfl

theorem exp_coding_gsm7bit_encoding__decls : src_coding_gsm7bit_encoding__decls = [
  "var Packed = gsm7Encoding{ encoder: new(gsm7Encoder), decoder: new(gsm7Decoder), }",
  "type gsm7Encoding struct{ encoder, decoder transform.Transformer }"] := rfl

theorem exp_coding_gsm7bit_table_init : src_coding_gsm7bit_table_init = [
  "sig: func()",
  "for index, r := range reverseLookup[:0x80] { if byte(index) != esc { forwardLookup[r] = byte(index) } }",
  "for r, b := range forwardEscapes { reverseEscapes[b] = r }"] := rfl

theorem exp_coding_gsm7bit_table__functions : src_coding_gsm7bit_table__functions = [
  "init"] := rfl

end Smpp.Properties.SrcGsm7
