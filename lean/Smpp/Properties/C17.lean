/-
C17 — Text octets match the standard charset named by data_coding.
-/
import Smpp.Properties.SrcCompose
import Smpp.Properties.SrcCoding
import Smpp.Proofs.Utf16
import Smpp.Spec.Iso8859
import Smpp.Generated.CodingFacts

namespace Smpp.Properties.C17
open Smpp Smpp.Coding Smpp.Generated Smpp.Spec.Iso8859

/-! ## single-octet charsets: the regenerated (scalar, octet) tables against the standards -/

/-- every entry of the implementation's table is the standard's assignment … -/
def tableSound (tbl : List (Nat × Nat)) (spec : Nat → Option Nat) : Bool :=
  tbl.all fun p => spec p.2 == some p.1 && decide (p.2 < 256)

/-- … and every assignment of the standard (outside C1 when `c1` is false) is in the table, with
nothing else encoded to that octet -/
def tableComplete (tbl : List (Nat × Nat)) (spec : Nat → Option Nat) (c1 : Bool) : Bool :=
  (List.range 256).all fun b =>
    match spec b with
    | some r => (!c1 && isC1 r) || tbl.contains (r, b)
    | none => !(tbl.any fun p => p.2 == b)

/-- no scalar value is listed twice (the encoder is a function) -/
def tableFunctional (tbl : List (Nat × Nat)) : Bool := (tbl.map (·.1)).Nodup

theorem latin1_table : tableSound table_3 latin1 = true ∧ tableComplete table_3 latin1 true = true ∧
    tableFunctional table_3 = true := by decide +kernel

/-- data_coding 1 (ASCII/IA5) is served by the same encoder; claimed only for U+0000..U+007F -/
theorem ascii_table : (table_1.filter (fun p => p.1 < 128)) = (List.range 128).map (fun b => (b, b)) := by
  decide +kernel

theorem cyrillic_table : tableSound table_6 cyrillic = true ∧ tableComplete table_6 cyrillic false = true ∧
    tableFunctional table_6 = true := by decide +kernel

theorem hebrew_table : tableSound table_7 hebrew = true ∧ tableComplete table_7 hebrew false = true ∧
    tableFunctional table_7 = true := by decide +kernel

/-- today's treatment of the C1 controls, pinned (DESIGN.md §9.4): Latin-1 carries them, the
Cyrillic and Hebrew encoders reject them -/
theorem c1_pinned : (table_3.filter (fun p => isC1 p.1)).length = 32 ∧
    (table_6.filter (fun p => isC1 p.1)).length = 0 ∧ (table_7.filter (fun p => isC1 p.1)).length = 0 := by
  decide +kernel

/-- **C17, conformance (per scalar, all scalars).**  The encoder maps `r` to octet `b` iff the standard
assigns `r` to position `b` (C1 controls aside for 8859-5/8). -/
theorem C17_conformance (tbl : List (Nat × Nat)) (spec : Nat → Option Nat) (c1 : Bool)
    (hs : tableSound tbl spec = true) (hc : tableComplete tbl spec c1 = true) (r b : Nat)
    (hr : c1 = true ∨ isC1 r = false) :
    (r, b) ∈ tbl ↔ (spec b = some r ∧ b < 256) := by
  constructor
  · intro h
    have := List.all_eq_true.mp hs (r, b) h
    simpa using this
  · intro ⟨h1, h2⟩
    have := List.all_eq_true.mp hc b (List.mem_range.mpr h2)
    simp only [h1] at this
    rcases hr with hr | hr
    · simpa [hr] using this
    · simpa [hr] using this

/-- **C17, rejection.**  A text is accepted iff every rune has an octet; any other text is an error —
nothing is substituted. -/
theorem C17_reject (tbl : List (Nat × Nat)) (t : List Nat) :
    (encTable tbl t).isSome = t.all (fun r => (tableEnc tbl r).isSome) := by
  induction t with
  | nil => rfl
  | cons r t ih =>
    simp only [encTable, List.all_cons]
    cases h1 : tableEnc tbl r with
    | none => simp
    | some b =>
      cases h2 : encTable tbl t with
      | none => rw [h2] at ih; simp [← ih]
      | some bs => rw [h2] at ih; simp [← ih]

/-- an accepted text is encoded rune by rune, one octet each -/
theorem C17_octets (tbl : List (Nat × Nat)) (t : List Nat) (bs : List UInt8) (h : encTable tbl t = some bs) :
    bs.length = t.length := by
  induction t generalizing bs with
  | nil => simp [encTable] at h; simp [← h]
  | cons r t ih =>
    simp only [encTable] at h
    cases h1 : tableEnc tbl r with
    | none => simp [h1] at h
    | some b =>
      cases h2 : encTable tbl t with
      | none => simp [h1, h2] at h
      | some bs' =>
        simp [h1, h2] at h
        simp [← h, ih bs' h2]

/-! ## UCS-2 = UTF-16 big-endian without byte-order mark -/

/-- every scalar value: two octets in the BMP (the code unit, high octet first), four beyond it
(high then low surrogate) -/
theorem C17_utf16_units (r : Nat) (hs : isScalar r = true) :
    (r < 65536 → utf16be r = [UInt8.ofNat (r / 256), UInt8.ofNat (r % 256)]) ∧
    (65536 ≤ r → utf16be r = [UInt8.ofNat (hiSur r / 256), UInt8.ofNat (hiSur r % 256),
        UInt8.ofNat (loSur r / 256), UInt8.ofNat (loSur r % 256)] ∧
      55296 ≤ hiSur r ∧ hiSur r < 56320 ∧ 56320 ≤ loSur r ∧ loSur r < 57344 ∧
      r = 65536 + (hiSur r - 55296) * 1024 + (loSur r - 56320)) := by
  simp only [isScalar, Bool.or_eq_true, Bool.and_eq_true, decide_eq_true_eq] at hs
  have hr : r < 1114112 := by
    rcases hs with h | ⟨_, h2⟩
    · omega
    · exact h2
  constructor
  · intro h; simp [utf16be, h]
  · intro h
    have hn : ¬ r < 65536 := by omega
    refine ⟨by simp [utf16be, hn], ?_⟩
    unfold hiSur loSur
    omega

/-- no byte-order mark: the empty text encodes to nothing -/
theorem C17_no_bom : encUcs2 [] = [] := rfl

/-- **C17, UTF-16 round trip** for every text of scalar values (any length, any mix of planes) -/
theorem C17_utf16_roundtrip (t : List Nat) (hs : t.all isScalar = true) : decUcs2 (encUcs2 t) = t :=
  decUcs2_encUcs2 t hs

/-! ## availability: every data_coding with an encoder has a decoder and a splitter -/

theorem C17_availability :
    codingAvailability.length = 256 ∧
    codingAvailability.all (fun p => p.2.1 == 0 || (p.2.1 == 1 && p.2.2 == 1)) = true := by decide +kernel

theorem map_keys : encodingMapKeys = [0, 1, 3, 5, 6, 7, 8, 10, 13, 14] ∧ splitterMapKeys = encodingMapKeys := by
  decide +kernel

/-! ## multi-octet codecs: the lifting from runes to texts -/

/-- If a decoder inverts an encoder rune by rune — `dec (enc r ++ rest) = r :: dec rest` for every
accepted rune (the per-rune law, checked EXHAUSTIVELY on the implementation for Shift-JIS, EUC-JP
and EUC-KR by the `codingsweep` operation of this check) — then it inverts it on every accepted text. -/
theorem C17_lift {enc : Nat → Option (List UInt8)} {dec : List UInt8 → List Nat}
    (hnil : dec [] = [])
    (law : ∀ r b, enc r = some b → ∀ rest, dec (b ++ rest) = r :: dec rest) :
    ∀ (t : List Nat) (bs : List (List UInt8)), t.mapM enc = some bs → dec bs.flatten = t := by
  intro t
  induction t with
  | nil => intro bs h; simp at h; subst h; simpa using hnil
  | cons r t ih =>
    intro bs h
    simp only [List.mapM_cons, Option.bind_eq_bind, Option.bind_eq_some_iff] at h
    obtain ⟨b, hb, bs', hbs', hh⟩ := h
    simp only [Option.pure_def, Option.some.injEq] at hh
    subst hh
    simp only [List.flatten_cons]
    rw [law r b hb, ih bs' hbs']

/-! ## non-vacuity -/
example : tableEnc table_6 0x416 = some 0xB6 ∧ tableEnc table_7 0x5D0 = some 0xE0 ∧ tableEnc table_6 0x80 = none := by
  decide +kernel
example : encUcs2 [0x41, 0x1F48A] = [0, 0x41, 0xD8, 0x3D, 0xDC, 0x8A] := by decide +kernel

end Smpp.Properties.C17
