/-
C01 — Every PDU survives Marshal → ReadPDU unchanged.

Only property theorems, expectation lemmas over the regenerated facts, negation
witnesses for known findings and non-vacuity examples live here.
-/
import Smpp.Properties.SrcPduCodec
import Smpp.Properties.SrcPduFrame
import Smpp.Proofs.Roundtrip
import Smpp.Generated.Layouts

namespace Smpp.Properties.C01
open Smpp Smpp.Pdu Smpp.Generated

/-! ## expectations on the regenerated facts (these are what a layout edit breaks) -/

/-- Every PDU struct: tagged Header first, no second header, Tags only as the last field, the
field named ESMClass is an ESMClass and precedes the short message, command_id fits 32 bits. -/
theorem layouts_ok : ∀ L ∈ pduLayouts, LayoutOK L = true := by decide +kernel

/-- The command_id → type registry finds every layout (ids are pairwise distinct). -/
theorem layouts_registered : ∀ L ∈ pduLayouts, lookupLayout pduLayouts L.id = some L := by decide +kernel

/-- factory.go registers exactly the struct types packet.go declares with an `id` tag, and the
harness reflects over exactly those. -/
theorem registry_complete :
    registeredTypes = declaredTypes ∧ pduLayouts.map (·.name) = declaredTypes := by decide +kernel

theorem thirty_three_types : pduLayouts.length = 33 := by decide +kernel

/-- Fields that neither reflection walk touches. -/
def skippedFields : List (String × String) :=
  pduLayouts.flatMap fun L => L.fields.filterMap fun f =>
    match f.kind with
    | .skipped _ => some (L.name, f.name)
    | _ => none

/-- KNOWN FINDING C01-queryresp-errorcode: exactly one field is skipped by the walk
(`QuerySMResp.ErrorCode`, Go kind uint32; pinned by TestPacket's 19-octet frame).  Any other
skipped field breaks this lemma. -/
theorem skipped_known : skippedFields = [("QuerySMResp", "ErrorCode")] := by decide +kernel

/-! ## the representable domain -/

/-- The property's domain, spelled out: values of the right shape whose strings are NUL-free,
whose bit-field components fit their widths, whose maps are canonical with TLV values of
1..65534 octets and UDH element ids below 256, with a user data header present exactly when
the UDH indicator is set (never for replace_sm), data_coding ≠ 0xBF, and — because of the
known finding above — zero in any field the walk skips. -/
structure Representable (L : Layout) (h : Header) (rest : List FVal) : Prop where
  typed : Typed L.fields (.header h :: rest) = true
  wf : ∀ x ∈ rest, FValWF L.isReplace (udhiOf L.fields (.header h :: rest)) x
  tlvNonEmpty : ∀ t, FVal.tags t ∈ rest → ∀ kv ∈ t, kv.2.length ≠ 0

/-- **C01 (partial: skipped fields must be zero).**  For every registered PDU type and every
representable value, whenever Marshal succeeds with a frame of at most 64 KiB, ReadPDU on those
octets — under EVERY fragmentation `cs` of them — succeeds, consumes exactly the frame, and
returns a PDU of the same type whose header carries the frame length and the type's command_id
and whose other fields are the values Marshal left in the caller's struct. -/
theorem C01_roundtrip_partial (L : Layout) (hL : L ∈ pduLayouts) (h : Header) (rest : List FVal)
    (hrep : Representable L h rest) (b : Bytes) (after : List FVal)
    (hm : marshal L (.header h :: rest) = ⟨.ok b, after⟩) (hlen : b.length ≤ 65536)
    (cs : Stream) (hcs : cs.flatten = b) :
    (readPDU pduLayouts cs).out = .ok L.name (decodedOf L b.length after) ∧
    (readPDU pduLayouts cs).consumed = b.length := by
  have hflat := readPDU_eq_flat pduLayouts cs
  rw [hcs] at hflat
  obtain ⟨hun, h16⟩ := unmarshal_marshal L (layouts_ok L hL) h rest hrep.typed hrep.wf b after hm hlen
  obtain ⟨_, hcase⟩ := marshal_ok L h rest b after hm
  have hidlt : L.id < 4294967296 := by
    have := layouts_ok L hL
    unfold LayoutOK at this
    cases hf : L.fields with
    | nil => simp [hf] at this
    | cons f fs => simp [hf] at this; exact this.2
  have hreg := layouts_registered L hL
  -- bring the frame into the shape `encHeader hdr ++ body`
  have key : ∀ (hdr : Header) (body : Bytes), b = encHeader hdr ++ body → hdr.len.toNat = 16 + body.length →
      hdr.id.toNat = L.id →
      readPDUFlat pduLayouts b = (.ok L.name (decodedOf L b.length after), b.length, []) := by
    intro hdr body hb hl hid
    have hbl : b.length = 16 + body.length := by rw [hb]; simp [encHeader_length']
    have := readPDUFlat_frame pduLayouts hdr body [] L hl (by omega) (by rw [hid]; exact hreg)
    simp only [List.append_nil] at this
    rw [← hb, hun] at this
    rw [this, hbl]
  have hfin : readPDUFlat pduLayouts b = (.ok L.name (decodedOf L b.length after), b.length, []) := by
    rcases hcase with ⟨_, ⟨n16, hn16, hb⟩, _⟩ | ⟨_, body, rest', _, hb, _⟩
    · exact key _ [] (by simpa using hb) (by simpa using hn16) (u32_ofNat_toNat hidlt)
    · have hbl : b.length = 16 + body.length := by rw [hb]; simp [encHeader_length']
      exact key _ body hb (u32_ofNat_toNat (by omega)) (u32_ofNat_toNat hidlt)
  rw [hfin] at hflat
  simp only [Prod.mk.injEq] at hflat
  exact ⟨hflat.1, hflat.2.1⟩

/-- With TLV values of 1..65534 octets nothing is normalised away: for command_status 0 every
field of the decoded PDU equals the field Marshal left in the original. -/
theorem C01_fields_equal (L : Layout) (h : Header) (rest : List FVal)
    (hrep : Representable L h rest) (b : Bytes) (after : List FVal)
    (hm : marshal L (.header h :: rest) = ⟨.ok b, after⟩) (hst : h.status = 0) :
    ∃ rest', after = .header ⟨h.len, UInt32.ofNat L.id, 0, h.seq⟩ :: rest' ∧
      decodedOf L b.length after
        = .header ⟨UInt32.ofNat b.length, UInt32.ofNat L.id, 0, h.seq⟩ :: rest' ∧
      rest' = rest.map (afterEnc L.isReplace (udhiOf L.fields (.header h :: rest))) := by
  obtain ⟨_, hcase⟩ := marshal_ok L h rest b after hm
  rcases hcase with ⟨hne, _, _⟩ | ⟨_, body, rest', he, _, ha⟩
  · exact absurd hst hne
  · -- the values Marshal leaves are the originals with the short message Prepared
    have hshape : ∀ (vs : List FVal) (bs : Bytes) (vs' : List FVal),
        encFields L.isReplace (udhiOf L.fields (.header h :: rest)) vs = .ok (bs, vs') →
        vs' = vs.map (afterEnc L.isReplace (udhiOf L.fields (.header h :: rest))) := by
      intro vs
      induction vs with
      | nil => intro bs vs' he; simp [encFields] at he; simp [he.2]
      | cons v vs ih =>
        intro bs vs' he
        simp only [encFields] at he
        cases h1 : encField L.isReplace (udhiOf L.fields (.header h :: rest)) v with
        | error e => simp [h1] at he
        | ok p1 =>
          obtain ⟨b1, v1⟩ := p1
          simp only [h1] at he
          cases h2 : encFields L.isReplace (udhiOf L.fields (.header h :: rest)) vs with
          | error e => simp [h2] at he
          | ok p2 =>
            obtain ⟨b2, vs2⟩ := p2
            simp only [h2, Except.ok.injEq, Prod.mk.injEq] at he
            rw [← he.2, encField_snd _ _ v v1 b1 h1, ih b2 vs2 h2]
            rfl
    have hr := hshape rest body rest' he
    refine ⟨rest', by rw [ha, hst], ?_, hr⟩
    subst ha
    have hnorm : rest'.map normVal = rest' := by
      rw [hr, List.map_map]
      apply List.map_congr_left
      intro x hx
      cases x with
      | tags t =>
        have hne := hrep.tlvNonEmpty t hx
        have : dropEmpty t = t := by
          unfold dropEmpty
          rw [List.filter_eq_self]
          intro kv hkv
          simpa using hne kv hkv
        simp [afterEnc, normVal, this]
      | _ => simp [afterEnc, normVal]
    simp [decodedOf, hst, hnorm]

/-! ## known finding: the full-strength statement fails for the skipped field -/

/-- The property at full strength (no exclusion of skipped fields): every field survives. -/
def C01_full : Prop :=
  ∀ L ∈ pduLayouts, ∀ (h : Header) (rest : List FVal) (b : Bytes) (after : List FVal),
    Typed L.fields (.header h :: rest) = true → h.status = 0 →
    (∀ x ∈ rest, match x with | .skipped _ => True | y => FValWF L.isReplace false y) →
    marshal L (.header h :: rest) = ⟨.ok b, after⟩ →
    (readPDU pduLayouts [b]).out = .ok L.name (.header ⟨UInt32.ofNat b.length, UInt32.ofNat L.id, 0, h.seq⟩ :: rest)

def qsrLayout : Layout :=
  { name := "QuerySMResp", id := 0x80000003, isReplace := false,
    fields := [⟨"Header", .header⟩, ⟨"MessageID", .cstr⟩, ⟨"FinalDate", .cstr⟩, ⟨"MessageState", .u8⟩,
      ⟨"ErrorCode", .skipped "uint32"⟩] }

def qsrValue : List FVal := [.cstr [], .cstr [], .u8 0, .skipped 7]

/-- KNOWN FINDING C01-queryresp-errorcode, witness: QuerySMResp{ErrorCode: 7} marshals to the
19-octet frame without error_code and decodes with ErrorCode = 0. -/
theorem C01_cex_queryresp_errorcode : ¬ C01_full := by
  intro hfull
  have hmem : qsrLayout ∈ pduLayouts := by decide +kernel
  have hwf : ∀ x ∈ qsrValue, match x with | .skipped _ => True | y => FValWF qsrLayout.isReplace false y := by
    intro x hx
    simp only [qsrValue, List.mem_cons, List.not_mem_nil, or_false] at hx
    rcases hx with rfl | rfl | rfl | rfl <;> simp [FValWF, NulFree]
  have := hfull qsrLayout hmem ⟨0, 0, 0, 5⟩ qsrValue _ _ (by decide) rfl hwf rfl
  revert this
  decide +kernel

/-! ## non-vacuity: a concrete non-trivial value meets the hypotheses -/

def exLayout : Layout :=
  { name := "SubmitSM", id := 0x4, isReplace := false,
    fields := [⟨"Header", .header⟩, ⟨"ServiceType", .cstr⟩, ⟨"SourceAddr", .addr⟩, ⟨"DestAddr", .addr⟩,
      ⟨"ESMClass", .esm⟩, ⟨"ProtocolID", .u8⟩, ⟨"PriorityFlag", .u8⟩, ⟨"ScheduleDeliveryTime", .cstr⟩,
      ⟨"ValidityPeriod", .cstr⟩, ⟨"RegisteredDelivery", .regdlv⟩, ⟨"ReplaceIfPresent", .bool⟩,
      ⟨"Message", .sm⟩, ⟨"Tags", .tags⟩] }

def exRest : List FVal :=
  [.cstr [65], .addr ⟨1, 1, [49, 50]⟩, .addr ⟨1, 1, [51]⟩, .esm ⟨0, 0, true, false⟩, .u8 0, .u8 1, .cstr [],
   .cstr [], .regdlv ⟨1, 0, false, 0⟩, .bool true,
   .sm ⟨0, 8, some [(0, [7, 2, 1]), (5, [1, 2, 3, 4])], [104, 105]⟩, .tags [(0x204, [0, 1]), (0x424, [9])]]

example : exLayout ∈ pduLayouts := by decide +kernel

example : Representable exLayout ⟨0, 0, 0, 7⟩ exRest := by
  refine ⟨by decide, ?_, ?_⟩
  · intro x hx
    simp only [exRest, List.mem_cons, List.not_mem_nil, or_false] at hx
    rcases hx with rfl | rfl | rfl | rfl | rfl | rfl | rfl | rfl | rfl | rfl | rfl | rfl <;>
      simp only [FValWF] <;> first | trivial | decide
  · intro t ht kv hkv
    simp only [exRest, List.mem_cons, FVal.tags.injEq, List.not_mem_nil, or_false, reduceCtorEq, false_or] at ht
    subst ht
    simp at hkv
    rcases hkv with rfl | rfl <;> decide

example : ((marshal exLayout (.header ⟨0, 0, 0, 7⟩ :: exRest)).res.isOk) = true := by decide +kernel

end Smpp.Properties.C01
