-- Expectations on the regenerated source facts of package sms (snapshot written by tools/gen_sms_expect.py
-- after the model was validated against this source).  A changed statement breaks the lemma of its function.
import Smpp.Generated.SmsFacts
namespace Smpp.Properties.SmsSource
open Smpp.Generated

theorem src_Unmarshal : smsSrc_Unmarshal = [
  "Unmarshal: buf := bufio.NewReader(r)",
  "Unmarshal: kind, failure, err := getType(buf)",
  "Unmarshal: if err != nil { return }",
  "Unmarshal: switch { case kind == MessageTypeDeliver: packet = new(Deliver) case kind == MessageTypeDeliverReport && failure: packet = new(DeliverReportError) case kind == MessageTypeDeliverReport: packet = new(DeliverReport) case kind == MessageTypeSubmit: packet = new(Submit) case kind == MessageTypeSubmitReport && failure: packet = new(SubmitReportError) case kind == MessageTypeSubmitReport: packet = new(SubmitReport) case kind == MessageTypeStatusReport: packet = new(StatusReport) case kind == MessageTypeCommand: packet = new(Command) default: err = errors.New(kind.String()) return }",
  "Unmarshal: _, err = unmarshal(buf, packet)",
  "Unmarshal: return"] := rfl

theorem src_unmarshal : smsSrc_unmarshal = [
  "unmarshal: p := reflect.ValueOf(packet)",
  "unmarshal: if p.Kind() == reflect.Ptr { p = p.Elem() }",
  "unmarshal: t := p.Type()",
  "unmarshal: var validityPeriodFormat byte",
  "unmarshal: var parameterIndicator *ParameterIndicator",
  "unmarshal: for i := 0; i < p.NumField(); i++ { abbr := t.Field(i).Tag.Get(\"TP\") if parameterIndicator != nil && !parameterIndicator.Has(abbr) { continue } field := p.Field(i).Addr().Interface() switch field := field.(type) { case *byte: *field, err = buf.ReadByte() case io.ByteWriter: var value byte if value, err = buf.ReadByte(); err == nil { err = field.WriteByte(value) } if setter, ok := field.(directionSetter); ok { switch t.Field(i).Tag.Get(\"DIR\") { case \"MT\": setter.setDirection(MT) case \"MO\": setter.setDirection(MO) } } case *[]byte: var length byte if length, err = buf.ReadByte(); err == nil { *field = make([]byte, length) _, err = buf.Read(*field) } case io.ReaderFrom: _, err = field.ReadFrom(buf) case *interface{}: switch { case abbr == \"VP\" && validityPeriodFormat == 0b01: var duration EnhancedDuration _, err = duration.ReadFrom(buf) *field = duration case abbr == \"VP\" && validityPeriodFormat == 0b10: var duration Duration _, err = duration.ReadFrom(buf) *field = duration case abbr == \"VP\" && validityPeriodFormat == 0b11: var time Time _, err = time.ReadFrom(buf) *field = time } } switch field := field.(type) { case *SubmitFlags: validityPeriodFormat = field.ValidityPeriodFormat case *ParameterIndicator: parameterIndicator = field } if err != nil { return } }",
  "unmarshal: return"] := rfl

theorem src_Marshal : smsSrc_Marshal = [
  "Marshal: p := reflect.ValueOf(packet)",
  "Marshal: if p.Kind() == reflect.Ptr { p = p.Elem() }",
  "Marshal: t := p.Type()",
  "Marshal: var validityPeriodFormat byte",
  "Marshal: var parameterIndicator ParameterIndicator",
  "Marshal: for i := 0; i < p.NumField(); i++ { parameterIndicator.Set(t.Field(i).Tag.Get(\"TP\")) switch field := p.Field(i).Addr().Interface().(type) { case *interface{}: switch (*field).(type) { case EnhancedDuration: validityPeriodFormat = 0b01 case Duration: validityPeriodFormat = 0b10 case Time: validityPeriodFormat = 0b11 } } }",
  "Marshal: var buf bytes.Buffer",
  "Marshal: for i := 0; i < p.NumField(); i++ { switch field := p.Field(i).Addr().Interface().(type) { case *byte: buf.WriteByte(*field) case *[]byte: length := len(*field) buf.WriteByte(byte(length)) buf.Write(bytes.TrimRight(*field, \"\\x00\")) case io.ByteReader: if flags, ok := field.(*SubmitFlags); ok { flags.ValidityPeriodFormat = validityPeriodFormat } var value byte if value, err = field.ReadByte(); err == nil { buf.WriteByte(value) } case io.WriterTo: _, err = field.WriteTo(&buf) case *interface{}: switch field := (*field).(type) { case EnhancedDuration: _, err = field.WriteTo(&buf) case Duration: _, err = field.WriteTo(&buf) case Time: _, err = field.WriteTo(&buf) } } if err != nil { return } }",
  "Marshal: return buf.WriteTo(w)"] := rfl

theorem src_getType : smsSrc_getType = [
  "getType: var peek []byte",
  "getType: if peek, err = buf.Peek(1); err != nil { return }",
  "getType: length := int(peek[0])",
  "getType: if peek, err = buf.Peek(length + 3); err != nil { return }",
  "getType: var dir Direction",
  "getType: if length == 0 { dir = MO }",
  "getType: kind.Set(peek[length+1]&0b11, dir)",
  "getType: failure = peek[length+2] > 0b001111111",
  "getType: return"] := rfl

theorem src_unmarshalFlags : smsSrc_unmarshalFlags = [
  "unmarshalFlags: v := reflect.ValueOf(flags)",
  "unmarshalFlags: if v.Kind() == reflect.Ptr { v = v.Elem() }",
  "unmarshalFlags: var b byte",
  "unmarshalFlags: for i, bits := 0, byte(0); i < v.NumField(); i++ { b = c >> bits switch field := v.Field(i).Addr().Interface().(type) { case *MessageType: field.Set(b&0b11, field.Direction()) bits += 2 case *byte: *field = b & 0b11 bits += 2 case *bool: *field = b&0b1 == 1 bits++ } }",
  "unmarshalFlags: return"] := rfl

theorem src_marshalFlags : smsSrc_marshalFlags = [
  "marshalFlags: v := reflect.ValueOf(flags)",
  "marshalFlags: if v.Kind() == reflect.Ptr { v = v.Elem() }",
  "marshalFlags: for i, bits := 0, byte(0); i < v.NumField(); i++ { switch field := (v.Field(i).Interface()).(type) { case MessageType: c |= field.Type() << bits bits += 2 case byte: c |= (field & 0b11) << bits bits += 2 case bool: if field { c |= 1 << bits } bits++ } }",
  "marshalFlags: return"] := rfl

theorem src_Address_MarshalBinary : smsSrc_Address_MarshalBinary = [
  "Address.MarshalBinary: var kind byte",
  "Address.MarshalBinary: kind |= p.NPI & 0b1111",
  "Address.MarshalBinary: kind |= p.TON & 0b111 << 4",
  "Address.MarshalBinary: kind |= 1 << 7",
  "Address.MarshalBinary: var buf bytes.Buffer",
  "Address.MarshalBinary: buf.WriteByte(0x00)",
  "Address.MarshalBinary: buf.WriteByte(kind)",
  "Address.MarshalBinary: if p.TON != 0b101 { _, err = semioctet.EncodeSemiAddress(&buf, p.No) } else { _, err = gsm7bit.Packed.NewEncoder().Writer(&buf).Write([]byte(p.No)) }",
  "Address.MarshalBinary: data = buf.Bytes()",
  "Address.MarshalBinary: data[0] = byte(len(data) - 2)",
  "Address.MarshalBinary: return"] := rfl

theorem src_Address_ReadFrom : smsSrc_Address_ReadFrom = [
  "Address.ReadFrom: buf := bufio.NewReader(r)",
  "Address.ReadFrom: var length, kind byte",
  "Address.ReadFrom: if length, err = buf.ReadByte(); err != nil || length == 0 { return }",
  "Address.ReadFrom: if kind, err = buf.ReadByte(); err != nil { return }",
  "Address.ReadFrom: p.NPI = kind & 0b1111",
  "Address.ReadFrom: p.TON = kind >> 4 & 0b111",
  "Address.ReadFrom: length = (length + 1) / 2",
  "Address.ReadFrom: data := make([]byte, length)",
  "Address.ReadFrom: if _, err = buf.Read(data); err != nil { return }",
  "Address.ReadFrom: if p.TON != 0b101 { p.No = semioctet.DecodeSemiAddress(data) } else { data, err = gsm7bit.Packed.NewDecoder().Bytes(data) if err == nil { p.No = string(data) } }",
  "Address.ReadFrom: return"] := rfl

theorem src_Address_WriteTo : smsSrc_Address_WriteTo = [
  "Address.WriteTo: if len(p.No) == 0 { _, err = w.Write([]byte{0}) return }",
  "Address.WriteTo: data, _ := p.MarshalBinary()",
  "Address.WriteTo: if p.TON != 0b101 { data[0] = byte(len(p.No)) } else { data[0] *= 2 }",
  "Address.WriteTo: _, err = w.Write(data)",
  "Address.WriteTo: return"] := rfl

theorem src_SCAddress_ReadFrom : smsSrc_SCAddress_ReadFrom = [
  "SCAddress.ReadFrom: buf := bufio.NewReader(r)",
  "SCAddress.ReadFrom: var length, kind byte",
  "SCAddress.ReadFrom: if length, err = buf.ReadByte(); err != nil || length == 0 { return }",
  "SCAddress.ReadFrom: if kind, err = buf.ReadByte(); err != nil { return }",
  "SCAddress.ReadFrom: p.NPI = kind & 0b1111",
  "SCAddress.ReadFrom: p.TON = kind >> 4 & 0b111",
  "SCAddress.ReadFrom: data := make([]byte, length-1)",
  "SCAddress.ReadFrom: if _, err = buf.Read(data); err != nil { return }",
  "SCAddress.ReadFrom: if p.TON != 0b101 { p.No = semioctet.DecodeSemiAddress(data) } else { data, err = gsm7bit.Packed.NewDecoder().Bytes(data) if err == nil { p.No = string(data) } }",
  "SCAddress.ReadFrom: return"] := rfl

theorem src_SCAddress_WriteTo : smsSrc_SCAddress_WriteTo = [
  "SCAddress.WriteTo: if len(p.No) == 0 { _, err = w.Write([]byte{0}) return }",
  "SCAddress.WriteTo: data, _ := Address(p).MarshalBinary()",
  "SCAddress.WriteTo: data[0]++",
  "SCAddress.WriteTo: _, err = w.Write(data)",
  "SCAddress.WriteTo: return"] := rfl

theorem src_Time_ReadFrom : smsSrc_Time_ReadFrom = [
  "Time.ReadFrom: data := make([]byte, 7)",
  "Time.ReadFrom: if _, err = r.Read(data); err != nil { return }",
  "Time.ReadFrom: blocks := semioctet.DecodeSemi(data)",
  "Time.ReadFrom: if len(blocks) != len(data) { err = ErrInvalidSemiOctets return }",
  "Time.ReadFrom: t.Time = time.Date( 2000+blocks[0], time.Month(blocks[1]), blocks[2], blocks[3], blocks[4], blocks[5], 0, time.FixedZone(\"\", blocks[6]*900), )",
  "Time.ReadFrom: return"] := rfl

theorem src_Time_WriteTo : smsSrc_Time_WriteTo = [
  "Time.WriteTo: _, offset := t.Time.Zone()",
  "Time.WriteTo: return semioctet.EncodeSemi( w, t.Time.Year()-2000, int(t.Time.Month()), t.Time.Day(), t.Time.Hour(), t.Time.Minute(), t.Time.Second(), offset/900, )"] := rfl

theorem src_Duration_ReadFrom : smsSrc_Duration_ReadFrom = [
  "Duration.ReadFrom: data := make([]byte, 1)",
  "Duration.ReadFrom: if _, err = r.Read(data); err != nil { return }",
  "Duration.ReadFrom: switch n := time.Duration(data[0]); { case n <= 143: n++ d.Duration = 5 * time.Minute * n case n <= 167: const halfDays = 12 * time.Hour const halfHours = 30 * time.Minute d.Duration = (n-143)*halfHours + halfDays case n <= 196: d.Duration = (n - 166) * 24 * time.Hour default: d.Duration = (n - 192) * 7 * 24 * time.Hour }",
  "Duration.ReadFrom: return"] := rfl

theorem src_Duration_WriteTo : smsSrc_Duration_WriteTo = [
  "Duration.WriteTo: var period time.Duration",
  "Duration.WriteTo: if minutes := d.Duration / time.Minute; minutes <= 5 { period = 0 } else if hours := d.Duration / time.Hour; d.Duration <= 12*time.Hour { period = minutes/5 - 1 } else if hours <= 24 { const halfDays = 12 * time.Hour const halfHours = 30 * time.Minute period = (d.Duration-halfDays)/halfHours + 143 } else if days := hours / 24; days <= 31 { period = hours/24 + 166 } else if weeks := days / 7; weeks <= 62 { period = weeks + 192 } else { period = 255 }",
  "Duration.WriteTo: var buf bytes.Buffer",
  "Duration.WriteTo: buf.WriteByte(byte(period))",
  "Duration.WriteTo: return buf.WriteTo(w)"] := rfl

theorem src_EnhancedDuration_ReadFrom : smsSrc_EnhancedDuration_ReadFrom = [
  "EnhancedDuration.ReadFrom: buf := bufio.NewReader(r)",
  "EnhancedDuration.ReadFrom: if d.Indicator, err = buf.ReadByte(); err != nil { return }",
  "EnhancedDuration.ReadFrom: length := 6",
  "EnhancedDuration.ReadFrom: switch d.Indicator & 0b111 { case 0b001: var duration Duration _, err = duration.ReadFrom(buf) d.Duration = duration.Duration length-- case 0b010: var second byte second, err = buf.ReadByte() d.Duration = time.Second * time.Duration(second) length-- case 0b011: data := make([]byte, 3) _, err = buf.Read(data) semi := semioctet.DecodeSemi(data) if len(semi) != len(data) { if err == nil { err = ErrInvalidSemiOctets } return } d.Duration = time.Duration(semi[0])*time.Hour + time.Duration(semi[1])*time.Minute + time.Duration(semi[2])*time.Second length -= len(data) }",
  "EnhancedDuration.ReadFrom: if err == nil { _, err = buf.Discard(length) }",
  "EnhancedDuration.ReadFrom: return"] := rfl

theorem src_EnhancedDuration_WriteTo : smsSrc_EnhancedDuration_WriteTo = [
  "EnhancedDuration.WriteTo: var buf bytes.Buffer",
  "EnhancedDuration.WriteTo: buf.WriteByte(d.Indicator)",
  "EnhancedDuration.WriteTo: switch d.Indicator & 0b111 { case 0b001: _, _ = (&Duration{d.Duration}).WriteTo(&buf) case 0b010: buf.WriteByte(byte(d.Duration / time.Second)) case 0b011: hh, mm, ss := int(d.Hours()), int(d.Minutes()), int(d.Seconds()) _, _ = semioctet.EncodeSemi(&buf, hh, mm-(hh*60), ss-(mm*60)) }",
  "EnhancedDuration.WriteTo: buf.Write(make([]byte, 7-buf.Len()))",
  "EnhancedDuration.WriteTo: return buf.WriteTo(w)"] := rfl

theorem src_ParameterIndicator_Has : smsSrc_ParameterIndicator_Has = [
  "ParameterIndicator.Has: switch abbr { case \"PID\": return p.ProtocolIdentifier case \"DCS\": return p.DataCoding case \"UD\": return p.UserData }",
  "ParameterIndicator.Has: return false"] := rfl

theorem src_ParameterIndicator_Set : smsSrc_ParameterIndicator_Set = [
  "ParameterIndicator.Set: switch abbr { case \"PID\": p.ProtocolIdentifier = true case \"DCS\": p.DataCoding = true case \"UD\": p.UserData = true }"] := rfl

theorem src_ParameterIndicator_WriteByte : smsSrc_ParameterIndicator_WriteByte = [
  "ParameterIndicator.WriteByte: return unmarshalFlags(c, p)"] := rfl

theorem src_ParameterIndicator_ReadByte : smsSrc_ParameterIndicator_ReadByte = [
  "ParameterIndicator.ReadByte: return marshalFlags(p)"] := rfl

theorem src_Flags_setDirection : smsSrc_Flags_setDirection = [
  "Flags.setDirection: p.MessageType.Set(p.MessageType.Type(), direction)"] := rfl

theorem src_Flags_WriteByte : smsSrc_Flags_WriteByte = [
  "Flags.WriteByte: return unmarshalFlags(c, p)"] := rfl

theorem src_Flags_ReadByte : smsSrc_Flags_ReadByte = [
  "Flags.ReadByte: return marshalFlags(p)"] := rfl

theorem src_DeliverFlags_setDirection : smsSrc_DeliverFlags_setDirection = [
  "DeliverFlags.setDirection: p.MessageType.Set(p.MessageType.Type(), direction)"] := rfl

theorem src_DeliverFlags_WriteByte : smsSrc_DeliverFlags_WriteByte = [
  "DeliverFlags.WriteByte: return unmarshalFlags(c, p)"] := rfl

theorem src_DeliverFlags_ReadByte : smsSrc_DeliverFlags_ReadByte = [
  "DeliverFlags.ReadByte: return marshalFlags(p)"] := rfl

theorem src_SubmitFlags_setDirection : smsSrc_SubmitFlags_setDirection = [
  "SubmitFlags.setDirection: p.MessageType.Set(p.MessageType.Type(), direction)"] := rfl

theorem src_SubmitFlags_WriteByte : smsSrc_SubmitFlags_WriteByte = [
  "SubmitFlags.WriteByte: return unmarshalFlags(c, p)"] := rfl

theorem src_SubmitFlags_ReadByte : smsSrc_SubmitFlags_ReadByte = [
  "SubmitFlags.ReadByte: return marshalFlags(p)"] := rfl

theorem src_MessageType_Set : smsSrc_MessageType_Set = [
  "MessageType.Set: *t = MessageType(kind<<1|byte(dir)) & 0b111"] := rfl

theorem src_MessageType_Type : smsSrc_MessageType_Type = [
  "MessageType.Type: return byte(t>>1) & 0b11"] := rfl

theorem src_MessageType_Direction : smsSrc_MessageType_Direction = [
  "MessageType.Direction: return Direction(t) & 0b1"] := rfl

theorem src_EncodeSemi : smsSrc_EncodeSemi = [
  "EncodeSemi: digits := toDigits(chunks)",
  "EncodeSemi: var buf bytes.Buffer",
  "EncodeSemi: buf.Grow(len(digits) / 2)",
  "EncodeSemi: i, remain := 0, len(digits)",
  "EncodeSemi: for remain > 1 { buf.WriteByte(digits[i+1]<<4 | digits[i]) i += 2 remain -= 2 }",
  "EncodeSemi: if remain > 0 { buf.WriteByte(0b11110000 | digits[i]) }",
  "EncodeSemi: return buf.WriteTo(w)"] := rfl

theorem src_DecodeSemi : smsSrc_DecodeSemi = [
  "DecodeSemi: var half byte",
  "DecodeSemi: for _, item := range encoded { half = item >> 4 if half == 0b1111 { return append(chunks, int(item&0b1111)) } chunks = append(chunks, int(item&0b1111*10+half)) }",
  "DecodeSemi: return"] := rfl

theorem src_EncodeSemiAddress : smsSrc_EncodeSemiAddress = [
  "EncodeSemiAddress: digits := make([]byte, 0, len(input))",
  "EncodeSemiAddress: for _, r := range input { if r < '0' || r > '9' { err = strconv.ErrSyntax return } digits = append(digits, byte(r-'0')) }",
  "EncodeSemiAddress: var buf bytes.Buffer",
  "EncodeSemiAddress: buf.Grow((len(digits) + 1) / 2)",
  "EncodeSemiAddress: for i := 0; i+1 < len(digits); i += 2 { buf.WriteByte(digits[i+1]<<4 | digits[i]) }",
  "EncodeSemiAddress: if len(digits)%2 != 0 { buf.WriteByte(0b11110000 | digits[len(digits)-1]) }",
  "EncodeSemiAddress: return buf.WriteTo(w)"] := rfl

theorem src_DecodeSemiAddress : smsSrc_DecodeSemiAddress = [
  "DecodeSemiAddress: var buf bytes.Buffer",
  "DecodeSemiAddress: var half byte",
  "DecodeSemiAddress: for _, item := range encoded { half = item & 0b1111 buf.WriteByte('0' + half) if half = item >> 4; half != 0b1111 { buf.WriteByte('0' + half) } }",
  "DecodeSemiAddress: return buf.String()"] := rfl

theorem src_toDigits : smsSrc_toDigits = [
  "toDigits: for _, chunk := range chunks { if chunk < 10 { digits = append(digits, 0) } for _, r := range strconv.Itoa(chunk) { digits = append(digits, byte(r-'0')) } }",
  "toDigits: return"] := rfl

theorem functions : smsSrcFunctions = ["Unmarshal", "unmarshal", "Marshal", "getType", "unmarshalFlags", "marshalFlags", "Address.MarshalBinary", "Address.ReadFrom", "Address.WriteTo", "SCAddress.ReadFrom", "SCAddress.WriteTo", "Time.ReadFrom", "Time.WriteTo", "Duration.ReadFrom", "Duration.WriteTo", "EnhancedDuration.ReadFrom", "EnhancedDuration.WriteTo", "ParameterIndicator.Has", "ParameterIndicator.Set", "ParameterIndicator.WriteByte", "ParameterIndicator.ReadByte", "Flags.setDirection", "Flags.WriteByte", "Flags.ReadByte", "DeliverFlags.setDirection", "DeliverFlags.WriteByte", "DeliverFlags.ReadByte", "SubmitFlags.setDirection", "SubmitFlags.WriteByte", "SubmitFlags.ReadByte", "MessageType.Set", "MessageType.Type", "MessageType.Direction", "EncodeSemi", "DecodeSemi", "EncodeSemiAddress", "DecodeSemiAddress", "toDigits"] := rfl

/-- inventory of index / slice / make / unchecked-assertion sites and read primitives: the model has a partial
primitive or a totality argument for each -/
theorem sites : smsSites = [
  ("coding/semioctet/semi_octet.go|EncodeSemiAddress|index", 3),
  ("coding/semioctet/semi_octet.go|EncodeSemi|index", 3),
  ("sms/address.go|Address.MarshalBinary|index", 1),
  ("sms/address.go|Address.ReadFrom|make", 1),
  ("sms/address.go|Address.ReadFrom|read:Read", 1),
  ("sms/address.go|Address.ReadFrom|read:ReadByte", 2),
  ("sms/address.go|Address.WriteTo|index", 2),
  ("sms/address.go|SCAddress.ReadFrom|make", 1),
  ("sms/address.go|SCAddress.ReadFrom|read:Read", 1),
  ("sms/address.go|SCAddress.ReadFrom|read:ReadByte", 2),
  ("sms/address.go|SCAddress.WriteTo|index", 1),
  ("sms/indicator.go|FailureCause.Error|index", 1),
  ("sms/marshal.go|Marshal|read:ReadByte", 1),
  ("sms/marshal.go|getType|index", 3),
  ("sms/marshal.go|getType|read:Peek", 2),
  ("sms/marshal.go|unmarshal|make", 1),
  ("sms/marshal.go|unmarshal|read:Read", 1),
  ("sms/marshal.go|unmarshal|read:ReadByte", 3),
  ("sms/time.go|Duration.ReadFrom|index", 1),
  ("sms/time.go|Duration.ReadFrom|read:Read", 1),
  ("sms/time.go|EnhancedDuration.ReadFrom|index", 3),
  ("sms/time.go|EnhancedDuration.ReadFrom|read:Discard", 1),
  ("sms/time.go|EnhancedDuration.ReadFrom|read:Read", 1),
  ("sms/time.go|EnhancedDuration.ReadFrom|read:ReadByte", 2),
  ("sms/time.go|EnhancedDuration.WriteTo|make", 1),
  ("sms/time.go|Time.ReadFrom|index", 7),
  ("sms/time.go|Time.ReadFrom|read:Read", 1)] := by decide +kernel

end Smpp.Properties.SmsSource
