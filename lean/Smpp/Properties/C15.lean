/-
C15 — Connection teardown wakes every caller and stops every loop, without panics.

Safety clauses are invariants of the transition system for EVERY reachable state (every placement of the terminating
event relative to outstanding Submits, an unsolicited PDU in flight and the unbind handshake).  "Promptly" is
formalised as: the step that releases the goroutine is ENABLED in that state and needs no further event from the
peer, the application or a timer.  PARTIAL: wall-clock promptness and real timers (ReadTimeout, the one-second unbind
deadline, the keep-alive ticker) are outside the model.  The EnquireLink goroutine is in the model (labels ka…); it is
tied by its regenerated statements and exercised on the real code by the `connka` operations (not compared with the
model line by line).
-/
import Smpp.Proofs.ConnProgress
import Smpp.Properties.ConnSource

namespace Smpp.Properties.C15
open Smpp Smpp.Conn Smpp.Generated

/-! ## expectations on regenerated facts -/

/-- only Watch closes the queue, and cancels the connection context whenever it returns -/
theorem watch_defers : connSrc_Conn_Watch.take 2 = [
  "Conn.Watch: defer close(c.receiveQueue)",
  "Conn.Watch: defer c.cancel()"] := rfl

/-- Close: unbind under a one-second context derived from the connection context, always cancel, close the transport
only after a successful handshake; it never touches the queue -/
theorem close_shape : connSrc_Conn_Close = [
  "Conn.Close: ctx, cancel := context.WithTimeout(c.ctx, time.Second)",
  "Conn.Close: defer cancel()",
  "Conn.Close: defer c.cancel()",
  "Conn.Close: if _, err = c.Submit(ctx, new(Unbind)); err == nil { err = c.parent.Close() }",
  "Conn.Close: return"] := rfl

/-- the keep-alive loop: a failed keep-alive closes the connection; the loop leaves on the connection context -/
theorem keepalive_shape : connSrc_Conn_EnquireLink = [
  "Conn.EnquireLink: ticker := time.NewTicker(tick)",
  "Conn.EnquireLink: defer ticker.Stop()",
  "Conn.EnquireLink: sendEnquireLink := func() { ctx, cancel := context.WithTimeout(c.ctx, timeout) defer cancel() if _, err := c.Submit(ctx, new(EnquireLink)); err != nil { ticker.Stop() _ = c.Close() } }",
  "Conn.EnquireLink: for { sendEnquireLink() select { case <-c.ctx.Done(): return case <-ticker.C: } }"] := rfl

/-- the queue is closed in exactly one place of conn.go -/
theorem single_close_site : (connAccesses.filter fun a => a.2.2.1 == "close") = [("Conn.Watch", "receiveQueue", "close", false)] := by
  decide +kernel

/-! ## the property -/

/-- **no panic**: no reachable state has a send on, or a second close of, the closed queue -/
theorem C15_no_panic (tbl) (hd : Distinct tbl) (hf : Fresh tbl) (s : State) (h : Reach tbl s) : s.panicked = false :=
  (inv_all tbl hd hf s h).2.2.1.noPanic

/-- the queue is closed only by Watch's exit -/
theorem C15_queue_closed_by_watch (tbl) (hd : Distinct tbl) (hf : Fresh tbl) (s : State) (h : Reach tbl s)
    (hq : s.queueClosed = true) : s.watch = .returned :=
  (inv_all tbl hd hf s h).2.2.1.qClosed hq

/-- **Done() after Watch returns**, and PDU() is closed -/
theorem C15_done_after_watch (tbl) (hd : Distinct tbl) (hf : Fresh tbl) (s : State) (h : Reach tbl s)
    (hw : s.watch = .returned) : s.connDone = true ∧ s.queueClosed = true :=
  (inv_all tbl hd hf s h).2.2.1.watchDone hw

/-- **Done() after Close returns**, whether or not the unbind was answered -/
theorem C15_done_after_close (tbl) (hd : Distinct tbl) (hf : Fresh tbl) (s : State) (h : Reach tbl s) (i : Nat)
    (hk : (tbl i).kind = .close) (hdn : (s.callers i).pc.isDone = true) : s.connDone = true :=
  (inv_all tbl hd hf s h).2.2.1.closeDone i hk hdn

/-- Done() stays closed -/
theorem C15_done_stable (s s' : State) (l : Label) (h : step s l = some s') (hc : s.connDone = true) : s'.connDone = true := by
  have hs := step_sound s s' l h
  cases hs <;> simp_all [setPc]

/-- **Watch returns when the transport ends** (EOF, read error, read timeout, transport closed by Close): once nothing is left to
read the read step leads to the exit, and the exit is enabled -/
theorem C15_watch_exits_on_end (s : State) (hw : s.watch = .reading) (hi : s.inbound = []) (he : s.readSide ≠ Transport.open) :
    ∃ s1 s2, step s .wRead = some s1 ∧ s1.watch = .exiting ∧ step s1 .wExit = some s2 ∧ s2.watch = .returned ∧ s2.connDone = true := by
  refine ⟨{ s with watch := .exiting }, _, by simp [step, hw, hi, he], rfl, rfl, ?_, ?_⟩ <;>
    (simp only [↓reduceIte]; split <;> rfl)

/-- Watch notices a cancelled context at the top of its loop, and while it is offering a PDU nobody takes -/
theorem C15_watch_exits_on_cancel (s : State) (hc : s.connDone = true) :
    (s.watch = .poll → ∃ s', step s .wPoll = some s' ∧ s'.watch = .exiting) ∧
    (∀ p, s.watch = .offering p → ∃ s', step s .wOfferCancel = some s' ∧ s'.watch = .exiting) := by
  constructor
  · intro hw
    refine ⟨{ s with watch := if s.connDone then .exiting else .reading }, by simp [step, hw], by simp [hc]⟩
  · intro p hw
    refine ⟨{ s with watch := .exiting }, by simp [step, hw, hc], rfl⟩

/-- **every blocked Submit is released** once the connection context is done: its error return is enabled, no peer event needed -/
theorem C15_submit_released (s : State) (i : Nat) (hw : (s.callers i).pc = .waiting) (hc : s.connDone = true) :
    ∃ s', step s (.seeConnDone i) = some s' ∧ (s'.callers i).pc = .leaving (.err .closed) :=
  ⟨setPc s i (.leaving (.err .closed)), by simp [step, hw, hc], by simp [setPc, upd]⟩

/-- **a Submit never outlives its own context** -/
theorem C15_own_context (s : State) (i : Nat) (hw : (s.callers i).pc = .waiting) (ho : (s.callers i).ownDone = true) :
    ∃ s', step s (.seeOwnDone i) = some s' ∧ (s'.callers i).pc = .leaving (.err .ctx) :=
  ⟨setPc s i (.leaving (.err .ctx)), by simp [step, hw, ho], by simp [setPc, upd]⟩

/-- a released caller finishes on its own (the deferred unregister never blocks) -/
theorem C15_finish_enabled (s : State) (i : Nat) (r : Result) (hl : (s.callers i).pc = .leaving r) :
    (step s (.finish i)).isSome = true := by
  simp [step, hl]

/-- Close never blocks after its Submit returned: transport close and cancel are enabled in turn -/
theorem C15_close_steps_enabled (s : State) (i : Nat) (r : Result) :
    ((s.callers i).pc = .closing r → (step s (.closeTransport i)).isSome = true) ∧
    ((s.callers i).pc = .cancelling r → (step s (.closeCancel i)).isSome = true) := by
  constructor <;> intro h <;> simp [step, h]

/-- **the keep-alive loop returns**: whenever it waits in its `select` after a failed keep-alive (ticker stopped, Close done) the
connection context is already done, so its exit is enabled without any tick — for every reachable state -/
theorem C15_keepalive_returns_after_failure (tbl) (hd : Distinct tbl) (hf : Fresh tbl) (s : State) (h : Reach tbl s)
    (hk : s.ka = .select) (ht : s.tickerStopped = true) : ∃ s', step s .kaExit = some s' ∧ s'.ka = .returned := by
  have hc := (invKa tbl hd hf s h).stoppedDone hk ht
  exact ⟨{ s with ka := .returned }, by simp [step, hk, hc], rfl⟩

/-- and in every other wait it returns as soon as the connection context is done -/
theorem C15_keepalive_returns_on_done (s : State) (hk : s.ka = .select) (hc : s.connDone = true) :
    ∃ s', step s .kaExit = some s' ∧ s'.ka = .returned :=
  ⟨{ s with ka := .returned }, by simp [step, hk, hc], rfl⟩

/-- the loop never waits on a stopped ticker with the connection still up (the defect repaired by f1f5953) -/
theorem C15_keepalive_never_stuck (tbl) (hd : Distinct tbl) (hf : Fresh tbl) (s : State) (h : Reach tbl s)
    (hk : s.ka = .select) : s.tickerStopped = false ∨ s.connDone = true := by
  cases ht : s.tickerStopped with
  | false => exact Or.inl rfl
  | true => exact Or.inr ((invKa tbl hd hf s h).stoppedDone hk ht)

/-! ## "every blocked Submit returns … promptly", "never outlives its own context": states at rest

Goroutine steps (`Label.internal`: callers past their start, Watch, the transport's Write returning) strictly decrease the
measure `mu` (`C15_no_livelock`), so after the last environment event the goroutines come to rest after finitely many steps,
whatever the schedule.  In EVERY reachable state at rest: -/

/-- once the connection context is done (transport end seen by Watch, Close returned answered or not, parent cancelled)
every call that was started HAS RETURNED, and Watch has returned — or is parked in Read on a transport that is still open
with nothing to read (parent cancellation alone does not interrupt a blocked Read; ReadTimeout, outside the model, does) -/
theorem C15_all_returned_after_teardown (tbl) (hd : Distinct tbl) (hf : Fresh tbl) (s : State) (hr : ReachP tbl s)
    (hq : Quiescent s) (hconn : s.connDone = true) :
    (∀ i, (s.callers i).pc = .idle ∨ ∃ r, (s.callers i).pc = .done r) ∧
    (s.watch = .returned ∨ (s.watch = .reading ∧ s.inbound = [] ∧ s.readSide = .open)) :=
  teardown_quiescent tbl hd hf s hr hq hconn

/-- a call never outlives its own context: at rest, a call whose context is done has returned (or was never started) -/
theorem C15_not_outliving_own_context (s : State) (hq : Quiescent s) (i : Nat) (hown : (s.callers i).ownDone = true) :
    (s.callers i).pc = .idle ∨ ∃ r, (s.callers i).pc = .done r := by
  rcases quiescent_pc s hq i with h | h | ⟨_, _, _, h⟩
  · exact Or.inl h
  · exact Or.inr h
  · rw [hown] at h; cases h

/-- once the transport's read side has ended, Watch is not left reading: at rest it has returned (Done() closed) -/
theorem C15_watch_returned_after_transport_end (tbl) (hd : Distinct tbl) (hf : Fresh tbl) (s : State) (hr : ReachP tbl s)
    (hq : Quiescent s) (hend : s.readSide ≠ .open) (hdrain : s.draining = true) : s.watch = .returned ∧ s.connDone = true := by
  obtain ⟨_, _, h3, _⟩ := inv_all tbl hd hf s hr.reach
  rcases quiescent_watch s hq with hw | ⟨_, _, ho⟩ | ⟨k, p, q, hw, hb⟩ | ⟨p, _, hdr, _⟩
  · exact ⟨hw, (h3.watchDone hw).1⟩
  · exact absurd ho hend
  · exact absurd hb (fun hb => no_double_delivery tbl hd hf s hr k p q hw hb)
  · rw [hdrain] at hdr; cases hdr

theorem C15_no_livelock (tbl) (hd : Distinct tbl) (hf : Fresh tbl) (n : Nat) (ls : List Label) (s s' : State)
    (hr : ReachP tbl s) (hb : Bounded n s) (hall : ∀ l ∈ ls, l.internal = true) (hrun : run s ls = some s') :
    ls.length ≤ mu n s := by
  have := (internal_run_bound tbl hd hf n ls s s' hr hb hall hrun).1
  omega

/-! ### non-vacuity of the at-rest theorems: peer EOF with one Submit outstanding -/

def tblT : Nat → Caller := fun i => { kind := .submit, seq := (i : Int) + 1, after := none }

def scriptT : List Label :=
  [.start 0, .check 0, .write 0, .writeRet 0, .transportEOF, .wPoll, .wRead, .wExit, .seeConnDone 0, .finish 0]

theorem runT : ∃ s, run (init tblT) scriptT = some s ∧ (s.callers 0).pc = .done (.err .closed) ∧
    s.connDone = true ∧ s.watch = .returned ∧ s.queueClosed = true ∧ (∀ j, j ≠ 0 → (s.callers j).pc = .idle) := by
  simp [run, scriptT, step, init, tblT, setPc, upd, updI, predDone]
  intro j hj; simp [hj]

/-- the premises of `C15_all_returned_after_teardown` are satisfiable: peer EOF with one Submit outstanding -/
example : ∃ s, ReachP tblT s ∧ Quiescent s ∧ s.connDone = true ∧ (s.callers 0).pc = .done (.err .closed) ∧ s.watch = .returned := by
  obtain ⟨s, hrun, hpc, hc, hw, _, hidle⟩ := runT
  refine ⟨s, ?_, ?_, hc, hpc, hw⟩
  · refine reachP_run tblT scriptT _ s ReachP.init ?_ hrun
    intro l hl
    simp [scriptT] at hl
    rcases hl with rfl | rfl | rfl | rfl | rfl | rfl | rfl | rfl | rfl | rfl <;> simp [AdmissibleP, Admissible, tblT]
  · apply quiescent_of_returned s hw
    intro j
    by_cases hj : j = 0
    · subst hj; exact Or.inr ⟨_, hpc⟩
    · exact Or.inl (hidle j hj)

/-! ## non-vacuity: the window the property names — an unsolicited PDU right after unbind_resp, nobody receiving -/
def tblc : Nat → Caller := fun _ => { kind := .close, seq := 9, after := none }

example : ((run (init tblc) [.setDrain false, .start 0, .check 0, .write 0, .writeRet 0, .peerAnswer 0, .peerUnsol 77 1,
    .wPoll, .wRead, .wLookup, .wDeliver, .wPoll, .wRead, .wLookup,       -- Watch now offers PDU 77 to nobody
    .takeResp 0, .finish 0, .closeTransport 0, .closeCancel 0,           -- Close completes
    .wOfferCancel, .wExit]).map fun s => (s.panicked, s.connDone, s.queueClosed, s.watch, (s.callers 0).pc))
    = some (false, true, true, .returned, .done (.resp ⟨9, .ans 0⟩)) := by decide +kernel

/-- a keep-alive that goes unanswered: own deadline, Close (unbind unanswered too), cancel, the loop returns -/
def tblka : Nat → Caller := fun i => if i = 0 then { kind := .submit, seq := 1, after := none } else { kind := .close, seq := 2, after := none }

example : ((run (init tblka) [.kaStart, .kaSend 0, .start 0, .check 0, .write 0, .writeRet 0, .deadline 0, .seeOwnDone 0, .finish 0,
    .kaSubmitDone, .kaClose 1, .start 1, .check 1, .write 1, .writeRet 1, .deadline 1, .seeOwnDone 1, .finish 1,
    .closeTransport 1, .closeCancel 1, .kaCloseDone, .kaExit]).map fun s => (s.ka, s.connDone, s.tickerStopped))
    = some (.returned, true, true) := by decide +kernel

end Smpp.Properties.C15
