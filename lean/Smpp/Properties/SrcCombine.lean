-- Expectations on the regenerated source snapshot group Combine (written by tools/gen_srcgroup_expect.py after the models
-- were validated against this source).  A changed statement or declaration breaks the lemma of its function / file.
import Smpp.Generated.SrcCombine
namespace Smpp.Properties.SrcCombine
open Smpp.Generated.SrcCombine

theorem exp_pdu_message_multipart_CombineMultipartDeliverSM : src_pdu_message_multipart_CombineMultipartDeliverSM = [
  "sig: func(on func([]*DeliverSM)) func(*DeliverSM)",
  "type key struct { source, dest Address reference uint16 }",
  "registry := make(map[key][]*DeliverSM)",
  "isDone := func(id key, total byte) bool { for _, sm := range registry[id] { if sm != nil { total-- } } return total == 0 }",
  "return func(p *DeliverSM) { header := p.Message.UDHeader.ConcatenatedHeader() if header == nil { on([]*DeliverSM{p}) } else if header.Sequence == 0 || header.Sequence > header.TotalParts { return } else { id := key{p.SourceAddr, p.DestAddr, header.Reference} if _, ok := registry[id]; !ok { registry[id] = make([]*DeliverSM, header.TotalParts) } if len(registry[id]) != int(header.TotalParts) { return } registry[id][header.Sequence-1] = p if isDone(id, header.TotalParts) { on(registry[id]) delete(registry, id) } } }"] := rfl

theorem exp_pdu_udh_UserDataHeader_ConcatenatedHeader : src_pdu_udh_UserDataHeader_ConcatenatedHeader = [
  "sig: func() *ConcatenatedHeader",
  "if data, ok := h[0x00]; ok && len(data) >= 3 { return &ConcatenatedHeader{ Reference: uint16(data[0]), TotalParts: data[1], Sequence: data[2], } } else if data, ok = h[0x08]; ok && len(data) >= 4 { return &ConcatenatedHeader{ Reference: binary.BigEndian.Uint16(data[0:2]), TotalParts: data[2], Sequence: data[3], } }",
  "return nil"] := rfl

end Smpp.Properties.SrcCombine
