/-
C19 — SMS-DELIVER / SMS-SUBMIT TPDUs decode to the values GSM 03.40 assigns and re-encode identically.

What is proved here is field-level agreement between the model of package sms and the INDEPENDENT
layout model Spec/Gsm0340.lean, for every value of each field's domain:
first octets (all 256), relative validity periods (all 256), numeric addresses (every digit string of
1..254 digits, leading zeros, odd and even counts), time stamps (every valid civil date and time of
2000–2099 with a non-negative zone), user data.  The composition of the fields into whole TPDUs
(`C19_full`) is checked differentially on TPDUs built by the specification (ops smsd / smss); it is stated
below and NOT claimed as a theorem.  Four classes of the full statement are refuted by proved witnesses
(known findings).
-/
import Smpp.Proofs.SmsSpec
import Smpp.Properties.SmsSource
import Smpp.Generated.SmsFacts
import Smpp.Generated.Gsm7Facts

namespace Smpp.Properties.C19
open Smpp Smpp.Sms Smpp.Time Smpp.Generated Smpp.Spec.Gsm0340

def env : Env := ⟨gsmReverse, gsmEscapes, tpduLayouts, flagLayouts⟩

/-! ## expectations on regenerated facts -/

/-- SMS-DELIVER: fields in the order of §9.2.2.1 behind the SC address, each dispatched to the codec of its kind -/
theorem deliver_layout : (tpduLayouts.find? (·.name == "Deliver")).map (fun L => L.fields.map fun f => (f.tp, f.dir, f.ukind, f.mkind)) =
    some [("SC", "", .scaddr, .scaddr), ("", "MT", .flags "DeliverFlags", .flags "DeliverFlags"), ("OA", "", .addr, .addr),
      ("PID", "", .byte, .byte), ("DCS", "", .byte, .byte), ("SCTS", "", .time, .time), ("UD", "", .bytes, .bytes)] := by
  decide +kernel

/-- SMS-SUBMIT: §9.2.2.2 -/
theorem submit_layout : (tpduLayouts.find? (·.name == "Submit")).map (fun L => L.fields.map fun f => (f.tp, f.dir, f.ukind, f.mkind)) =
    some [("SC", "", .scaddr, .scaddr), ("", "MO", .flags "SubmitFlags", .flags "SubmitFlags"), ("MR", "", .byte, .byte),
      ("DA", "", .addr, .addr), ("PID", "", .byte, .byte), ("DCS", "", .byte, .byte), ("VP", "", .iface, .iface),
      ("UD", "", .bytes, .bytes)] := by
  decide +kernel

def submitKinds : List FlagKind := flagKinds flagLayouts "SubmitFlags"
def deliverKinds : List FlagKind := flagKinds flagLayouts "DeliverFlags"

/-! ## first octet -/

/-- **SMS-SUBMIT first octet**: every one of the 256 values survives decode → encode (the validity-period
format written back is the one decoded) -/
theorem C19_submit_first_octet : ∀ b : Fin 256,
    (let v := setDirection 1 submitKinds (unmarshalFlags (UInt8.ofNat b.val) submitKinds 0)
     marshalFlags submitKinds (v.set 2 (v.getD 2 0)) 0) = b.val := by decide +kernel

/-- the validity-period format the walk reads from the flags is bits 4..3 of the octet -/
theorem C19_submit_vpf : ∀ b : Fin 256,
    (unmarshalFlags (UInt8.ofNat b.val) submitKinds 0).getD 2 0 = b.val / 8 % 4 := by decide +kernel

/-- **SMS-DELIVER first octet** below 0x40 (bits 7..6 clear) survives; see `C19_cex_deliver_first_octet` -/
theorem C19_deliver_first_octet_partial : ∀ b : Fin 64,
    marshalFlags deliverKinds (setDirection 0 deliverKinds (unmarshalFlags (UInt8.ofNat b.val) deliverKinds 0)) 0 = b.val := by
  decide +kernel

/-- the message type decoded from bits 1..0 with the direction the SC address dictates selects the structure -/
theorem C19_type_dispatch :
    (∀ b : Fin 256, b.val % 4 = 0 → typeName ((b.val % 4 * 2 + 0) % 8) false = some "Deliver") ∧
    (∀ b : Fin 256, b.val % 4 = 1 → ∀ f, typeName ((b.val % 4 * 2 + 1) % 8) f = some "Submit") := by
  constructor
  · intro b hb; simp [hb, typeName]
  · intro b hb f; simp [hb, typeName]

/-! ## validity period -/

/-- **relative validity period**: all 256 values decode to the duration of §9.2.3.12.1 and re-encode to themselves
(144 = 12 h 30 min was written as 149 before 8cdadf1) -/
theorem C19_relative : ∀ n : Fin 256,
    relToSecs n.val = 60 * relativeMinutes n.val ∧ secsToRel (relToSecs n.val) = UInt8.ofNat n.val := by
  decide +kernel

/-- the relative period inside the enhanced format, and the seconds form, re-encode to the same seven octets -/
theorem C19_enhanced_simple : ∀ n : Fin 256,
    writeEnh (relToSecs n.val) 1 = .ok [1, UInt8.ofNat n.val, 0, 0, 0, 0, 0] ∧
    writeEnh n.val 2 = .ok [2, UInt8.ofNat n.val, 0, 0, 0, 0, 0] := by
  decide +kernel

/-! ## numeric addresses -/

theorem toa_bits : ∀ t : Fin 8, ∀ n : Fin 16,
    (toa t.val n.val &&& (0x0F : UInt8)) = UInt8.ofNat n.val ∧
    ((toa t.val n.val >>> (4 : UInt8)) &&& (0x07 : UInt8)) = UInt8.ofNat t.val ∧
    ((UInt8.ofNat n.val &&& (0x0F : UInt8)) ||| ((UInt8.ofNat t.val &&& (0x07 : UInt8)) <<< (4 : UInt8)) ||| (0x80 : UInt8)) = toa t.val n.val := by
  decide +kernel

theorem half_len : ∀ l : Fin 255, ((UInt8.ofNat l.val + 1) / 2).toNat = (l.val + 1) / 2 := by decide +kernel

theorem rdN_exact (a rest : Bytes) (h : a ≠ []) : rdN a.length (a ++ rest) = .ok (a, rest) := by
  unfold rdN
  have h1 : a.length ≠ 0 := by
    intro h0; exact h (List.length_eq_zero_iff.mp h0)
  simp only [h1, ↓reduceIte]
  have h2 : (a ++ rest).isEmpty = false := by
    cases a with
    | nil => exact absurd rfl h
    | cons x xs => rfl
  simp [h2]

/-- **numeric address, decoding**: the TP-OA / TP-DA field the specification lays out for ANY digit string of
1..254 digits (odd or even count, leading zeros) decodes to exactly those digits with type and plan -/
theorem C19_address_numeric_decode (rev : List Nat) (escs : List (Nat × Nat)) (ton npi : Nat) (ds : List Nat) (rest : Bytes)
    (hton : ton < 8) (hnpi : npi < 16) (hnot5 : ton ≠ 5) (hds : ∀ d ∈ ds, d ≤ 9) (hlen : 1 ≤ ds.length ∧ ds.length ≤ 254) :
    readAddr rev escs (addressField ⟨ton, npi, .digits ds⟩ ++ rest)
      = .ok (⟨UInt8.ofNat npi, UInt8.ofNat ton, ds.map (· + 48)⟩, rest) := by
  obtain ⟨hb1, hb2, _⟩ := toa_bits ⟨ton, hton⟩ ⟨npi, hnpi⟩
  simp only at hb1 hb2
  have hl0 : UInt8.ofNat ds.length ≠ 0 := by
    intro h
    have := congrArg UInt8.toNat h
    simp [UInt8.toNat_ofNat'] at this
    omega
  have hhalf := half_len ⟨ds.length, by omega⟩
  simp only at hhalf
  have hsemi : (semiOctets ds).length = (ds.length + 1) / 2 := semiOctets_length ds
  have hne : semiOctets ds ≠ [] := by
    intro h; rw [h] at hsemi; simp at hsemi; omega
  have hton5 : UInt8.ofNat ton ≠ 5 := by
    intro h
    have := congrArg UInt8.toNat h
    simp [UInt8.toNat_ofNat'] at this
    omega
  unfold readAddr addressField
  simp only [List.cons_append, rdByte, hl0, ↓reduceIte, hb1, hb2, hhalf]
  rw [← hsemi, rdN_exact _ _ hne]
  simp only [decodeNo, hton5, ne_eq, not_false_eq_true, ↓reduceIte, decodeSemiAddress_spec ds hds]

/-- **numeric address, encoding**: what Address.WriteTo writes for those digits is the specification's field -/
theorem C19_address_numeric_encode (rev : List Nat) (escs : List (Nat × Nat)) (ton npi : Nat) (ds : List Nat)
    (hton : ton < 8) (hnpi : npi < 16) (hnot5 : ton ≠ 5) (hds : ∀ d ∈ ds, d ≤ 9) (hlen : 1 ≤ ds.length ∧ ds.length ≤ 254) :
    writeAddr rev escs ⟨UInt8.ofNat npi, UInt8.ofNat ton, ds.map (· + 48)⟩ = addressField ⟨ton, npi, .digits ds⟩ := by
  obtain ⟨_, _, hb3⟩ := toa_bits ⟨ton, hton⟩ ⟨npi, hnpi⟩
  simp only at hb3
  have hton5 : UInt8.ofNat ton ≠ 5 := by
    intro h
    have := congrArg UInt8.toNat h
    simp [UInt8.toNat_ofNat'] at this
    omega
  have hne : (ds.map (· + 48)).isEmpty = false := by
    cases ds with
    | nil => simp at hlen
    | cons d r => rfl
  have hall : (ds.map (· + 48)).all (fun r => decide (48 ≤ r) && decide (r ≤ 57)) = true := by
    simp only [List.all_map, List.all_eq_true]
    intro d hd
    have := hds d hd
    simp; omega
  have hdig : (ds.map (· + 48)).map (fun r => UInt8.ofNat (r - 48)) = ds.map (fun d => UInt8.ofNat d) := by
    simp [List.map_map, Function.comp_def]
  have hutf : ((ds.map (· + 48)).map utf8Len).sum = ds.length := by
    have : ∀ l : List Nat, (∀ d ∈ l, d ≤ 9) → ((l.map (· + 48)).map utf8Len).sum = l.length := by
      intro l
      induction l with
      | nil => intro _; rfl
      | cons d r ih =>
        intro h
        have hd := h d (by simp)
        simp only [List.map_cons, List.sum_cons, List.length_cons]
        rw [ih (fun x hx => h x (by simp [hx]))]
        have : utf8Len (d + 48) = 1 := by unfold utf8Len; simp; omega
        omega
    exact this ds hds
  unfold writeAddr addrBinary encodeSemiAddress addressField
  simp only [hne, Bool.false_eq_true, ↓reduceIte, hton5, ne_eq, not_false_eq_true, hall, hdig, Option.getD_some,
    packDigits_spec ds hds, hutf, hb3]

/-! ## time stamp -/

theorem readTime_blocks (data rest : Bytes) (y mo d h mi s z : Nat) (hlen : data.length = 7)
    (hb : decodeSemi data = [y, mo, d, h, mi, s, z]) :
    readTime (data ++ rest) = .ok (GoDate.norm ⟨2000 + (y : Int), mo, d, h, mi, s, 0, (z : Int) * 900⟩, rest) := by
  have hne : data ≠ [] := by intro h; rw [h] at hlen; simp at hlen
  unfold readTime
  rw [← hlen, rdN_exact data rest hne]
  simp only [hb, hlen, List.length_cons, List.length_nil, ne_eq, not_true_eq_false, ↓reduceIte, idx,
    List.getElem?_cons_zero, List.getElem?_cons_succ, Nat.reduceAdd]

/-- **time stamp, decoding**: for every valid civil date and time of 2000–2099 and every zone of 0..99 quarter
hours the seven octets of §9.2.3.11 decode to that instant and offset -/
theorem C19_timestamp_decode (y mo d h mi s q : Nat) (rest : Bytes) (hy : y < 100) (hq : q < 100)
    (hv : ValidCivil (2000 + y) mo d h mi s 0) :
    readTime (timeStampField ⟨y, mo, d, h, mi, s, (q : Int)⟩ ++ rest)
      = .ok (⟨(2000 + y : Nat), mo, d, h, mi, s, 0, (q : Int) * 900⟩, rest) := by
  have hmo : mo < 100 := by have := hv.month; omega
  have hd : d < 100 := by
    have := hv.day
    have : daysInMonth (2000 + y) mo ≤ 31 := by unfold daysInMonth; split <;> (try split) <;> simp
    omega
  have hh : h < 100 := by have := hv.hour; omega
  have hmi : mi < 100 := by have := hv.min; omega
  have hs : s < 100 := by have := hv.sec; omega
  have hz : ¬ ((q : Int) < 0) := by omega
  have hzq : UInt8.ofNat ((bcdSwapped ((q : Int).natAbs)).toNat + 0) = bcdSwapped q := by simp
  have hfield : timeStampField ⟨y, mo, d, h, mi, s, (q : Int)⟩
      = [bcdSwapped y, bcdSwapped mo, bcdSwapped d, bcdSwapped h, bcdSwapped mi, bcdSwapped s, bcdSwapped q] := by
    unfold timeStampField
    simp only [hz, ↓reduceIte, hzq]
  have hb : decodeSemi [bcdSwapped y, bcdSwapped mo, bcdSwapped d, bcdSwapped h, bcdSwapped mi, bcdSwapped s, bcdSwapped q]
      = [y, mo, d, h, mi, s, q] := by
    rw [decodeSemi_bcd _ hy, decodeSemi_bcd _ hmo, decodeSemi_bcd _ hd, decodeSemi_bcd _ hh, decodeSemi_bcd _ hmi,
      decodeSemi_bcd _ hs, decodeSemi_bcd _ hq]
    rfl
  rw [hfield, readTime_blocks _ rest y mo d h mi s q rfl hb]
  have := norm_valid (2000 + y) mo d h mi s 0 ((q : Int) * 900) hv
  simp only [Int.natCast_zero, Int.zero_mul, Int.natCast_add] at this
  have e : ((2000 : Nat) : Int) = 2000 := rfl
  rw [e] at this
  rw [this]
  simp only [Int.natCast_add]
  rfl

/-- **time stamp, encoding**: Time.WriteTo of that instant writes the specification's seven octets -/
theorem C19_timestamp_encode (y mo d h mi s q : Nat) (hy : y < 100) (hq : q < 100)
    (hv : ValidCivil (2000 + y) mo d h mi s 0) :
    writeTime ⟨(2000 + y : Nat), mo, d, h, mi, s, 0, (q : Int) * 900⟩ = timeStampField ⟨y, mo, d, h, mi, s, (q : Int)⟩ := by
  have hmo : mo < 100 := by have := hv.month; omega
  have hd : d < 100 := by
    have := hv.day
    have : daysInMonth (2000 + y) mo ≤ 31 := by unfold daysInMonth; split <;> (try split) <;> simp
    omega
  have hh : h < 100 := by have := hv.hour; omega
  have hmi : mi < 100 := by have := hv.min; omega
  have hs : s < 100 := by have := hv.sec; omega
  have hz : ¬ ((q : Int) < 0) := by omega
  unfold writeTime timeStampField
  have e1 : ((2000 + y : Nat) : Int) - 2000 = (y : Int) := by omega
  have e2 : Int.tdiv ((q : Int) * 900) 900 = (q : Int) := by
    rw [Int.tdiv_eq_ediv_of_nonneg (by omega)]; omega
  simp only [e1, e2, hz, ↓reduceIte]
  have := encodeSemi_bcd [y, mo, d, h, mi, s, q] (by
    intro v hv'
    simp only [List.mem_cons, List.not_mem_nil, or_false] at hv'
    rcases hv' with rfl | rfl | rfl | rfl | rfl | rfl | rfl <;> assumption)
  simp only [List.map_cons, List.map_nil] at this
  rw [this]
  simp

/-! ## user data -/

/-- **user data**: UDL octets followed by that many octets decode to exactly those octets, and are written back
unchanged unless they end in 0x00 (known finding C19-ud-zero) -/
theorem C19_user_data (ud rest : Bytes) (hlen : ud.length ≤ 255) (hne : ud ≠ []) (hlast : ud.getLast? ≠ some 0) (e : Env) (f : TField)
    (hu : f.ukind = .bytes) (hm : f.mkind = .bytes) (st : WalkState) :
    stepField e.rev e.escs e.flagLayouts f st (UInt8.ofNat ud.length :: ud ++ rest) = .ok (.bytes ud, rest, st) ∧
    marshalField e 0 f (.bytes ud) = .ok (UInt8.ofNat ud.length :: ud) := by
  constructor
  · unfold stepField
    simp only [hu, List.cons_append, rdByte]
    have : (UInt8.ofNat ud.length).toNat = ud.length := by simp [UInt8.toNat_ofNat']; omega
    rw [this, rdN_exact ud rest hne]
  · unfold marshalField
    simp only [hm]
    have : (ud.reverse.dropWhile (· == 0)).reverse = ud := by
      have hr : ud.reverse.dropWhile (· == 0) = ud.reverse := by
        cases hrev : ud.reverse with
        | nil => rfl
        | cons x xs =>
          have hx : ud.getLast? = some x := by
            rw [List.getLast?_eq_head?_reverse, hrev]; rfl
          have hx0 : x ≠ 0 := by
            intro h0; rw [h0] at hx; exact hlast hx
          have hb : (x == 0) = false := by simpa using hx0
          simp [List.dropWhile, hb]
      rw [hr, List.reverse_reverse]
    rw [this]

/-! ## the full statement (NOT a theorem here) and its refuted classes -/

/-- the first octet of a DELIVER the code can reproduce, etc.: the sub-domain on which no known finding applies -/
def DeliverInDomain (d : Deliver) : Prop :=
  d.firstOctet < 64 ∧ d.scts.zone ≥ 0 ∧ d.udl = d.ud.length ∧ d.ud.getLast? ≠ some 0 ∧
  (match d.oa.value with | .alpha ss => ss.length < 4 ∨ 7 < ss.length | .digits _ => True)

/-- full-strength statement for SMS-DELIVER: what the property demands of every well-formed TPDU.  Proved above field by
field; composed only differentially (op smsd); false outside `DeliverInDomain` (witnesses below). -/
def C19_full_deliver : Prop :=
  ∀ d : Deliver, ∀ p, unmarshal env (deliver d) = .ok p → marshal env p = .ok (deliver d)

def bytesOf (r : R Tpdu) : R Bytes :=
  match r with
  | .ok p => marshal env p
  | .err e => .err e
  | .panic s => .panic s

def sampleAddr : Address := ⟨1, 1, .digits [6, 1, 4, 0, 9, 8, 6, 5, 6, 2, 9]⟩
def sampleTime : TimeStamp := ⟨17, 8, 31, 11, 21, 54, 32⟩
def sampleDeliver : Deliver := ⟨sampleAddr, 4, sampleAddr, 0, 4, sampleTime, 2, [0x41, 0x42]⟩

/-- KNOWN FINDING C19-deliver-first-octet: TP-UDHI (bit 6) is dropped -/
theorem C19_cex_deliver_first_octet :
    bytesOf (unmarshal env (deliver { sampleDeliver with firstOctet := 0x44 })) ≠ .ok (deliver { sampleDeliver with firstOctet := 0x44 }) := by
  decide +kernel

/-- KNOWN FINDING C19-ud-zero: user data ending in 0x00 loses that octet -/
theorem C19_cex_ud_zero :
    bytesOf (unmarshal env (deliver { sampleDeliver with ud := [0x41, 0x00] })) ≠ .ok (deliver { sampleDeliver with ud := [0x41, 0x00] }) := by
  decide +kernel

/-- KNOWN FINDING C19-alnum-length: a four-character alphanumeric address is re-encoded with length 8 instead of 7 -/
theorem C19_cex_alnum :
    bytesOf (unmarshal env (deliver { sampleDeliver with oa := ⟨5, 0, .alpha [65, 66, 67, 68]⟩ }))
      ≠ .ok (deliver { sampleDeliver with oa := ⟨5, 0, .alpha [65, 66, 67, 68]⟩ }) := by
  decide +kernel

/-- KNOWN FINDING C19-negative-zone: zone −10 quarter hours decodes as +90 (offset 81000 s instead of −9000 s) -/
theorem C19_cex_negative_zone :
    (readTime (timeStampField { sampleTime with zone := -10 })).isOk = true ∧
    readTime (timeStampField { sampleTime with zone := -10 }) ≠ .ok (⟨2017, 8, 31, 11, 21, 54, 0, -9000⟩, []) := by
  decide +kernel

/-! ## non-vacuity -/

/-- a whole specification-built SMS-DELIVER goes through the model unchanged -/
example : bytesOf (unmarshal env (deliver sampleDeliver)) = .ok (deliver sampleDeliver) := by decide +kernel

/-- and an SMS-SUBMIT with an absolute validity period, 20 digits with leading zeros -/
example : (let s : Submit := ⟨0xA5, 7, ⟨0, 1, .digits [0, 0, 1, 2, 3, 4, 5, 6, 7, 8, 9, 0, 1, 2, 3, 4, 5, 6, 7, 8]⟩, 0, 8, .absolute sampleTime, 4, [0, 0x41, 0, 0x42]⟩
    bytesOf (unmarshal env (submit s)) = .ok (submit s)) := by decide +kernel

example : ValidCivil (2000 + 17) 8 31 11 21 54 0 := ⟨by decide, by decide, by decide, by decide, by decide, by decide, by decide⟩

end Smpp.Properties.C19
