/-
C19 — SMS-DELIVER / SMS-SUBMIT TPDUs decode to the values GSM 03.40 assigns and re-encode identically.

What is proved here is field-level agreement between the model of package sms and the INDEPENDENT
layout model Spec/Gsm0340.lean, for every value of each field's domain:
first octets (all 256), relative validity periods (all 256), numeric addresses (every digit string of
1..254 digits, leading zeros, odd and even counts), time stamps (every valid civil date and time of
2000–2099 with a non-negative zone), user data.  Whole TPDUs: `C19_deliver` / `C19_submit` prove decode-to-spec-values and octet-exact
re-encoding for the sub-domain with numeric addresses (DeliverOK / SubmitOK); the rest of the domain (alphanumeric
addresses, enhanced validity periods) is checked differentially on TPDUs built by the specification (ops smsd / smss).  Four classes of the full statement are refuted by proved witnesses
(known findings).
-/
import Smpp.Proofs.SmsSpec
import Smpp.Properties.SmsSource
import Smpp.Generated.SmsFacts
import Smpp.Generated.Gsm7Facts
import Smpp.Proofs.SmsAlnum

namespace Smpp.Properties.C19
open Smpp Smpp.Sms Smpp.Time Smpp.Generated Smpp.Spec.Gsm0340

def env : Env := ⟨gsmReverse, gsmEscapes, tpduLayouts, flagLayouts⟩

/-! ## expectations on regenerated facts -/

/-- SMS-DELIVER: fields in the order of §9.2.2.1 behind the SC address, each dispatched to the codec of its kind -/
theorem deliver_layout : (tpduLayouts.find? (·.name == "Deliver")).map (fun L => L.fields.map fun f => (f.tp, f.dir, f.ukind, f.mkind)) =
    some [("SC", "", .scaddr, .scaddr), ("", "MT", .flags "DeliverFlags", .flags "DeliverFlags"), ("OA", "", .addr, .addr),
      ("PID", "", .byte, .byte), ("DCS", "", .byte, .byte), ("SCTS", "", .time, .time), ("UD", "", .bytes, .bytes)] := by
  decide +kernel

/-- SMS-SUBMIT: §9.2.2.2 -/
theorem submit_layout : (tpduLayouts.find? (·.name == "Submit")).map (fun L => L.fields.map fun f => (f.tp, f.dir, f.ukind, f.mkind)) =
    some [("SC", "", .scaddr, .scaddr), ("", "MO", .flags "SubmitFlags", .flags "SubmitFlags"), ("MR", "", .byte, .byte),
      ("DA", "", .addr, .addr), ("PID", "", .byte, .byte), ("DCS", "", .byte, .byte), ("VP", "", .iface, .iface),
      ("UD", "", .bytes, .bytes)] := by
  decide +kernel

def submitKinds : List FlagKind := flagKinds flagLayouts "SubmitFlags"
def deliverKinds : List FlagKind := flagKinds flagLayouts "DeliverFlags"

/-! ## first octet -/

/-- **SMS-SUBMIT first octet**: every one of the 256 values survives decode → encode (the validity-period
format written back is the one decoded) -/
theorem C19_submit_first_octet : ∀ b : Fin 256,
    (let v := setDirection 1 submitKinds (unmarshalFlags (UInt8.ofNat b.val) submitKinds 0)
     marshalFlags submitKinds (v.set 2 (v.getD 2 0)) 0) = b.val := by decide +kernel

/-- the validity-period format the walk reads from the flags is bits 4..3 of the octet -/
theorem C19_submit_vpf : ∀ b : Fin 256,
    (unmarshalFlags (UInt8.ofNat b.val) submitKinds 0).getD 2 0 = b.val / 8 % 4 := by decide +kernel

/-- **SMS-DELIVER first octet** below 0x40 (bits 7..6 clear) survives; see `C19_cex_deliver_first_octet` -/
theorem C19_deliver_first_octet_partial : ∀ b : Fin 64,
    marshalFlags deliverKinds (setDirection 0 deliverKinds (unmarshalFlags (UInt8.ofNat b.val) deliverKinds 0)) 0 = b.val := by
  decide +kernel

/-- the message type decoded from bits 1..0 with the direction the SC address dictates selects the structure -/
theorem C19_type_dispatch :
    (∀ b : Fin 256, b.val % 4 = 0 → typeName ((b.val % 4 * 2 + 0) % 8) false = some "Deliver") ∧
    (∀ b : Fin 256, b.val % 4 = 1 → ∀ f, typeName ((b.val % 4 * 2 + 1) % 8) f = some "Submit") := by
  constructor
  · intro b hb; simp [hb, typeName]
  · intro b hb f; simp [hb, typeName]

/-! ## validity period -/

/-- **relative validity period**: all 256 values decode to the duration of §9.2.3.12.1 and re-encode to themselves
(144 = 12 h 30 min was written as 149 before 8cdadf1) -/
theorem C19_relative : ∀ n : Fin 256,
    relToSecs n.val = 60 * relativeMinutes n.val ∧ secsToRel (relToSecs n.val) = UInt8.ofNat n.val := by
  decide +kernel

/-- the relative period inside the enhanced format, and the seconds form, re-encode to the same seven octets -/
theorem C19_enhanced_simple : ∀ n : Fin 256,
    writeEnh (relToSecs n.val) 1 = .ok [1, UInt8.ofNat n.val, 0, 0, 0, 0, 0] ∧
    writeEnh n.val 2 = .ok [2, UInt8.ofNat n.val, 0, 0, 0, 0, 0] := by
  decide +kernel

/-! ## numeric addresses -/

theorem toa_bits : ∀ t : Fin 8, ∀ n : Fin 16,
    (toa t.val n.val &&& (0x0F : UInt8)) = UInt8.ofNat n.val ∧
    ((toa t.val n.val >>> (4 : UInt8)) &&& (0x07 : UInt8)) = UInt8.ofNat t.val ∧
    ((UInt8.ofNat n.val &&& (0x0F : UInt8)) ||| ((UInt8.ofNat t.val &&& (0x07 : UInt8)) <<< (4 : UInt8)) ||| (0x80 : UInt8)) = toa t.val n.val := by
  decide +kernel

theorem half_len : ∀ l : Fin 255, ((UInt8.ofNat l.val + 1) / 2).toNat = (l.val + 1) / 2 := by decide +kernel

theorem rdN_exact (a rest : Bytes) (h : a ≠ []) : rdN a.length (a ++ rest) = .ok (a, rest) := by
  unfold rdN
  have h1 : a.length ≠ 0 := by
    intro h0; exact h (List.length_eq_zero_iff.mp h0)
  simp only [h1, ↓reduceIte]
  have h2 : (a ++ rest).isEmpty = false := by
    cases a with
    | nil => exact absurd rfl h
    | cons x xs => rfl
  simp [h2]

/-- **numeric address, decoding**: the TP-OA / TP-DA field the specification lays out for ANY digit string of
1..254 digits (odd or even count, leading zeros) decodes to exactly those digits with type and plan -/
theorem C19_address_numeric_decode (rev : List Nat) (escs : List (Nat × Nat)) (ton npi : Nat) (ds : List Nat) (rest : Bytes)
    (hton : ton < 8) (hnpi : npi < 16) (hnot5 : ton ≠ 5) (hds : ∀ d ∈ ds, d ≤ 9) (hlen : 1 ≤ ds.length ∧ ds.length ≤ 254) :
    readAddr rev escs (addressField ⟨ton, npi, .digits ds⟩ ++ rest)
      = .ok (⟨UInt8.ofNat npi, UInt8.ofNat ton, ds.map (· + 48)⟩, rest) := by
  obtain ⟨hb1, hb2, _⟩ := toa_bits ⟨ton, hton⟩ ⟨npi, hnpi⟩
  simp only at hb1 hb2
  have hl0 : UInt8.ofNat ds.length ≠ 0 := by
    intro h
    have := congrArg UInt8.toNat h
    simp [UInt8.toNat_ofNat'] at this
    omega
  have hhalf := half_len ⟨ds.length, by omega⟩
  simp only at hhalf
  have hsemi : (semiOctets ds).length = (ds.length + 1) / 2 := semiOctets_length ds
  have hne : semiOctets ds ≠ [] := by
    intro h; rw [h] at hsemi; simp at hsemi; omega
  have hton5 : UInt8.ofNat ton ≠ 5 := by
    intro h
    have := congrArg UInt8.toNat h
    simp [UInt8.toNat_ofNat'] at this
    omega
  unfold readAddr addressField
  simp only [List.cons_append, rdByte, hl0, ↓reduceIte, hb1, hb2, hhalf]
  rw [← hsemi, rdN_exact _ _ hne]
  simp only [decodeNo, hton5, ne_eq, not_false_eq_true, ↓reduceIte, decodeSemiAddress_spec ds hds]

/-- **numeric address, encoding**: what Address.WriteTo writes for those digits is the specification's field -/
theorem C19_address_numeric_encode (rev : List Nat) (escs : List (Nat × Nat)) (ton npi : Nat) (ds : List Nat)
    (hton : ton < 8) (hnpi : npi < 16) (hnot5 : ton ≠ 5) (hds : ∀ d ∈ ds, d ≤ 9) (hlen : 1 ≤ ds.length ∧ ds.length ≤ 254) :
    writeAddr rev escs ⟨UInt8.ofNat npi, UInt8.ofNat ton, ds.map (· + 48)⟩ = addressField ⟨ton, npi, .digits ds⟩ := by
  obtain ⟨_, _, hb3⟩ := toa_bits ⟨ton, hton⟩ ⟨npi, hnpi⟩
  simp only at hb3
  have hton5 : UInt8.ofNat ton ≠ 5 := by
    intro h
    have := congrArg UInt8.toNat h
    simp [UInt8.toNat_ofNat'] at this
    omega
  have hne : (ds.map (· + 48)).isEmpty = false := by
    cases ds with
    | nil => simp at hlen
    | cons d r => rfl
  have hall : (ds.map (· + 48)).all (fun r => decide (48 ≤ r) && decide (r ≤ 57)) = true := by
    simp only [List.all_map, List.all_eq_true]
    intro d hd
    have := hds d hd
    simp; omega
  have hdig : (ds.map (· + 48)).map (fun r => UInt8.ofNat (r - 48)) = ds.map (fun d => UInt8.ofNat d) := by
    simp [List.map_map, Function.comp_def]
  have hutf : ((ds.map (· + 48)).map utf8Len).sum = ds.length := by
    have : ∀ l : List Nat, (∀ d ∈ l, d ≤ 9) → ((l.map (· + 48)).map utf8Len).sum = l.length := by
      intro l
      induction l with
      | nil => intro _; rfl
      | cons d r ih =>
        intro h
        have hd := h d (by simp)
        simp only [List.map_cons, List.sum_cons, List.length_cons]
        rw [ih (fun x hx => h x (by simp [hx]))]
        have : utf8Len (d + 48) = 1 := by unfold utf8Len; simp; omega
        omega
    exact this ds hds
  unfold writeAddr addrBinary encodeSemiAddress addressField
  simp only [hne, Bool.false_eq_true, ↓reduceIte, hton5, ne_eq, not_false_eq_true, hall, hdig, Option.getD_some,
    packDigits_spec ds hds, hutf, hb3]

/-! ## alphanumeric addresses (TON 101) outside the known deviation class

`Proofs/SmsAlnum.lean` shows that the specification's septet packing with zero fill bits IS the library's packing whenever the
library adds no CR filler, and C08's round-trip theorem gives the decoding.  Septet counts 4..7 are the known finding
C19-alnum-4to7 (the witness `C19_cex_alnum` below); a text ending in CR with a multiple of eight septets is C08's documented
ambiguity. -/

/-- the regenerated GSM 7-bit tables are well-formed (as in C08) -/
theorem gsm_tables_ok : Smpp.Gsm7.tablesOK gsmReverse gsmEscapes = true := by decide +kernel

open Smpp.Gsm7 in
/-- **alphanumeric address, encoding**: what Address.WriteTo writes for such a text is the specification's field
(Address-Length = useful semi-octets, TON 101, septets packed with zero fill bits) -/
theorem C19_address_alnum_encode (npi : Nat) (t s : List Nat) (hnpi : npi < 16) (h : AlnumAddr t s) :
    writeAddr gsmReverse gsmEscapes ⟨UInt8.ofNat npi, 5, t⟩ = addressField ⟨5, npi, .alpha s⟩ := by
  obtain ⟨henc, hlen, _, hne⟩ := alnum_encode_pack t s h
  obtain ⟨_, _, hb3⟩ := toa_bits ⟨5, by omega⟩ ⟨npi, hnpi⟩
  simp only at hb3
  have hemp : t.isEmpty = false := by cases t <;> simp_all
  have h7 : s.length % 8 ≠ 7 := by
    have := h.len
    simp only [List.mem_cons, List.not_mem_nil, or_false] at this
    omega
  unfold writeAddr addrBinary addressField
  simp only [hemp, Bool.false_eq_true, ↓reduceIte, ne_eq, not_true_eq_false, henc, Option.getD_some, hlen,
    packSeptets_eq_pack s h7]
  have hk : ((UInt8.ofNat npi &&& (0x0F : UInt8)) ||| (((5 : UInt8) &&& (0x07 : UInt8)) <<< (4 : UInt8)) ||| (0x80 : UInt8)) = toa 5 npi := hb3
  rw [hk]
  have hL : UInt8.ofNat ((7 * s.length + 7) / 8) * 2 = UInt8.ofNat ((7 * s.length + 3) / 4) := by
    have := h.len
    simp only [List.mem_cons, List.not_mem_nil, or_false] at this
    rcases this with h1 | h1 | h1 | h1 | h1 | h1 | h1 <;> rw [h1] <;> decide
  rw [hL]

open Smpp.Gsm7 in
/-- **alphanumeric address, decoding**: the TP-OA / TP-DA field the specification lays out for such a text decodes to
exactly that text with TON 101 and the plan — unless the text ends in CR with a multiple of eight septets, where the
library's filler rule (C08) takes the CR for padding -/
theorem C19_address_alnum_decode (npi : Nat) (t s : List Nat) (rest : Bytes) (hnpi : npi < 16) (h : AlnumAddr t s)
    (hcr : ¬ (s.length % 8 = 0 ∧ t.getLast? = some 13)) :
    readAddr gsmReverse gsmEscapes (addressField ⟨5, npi, .alpha s⟩ ++ rest) = .ok (⟨UInt8.ofNat npi, 5, t⟩, rest) := by
  obtain ⟨henc, hlen, hpne, hne⟩ := alnum_encode_pack t s h
  obtain ⟨hb1, hb2, _⟩ := toa_bits ⟨5, by omega⟩ ⟨npi, hnpi⟩
  simp only at hb1 hb2
  have h7 : s.length % 8 ≠ 7 := by
    have := h.len
    simp only [List.mem_cons, List.not_mem_nil, or_false] at this
    omega
  obtain ⟨hhalf, hl0⟩ := alnum_halflen s.length h.len
  have hdec : decode gsmReverse gsmEscapes (pack s) = some t := by
    rcases decode_encode gsm_tables_ok t (pack s) henc with hd | ⟨s', hs', h0, hlast, _⟩
    · exact hd
    · have : s' = s := by
        have := h.septets; rw [hs'] at this; exact (Option.some.inj this)
      subst this
      exact absurd ⟨h0, hlast⟩ hcr
  unfold readAddr addressField
  simp only [List.cons_append, rdByte, hl0, ↓reduceIte, hb1, hb2, hhalf, packSeptets_eq_pack s h7]
  rw [← hlen, rdN_exact _ _ hpne]
  simp only [decodeNo, ne_eq, hdec]
  rfl


/-- non-vacuity: "Café Sol" — eight septets, one of them a national character whose septet differs from its code point -/
example : AlnumAddr [67, 97, 102, 233, 32, 83, 111, 108] [67, 97, 102, 5, 32, 83, 111, 108] := ⟨by decide +kernel, by decide⟩

/-! ## time stamp -/

theorem readTime_blocks (data rest : Bytes) (y mo d h mi s z : Nat) (hlen : data.length = 7)
    (hb : decodeSemi data = [y, mo, d, h, mi, s, z]) :
    readTime (data ++ rest) = .ok (GoDate.norm ⟨2000 + (y : Int), mo, d, h, mi, s, 0, (z : Int) * 900⟩, rest) := by
  have hne : data ≠ [] := by intro h; rw [h] at hlen; simp at hlen
  unfold readTime
  rw [← hlen, rdN_exact data rest hne]
  simp only [hb, hlen, List.length_cons, List.length_nil, ne_eq, not_true_eq_false, ↓reduceIte, idx,
    List.getElem?_cons_zero, List.getElem?_cons_succ, Nat.reduceAdd]

/-- **time stamp, decoding**: for every valid civil date and time of 2000–2099 and every zone of 0..99 quarter
hours the seven octets of §9.2.3.11 decode to that instant and offset -/
theorem C19_timestamp_decode (y mo d h mi s q : Nat) (rest : Bytes) (hy : y < 100) (hq : q < 100)
    (hv : ValidCivil (2000 + y) mo d h mi s 0) :
    readTime (timeStampField ⟨y, mo, d, h, mi, s, (q : Int)⟩ ++ rest)
      = .ok (⟨(2000 + y : Nat), mo, d, h, mi, s, 0, (q : Int) * 900⟩, rest) := by
  have hmo : mo < 100 := by have := hv.month; omega
  have hd : d < 100 := by
    have := hv.day
    have : daysInMonth (2000 + y) mo ≤ 31 := by unfold daysInMonth; split <;> (try split) <;> simp
    omega
  have hh : h < 100 := by have := hv.hour; omega
  have hmi : mi < 100 := by have := hv.min; omega
  have hs : s < 100 := by have := hv.sec; omega
  have hz : ¬ ((q : Int) < 0) := by omega
  have hzq : UInt8.ofNat ((bcdSwapped ((q : Int).natAbs)).toNat + 0) = bcdSwapped q := by simp
  have hfield : timeStampField ⟨y, mo, d, h, mi, s, (q : Int)⟩
      = [bcdSwapped y, bcdSwapped mo, bcdSwapped d, bcdSwapped h, bcdSwapped mi, bcdSwapped s, bcdSwapped q] := by
    unfold timeStampField
    simp only [hz, ↓reduceIte, hzq]
  have hb : decodeSemi [bcdSwapped y, bcdSwapped mo, bcdSwapped d, bcdSwapped h, bcdSwapped mi, bcdSwapped s, bcdSwapped q]
      = [y, mo, d, h, mi, s, q] := by
    rw [decodeSemi_bcd _ hy, decodeSemi_bcd _ hmo, decodeSemi_bcd _ hd, decodeSemi_bcd _ hh, decodeSemi_bcd _ hmi,
      decodeSemi_bcd _ hs, decodeSemi_bcd _ hq]
    rfl
  rw [hfield, readTime_blocks _ rest y mo d h mi s q rfl hb]
  have := norm_valid (2000 + y) mo d h mi s 0 ((q : Int) * 900) hv
  simp only [Int.natCast_zero, Int.zero_mul, Int.natCast_add] at this
  have e : ((2000 : Nat) : Int) = 2000 := rfl
  rw [e] at this
  rw [this]
  simp only [Int.natCast_add]
  rfl

/-- **time stamp, encoding**: Time.WriteTo of that instant writes the specification's seven octets -/
theorem C19_timestamp_encode (y mo d h mi s q : Nat) (hy : y < 100) (hq : q < 100)
    (hv : ValidCivil (2000 + y) mo d h mi s 0) :
    writeTime ⟨(2000 + y : Nat), mo, d, h, mi, s, 0, (q : Int) * 900⟩ = timeStampField ⟨y, mo, d, h, mi, s, (q : Int)⟩ := by
  have hmo : mo < 100 := by have := hv.month; omega
  have hd : d < 100 := by
    have := hv.day
    have : daysInMonth (2000 + y) mo ≤ 31 := by unfold daysInMonth; split <;> (try split) <;> simp
    omega
  have hh : h < 100 := by have := hv.hour; omega
  have hmi : mi < 100 := by have := hv.min; omega
  have hs : s < 100 := by have := hv.sec; omega
  have hz : ¬ ((q : Int) < 0) := by omega
  unfold writeTime timeStampField
  have e1 : ((2000 + y : Nat) : Int) - 2000 = (y : Int) := by omega
  have e2 : Int.tdiv ((q : Int) * 900) 900 = (q : Int) := by
    rw [Int.tdiv_eq_ediv_of_nonneg (by omega)]; omega
  simp only [e1, e2, hz, ↓reduceIte]
  have := encodeSemi_bcd [y, mo, d, h, mi, s, q] (by
    intro v hv'
    simp only [List.mem_cons, List.not_mem_nil, or_false] at hv'
    rcases hv' with rfl | rfl | rfl | rfl | rfl | rfl | rfl <;> assumption)
  simp only [List.map_cons, List.map_nil] at this
  rw [this]
  simp

/-! ## user data -/

/-- **user data**: UDL octets followed by that many octets decode to exactly those octets, and are written back
unchanged unless they end in 0x00 (known finding C19-ud-zero) -/
theorem C19_user_data (ud rest : Bytes) (hlen : ud.length ≤ 255) (hne : ud ≠ []) (hlast : ud.getLast? ≠ some 0) (e : Env) (f : TField)
    (hu : f.ukind = .bytes) (hm : f.mkind = .bytes) (st : WalkState) :
    stepField e.rev e.escs e.flagLayouts f st (UInt8.ofNat ud.length :: ud ++ rest) = .ok (.bytes ud, rest, st) ∧
    marshalField e 0 f (.bytes ud) = .ok (UInt8.ofNat ud.length :: ud) := by
  constructor
  · unfold stepField
    simp only [hu, List.cons_append, rdByte]
    have : (UInt8.ofNat ud.length).toNat = ud.length := by simp [UInt8.toNat_ofNat']; omega
    rw [this, rdN_exact ud rest hne]
  · unfold marshalField
    simp only [hm]
    have : (ud.reverse.dropWhile (· == 0)).reverse = ud := by
      have hr : ud.reverse.dropWhile (· == 0) = ud.reverse := by
        cases hrev : ud.reverse with
        | nil => rfl
        | cons x xs =>
          have hx : ud.getLast? = some x := by
            rw [List.getLast?_eq_head?_reverse, hrev]; rfl
          have hx0 : x ≠ 0 := by
            intro h0; rw [h0] at hx; exact hlast hx
          have hb : (x == 0) = false := by simpa using hx0
          simp [List.dropWhile, hb]
      rw [hr, List.reverse_reverse]
    rw [this]

/-! ## whole TPDUs: decode to the values laid out, re-encode octet for octet

For numeric addresses (TP-OA / TP-DA / SC address of 1..20 digits, any TON but alphanumeric, any NPI), any PID / DCS, a
valid time stamp with a non-negative zone, user data of 0..255 octets not ending in 0x00, SMS-DELIVER first octets below
0x40, SMS-SUBMIT with EVERY first octet and validity period absent / relative (all 256 values) / absolute.  Proved for any
environment whose Deliver / Submit layouts and flag structs are the regenerated ones, then instantiated.  Outside this
domain (alphanumeric addresses of 1..3 and 8..11 characters, enhanced validity periods) agreement is differential only. -/

def dFields : List TField := [
  ⟨"SCAddress", "SC", "", .scaddr, .scaddr⟩, ⟨"Flags", "", "MT", .flags "DeliverFlags", .flags "DeliverFlags"⟩,
  ⟨"OriginatingAddress", "OA", "", .addr, .addr⟩, ⟨"ProtocolIdentifier", "PID", "", .byte, .byte⟩,
  ⟨"DataCoding", "DCS", "", .byte, .byte⟩, ⟨"ServiceCentreTimestamp", "SCTS", "", .time, .time⟩,
  ⟨"UserData", "UD", "", .bytes, .bytes⟩]

theorem deliver_fields : tpduLayouts.find? (·.name == "Deliver") = some ⟨"Deliver", dFields⟩ := by decide +kernel

theorem deliver_flag_kinds : flagKinds flagLayouts "DeliverFlags" = [.mtype, .one, .one, .one, .one] := by decide +kernel

/-- a numeric address of the property's domain -/
structure NumAddr (a : Address) (ds : List Nat) : Prop where
  val : a.value = .digits ds
  ton : a.ton < 8 ∧ a.ton ≠ 5
  npi : a.npi < 16
  digits : ∀ d ∈ ds, d ≤ 9
  len : 1 ≤ ds.length ∧ ds.length ≤ 20

def addrVal (a : Address) (ds : List Nat) : Addr := ⟨UInt8.ofNat a.npi, UInt8.ofNat a.ton, ds.map (· + 48)⟩

/-- getType on a TPDU that starts with a non-empty SC address field: message type from bits 1..0 of the first octet, MT -/
theorem getType_sc (scf : Bytes) (fo : UInt8) (x : UInt8) (rest : Bytes) (l : UInt8) (body : Bytes)
    (hsc : scf = l :: body) (hl : l.toNat = body.length) (hpos : 0 < body.length) :
    getType (scf ++ fo :: x :: rest) = .ok ((fo.toNat % 4 * 2 + 0) % 8, x.toNat > 127) := by
  subst hsc
  unfold getType
  simp only [List.cons_append]
  have h1 : ¬ ((l :: (body ++ fo :: x :: rest)).length < l.toNat + 3) := by
    simp only [List.length_cons, List.length_append]; omega
  simp only [h1, ↓reduceIte]
  have i1 : (l :: (body ++ fo :: x :: rest))[l.toNat + 1]? = some fo := by
    rw [hl]; simp
  have i2 : (l :: (body ++ fo :: x :: rest))[l.toNat + 2]? = some x := by
    rw [hl]; simp
  have hz : ¬ (l.toNat = 0) := by omega
  simp only [idx, i1, i2, hz, ↓reduceIte]


/-- the domain on which today's code is right for SMS-DELIVER with numeric addresses (the known findings excluded) -/
structure DeliverOK (d : Deliver) (scd oad : List Nat) : Prop where
  sc : NumAddr d.sc scd
  oa : NumAddr d.oa oad
  fo : d.firstOctet < 64
  pid : d.pid < 256
  dcs : d.dcs < 256
  year : d.scts.year < 100
  zone : 0 ≤ d.scts.zone ∧ d.scts.zone < 100
  civil : ValidCivil (2000 + d.scts.year) d.scts.month d.scts.day d.scts.hour d.scts.minute d.scts.second 0
  udl : d.udl = d.ud.length ∧ d.ud.length ≤ 255
  udLast : d.ud.getLast? ≠ some 0

def deliverValue (d : Deliver) (scd oad : List Nat) : Tpdu :=
  ⟨"Deliver", [.addr (addrVal d.sc scd),
    .flags (setDirection 0 deliverKinds (unmarshalFlags (UInt8.ofNat (d.firstOctet / 4 * 4)) deliverKinds 0)),
    .addr (addrVal d.oa oad), .byte (UInt8.ofNat d.pid), .byte (UInt8.ofNat d.dcs),
    .time ⟨(2000 + d.scts.year : Nat), d.scts.month, d.scts.day, d.scts.hour, d.scts.minute, d.scts.second, 0, d.scts.zone * 900⟩,
    .bytes d.ud]⟩

theorem rdN_all (ud : Bytes) : rdN ud.length ud = .ok (ud, []) := by
  cases ud with
  | nil => simp [rdN]
  | cons x xs =>
    have := rdN_exact (x :: xs) [] (by simp)
    simpa using this

theorem sc_shape (a : Address) (ds : List Nat) (h : NumAddr a ds) :
    ∃ l body, scAddressField (some a) = l :: body ∧ l.toNat = body.length ∧ 0 < body.length := by
  obtain ⟨hv, _, _, _, hl⟩ := h
  refine ⟨UInt8.ofNat (1 + (ds.length + 1) / 2), toa a.ton a.npi :: semiOctets ds, ?_, ?_, by simp⟩
  · simp [scAddressField, hv]
  · simp [UInt8.toNat_ofNat', semiOctets_length]; omega


theorem numaddr_fields (a : Address) (ds : List Nat) (h : NumAddr a ds) : a = ⟨a.ton, a.npi, .digits ds⟩ := by
  cases a with
  | mk t n v => have := h.val; simp only at this; subst this; rfl


/-! ### one step of the walk, per field kind (no parameter indicator seen) -/

theorem uf_cons (rev escs fl) (f : TField) (fs : List TField) (st : WalkState) (bs : Bytes) (hpi : st.pi = none) :
    unmarshalFields rev escs fl (f :: fs) st bs =
      (match stepField rev escs fl f st bs with
       | .err e => .err e
       | .panic s => .panic s
       | .ok (v, bs', st') =>
         match unmarshalFields rev escs fl fs st' bs' with
         | .ok vs => .ok (v :: vs)
         | .err e => .err e
         | .panic s => .panic s) := by
  simp only [unmarshalFields, hpi, Option.isSome_none, Bool.false_and, Bool.false_eq_true, ↓reduceIte]
  cases stepField rev escs fl f st bs with
  | ok p => obtain ⟨v, b, s⟩ := p; rfl
  | err e => rfl
  | panic s => rfl

theorem sf_scaddr (rev escs fl) (f : TField) (st : WalkState) (bs r : Bytes) (a : Addr) (hk : f.ukind = .scaddr)
    (h : readSCAddr rev escs bs = .ok (a, r)) : stepField rev escs fl f st bs = .ok (.addr a, r, st) := by
  simp [stepField, hk, h]

theorem sf_addr (rev escs fl) (f : TField) (st : WalkState) (bs r : Bytes) (a : Addr) (hk : f.ukind = .addr)
    (h : readAddr rev escs bs = .ok (a, r)) : stepField rev escs fl f st bs = .ok (.addr a, r, st) := by
  simp [stepField, hk, h]

theorem sf_time (rev escs fl) (f : TField) (st : WalkState) (bs r : Bytes) (t : GoDate) (hk : f.ukind = .time)
    (h : readTime bs = .ok (t, r)) : stepField rev escs fl f st bs = .ok (.time t, r, st) := by
  simp [stepField, hk, h]

theorem sf_byte (rev escs fl) (f : TField) (st : WalkState) (b : UInt8) (r : Bytes) (hk : f.ukind = .byte) :
    stepField rev escs fl f st (b :: r) = .ok (.byte b, r, st) := by
  simp [stepField, hk, rdByte]

theorem sf_bytes (rev escs fl) (f : TField) (st : WalkState) (l : UInt8) (r d r' : Bytes) (hk : f.ukind = .bytes)
    (h : rdN l.toNat r = .ok (d, r')) : stepField rev escs fl f st (l :: r) = .ok (.bytes d, r', st) := by
  simp [stepField, hk, rdByte, h]

theorem sf_flags_mt (rev escs fl) (f : TField) (st : WalkState) (b : UInt8) (r : Bytes) (ty : String) (hk : f.ukind = .flags ty)
    (hd : f.dir = "MT") (h1 : ty ≠ "SubmitFlags") (h2 : ty ≠ "ParameterIndicator") :
    stepField rev escs fl f st (b :: r) = .ok (.flags (setDirection 0 (flagKinds fl ty) (unmarshalFlags b (flagKinds fl ty) 0)), r, st) := by
  simp [stepField, hk, rdByte, hd, h1, h2]

set_option maxHeartbeats 1000000 in
/-- the walk over the seven fields of SMS-DELIVER, for ANY environment whose Deliver flags are the five fields of DeliverFlags -/
theorem deliver_walk (e : Env) (hfl : flagKinds e.flagLayouts "DeliverFlags" = deliverKinds)
    (d : Deliver) (scd oad : List Nat) (h : DeliverOK d scd oad) :
    unmarshalFields e.rev e.escs e.flagLayouts dFields {} (deliver d) = .ok (deliverValue d scd oad).vals := by
  obtain ⟨hsc, hoa, hfo, hpid, hdcs, hy, hz, hciv, hudl, hlast⟩ := h
  have hshape : deliver d = scAddressField (some d.sc) ++ (UInt8.ofNat (d.firstOctet / 4 * 4) :: (addressField d.oa ++
      (UInt8.ofNat d.pid :: UInt8.ofNat d.dcs :: (timeStampField d.scts ++ (UInt8.ofNat d.udl :: d.ud))))) := by
    simp [deliver, List.append_assoc]
  have hsce : d.sc = ⟨d.sc.ton, d.sc.npi, .digits scd⟩ := numaddr_fields _ _ hsc
  have hoae : d.oa = ⟨d.oa.ton, d.oa.npi, .digits oad⟩ := numaddr_fields _ _ hoa
  obtain ⟨q, hq, hq100⟩ : ∃ q : Nat, d.scts.zone = (q : Int) ∧ q < 100 := ⟨d.scts.zone.toNat, by omega, by omega⟩
  have hts : d.scts = ⟨d.scts.year, d.scts.month, d.scts.day, d.scts.hour, d.scts.minute, d.scts.second, (q : Int)⟩ := by
    rw [← hq]
  have hudlN : (UInt8.ofNat d.udl).toNat = d.ud.length := by
    rw [hudl.1]; simp [UInt8.toNat_ofNat']; omega
  have r1 := Smpp.Sms.sc_decode e.rev e.escs d.sc.ton d.sc.npi scd
    (UInt8.ofNat (d.firstOctet / 4 * 4) :: (addressField d.oa ++ (UInt8.ofNat d.pid :: UInt8.ofNat d.dcs :: (timeStampField d.scts ++ (UInt8.ofNat d.udl :: d.ud)))))
    hsc.ton.1 hsc.npi hsc.ton.2 hsc.digits hsc.len
  rw [← hsce] at r1
  have r3 := C19_address_numeric_decode e.rev e.escs d.oa.ton d.oa.npi oad
    (UInt8.ofNat d.pid :: UInt8.ofNat d.dcs :: (timeStampField d.scts ++ (UInt8.ofNat d.udl :: d.ud)))
    hoa.ton.1 hoa.npi hoa.ton.2 hoa.digits ⟨hoa.len.1, by have := hoa.len.2; omega⟩
  rw [← hoae] at r3
  have r6 := C19_timestamp_decode d.scts.year d.scts.month d.scts.day d.scts.hour d.scts.minute d.scts.second q
    (UInt8.ofNat d.udl :: d.ud) hy hq100 hciv
  rw [← hts] at r6
  rw [hshape]
  unfold dFields
  rw [uf_cons _ _ _ _ _ _ _ rfl, sf_scaddr _ _ _ _ _ _ _ _ rfl r1]
  simp only
  rw [uf_cons _ _ _ _ _ _ _ rfl, sf_flags_mt _ _ _ _ _ _ _ "DeliverFlags" rfl rfl (by decide) (by decide)]
  simp only
  rw [uf_cons _ _ _ _ _ _ _ rfl, sf_addr _ _ _ _ _ _ _ _ rfl r3]
  simp only
  rw [uf_cons _ _ _ _ _ _ _ rfl, sf_byte _ _ _ _ _ _ _ rfl]
  simp only
  rw [uf_cons _ _ _ _ _ _ _ rfl, sf_byte _ _ _ _ _ _ _ rfl]
  simp only
  rw [uf_cons _ _ _ _ _ _ _ rfl, sf_time _ _ _ _ _ _ _ _ rfl r6]
  simp only
  rw [uf_cons _ _ _ _ _ _ _ rfl, sf_bytes _ _ _ _ _ _ _ _ _ rfl (by rw [hudlN]; exact rdN_all d.ud)]
  simp only [unmarshalFields, deliverValue, addrVal, hfl, hq]


/-- **SMS-DELIVER decodes to the values laid out** (numeric addresses, domain `DeliverOK`), any environment with the Deliver layout -/
theorem deliver_decode_env (e : Env) (hlay : e.layouts.find? (·.name == "Deliver") = some ⟨"Deliver", dFields⟩)
    (hfl : flagKinds e.flagLayouts "DeliverFlags" = deliverKinds)
    (d : Deliver) (scd oad : List Nat) (h : DeliverOK d scd oad) :
    unmarshal e (deliver d) = .ok (deliverValue d scd oad) := by
  have hwalk := deliver_walk e hfl d scd oad h
  obtain ⟨hsc, hoa, hfo, _, _, _, _, _, _, _⟩ := h
  have hshape : deliver d = scAddressField (some d.sc) ++ (UInt8.ofNat (d.firstOctet / 4 * 4) :: (addressField d.oa ++
      (UInt8.ofNat d.pid :: UInt8.ofNat d.dcs :: (timeStampField d.scts ++ (UInt8.ofNat d.udl :: d.ud))))) := by
    simp [deliver, List.append_assoc]
  have hoaf : addressField d.oa = UInt8.ofNat oad.length :: toa d.oa.ton d.oa.npi :: semiOctets oad := by
    simp [addressField, hoa.val]
  obtain ⟨l, body, hscf, hl, hpos⟩ := sc_shape d.sc scd hsc
  have hfoN : (UInt8.ofNat (d.firstOctet / 4 * 4)).toNat = d.firstOctet / 4 * 4 := by
    simp [UInt8.toNat_ofNat']; omega
  have hgt : getType (deliver d) = .ok (0, (UInt8.ofNat oad.length).toNat > 127) := by
    rw [hshape, hoaf]
    simp only [List.cons_append]
    rw [getType_sc _ _ _ _ l body hscf hl hpos, hfoN]
    have : d.firstOctet / 4 * 4 % 4 = 0 := by omega
    simp [this]
  unfold unmarshal
  rw [hgt]
  simp only [typeName, ↓reduceIte, hlay, hwalk]
  rfl

theorem mf_cons (e : Env) (vpf : Nat) (f : TField) (fs : List TField) (v : FVal) (vs : List FVal) (b r : Bytes)
    (h1 : marshalField e vpf f v = .ok b) (h2 : marshalFields e vpf fs vs = .ok r) :
    marshalFields e vpf (f :: fs) (v :: vs) = .ok (b ++ r) := by
  simp [marshalFields, h1, h2]

theorem trim_id (ud : Bytes) (h : ud.getLast? ≠ some 0) : (ud.reverse.dropWhile (· == 0)).reverse = ud := by
  have hr : ud.reverse.dropWhile (· == 0) = ud.reverse := by
    cases hrev : ud.reverse with
    | nil => rfl
    | cons x xs =>
      have hx : ud.getLast? = some x := by
        rw [List.getLast?_eq_head?_reverse, hrev]; rfl
      have hx0 : x ≠ 0 := by
        intro h0; rw [h0] at hx; exact h hx
      have hb : (x == 0) = false := by simpa using hx0
      simp [List.dropWhile, hb]
  rw [hr, List.reverse_reverse]

set_option maxHeartbeats 1000000 in
/-- **and re-encodes octet for octet** -/
theorem deliver_encode_env (e : Env) (hlay : e.layouts.find? (·.name == "Deliver") = some ⟨"Deliver", dFields⟩)
    (hfl : flagKinds e.flagLayouts "DeliverFlags" = deliverKinds)
    (d : Deliver) (scd oad : List Nat) (h : DeliverOK d scd oad) :
    marshal e (deliverValue d scd oad) = .ok (deliver d) := by
  obtain ⟨hsc, hoa, hfo, hpid, hdcs, hy, hz, hciv, hudl, hlast⟩ := h
  have hsce : d.sc = ⟨d.sc.ton, d.sc.npi, .digits scd⟩ := numaddr_fields _ _ hsc
  have hoae : d.oa = ⟨d.oa.ton, d.oa.npi, .digits oad⟩ := numaddr_fields _ _ hoa
  obtain ⟨q, hq, hq100⟩ : ∃ q : Nat, d.scts.zone = (q : Int) ∧ q < 100 := ⟨d.scts.zone.toNat, by omega, by omega⟩
  have hts : d.scts = ⟨d.scts.year, d.scts.month, d.scts.day, d.scts.hour, d.scts.minute, d.scts.second, (q : Int)⟩ := by
    rw [← hq]
  have w1 := Smpp.Sms.sc_encode e.rev e.escs d.sc.ton d.sc.npi scd hsc.ton.1 hsc.npi hsc.ton.2 hsc.digits hsc.len
  rw [← hsce] at w1
  have w3 := C19_address_numeric_encode e.rev e.escs d.oa.ton d.oa.npi oad hoa.ton.1 hoa.npi hoa.ton.2 hoa.digits
    ⟨hoa.len.1, by have := hoa.len.2; omega⟩
  rw [← hoae] at w3
  have w6 := C19_timestamp_encode d.scts.year d.scts.month d.scts.day d.scts.hour d.scts.minute d.scts.second q hy hq100 hciv
  rw [← hts, ← hq] at w6
  have w2 := C19_deliver_first_octet_partial ⟨d.firstOctet / 4 * 4, by omega⟩
  simp only at w2
  let fSC : TField := ⟨"SCAddress", "SC", "", .scaddr, .scaddr⟩
  let fFl : TField := ⟨"Flags", "", "MT", .flags "DeliverFlags", .flags "DeliverFlags"⟩
  let fOA : TField := ⟨"OriginatingAddress", "OA", "", .addr, .addr⟩
  let fPID : TField := ⟨"ProtocolIdentifier", "PID", "", .byte, .byte⟩
  let fDCS : TField := ⟨"DataCoding", "DCS", "", .byte, .byte⟩
  let fTS : TField := ⟨"ServiceCentreTimestamp", "SCTS", "", .time, .time⟩
  let fUD : TField := ⟨"UserData", "UD", "", .bytes, .bytes⟩
  let vFl : FVal := .flags (setDirection 0 deliverKinds (unmarshalFlags (UInt8.ofNat (d.firstOctet / 4 * 4)) deliverKinds 0))
  let vTS : FVal := .time ⟨(2000 + d.scts.year : Nat), d.scts.month, d.scts.day, d.scts.hour, d.scts.minute, d.scts.second, 0, d.scts.zone * 900⟩
  have m7 : marshalFields e 0 [fUD] [.bytes d.ud] = .ok ((UInt8.ofNat d.udl :: d.ud) ++ []) :=
    mf_cons e 0 fUD [] (.bytes d.ud) [] _ [] (by simp [marshalField, fUD, trim_id d.ud hlast, hudl.1]) (by simp [marshalFields])
  have m6 : marshalFields e 0 [fTS, fUD] [vTS, .bytes d.ud] = .ok (timeStampField d.scts ++ ((UInt8.ofNat d.udl :: d.ud) ++ [])) :=
    mf_cons e 0 fTS _ vTS _ _ _ (by simp only [marshalField, fTS, vTS, w6]) m7
  have m5 : marshalFields e 0 [fDCS, fTS, fUD] [.byte (UInt8.ofNat d.dcs), vTS, .bytes d.ud] = .ok ([UInt8.ofNat d.dcs] ++ _) :=
    mf_cons e 0 fDCS _ _ _ _ _ (by simp [marshalField, fDCS]) m6
  have m4 : marshalFields e 0 [fPID, fDCS, fTS, fUD] [.byte (UInt8.ofNat d.pid), .byte (UInt8.ofNat d.dcs), vTS, .bytes d.ud] = .ok ([UInt8.ofNat d.pid] ++ _) :=
    mf_cons e 0 fPID _ _ _ _ _ (by simp [marshalField, fPID]) m5
  have m3 : marshalFields e 0 [fOA, fPID, fDCS, fTS, fUD] [.addr (addrVal d.oa oad), .byte (UInt8.ofNat d.pid), .byte (UInt8.ofNat d.dcs), vTS, .bytes d.ud]
      = .ok (addressField d.oa ++ _) :=
    mf_cons e 0 fOA _ _ _ _ _ (by simp only [marshalField, fOA, addrVal, w3]) m4
  have m2 : marshalFields e 0 [fFl, fOA, fPID, fDCS, fTS, fUD] [vFl, .addr (addrVal d.oa oad), .byte (UInt8.ofNat d.pid), .byte (UInt8.ofNat d.dcs), vTS, .bytes d.ud]
      = .ok ([UInt8.ofNat (d.firstOctet / 4 * 4)] ++ _) :=
    mf_cons e 0 fFl _ vFl _ _ _ (by simp only [marshalField, fFl, vFl, hfl, (by decide : ("DeliverFlags" == "SubmitFlags") = false), Bool.false_eq_true, ↓reduceIte, w2]) m3
  have m1 : marshalFields e 0 [fSC, fFl, fOA, fPID, fDCS, fTS, fUD]
      [.addr (addrVal d.sc scd), vFl, .addr (addrVal d.oa oad), .byte (UInt8.ofNat d.pid), .byte (UInt8.ofNat d.dcs), vTS, .bytes d.ud]
      = .ok (scAddressField (some d.sc) ++ _) :=
    mf_cons e 0 fSC _ _ _ _ _ (by simp only [marshalField, fSC, addrVal, w1]) m2
  unfold marshal deliverValue
  simp only [hlay]
  have hvpf : vpfOf [FVal.addr (addrVal d.sc scd), vFl, .addr (addrVal d.oa oad), .byte (UInt8.ofNat d.pid), .byte (UInt8.ofNat d.dcs), vTS, .bytes d.ud] = 0 := by
    simp [vpfOf, vFl, vTS]
  show marshalFields e (vpfOf [FVal.addr (addrVal d.sc scd), vFl, .addr (addrVal d.oa oad), .byte (UInt8.ofNat d.pid), .byte (UInt8.ofNat d.dcs), vTS, .bytes d.ud])
    [fSC, fFl, fOA, fPID, fDCS, fTS, fUD] _ = _
  rw [hvpf, m1]
  simp [deliver, List.append_assoc]


/-! ### SMS-SUBMIT (no SC address) -/

def sFields : List TField := [
  ⟨"SCAddress", "SC", "", .scaddr, .scaddr⟩, ⟨"Flags", "", "MO", .flags "SubmitFlags", .flags "SubmitFlags"⟩,
  ⟨"MessageReference", "MR", "", .byte, .byte⟩, ⟨"DestinationAddress", "DA", "", .addr, .addr⟩,
  ⟨"ProtocolIdentifier", "PID", "", .byte, .byte⟩, ⟨"DataCoding", "DCS", "", .byte, .byte⟩,
  ⟨"ValidityPeriod", "VP", "", .iface, .iface⟩, ⟨"UserData", "UD", "", .bytes, .bytes⟩]

theorem submit_fields : tpduLayouts.find? (·.name == "Submit") = some ⟨"Submit", sFields⟩ := by decide +kernel

/-- what the decoded flags are, and the validity-period format the walk keeps, for every first octet -/
theorem submit_flags_fin : ∀ b : Fin 256,
    (setDirection 1 submitKinds (unmarshalFlags (UInt8.ofNat b.val) submitKinds 0)).getD 2 0 = b.val / 8 % 4 ∧
    marshalFlags submitKinds ((setDirection 1 submitKinds (unmarshalFlags (UInt8.ofNat b.val) submitKinds 0)).set 2 (b.val / 8 % 4)) 0 = b.val := by
  decide +kernel

/-- the validity periods of the domain and the values they decode to -/
inductive VpOK : Validity → VP → Prop where
  | absent : VpOK .absent .none
  | relative (n : Nat) : n < 256 → VpOK (.relative n) (.rel (relToSecs n))
  | absolute (t : TimeStamp) (q : Nat) : t.year < 100 → t.zone = (q : Int) → q < 100 →
      ValidCivil (2000 + t.year) t.month t.day t.hour t.minute t.second 0 →
      VpOK (.absolute t) (.abs ⟨(2000 + t.year : Nat), t.month, t.day, t.hour, t.minute, t.second, 0, t.zone * 900⟩)

structure SubmitOK (s : Submit) (dad : List Nat) (v : VP) : Prop where
  da : NumAddr s.da dad
  fo : s.firstOctet < 256
  mr : s.mr < 256
  pid : s.pid < 256
  dcs : s.dcs < 256
  vp : VpOK s.vp v
  udl : s.udl = s.ud.length ∧ s.ud.length ≤ 255
  udLast : s.ud.getLast? ≠ some 0

def submitValue (s : Submit) (dad : List Nat) (v : VP) : Tpdu :=
  ⟨"Submit", [.addr Addr.zero,
    .flags (setDirection 1 submitKinds (unmarshalFlags (UInt8.ofNat (submitFirstOctet s)) submitKinds 0)),
    .byte (UInt8.ofNat s.mr), .addr (addrVal s.da dad), .byte (UInt8.ofNat s.pid), .byte (UInt8.ofNat s.dcs),
    .vp v, .bytes s.ud]⟩

theorem sf_flags_submit (rev escs fl) (f : TField) (st : WalkState) (b : UInt8) (r : Bytes) (hk : f.ukind = .flags "SubmitFlags")
    (hd : f.dir = "MO") :
    stepField rev escs fl f st (b :: r) =
      .ok (.flags (setDirection 1 (flagKinds fl "SubmitFlags") (unmarshalFlags b (flagKinds fl "SubmitFlags") 0)), r,
        { st with vpf := (setDirection 1 (flagKinds fl "SubmitFlags") (unmarshalFlags b (flagKinds fl "SubmitFlags") 0)).getD 2 0 }) := by
  simp [stepField, hk, rdByte, hd]

theorem sf_vp_none (rev escs fl) (f : TField) (st : WalkState) (bs : Bytes) (hk : f.ukind = .iface) (hv : st.vpf = 0) :
    stepField rev escs fl f st bs = .ok (.vp .none, bs, st) := by
  simp [stepField, hk, hv]

theorem sf_vp_rel (rev escs fl) (f : TField) (st : WalkState) (bs r : Bytes) (dsecs : Nat) (hk : f.ukind = .iface) (ht : f.tp = "VP")
    (hv : st.vpf = 2) (h : readRel bs = .ok (dsecs, r)) : stepField rev escs fl f st bs = .ok (.vp (.rel dsecs), r, st) := by
  simp [stepField, hk, hv, ht, h]

theorem sf_vp_abs (rev escs fl) (f : TField) (st : WalkState) (bs r : Bytes) (t : GoDate) (hk : f.ukind = .iface) (ht : f.tp = "VP")
    (hv : st.vpf = 3) (h : readTime bs = .ok (t, r)) : stepField rev escs fl f st bs = .ok (.vp (.abs t), r, st) := by
  simp [stepField, hk, hv, ht, h]

theorem uf_cons' (rev escs fl) (f : TField) (fs : List TField) (st : WalkState) (bs : Bytes) (hpi : st.pi = none) :
    unmarshalFields rev escs fl (f :: fs) st bs =
      (match stepField rev escs fl f st bs with
       | .err e => .err e
       | .panic s => .panic s
       | .ok (v, bs', st') =>
         match unmarshalFields rev escs fl fs st' bs' with
         | .ok vs => .ok (v :: vs)
         | .err e => .err e
         | .panic s => .panic s) := uf_cons rev escs fl f fs st bs hpi

/-- the last three fields of SMS-SUBMIT (VP, UD) from a walk state that knows the validity-period format -/
theorem submit_tail (e : Env) (vp : Validity) (udl : Nat) (ud : Bytes) (v : VP) (st : WalkState) (hpi : st.pi = none) (hvpf : st.vpf = vp.format)
    (hv : VpOK vp v) (hudl : udl = ud.length ∧ ud.length ≤ 255) :
    unmarshalFields e.rev e.escs e.flagLayouts
      [⟨"ValidityPeriod", "VP", "", .iface, .iface⟩, ⟨"UserData", "UD", "", .bytes, .bytes⟩] st
      (validityField vp ++ (UInt8.ofNat udl :: ud)) = .ok [.vp v, .bytes ud] := by
  have hudlN : (UInt8.ofNat udl).toNat = ud.length := by
    rw [hudl.1]; simp [UInt8.toNat_ofNat']; omega
  have hud : ∀ st' : WalkState, st'.pi = none → unmarshalFields e.rev e.escs e.flagLayouts [⟨"UserData", "UD", "", .bytes, .bytes⟩] st'
      (UInt8.ofNat udl :: ud) = .ok [.bytes ud] := by
    intro st' hp
    rw [uf_cons _ _ _ _ _ _ _ hp, sf_bytes _ _ _ _ _ _ _ _ _ rfl (by rw [hudlN]; exact rdN_all ud)]
    simp [unmarshalFields]
  cases hv with
  | absent =>
    simp only [Validity.format] at hvpf
    rw [uf_cons _ _ _ _ _ _ _ hpi, sf_vp_none _ _ _ _ _ _ rfl hvpf]
    simp only [validityField, List.nil_append]
    rw [hud st hpi]
  | relative n hn =>
    simp only [Validity.format] at hvpf
    have hr : readRel (validityField (.relative n) ++ (UInt8.ofNat udl :: ud)) = .ok (relToSecs n, UInt8.ofNat udl :: ud) := by
      simp [readRel, validityField, rdN, UInt8.toNat_ofNat', Nat.mod_eq_of_lt hn]
    rw [uf_cons _ _ _ _ _ _ _ hpi, sf_vp_rel _ _ _ _ _ _ _ _ rfl rfl hvpf hr]
    simp only
    rw [hud st hpi]
  | absolute t q hy hz hq hc =>
    simp only [Validity.format] at hvpf
    have ht : t = ⟨t.year, t.month, t.day, t.hour, t.minute, t.second, (q : Int)⟩ := by rw [← hz]
    have hr := C19_timestamp_decode t.year t.month t.day t.hour t.minute t.second q (UInt8.ofNat udl :: ud) hy hq hc
    rw [← ht] at hr
    rw [hz]
    rw [uf_cons _ _ _ _ _ _ _ hpi, sf_vp_abs _ _ _ _ _ _ _ _ rfl rfl hvpf (by simpa [validityField] using hr)]
    simp only
    rw [hud st hpi]
    simp


theorem sc_none (rev escs) (rest : Bytes) : readSCAddr rev escs (0 :: rest) = .ok (Addr.zero, rest) := by
  simp [readSCAddr, rdByte]

theorem getType_nosc (fo mr : UInt8) (rest : Bytes) :
    getType (0 :: fo :: mr :: rest) = .ok ((fo.toNat % 4 * 2 + 1) % 8, mr.toNat > 127) := by
  simp [getType, idx]

theorem submitFirstOctet_props (s : Submit) (hf : s.vp.format < 4) (hfo : s.firstOctet < 256) :
    submitFirstOctet s < 256 ∧ submitFirstOctet s % 4 = 1 ∧ submitFirstOctet s / 8 % 4 = s.vp.format := by
  unfold submitFirstOctet
  omega

theorem format_lt (vp : Validity) : vp.format < 4 := by cases vp <;> simp [Validity.format]

set_option maxHeartbeats 1000000 in
theorem submit_walk (e : Env) (hfl : flagKinds e.flagLayouts "SubmitFlags" = submitKinds)
    (s : Submit) (dad : List Nat) (v : VP) (h : SubmitOK s dad v) :
    unmarshalFields e.rev e.escs e.flagLayouts sFields {} (submit s) = .ok (submitValue s dad v).vals := by
  obtain ⟨hda, hfo, hmr, hpid, hdcs, hvp, hudl, hlast⟩ := h
  have hshape : submit s = 0 :: UInt8.ofNat (submitFirstOctet s) :: UInt8.ofNat s.mr :: (addressField s.da ++
      (UInt8.ofNat s.pid :: UInt8.ofNat s.dcs :: (validityField s.vp ++ (UInt8.ofNat s.udl :: s.ud)))) := by
    simp [submit, scAddressField, List.append_assoc]
  have hdae : s.da = ⟨s.da.ton, s.da.npi, .digits dad⟩ := numaddr_fields _ _ hda
  have r4 := C19_address_numeric_decode e.rev e.escs s.da.ton s.da.npi dad
    (UInt8.ofNat s.pid :: UInt8.ofNat s.dcs :: (validityField s.vp ++ (UInt8.ofNat s.udl :: s.ud)))
    hda.ton.1 hda.npi hda.ton.2 hda.digits ⟨hda.len.1, by have := hda.len.2; omega⟩
  rw [← hdae] at r4
  obtain ⟨hlt, _, hfmt⟩ := submitFirstOctet_props s (format_lt s.vp) hfo
  have hfin := (submit_flags_fin ⟨submitFirstOctet s, hlt⟩).1
  simp only at hfin
  rw [hshape]
  unfold sFields
  rw [uf_cons _ _ _ _ _ _ _ rfl, sf_scaddr _ _ _ _ _ _ _ _ rfl (sc_none _ _ _)]
  simp only
  rw [uf_cons _ _ _ _ _ _ _ rfl, sf_flags_submit _ _ _ _ _ _ _ rfl rfl]
  simp only [hfl]
  rw [uf_cons _ _ _ _ _ _ _ rfl, sf_byte _ _ _ _ _ _ _ rfl]
  simp only
  rw [uf_cons _ _ _ _ _ _ _ rfl, sf_addr _ _ _ _ _ _ _ _ rfl r4]
  simp only
  rw [uf_cons _ _ _ _ _ _ _ rfl, sf_byte _ _ _ _ _ _ _ rfl]
  simp only
  rw [uf_cons _ _ _ _ _ _ _ rfl, sf_byte _ _ _ _ _ _ _ rfl]
  simp only
  rw [submit_tail e s.vp s.udl s.ud v _ rfl (by simp only; rw [hfin, hfmt]) hvp hudl]
  simp [submitValue, addrVal]

theorem submit_decode_env (e : Env) (hlay : e.layouts.find? (·.name == "Submit") = some ⟨"Submit", sFields⟩)
    (hfl : flagKinds e.flagLayouts "SubmitFlags" = submitKinds)
    (s : Submit) (dad : List Nat) (v : VP) (h : SubmitOK s dad v) :
    unmarshal e (submit s) = .ok (submitValue s dad v) := by
  have hwalk := submit_walk e hfl s dad v h
  have hshape : submit s = 0 :: UInt8.ofNat (submitFirstOctet s) :: UInt8.ofNat s.mr :: (addressField s.da ++
      (UInt8.ofNat s.pid :: UInt8.ofNat s.dcs :: (validityField s.vp ++ (UInt8.ofNat s.udl :: s.ud)))) := by
    simp [submit, scAddressField, List.append_assoc]
  obtain ⟨hlt, hm4, _⟩ := submitFirstOctet_props s (format_lt s.vp) h.fo
  have hfoN : (UInt8.ofNat (submitFirstOctet s)).toNat = submitFirstOctet s := by
    simp [UInt8.toNat_ofNat']; omega
  have hgt : getType (submit s) = .ok (3, (UInt8.ofNat s.mr).toNat > 127) := by
    rw [hshape, getType_nosc, hfoN, hm4]
  unfold unmarshal
  rw [hgt]
  simp [typeName, hlay, hwalk, submitValue]


/-- what Marshal writes for the validity period, and the format it derives from the value's dynamic type -/
theorem vp_encode (e : Env) (vp : Validity) (v : VP) (vpf : Nat) (ud : Bytes) (h : VpOK vp v) :
    marshalField e vpf ⟨"ValidityPeriod", "VP", "", .iface, .iface⟩ (.vp v) = .ok (validityField vp) ∧
    vpfOf [.vp v, .bytes ud] = vp.format := by
  cases h with
  | absent => simp [marshalField, validityField, vpfOf, Validity.format]
  | relative n hn =>
    have := (C19_relative ⟨n, hn⟩).2
    simp only at this
    simp [marshalField, validityField, vpfOf, Validity.format, this]
  | absolute t q hy hz hq hc =>
    have w := C19_timestamp_encode t.year t.month t.day t.hour t.minute t.second q hy hq hc
    have ht : t = ⟨t.year, t.month, t.day, t.hour, t.minute, t.second, (q : Int)⟩ := by rw [← hz]
    rw [← ht, ← hz] at w
    simp only [marshalField, validityField, vpfOf, Validity.format, w, and_self]

set_option maxHeartbeats 1000000 in
theorem submit_encode_env (e : Env) (hlay : e.layouts.find? (·.name == "Submit") = some ⟨"Submit", sFields⟩)
    (hfl : flagKinds e.flagLayouts "SubmitFlags" = submitKinds)
    (s : Submit) (dad : List Nat) (v : VP) (h : SubmitOK s dad v) :
    marshal e (submitValue s dad v) = .ok (submit s) := by
  obtain ⟨hda, hfo, hmr, hpid, hdcs, hvp, hudl, hlast⟩ := h
  have hdae : s.da = ⟨s.da.ton, s.da.npi, .digits dad⟩ := numaddr_fields _ _ hda
  have w4 := C19_address_numeric_encode e.rev e.escs s.da.ton s.da.npi dad hda.ton.1 hda.npi hda.ton.2 hda.digits
    ⟨hda.len.1, by have := hda.len.2; omega⟩
  rw [← hdae] at w4
  obtain ⟨hlt, _, hfmt⟩ := submitFirstOctet_props s (format_lt s.vp) hfo
  have hfin := (submit_flags_fin ⟨submitFirstOctet s, hlt⟩).2
  simp only at hfin
  rw [hfmt] at hfin
  obtain ⟨wvp, hvf⟩ := vp_encode e s.vp v s.vp.format s.ud hvp
  let fSC : TField := ⟨"SCAddress", "SC", "", .scaddr, .scaddr⟩
  let fFl : TField := ⟨"Flags", "", "MO", .flags "SubmitFlags", .flags "SubmitFlags"⟩
  let fMR : TField := ⟨"MessageReference", "MR", "", .byte, .byte⟩
  let fDA : TField := ⟨"DestinationAddress", "DA", "", .addr, .addr⟩
  let fPID : TField := ⟨"ProtocolIdentifier", "PID", "", .byte, .byte⟩
  let fDCS : TField := ⟨"DataCoding", "DCS", "", .byte, .byte⟩
  let fVP : TField := ⟨"ValidityPeriod", "VP", "", .iface, .iface⟩
  let fUD : TField := ⟨"UserData", "UD", "", .bytes, .bytes⟩
  let vFl : FVal := .flags (setDirection 1 submitKinds (unmarshalFlags (UInt8.ofNat (submitFirstOctet s)) submitKinds 0))
  let k := s.vp.format
  have m8 : marshalFields e k [fUD] [.bytes s.ud] = .ok ((UInt8.ofNat s.udl :: s.ud) ++ []) :=
    mf_cons e k fUD [] (.bytes s.ud) [] _ [] (by simp [marshalField, fUD, trim_id s.ud hlast, hudl.1]) (by simp [marshalFields])
  have m7 : marshalFields e k [fVP, fUD] [.vp v, .bytes s.ud] = .ok (validityField s.vp ++ _) :=
    mf_cons e k fVP _ _ _ _ _ wvp m8
  have m6 : marshalFields e k [fDCS, fVP, fUD] [.byte (UInt8.ofNat s.dcs), .vp v, .bytes s.ud] = .ok ([UInt8.ofNat s.dcs] ++ _) :=
    mf_cons e k fDCS _ _ _ _ _ (by simp only [marshalField, fDCS]) m7
  have m5 : marshalFields e k [fPID, fDCS, fVP, fUD] [.byte (UInt8.ofNat s.pid), .byte (UInt8.ofNat s.dcs), .vp v, .bytes s.ud] = .ok ([UInt8.ofNat s.pid] ++ _) :=
    mf_cons e k fPID _ _ _ _ _ (by simp only [marshalField, fPID]) m6
  have m4 : marshalFields e k [fDA, fPID, fDCS, fVP, fUD] [.addr (addrVal s.da dad), .byte (UInt8.ofNat s.pid), .byte (UInt8.ofNat s.dcs), .vp v, .bytes s.ud]
      = .ok (addressField s.da ++ _) :=
    mf_cons e k fDA _ _ _ _ _ (by simp only [marshalField, fDA, addrVal, w4]) m5
  have m3 : marshalFields e k [fMR, fDA, fPID, fDCS, fVP, fUD] [.byte (UInt8.ofNat s.mr), .addr (addrVal s.da dad), .byte (UInt8.ofNat s.pid), .byte (UInt8.ofNat s.dcs), .vp v, .bytes s.ud]
      = .ok ([UInt8.ofNat s.mr] ++ _) :=
    mf_cons e k fMR _ _ _ _ _ (by simp only [marshalField, fMR]) m4
  have m2 : marshalFields e k [fFl, fMR, fDA, fPID, fDCS, fVP, fUD] [vFl, .byte (UInt8.ofNat s.mr), .addr (addrVal s.da dad), .byte (UInt8.ofNat s.pid), .byte (UInt8.ofNat s.dcs), .vp v, .bytes s.ud]
      = .ok ([UInt8.ofNat (submitFirstOctet s)] ++ _) :=
    mf_cons e k fFl _ vFl _ _ _ (by simp only [marshalField, fFl, vFl, hfl, (by decide : ("SubmitFlags" == "SubmitFlags") = true), ↓reduceIte, k, hfin]) m3
  have m1 : marshalFields e k [fSC, fFl, fMR, fDA, fPID, fDCS, fVP, fUD]
      [.addr Addr.zero, vFl, .byte (UInt8.ofNat s.mr), .addr (addrVal s.da dad), .byte (UInt8.ofNat s.pid), .byte (UInt8.ofNat s.dcs), .vp v, .bytes s.ud]
      = .ok ([0] ++ _) :=
    mf_cons e k fSC _ _ _ _ _ (by simp [marshalField, fSC, writeSCAddr, Addr.zero]) m2
  have hk : vpfOf [FVal.addr Addr.zero, vFl, .byte (UInt8.ofNat s.mr), .addr (addrVal s.da dad), .byte (UInt8.ofNat s.pid), .byte (UInt8.ofNat s.dcs), .vp v, .bytes s.ud] = k := by
    simp only [vpfOf, vFl]
    exact hvf
  unfold marshal submitValue
  simp only [hlay]
  show marshalFields e (vpfOf [FVal.addr Addr.zero, vFl, .byte (UInt8.ofNat s.mr), .addr (addrVal s.da dad), .byte (UInt8.ofNat s.pid), .byte (UInt8.ofNat s.dcs), .vp v, .bytes s.ud])
    [fSC, fFl, fMR, fDA, fPID, fDCS, fVP, fUD] _ = _
  rw [hk, m1]
  simp [submit, scAddressField, List.append_assoc]


/-- **SMS-DELIVER**: decodes to the values laid out and re-encodes octet for octet (domain `DeliverOK`) -/
theorem C19_deliver (d : Deliver) (scd oad : List Nat) (h : DeliverOK d scd oad) :
    unmarshal env (deliver d) = .ok (deliverValue d scd oad) ∧ marshal env (deliverValue d scd oad) = .ok (deliver d) :=
  ⟨deliver_decode_env env deliver_fields rfl d scd oad h, deliver_encode_env env deliver_fields rfl d scd oad h⟩

/-- **SMS-SUBMIT**: the same (domain `SubmitOK`) -/
theorem C19_submit (s : Submit) (dad : List Nat) (v : VP) (h : SubmitOK s dad v) :
    unmarshal env (submit s) = .ok (submitValue s dad v) ∧ marshal env (submitValue s dad v) = .ok (submit s) :=
  ⟨submit_decode_env env submit_fields rfl s dad v h, submit_encode_env env submit_fields rfl s dad v h⟩

/-! ## the full statement (NOT a theorem here) and its refuted classes -/

/-- the first octet of a DELIVER the code can reproduce, etc.: the sub-domain on which no known finding applies -/
def DeliverInDomain (d : Deliver) : Prop :=
  d.firstOctet < 64 ∧ d.scts.zone ≥ 0 ∧ d.udl = d.ud.length ∧ d.ud.getLast? ≠ some 0 ∧
  (match d.oa.value with | .alpha ss => ss.length < 4 ∨ 7 < ss.length | .digits _ => True)

/-- full-strength statement for SMS-DELIVER: what the property demands of every well-formed TPDU.  Proved above field by
field; composed only differentially (op smsd); false outside `DeliverInDomain` (witnesses below). -/
def C19_full_deliver : Prop :=
  ∀ d : Deliver, ∀ p, unmarshal env (deliver d) = .ok p → marshal env p = .ok (deliver d)

def bytesOf (r : R Tpdu) : R Bytes :=
  match r with
  | .ok p => marshal env p
  | .err e => .err e
  | .panic s => .panic s

def sampleAddr : Address := ⟨1, 1, .digits [6, 1, 4, 0, 9, 8, 6, 5, 6, 2, 9]⟩
def sampleTime : TimeStamp := ⟨17, 8, 31, 11, 21, 54, 32⟩
def sampleDeliver : Deliver := ⟨sampleAddr, 4, sampleAddr, 0, 4, sampleTime, 2, [0x41, 0x42]⟩

/-- KNOWN FINDING C19-deliver-first-octet: TP-UDHI (bit 6) is dropped -/
theorem C19_cex_deliver_first_octet :
    bytesOf (unmarshal env (deliver { sampleDeliver with firstOctet := 0x44 })) ≠ .ok (deliver { sampleDeliver with firstOctet := 0x44 }) := by
  decide +kernel

/-- KNOWN FINDING C19-ud-zero: user data ending in 0x00 loses that octet -/
theorem C19_cex_ud_zero :
    bytesOf (unmarshal env (deliver { sampleDeliver with ud := [0x41, 0x00] })) ≠ .ok (deliver { sampleDeliver with ud := [0x41, 0x00] }) := by
  decide +kernel

/-- KNOWN FINDING C19-alnum-length: a four-character alphanumeric address is re-encoded with length 8 instead of 7 -/
theorem C19_cex_alnum :
    bytesOf (unmarshal env (deliver { sampleDeliver with oa := ⟨5, 0, .alpha [65, 66, 67, 68]⟩ }))
      ≠ .ok (deliver { sampleDeliver with oa := ⟨5, 0, .alpha [65, 66, 67, 68]⟩ }) := by
  decide +kernel

/-- KNOWN FINDING C19-negative-zone: zone −10 quarter hours decodes as +90 (offset 81000 s instead of −9000 s) -/
theorem C19_cex_negative_zone :
    (readTime (timeStampField { sampleTime with zone := -10 })).isOk = true ∧
    readTime (timeStampField { sampleTime with zone := -10 }) ≠ .ok (⟨2017, 8, 31, 11, 21, 54, 0, -9000⟩, []) := by
  decide +kernel

/-! ## non-vacuity -/

/-- a whole specification-built SMS-DELIVER goes through the model unchanged -/
example : bytesOf (unmarshal env (deliver sampleDeliver)) = .ok (deliver sampleDeliver) := by decide +kernel

/-- and an SMS-SUBMIT with an absolute validity period, 20 digits with leading zeros -/
example : (let s : Submit := ⟨0xA5, 7, ⟨0, 1, .digits [0, 0, 1, 2, 3, 4, 5, 6, 7, 8, 9, 0, 1, 2, 3, 4, 5, 6, 7, 8]⟩, 0, 8, .absolute sampleTime, 4, [0, 0x41, 0, 0x42]⟩
    bytesOf (unmarshal env (submit s)) = .ok (submit s)) := by decide +kernel

example : ValidCivil (2000 + 17) 8 31 11 21 54 0 := ⟨by decide, by decide, by decide, by decide, by decide, by decide, by decide⟩

/-- non-vacuity of the domain of `C19_deliver` -/
example : DeliverOK sampleDeliver [6, 1, 4, 0, 9, 8, 6, 5, 6, 2, 9] [6, 1, 4, 0, 9, 8, 6, 5, 6, 2, 9] := by
  refine ⟨⟨rfl, by decide, by decide, by decide, by decide⟩, ⟨rfl, by decide, by decide, by decide, by decide⟩, by decide, by decide,
    by decide, by decide, by decide, ⟨by decide, by decide, by decide, by decide, by decide, by decide, by decide⟩, by decide, by decide⟩

/-- and of `C19_submit`: 20 digits with leading zeros, relative validity 144 (12 h 30 min) -/
example : SubmitOK ⟨0xA5, 7, ⟨0, 1, .digits [0, 0, 1, 2, 3, 4, 5, 6, 7, 8, 9, 0, 1, 2, 3, 4, 5, 6, 7, 8]⟩, 0, 8, .relative 144, 4, [0, 0x41, 0, 0x42]⟩
    [0, 0, 1, 2, 3, 4, 5, 6, 7, 8, 9, 0, 1, 2, 3, 4, 5, 6, 7, 8] (.rel (relToSecs 144)) := by
  refine ⟨⟨rfl, by decide, by decide, by decide, by decide⟩, by decide, by decide, by decide, by decide, VpOK.relative 144 (by decide), by decide, by decide⟩

end Smpp.Properties.C19
