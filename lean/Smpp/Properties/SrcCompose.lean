-- Expectations on the regenerated source snapshot group Compose (written by tools/gen_srcgroup_expect.py after the models
-- were validated against this source).  A changed statement or declaration breaks the lemma of its function / file.
import Smpp.Generated.SrcCompose
namespace Smpp.Properties.SrcCompose
open Smpp.Generated.SrcCompose

theorem exp_pdu_message_multipart_ComposeMultipartShortMessage : src_pdu_message_multipart_ComposeMultipartShortMessage = [
  "sig: func(input string, coding DataCoding, reference uint16) (parts []ShortMessage, err error)",
  "if coding.Splitter() == nil || coding.Encoding() == nil { err = ErrUnknownDataCoding return } else if coding.Splitter().Len(input) <= MaxShortMessageLength { var m ShortMessage m.DataCoding = coding m.Message, err = coding.Encoding().NewEncoder().Bytes([]byte(input)) parts = []ShortMessage{m} return }",
  "header := ConcatenatedHeader{Reference: reference}",
  "segments := coding.Splitter().Split(input, MaxShortMessageLength-1-header.Len())",
  "if len(segments) > 0xFE { err = ErrMultipartTooMuch return }",
  "header.TotalParts = byte(len(segments))",
  "encoder := coding.Encoding().NewEncoder()",
  "part := ShortMessage{DataCoding: coding}",
  "for _, segment := range segments { encoder.Reset() part.UDHeader = make(UserDataHeader) if part.Message, err = encoder.Bytes([]byte(segment)); err != nil { return } header.Sequence++ header.Set(part.UDHeader) parts = append(parts, part) }",
  "return"] := rfl

theorem exp_pdu_udh_element_ConcatenatedHeader_Len : src_pdu_udh_element_ConcatenatedHeader_Len = [
  "sig: func() int",
  "if h.Reference <= 0xFF { return 5 }",
  "return 6"] := rfl

theorem exp_pdu_udh_element_ConcatenatedHeader_Set : src_pdu_udh_element_ConcatenatedHeader_Set = [
  "sig: func(udh UserDataHeader)",
  "var buf bytes.Buffer",
  "_ = binary.Write(&buf, binary.BigEndian, h)",
  "if data := buf.Bytes(); data[0] == 0 { udh[0x00] = data[1:4] } else { udh[0x08] = data }"] := rfl

theorem exp_pdu_udh_element__functions : src_pdu_udh_element__functions = [
  "ConcatenatedHeader.Len", "ConcatenatedHeader.Set"] := rfl

theorem exp_pdu_udh_element__decls : src_pdu_udh_element__decls = [
  "type ConcatenatedHeader struct { Reference uint16 TotalParts byte Sequence byte }"] := rfl

theorem exp_coding_splitter_Splitter_Len : src_coding_splitter_Splitter_Len = [
  "sig: func(input string) (n int)",
  "for _, point := range input { n += fn(point) }",
  "if n%8 != 0 { n += 8 - n%8 }",
  "return n / 8"] := rfl

theorem exp_coding_splitter_Splitter_Split : src_coding_splitter_Splitter_Split = [
  "sig: func(input string, limit int) (segments []string)",
  "limit *= 8",
  "points := []rune(input)",
  "var start, length int",
  "for i := 0; i < len(points); i++ { length += fn(points[i]) if length > limit { segments = append(segments, string(points[start:i])) start, length = i, 0 i-- } }",
  "if length > 0 { segments = append(segments, string(points[start:])) }",
  "return"] := rfl

theorem exp_coding_splitter__functions : src_coding_splitter__functions = [
  "Splitter.Len", "Splitter.Split"] := rfl

theorem exp_coding_splitter__decls : src_coding_splitter__decls = [
  "type Splitter func(rune) int",
  "var ( _7BitSplitter Splitter = func(r rune) int { switch r { case '\\f', '[', '\\\\', ']', '^', '{', '|', '}', '~', '€': return 14 } return 7 } _1ByteSplitter Splitter = func(rune) int { return 8 } _MultibyteSplitter Splitter = func(r rune) int { if r < 0x7F { return 8 } return 16 } _UTF16Splitter Splitter = func(r rune) int { if (r <= 0xD7FF) || ((r >= 0xE000) && (r <= 0xFFFF)) { return 16 } return 32 } )"] := rfl

end Smpp.Properties.SrcCompose
