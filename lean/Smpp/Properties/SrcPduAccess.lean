-- Expectations on the regenerated source snapshot group PduAccess (written by tools/gen_srcgroup_expect.py after the models
-- were validated against this source).  A changed statement or declaration breaks the lemma of its function / file.
import Smpp.Generated.SrcPduAccess
namespace Smpp.Properties.SrcPduAccess
open Smpp.Generated.SrcPduAccess

theorem exp_pdu_message_state_MessageState_String : src_pdu_message_state_MessageState_String = [
  "sig: func() string",
  "if int(m) >= len(messageStateMap) { return strconv.Itoa(int(m)) }",
  "return strings.ToUpper(messageStateMap[m])"] := rfl

theorem exp_pdu_message_state__functions : src_pdu_message_state__functions = [
  "MessageState.String"] := rfl

theorem exp_pdu_message_state__decls : src_pdu_message_state__decls = [
  "// MessageState see SMPP v5, section 4.7.15 (127p) type MessageState byte",
  "//goland:noinspection SpellCheckingInspection var messageStateMap = []string{ \"scheduled\", \"enroute\", \"delivered\", \"expired\", \"deleted\", \"undeliverable\", \"accepted\", \"unknown\", \"rejected\", \"skipped\", }"] := rfl

theorem exp_pdu_udh_UserDataHeader_ConcatenatedHeader : src_pdu_udh_UserDataHeader_ConcatenatedHeader = [
  "sig: func() *ConcatenatedHeader",
  "if data, ok := h[0x00]; ok && len(data) >= 3 { return &ConcatenatedHeader{ Reference: uint16(data[0]), TotalParts: data[1], Sequence: data[2], } } else if data, ok = h[0x08]; ok && len(data) >= 4 { return &ConcatenatedHeader{ Reference: binary.BigEndian.Uint16(data[0:2]), TotalParts: data[2], Sequence: data[3], } }",
  "return nil"] := rfl

theorem exp_pdu_udh_element_ConcatenatedHeader_Len : src_pdu_udh_element_ConcatenatedHeader_Len = [
  "sig: func() int",
  "if h.Reference <= 0xFF { return 5 }",
  "return 6"] := rfl

theorem exp_pdu_udh_element_ConcatenatedHeader_Set : src_pdu_udh_element_ConcatenatedHeader_Set = [
  "sig: func(udh UserDataHeader)",
  "var buf bytes.Buffer",
  "_ = binary.Write(&buf, binary.BigEndian, h)",
  "if data := buf.Bytes(); data[0] == 0 { udh[0x00] = data[1:4] } else { udh[0x08] = data }"] := rfl

theorem exp_pdu_udh_element__functions : src_pdu_udh_element__functions = [
  "ConcatenatedHeader.Len", "ConcatenatedHeader.Set"] := rfl

theorem exp_pdu_udh_element__decls : src_pdu_udh_element__decls = [
  "type ConcatenatedHeader struct { Reference uint16 TotalParts byte Sequence byte }"] := rfl

theorem exp_pdu_message_ShortMessage_Parse : src_pdu_message_ShortMessage_Parse = [
  "sig: func() (message string, err error)",
  "encoder := p.DataCoding.Encoding()",
  "if encoder == nil { message = hex.EncodeToString(p.Message) return }",
  "decoded, err := encoder.NewDecoder().Bytes(p.Message)",
  "message = string(decoded)",
  "return"] := rfl

theorem exp_pdu_message_ShortMessage_Compose : src_pdu_message_ShortMessage_Compose = [
  "sig: func(input string) (err error)",
  "coding := BestCoding(input)",
  "if coding.Splitter().Len(input) > MaxShortMessageLength { return ErrShortMessageTooLarge }",
  "message, err := coding.Encoding().NewEncoder().Bytes([]byte(input))",
  "if err == nil { p.DataCoding = coding p.Message = message }",
  "return"] := rfl

theorem exp_pdu_header_kit_ReadSequence : src_pdu_header_kit_ReadSequence = [
  "sig: func(packet interface{}) int32",
  "if h := getHeader(packet); h != nil { return h.Sequence }",
  "return 0"] := rfl

theorem exp_pdu_header_kit_WriteSequence : src_pdu_header_kit_WriteSequence = [
  "sig: func(packet interface{}, sequence int32)",
  "if h := getHeader(packet); h != nil { h.Sequence = sequence }"] := rfl

theorem exp_pdu_header_kit_ReadCommandStatus : src_pdu_header_kit_ReadCommandStatus = [
  "sig: func(packet interface{}) CommandStatus",
  "if h := getHeader(packet); h != nil { return h.CommandStatus }",
  "return 0"] := rfl

theorem exp_pdu_header_kit_getHeader : src_pdu_header_kit_getHeader = [
  "sig: func(packet interface{}) *Header",
  "p := reflect.ValueOf(packet)",
  "if p.Kind() == reflect.Ptr { p = p.Elem() }",
  "for i := 0; i < p.NumField(); i++ { field := p.Field(i) if h, ok := field.Addr().Interface().(*Header); ok { return h } }",
  "return nil"] := rfl

theorem exp_pdu_header_kit__functions : src_pdu_header_kit__functions = [
  "ReadSequence", "WriteSequence", "ReadCommandStatus", "getHeader"] := rfl

theorem exp_pdu_header_kit__decls : src_pdu_header_kit__decls = [] := rfl

theorem exp_pdu_header_names_CommandStatus_String : src_pdu_header_names_CommandStatus_String = [
  "sig: func() string",
  "if name, ok := commandStatusNames[c]; ok { return fmt.Sprintf(\"ESME_R%s\", strings.ToUpper(name)) }",
  "return fmt.Sprintf(\"%08X\", uint32(c))"] := rfl

theorem exp_pdu_header_names_CommandStatus_Error : src_pdu_header_names_CommandStatus_Error = [
  "sig: func() string",
  "return c.String()"] := rfl

theorem exp_pdu_header_names__functions : src_pdu_header_names__functions = [
  "CommandStatus.String", "CommandStatus.Error"] := rfl

theorem exp_pdu_address_Address_String : src_pdu_address_Address_String = [
  "sig: func() string",
  "if p.TON == 1 && p.NPI == 1 && len(p.No) > 0 && p.No[0] != '+' { return \"+\" + p.No }",
  "return p.No"] := rfl

end Smpp.Properties.SrcPduAccess
