-- Expectations on the regenerated source snapshot group Scalar (written by tools/gen_srcgroup_expect.py after the models
-- were validated against this source).  A changed statement or declaration breaks the lemma of its function / file.
import Smpp.Generated.SrcScalar
namespace Smpp.Properties.SrcScalar
open Smpp.Generated.SrcScalar

theorem exp_pdu_time_Time_From : src_pdu_time_Time_From = [
  "sig: func(input string) (err error)",
  "t.Time = time.Time{}",
  "if len(input) == 0 { return }",
  "parts, symbol := fromTimeString(input)",
  "if !(symbol == '+' || symbol == '-') { err = ErrUnparseableTime return }",
  "t.Time = time.Date( int(2000+parts[0]), time.Month(parts[1]), int(parts[2]), int(parts[3]), int(parts[4]), int(parts[5]), int(parts[6])*1e8, time.FixedZone(\"\", int(parts[7]*900)), )",
  "return"] := rfl

theorem exp_pdu_time_Time_String : src_pdu_time_Time_String = [
  "sig: func() string",
  "if t.Time.IsZero() { return \"\" }",
  "_, offset := t.Zone()",
  "symbol := '+'",
  "if offset < 0 { offset = -offset symbol = '-' }",
  "return fmt.Sprintf( \"%02d%02d%02d%02d%02d%02d%d%02d%c\", t.Year()-2000, int(t.Month()), t.Day(), t.Hour(), t.Minute(), t.Second(), t.Nanosecond()/1e8, offset/900, symbol, )"] := rfl

theorem exp_pdu_time_Duration_From : src_pdu_time_Duration_From = [
  "sig: func(input string) (err error)",
  "p.Duration = 0",
  "if len(input) == 0 { return }",
  "parts, symbol := fromTimeString(input)",
  "if symbol != 'R' { err = ErrUnparseableTime return }",
  "bases := []time.Duration{ time.Hour * 8760, time.Hour * 720, time.Hour * 24, time.Hour, time.Minute, time.Second, 1e8, 0, }",
  "for i, part := range parts { p.Duration += bases[i] * time.Duration(part) }",
  "return"] := rfl

theorem exp_pdu_time_Duration_String : src_pdu_time_Duration_String = [
  "sig: func() string",
  "if p.Duration < time.Second { return \"\" }",
  "ts := p.Duration",
  "parts := []time.Duration{ time.Hour * 8760, time.Hour * 720, time.Hour * 24, time.Hour, time.Minute, time.Second, }",
  "for i, part := range parts { parts[i] = ts / part ts %= part }",
  "return fmt.Sprintf( \"%02d%02d%02d%02d%02d%02d%d00R\", parts[0], parts[1], parts[2], parts[3], parts[4], parts[5], int(ts.Nanoseconds()/1e8), )"] := rfl

theorem exp_pdu_time_fromTimeString : src_pdu_time_fromTimeString = [
  "sig: func(input string) (parts [8]int64, symbol byte)",
  "if len(input) != 16 { return }",
  "for i := 0; i < 12; i += 2 { parts[i/2], _ = strconv.ParseInt(input[i:i+2], 10, 16) }",
  "parts[6], _ = strconv.ParseInt(input[12:13], 10, 16)",
  "parts[7], _ = strconv.ParseInt(input[13:15], 10, 16)",
  "symbol = input[15]",
  "if symbol == '-' { parts[7] = -parts[7] }",
  "return"] := rfl

theorem exp_pdu_time__functions : src_pdu_time__functions = [
  "Time.From", "Time.String", "Duration.From", "Duration.String", "fromTimeString"] := rfl

theorem exp_pdu_time__decls : src_pdu_time__decls = [
  "// Time see SMPP v5, section 4.7.23.4 (132p) type Time struct{ time.Time }",
  "// Duration see SMPP v5, section 4.7.23.5 (132p) type Duration struct{ time.Duration }"] := rfl

theorem exp_pdu_interface_version_InterfaceVersion_String : src_pdu_interface_version_InterfaceVersion_String = [
  "sig: func() string",
  "major := (v >> 4) & 0b1111",
  "minor := v & 0b1111",
  "return fmt.Sprintf(\"%d.%d\", major, minor)"] := rfl

theorem exp_pdu_interface_version_InterfaceVersion_MarshalJSON : src_pdu_interface_version_InterfaceVersion_MarshalJSON = [
  "sig: func() (data []byte, err error)",
  "return json.Marshal(v.String())"] := rfl

theorem exp_pdu_interface_version_InterfaceVersion_UnmarshalJSON : src_pdu_interface_version_InterfaceVersion_UnmarshalJSON = [
  "sig: func(data []byte) (err error)",
  "var value string",
  "var major, minor InterfaceVersion",
  "if err = json.Unmarshal(data, &value); err != nil { return }",
  "if _, err = fmt.Sscanf(value, \"%d.%d\", &major, &minor); err != nil { return }",
  "*v = ((major & 0b1111) << 4) | (minor & 0b1111)",
  "return"] := rfl

theorem exp_pdu_interface_version__functions : src_pdu_interface_version__functions = [
  "InterfaceVersion.String", "InterfaceVersion.MarshalJSON", "InterfaceVersion.UnmarshalJSON"] := rfl

theorem exp_pdu_interface_version__decls : src_pdu_interface_version__decls = [
  "// InterfaceVersion see SMPP v5, section 4.7.13 (126p) type InterfaceVersion byte",
  "const ( SMPPVersion33 InterfaceVersion = 0x33 SMPPVersion34 InterfaceVersion = 0x34 SMPPVersion50 InterfaceVersion = 0x50 )"] := rfl

theorem exp_pdu_esm_class_ESMClass_ReadByte : src_pdu_esm_class_ESMClass_ReadByte = [
  "sig: func() (c byte, err error)",
  "c |= e.MessageMode & 0b11",
  "c |= e.MessageType & 0b1111 << 2",
  "c |= getBool(e.UDHIndicator) << 6",
  "c |= getBool(e.ReplyPath) << 7",
  "return"] := rfl

theorem exp_pdu_esm_class_ESMClass_WriteByte : src_pdu_esm_class_ESMClass_WriteByte = [
  "sig: func(c byte) error",
  "e.MessageMode = c & 0b11",
  "e.MessageType = c >> 2 & 0b1111",
  "e.UDHIndicator = c>>6&0b1 == 1",
  "e.ReplyPath = c>>7&0b1 == 1",
  "return nil"] := rfl

theorem exp_pdu_esm_class_ESMClass_String : src_pdu_esm_class_ESMClass_String = [
  "sig: func() string",
  "c, _ := e.ReadByte()",
  "return fmt.Sprintf(\"%08b\", c)"] := rfl

theorem exp_pdu_esm_class__functions : src_pdu_esm_class__functions = [
  "ESMClass.ReadByte", "ESMClass.WriteByte", "ESMClass.String"] := rfl

theorem exp_pdu_esm_class__decls : src_pdu_esm_class__decls = [
  "// ESMClass see SMPP v5, section 4.7.12 (125p) type ESMClass struct { MessageMode byte // __ ____ ** MessageType byte // __ **** __ UDHIndicator bool // _* ____ __ ReplyPath bool // *_ ____ __ }"] := rfl

theorem exp_pdu_registered_delivery_RegisteredDelivery_ReadByte : src_pdu_registered_delivery_RegisteredDelivery_ReadByte = [
  "sig: func() (c byte, err error)",
  "c |= r.MCDeliveryReceipt & 0b11",
  "c |= r.SMEOriginatedAcknowledgment & 0b11 << 2",
  "c |= getBool(r.IntermediateNotification) << 4",
  "c |= r.Reserved & 0b111 << 5",
  "return"] := rfl

theorem exp_pdu_registered_delivery_RegisteredDelivery_WriteByte : src_pdu_registered_delivery_RegisteredDelivery_WriteByte = [
  "sig: func(c byte) error",
  "r.MCDeliveryReceipt = c & 0b11",
  "r.SMEOriginatedAcknowledgment = c >> 2 & 0b11",
  "r.IntermediateNotification = c>>4&0b1 == 1",
  "r.Reserved = c >> 5 & 0b111",
  "return nil"] := rfl

theorem exp_pdu_registered_delivery_RegisteredDelivery_String : src_pdu_registered_delivery_RegisteredDelivery_String = [
  "sig: func() string",
  "c, _ := r.ReadByte()",
  "return fmt.Sprintf(\"%08b\", c)"] := rfl

theorem exp_pdu_registered_delivery__functions : src_pdu_registered_delivery__functions = [
  "RegisteredDelivery.ReadByte", "RegisteredDelivery.WriteByte", "RegisteredDelivery.String"] := rfl

theorem exp_pdu_registered_delivery__decls : src_pdu_registered_delivery__decls = [
  "// RegisteredDelivery see SMPP v5, section 4.7.21 (130p) type RegisteredDelivery struct { MCDeliveryReceipt byte // ___ _ __ ** SMEOriginatedAcknowledgment byte // ___ _ ** __ IntermediateNotification bool // ___ * __ __ Reserved byte // *** _ __ __ }"] := rfl

end Smpp.Properties.SrcScalar
