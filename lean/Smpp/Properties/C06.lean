/-
C06 — Documented concurrent use of Conn is free of data races.

What is proved is the lockset discipline, on facts REGENERATED from conn.go on every run:
  * the only mutable plain state of Conn is the `pending` map; every access to it lies lexically inside a
    `c.mu.Lock() … c.mu.Unlock()` region (functions lookup and register), and no other function mentions it;
  * every other field is assigned once, in NewConn's composite literal, before any goroutine can exist, and is
    afterwards only read (ctx, cancel, parent, receiveQueue are themselves synchronisation objects or safe for
    concurrent use by contract: context.Context, context.CancelFunc, net.Conn, chan);
  * in the transition system (Smpp/Model/Conn.lean) each pending-table operation is one atomic label, which is
    exactly what holding the mutex across it provides.
PARTIAL: that lock-protected accesses are ordered by happens-before in the Go memory model is trusted, not proved;
the race detector run of the README workload (engine `racerun`) is the search for a failing execution.
-/
import Smpp.Generated.ConnFacts
import Smpp.Properties.ConnSource

namespace Smpp.Properties.C06
open Smpp.Generated

/-- the fields of Conn: one mutex, one map, and otherwise immutable references / configuration -/
theorem conn_fields : connFields = [
  ("parent", "net.Conn"), ("ctx", "context.Context"), ("cancel", "context.CancelFunc"),
  ("receiveQueue", "chan interface{}"), ("pending", "map[int32]func(interface{})"), ("mu", "sync.Mutex"),
  ("NextSequence", "func() int32"), ("ReadTimeout", "time.Duration"), ("WriteTimeout", "time.Duration")] := by decide +kernel

/-- **every access to the pending table holds the mutex** -/
theorem C06_pending_guarded : (connAccesses.filter fun a => a.2.1 == "pending").all (fun a => a.2.2.2) = true := by
  decide +kernel

/-- and the table is touched by lookup and register only -/
theorem C06_pending_sites : ((connAccesses.filter fun a => a.2.1 == "pending").map (·.1)).eraseDups = ["Conn.lookup", "Conn.register"] := by
  decide +kernel

/-- **no field of Conn is assigned after construction**: the only non-read accesses are the guarded map writes and the
close of the queue (a channel operation, performed once by Watch: C15) -/
theorem C06_no_unguarded_write : (connAccesses.filter fun a => a.2.2.1 != "read") =
    [("Conn.Watch", "receiveQueue", "close", false), ("Conn.register", "pending", "write", true), ("Conn.register", "pending", "write", true)] := by
  decide +kernel

/-- the mutex itself is used only through Lock / Unlock inside lookup and register -/
theorem C06_lock_shape : connSrc_Conn_lookup = [
    "Conn.lookup: c.mu.Lock()", "Conn.lookup: defer c.mu.Unlock()", "Conn.lookup: callback, ok = c.pending[sequence]", "Conn.lookup: return"] ∧
  connSrc_Conn_register = [
    "Conn.register: c.mu.Lock()", "Conn.register: defer c.mu.Unlock()",
    "Conn.register: if callback == nil { delete(c.pending, sequence) } else { c.pending[sequence] = callback }"] := ⟨rfl, rfl⟩

/-- conn.go declares no other function that could reach the connection state -/
theorem C06_functions : connFunctions = ["OpenConn", "NewConn", "Conn.Watch", "Conn.Submit", "Conn.lookup", "Conn.register",
    "Conn.Send", "Conn.EnquireLink", "Conn.Close", "Conn.Done", "Conn.PDU"] := by decide +kernel

/-- non-vacuity: the fact list is not empty and does contain guarded map accesses -/
example : (connAccesses.filter fun a => a.2.1 == "pending").length = 3 := by decide +kernel

end Smpp.Properties.C06
