/-
C13 — Re-encoding a decoded PDU is stable and deterministic.
-/
import Smpp.Properties.SrcPduCodec
import Smpp.Properties.SrcPduFrame
import Smpp.Proofs.Reencode
import Smpp.Generated.Layouts

namespace Smpp.Properties.C13
open Smpp Smpp.Pdu Smpp.Generated

theorem layouts_ok : ∀ L ∈ pduLayouts, LayoutOK L = true := by decide +kernel
theorem layouts_registered : ∀ L ∈ pduLayouts, lookupLayout pduLayouts L.id = some L := by decide +kernel

/-! ## determinism: the emitted octets do not depend on Go's map iteration order -/

theorem keyLe_trans (a b c : Nat × Bytes) : keyLe a b = true → keyLe b c = true → keyLe a c = true := by
  simp only [keyLe, decide_eq_true_eq]; omega

theorem keyLe_total (a b : Nat × Bytes) : (keyLe a b || keyLe b a) = true := by
  simp only [keyLe, Bool.or_eq_true, decide_eq_true_eq]; omega

theorem eq_of_key_eq {l : List (Nat × Bytes)} (hnd : (l.map (·.1)).Nodup) {a b : Nat × Bytes}
    (ha : a ∈ l) (hb : b ∈ l) (hk : a.1 = b.1) : a = b := by
  induction l with
  | nil => simp at ha
  | cons x l ih =>
    simp only [List.map_cons, List.nodup_cons, List.mem_map, not_exists, not_and] at hnd
    simp only [List.mem_cons] at ha hb
    rcases ha with rfl | ha <;> rcases hb with rfl | hb
    · rfl
    · exact absurd hk.symm (hnd.1 b hb)
    · exact absurd hk (hnd.1 a ha)
    · exact ih hnd.2 ha hb

/-- Sorting the collected keys erases the iteration order: any two iteration orders of the same
map (permutations of its entries, keys distinct as in any map) sort to the same list. -/
theorem sort_perm_eq (i₁ i₂ : List (Nat × Bytes)) (hp : i₁.Perm i₂) (hnd : (i₁.map (·.1)).Nodup) :
    i₁.mergeSort keyLe = i₂.mergeSort keyLe := by
  apply List.Perm.eq_of_pairwise (le := fun a b => keyLe a b = true)
  · intro a b ha hb hab hba
    have ha' : a ∈ i₁ := (List.mergeSort_perm i₁ keyLe).subset ha
    have hb' : b ∈ i₁ := hp.symm.subset ((List.mergeSort_perm i₂ keyLe).subset hb)
    apply eq_of_key_eq hnd ha' hb'
    simp only [keyLe, decide_eq_true_eq] at hab hba
    omega
  · exact List.pairwise_mergeSort keyLe_trans keyLe_total i₁
  · exact List.pairwise_mergeSort keyLe_trans keyLe_total i₂
  · exact ((List.mergeSort_perm i₁ keyLe).trans hp).trans (List.mergeSort_perm i₂ keyLe).symm

/-- **C13 determinism, TLVs.** -/
theorem C13_deterministic_tags (i₁ i₂ : List (Nat × Bytes)) (hp : i₁.Perm i₂)
    (hnd : (i₁.map (·.1)).Nodup) : encTagsIter i₁ = encTagsIter i₂ := by
  unfold encTagsIter; rw [sort_perm_eq i₁ i₂ hp hnd]

/-- **C13 determinism, user data header.** -/
theorem C13_deterministic_udh (i₁ i₂ : List (Nat × Bytes)) (hp : i₁.Perm i₂)
    (hnd : (i₁.map (·.1)).Nodup) : encUdhIter (some i₁) = encUdhIter (some i₂) := by
  unfold encUdhIter; simp only [Option.map_some]; rw [sort_perm_eq i₁ i₂ hp hnd]

/-- The canonical (key-sorted) representation the model uses elsewhere is one such order. -/
theorem encTagsSorted_eq_iter (m : KMap) (h : KSorted m) : encTagsSorted m = encTagsIter m := by
  unfold encTagsIter
  rw [List.mergeSort_of_pairwise]
  unfold KSorted at h
  exact h.imp (fun {a b} hab => by simp only [keyLe, decide_eq_true_eq]; omega)

/-! ## stability: what Marshal wrote decodes to the value Marshal left, empty TLVs dropped -/

/-- **C13 stability (first half; partial).**  If Marshal accepts a well-formed value (as every
value decoded from a frame is: NUL-free strings, bit fields in range, canonical maps) then
decoding Marshal's output — under any fragmentation — gives that value with TLVs of empty
value removed and the header stating the new frame's length.  Not yet mechanised: that the
decoder's output satisfies these well-formedness conditions, and that encoding the result
again gives identical octets (both are exercised by the `reenc` correspondence/oracle run). -/
theorem C13_redecode_partial (L : Layout) (hL : LayoutOK L = true) (hreg : lookupLayout pduLayouts L.id = some L)
    (h : Header) (rest : List FVal)
    (hty : Typed L.fields (.header h :: rest) = true)
    (hwf : ∀ x ∈ rest, FValWF L.isReplace (udhiOf L.fields (.header h :: rest)) x)
    (b' : Bytes) (after : List FVal) (hm : marshal L (.header h :: rest) = ⟨.ok b', after⟩)
    (hlen : b'.length ≤ 65536) :
    unmarshal L b' = some (decodedOf L b'.length after) :=
  (unmarshal_marshal L hL h rest hty hwf b' after hm hlen).1

/-- **C13 stability (full strength).**  Take ANY octet stream under ANY fragmentation that ReadPDU
accepts, returning `v` of type `name`, not using the reserved data_coding 0xBF.  If Marshal accepts
`v` and writes `b2` (a frame ReadPDU's 64 KiB limit admits) then
 * Marshal left `v` as it was;
 * ReadPDU on `b2`, under every fragmentation, returns the same type and the value `v2` = `v` with
   TLVs of empty value dropped and the header restating `b2`'s length, consuming exactly `b2`;
 * Marshal of `v2` writes exactly `b2` again and leaves `v2` as it was (so every further
   decode/encode round repeats `v2`/`b2`). -/
theorem C13_stable (s : Stream) (name : String) (v : List FVal)
    (hread : (readPDU pduLayouts s).out = .ok name v) :
    ∃ L ∈ pduLayouts, L.name = name ∧
      (NoReserved L.isReplace v → ∀ b2 after, marshal L v = ⟨.ok b2, after⟩ → b2.length ≤ 65536 →
        after = v ∧
        (∀ cs : Stream, cs.flatten = b2 →
          (readPDU pduLayouts cs).out = .ok name (relen b2.length (v.map normVal)) ∧
          (readPDU pduLayouts cs).consumed = b2.length) ∧
        marshal L (relen b2.length (v.map normVal)) = ⟨.ok b2, relen b2.length (v.map normVal)⟩) := by
  obtain ⟨L, frame, hmem, hname, hun, hid⟩ :=
    readPDU_ok_inv pduLayouts Smpp.Properties.C13.layouts_ok s name v hread
  refine ⟨L, hmem, hname, ?_⟩
  intro hbf b2 after hm hlen
  have hL := layouts_ok L hmem
  obtain ⟨hafter, hun2, hm2⟩ := reencode_stable L hL frame v hun hbf hid b2 after hm hlen
  refine ⟨hafter, ?_, hm2⟩
  intro cs hcs
  obtain ⟨h, rest, rfl, hty, hwf⟩ := decoded_representable L hL frame v hun hbf b2 after hm
  have hr := readPDU_marshal pduLayouts L hL (layouts_registered L hmem) h rest hty hwf b2 after hm hlen cs hcs
  have hum := (unmarshal_marshal L hL h rest hty hwf b2 after hm hlen).1
  rw [hun2] at hum
  rw [← hname, Option.some.inj hum]
  exact hr

/-! ## non-vacuity -/
example : encTagsIter [(7, [1]), (3, [2, 2]), (5, [])] = encTagsIter [(5, []), (7, [1]), (3, [2, 2])] :=
  C13_deterministic_tags _ _ (by decide) (by decide)

end Smpp.Properties.C13
