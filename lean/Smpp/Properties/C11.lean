/-
C11 — No PDU accepted from the network can crash its consumer.

Proved for ARBITRARY values of the decoded types (stronger than "decodable from bytes", so no
reachability argument is needed).  Operations without any partial step in the source
(ReadSequence, ReadCommandStatus, Resp(), the fmt-based String methods of ESMClass /
RegisteredDelivery / DataCoding / InterfaceVersion, map-lookup based CommandID.String and
CommandStatus.String) are covered by the regenerated panic-site inventory; Parse's decoders are
total (GSM 7-bit: C08 model; the others are golang.org/x/text, trusted).
-/
import Smpp.Properties.SrcGsm7
import Smpp.Properties.SrcPduAccess
import Smpp.Properties.SrcCombine
import Smpp.Proofs.CombinerProofs
import Smpp.Generated.PduFacts

namespace Smpp.Properties.C11
open Smpp Smpp.Pdu Smpp.Combiner Smpp.Generated

/-! ## expectations on regenerated facts -/

/-- every index / slice / unchecked assertion in the accessor and combiner files.
`registry[id]…` are map operations except the slot store, modelled by `setSlot`;
`messageStateMap[m]` is modelled by `messageStateString`; `commandIDNames[c]`,
`commandStatusNames[..]`, `types[..]` are map lookups; pdu/time.go's indices are on fixed-size
arrays with constant or loop-bounded indices after the `len(input) != 16` test (and are not
reachable from a decoded PDU without the caller passing a string); `ConcatenatedHeader.Set`
indexes the 4 octets binary.Write just produced. -/
theorem panic_sites_inventory : accessorPanicSites = [
  ("pdu/factory.go|CommandID.String|index", 1),
  ("pdu/factory.go|init|index", 2),
  ("pdu/header_names.go|CommandStatus.String|index", 1),
  ("pdu/message_multipart.go|CombineMultipartDeliverSM|index", 7),
  ("pdu/message_state.go|MessageState.String|index", 1),
  ("pdu/time.go|Duration.From|index", 1),
  ("pdu/time.go|Duration.String|index", 7),
  ("pdu/time.go|Time.From|index", 8),
  ("pdu/time.go|fromTimeString|index", 6),
  ("pdu/time.go|fromTimeString|slice", 3),
  ("pdu/udh_element.go|ConcatenatedHeader.Set|index", 3),
  ("pdu/udh_element.go|ConcatenatedHeader.Set|slice", 1)] := by decide +kernel

/-- the guards in front of the partial operations, as the model transcribes them -/
theorem guards_source :
    accessorStmts.filter (fun s => s.startsWith "MessageState" || s.startsWith "UserDataHeader") = [
      "MessageState.String: if int(m) >= len(messageStateMap) { return strconv.Itoa(int(m)) }",
      "MessageState.String: return strings.ToUpper(messageStateMap[m])",
      "UserDataHeader.ConcatenatedHeader: if data, ok := h[0x00]; ok && len(data) >= 3 { return &ConcatenatedHeader{ Reference: uint16(data[0]), TotalParts: data[1], Sequence: data[2], } } else if data, ok = h[0x08]; ok && len(data) >= 4 { return &ConcatenatedHeader{ Reference: binary.BigEndian.Uint16(data[0:2]), TotalParts: data[2], Sequence: data[3], } }",
      "UserDataHeader.ConcatenatedHeader: return nil"] := by decide +kernel

/-- `p.No[0]` in Address.String sits behind `len(p.No) > 0` -/
theorem address_string_guard :
    pduGuards.filter (fun g => g.startsWith "pdu/address.go Address.String") =
      ["pdu/address.go Address.String: len(p.No) > 0"] ∧
    pduPanicSites.filter (fun p => p.1.startsWith "pdu/address.go") =
      [("pdu/address.go|Address.String|index", 1)] := by decide +kernel

theorem state_table : messageStateNames.length = 10 := by decide +kernel

/-! ## theorems -/

/-- extracting the concatenation header never panics, whatever the user data header holds
(elements of any length, either or both ids, or none) -/
theorem C11_concat_total (udh : Option KMap) : (concatHeader udh).isPanic = false := by
  obtain ⟨r, h, _⟩ := concatHeader_ok udh
  rw [h]; rfl

/-- feeding ANY history of deliver_sm PDUs to the combiner never panics: sequence 0, sequence above
the announced total, a later segment announcing another total, totals of 0 … are ignored -/
theorem C11_combiner_total (history : List Seg) : (run [] history).isPanic = false := by
  obtain ⟨out, h⟩ := run_ok history []
  rw [h]; rfl

/-- MessageState.String returns for every octet value (the name, or the decimal number) -/
theorem C11_message_state_total (m : Nat) : (messageStateString messageStateNames m).isPanic = false := by
  obtain ⟨s, h⟩ := messageStateString_ok messageStateNames m
  rw [h]; rfl

/-- Address.String (and with it UnsuccessfulRecord.String) returns for every address, including
an international ISDN address with an empty number -/
theorem C11_address_string_total (a : Addr) : (addressString a).isPanic = false := by
  obtain ⟨s, h⟩ := addressString_ok a
  rw [h]; rfl

/-! ## non-vacuity -/
example : addressString ⟨1, 1, []⟩ = .ok [] := by decide
example : addressString ⟨1, 1, [49]⟩ = .ok [43, 49] := by decide
example : concatHeader (some [(0, [1])]) = .ok none := by decide
example : concatHeader (some [(0, [1]), (8, [0xF4, 0x2E, 2, 1])]) = .ok (some ⟨62510, 2, 1⟩) := by decide
example : messageStateString messageStateNames 10 = .ok "10" := by decide +kernel

end Smpp.Properties.C11
