-- Expectations on the regenerated source snapshot group Coding (written by tools/gen_srcgroup_expect.py after the models
-- were validated against this source).  A changed statement or declaration breaks the lemma of its function / file.
import Smpp.Generated.SrcCoding
namespace Smpp.Properties.SrcCoding
open Smpp.Generated.SrcCoding

theorem exp_coding_best_coding_BestCoding : src_coding_best_coding_BestCoding = [
  "sig: func(input string) DataCoding",
  "codings := []DataCoding{ GSM7BitCoding, ASCIICoding, Latin1Coding, CyrillicCoding, HebrewCoding, ShiftJISCoding, EUCKRCoding, }",
  "for _, coding := range codings { if coding.Validate(input) { return coding } }",
  "return UCS2Coding"] := rfl

theorem exp_coding_best_coding_BestSafeCoding : src_coding_best_coding_BestSafeCoding = [
  "sig: func(input string) DataCoding",
  "if GSM7BitCoding.Validate(input) { return GSM7BitCoding }",
  "return UCS2Coding"] := rfl

theorem exp_coding_best_coding__functions : src_coding_best_coding__functions = [
  "BestCoding", "BestSafeCoding"] := rfl

theorem exp_coding_best_coding__decls : src_coding_best_coding__decls = [] := rfl

theorem exp_coding_data_coding_DataCoding_GoString : src_coding_data_coding_DataCoding_GoString = [
  "sig: func() string",
  "return c.String()"] := rfl

theorem exp_coding_data_coding_DataCoding_String : src_coding_data_coding_DataCoding_String = [
  "sig: func() string",
  "return fmt.Sprintf(\"%08b\", byte(c))"] := rfl

theorem exp_coding_data_coding_DataCoding_MessageWaitingInfo : src_coding_data_coding_DataCoding_MessageWaitingInfo = [
  "sig: func() (coding DataCoding, active bool, kind int)",
  "kind = -1",
  "coding = NoCoding",
  "switch c >> 4 & 0b1111 { case 0b1100: case 0b1101: coding = GSM7BitCoding case 0b1110: coding = UCS2Coding default: return }",
  "active = c>>3 == 1",
  "kind = int(c & 0b11)",
  "return"] := rfl

theorem exp_coding_data_coding_DataCoding_MessageClass : src_coding_data_coding_DataCoding_MessageClass = [
  "sig: func() (coding DataCoding, class int)",
  "class = int(c & 0b11)",
  "coding = GSM7BitCoding",
  "if c>>4&0b1111 != 0b1111 { coding = NoCoding class = -1 } else if c>>2&0b1 == 1 { coding = UCS2Coding }",
  "return"] := rfl

theorem exp_coding_data_coding_DataCoding_Encoding : src_coding_data_coding_DataCoding_Encoding = [
  "sig: func() Encoding",
  "if coding, _, kind := c.MessageWaitingInfo(); kind != -1 { return encodingMap[coding] } else if coding, class := c.MessageClass(); class != -1 { return encodingMap[coding] }",
  "return encodingMap[c]"] := rfl

theorem exp_coding_data_coding_DataCoding_Splitter : src_coding_data_coding_DataCoding_Splitter = [
  "sig: func() Splitter",
  "if coding, _, kind := c.MessageWaitingInfo(); kind != -1 { return splitterMap[coding] } else if coding, class := c.MessageClass(); class != -1 { return splitterMap[coding] }",
  "return splitterMap[c]"] := rfl

theorem exp_coding_data_coding_DataCoding_Validate : src_coding_data_coding_DataCoding_Validate = [
  "sig: func(input string) bool",
  "if c == UCS2Coding { return true }",
  "for _, r := range input { if !Is(alphabetMap[c], r) { return false } }",
  "return true"] := rfl

theorem exp_coding_data_coding__functions : src_coding_data_coding__functions = [
  "DataCoding.GoString", "DataCoding.String", "DataCoding.MessageWaitingInfo", "DataCoding.MessageClass", "DataCoding.Encoding", "DataCoding.Splitter", "DataCoding.Validate"] := rfl

theorem exp_coding_data_coding__decls : src_coding_data_coding__decls = [
  "type DataCoding byte",
  "const ( GSM7BitCoding DataCoding = 0b00000000 // GSM 7Bit ASCIICoding DataCoding = 0b00000001 // ASCII Latin1Coding DataCoding = 0b00000011 // ISO-8859-1 (Latin-1) ShiftJISCoding DataCoding = 0b00000101 // Shift-JIS CyrillicCoding DataCoding = 0b00000110 // ISO-8859-5 (Cyrillic) HebrewCoding DataCoding = 0b00000111 // ISO-8859-8 (Hebrew) UCS2Coding DataCoding = 0b00001000 // UCS-2 ISO2022JPCoding DataCoding = 0b00001010 // ISO-2022-JP EUCJPCoding DataCoding = 0b00001101 // Extended Kanji JIS (X 0212-1990) EUCKRCoding DataCoding = 0b00001110 // KS X 1001 (KS C 5601) NoCoding DataCoding = 0b10111111 // Reserved (Non-specification definition) )",
  "var encodingMap = map[DataCoding]Encoding{ GSM7BitCoding: gsm7bit.Packed, ASCIICoding: charmap.ISO8859_1, Latin1Coding: charmap.ISO8859_1, ShiftJISCoding: japanese.ShiftJIS, CyrillicCoding: charmap.ISO8859_5, HebrewCoding: charmap.ISO8859_8, UCS2Coding: unicode.UTF16(unicode.BigEndian, unicode.IgnoreBOM), ISO2022JPCoding: japanese.ISO2022JP, EUCJPCoding: japanese.EUCJP, EUCKRCoding: korean.EUCKR, }",
  "var alphabetMap = map[DataCoding]*RangeTable{ GSM7BitCoding: gsm7bit.DefaultAlphabet, ASCIICoding: _ASCII, Latin1Coding: rangetable.Merge(_ASCII, Latin), CyrillicCoding: rangetable.Merge(_ASCII, Cyrillic), HebrewCoding: rangetable.Merge(_ASCII, Hebrew), ShiftJISCoding: rangetable.Merge(_ASCII, _Shift_JIS_Definition), EUCKRCoding: rangetable.Merge(_ASCII, _EUC_KR_Definition), }",
  "var splitterMap = map[DataCoding]Splitter{ GSM7BitCoding: _7BitSplitter, ASCIICoding: _1ByteSplitter, HebrewCoding: _1ByteSplitter, CyrillicCoding: _1ByteSplitter, Latin1Coding: _1ByteSplitter, ShiftJISCoding: _MultibyteSplitter, ISO2022JPCoding: _MultibyteSplitter, EUCJPCoding: _MultibyteSplitter, EUCKRCoding: _MultibyteSplitter, UCS2Coding: _UTF16Splitter, }"] := rfl

theorem exp_coding_range_table__functions : src_coding_range_table__functions = [] := rfl

theorem exp_coding_range_table__decls : src_coding_range_table__decls = [
  "//goland:noinspection GoSnakeCaseUsage var ( _ASCII = &RangeTable{R16: []Range16{ {0x00, 0x7F, 1}, }} _Shift_JIS_Definition = &RangeTable{R16: []Range16{ {0x00A1, 0x0460, 1}, {0x2010, 0x2670, 1}, {0x3000, 0x33CE, 1}, {0x4E00, 0x9FA6, 1}, {0xF929, 0xFA2E, 1}, {0xFF01, 0xFFE6, 1}, }} _EUC_KR_Definition = &RangeTable{R16: []Range16{ {0x00A1, 0x0452, 1}, {0x2015, 0x266E, 1}, {0x3000, 0x33DE, 1}, {0x4E00, 0x9F9D, 1}, {0xAC00, 0xD7A4, 1}, {0xF900, 0xFA0C, 1}, {0xFF01, 0xFFE7, 1}, }} )"] := rfl

end Smpp.Properties.SrcCoding
