import Smpp.Model.Pdu
namespace Smpp.Properties.C12
theorem test : 1 + 1 = 2 := rfl
end Smpp.Properties.C12
