/-
C12 — Marshal is all-or-nothing and never panics.
-/
import Smpp.Properties.SrcPduCodec
import Smpp.Proofs.Roundtrip
import Smpp.Generated.Layouts
import Smpp.Generated.PduFacts

namespace Smpp.Properties.C12
open Smpp Smpp.Pdu Smpp.Generated

/-- The Write calls Marshal issues to its destination: the model's `MarshalOut` records the
octets handed to the single `buf.WriteTo(w)`. -/
def writes (o : MarshalOut) : List Bytes :=
  match o.res with
  | .ok b => [b]
  | _ => []

/-! ## expectations on regenerated facts -/

/-- Marshal touches its destination in exactly one place, the final `buf.WriteTo(w)`;
bytes.Buffer.WriteTo issues one Write with the whole buffer. -/
theorem single_write_site : marshalWriterUses = ["buf.WriteTo(w)"] := by decide +kernel

/-- every PDU struct starts with its Header (so the model's fallback arm for header-less
structs is never taken for a value of a registered type) -/
theorem header_first :
    pduLayouts.all (fun L => match L.fields with | f :: _ => f.kind == .header | [] => false) = true := by
  decide +kernel

/-- the literal guards of the codec (encoder size limits, decoder bounds), all of them -/
theorem codec_guards : pduGuards = [
  "pdu/header.go readHeaderFrom: header.CommandLength < 16",
  "pdu/header.go readHeaderFrom: header.CommandLength > 0x10000",
  "pdu/marshal.go Marshal: v.Sequence > 0",
  "pdu/message.go ShortMessage.WriteTo: len(p.Message) > MaxShortMessageLength",
  "pdu/message.go ShortMessage.WriteTo: len(data)-1-start > 0xFF",
  "pdu/message.go ShortMessage.Compose: coding.Splitter().Len(input) > MaxShortMessageLength",
  "pdu/udh.go UserDataHeader.ReadFrom: len(header) > 0",
  "pdu/udh.go UserDataHeader.WriteTo: len(data) > 0xFF",
  "pdu/udh.go UserDataHeader.WriteTo: len(data)-1 > 0xFF",
  "pdu/udh.go UserDataHeader.ConcatenatedHeader: len(data) >= 3",
  "pdu/udh.go UserDataHeader.ConcatenatedHeader: len(data) >= 4",
  "pdu/tag.go Tags.ReadFrom: len(tags) > 0",
  "pdu/tag.go Tags.WriteTo: length < 0xFFFF",
  "pdu/address.go Address.String: len(p.No) > 0",
  "pdu/address.go DestinationAddresses.WriteTo: length > 0xFF",
  "pdu/address.go UnsuccessfulRecords.WriteTo: len(p) > 0xFF"] := by decide +kernel

/-! ## theorems — for EVERY layout and EVERY value, no domain restriction -/

/-- Marshal never panics: the only partial operation, the length patch `data[0:4]`, is reached
only after the 16-octet header has been written. -/
theorem C12_total (L : Layout) (v : List FVal) : (marshal L v).res.isPanic = false := by
  unfold marshal
  split
  · next h rest =>
    simp only
    split
    · rfl
    · split
      · rfl
      · split
        · rfl
        · next body rest' _ =>
          have : ¬ ((encHeader { h with id := UInt32.ofNat L.id } ++ body).length < 4) := by
            simp [encHeader_length]; omega
          simp only [this, ↓reduceIte]
          rfl
  · rfl

/-- On success exactly one frame is written; it has at least 16 octets and (being below 4 GiB)
its first four octets state, big-endian, the number of octets written. -/
theorem C12_success (L : Layout) (v : List FVal) (b : Bytes) (after : List FVal)
    (h : marshal L v = ⟨.ok b, after⟩) :
    writes (marshal L v) = [b] ∧ 16 ≤ b.length ∧ b.take 4 = be32 (UInt32.ofNat b.length) := by
  refine ⟨by rw [h]; rfl, ?_⟩
  cases v with
  | nil => simp [marshal] at h
  | cons x rest =>
    cases x with
    | header hd =>
      obtain ⟨_, hcase⟩ := marshal_ok L hd rest b after h
      rcases hcase with ⟨_, ⟨n16, hn16, hb⟩, _⟩ | ⟨_, body, rest', _, hb, _⟩
      · subst hb
        refine ⟨by simp [encHeader_length], ?_⟩
        have : UInt32.ofNat 16 = n16 := by apply UInt32.toNat_inj.mp; rw [hn16]; decide
        rw [encHeader_length, this]
        rfl
      · subst hb
        have hl : (encHeader ⟨UInt32.ofNat (16 + body.length), UInt32.ofNat L.id, hd.status, hd.seq⟩ ++ body).length
            = 16 + body.length := by simp [encHeader_length]
        refine ⟨by omega, ?_⟩
        rw [hl]
        rfl
    | _ => simp [marshal] at h

/-- On error nothing is written to the destination. -/
theorem C12_failure (L : Layout) (v : List FVal) (e : Err) (after : List FVal)
    (h : marshal L v = ⟨.err e, after⟩) : writes (marshal L v) = [] := by
  rw [h]; rfl

/-- Send's guard and Marshal's agree: a non-positive sequence number is refused, whatever the
command_status (the input class that used to panic). -/
theorem C12_nonpositive_sequence (L : Layout) (h : Header) (rest : List FVal) (hs : h.seqPos = false) :
    (marshal L (.header h :: rest)).res = .err .invalidSeq := by
  simp [marshal, hs]

/-! ## non-vacuity -/
example : (marshal ⟨"Unbind", 6, [⟨"Header", .header⟩], false⟩ [.header ⟨0, 0, 3, 0⟩]).res = .err .invalidSeq := by
  decide
example : writes (marshal ⟨"Unbind", 6, [⟨"Header", .header⟩], false⟩ [.header ⟨0, 0, 0, 9⟩])
    = [[0, 0, 0, 16, 0, 0, 0, 6, 0, 0, 0, 0, 0, 0, 0, 9]] := by decide

end Smpp.Properties.C12
