/-
C02 — Marshal and ReadPDU agree with the SMPP v5 wire layout, field by field.
-/
import Smpp.Properties.SrcPduCodec
import Smpp.Properties.SrcPduFrame
import Smpp.Proofs.SpecLayout
import Smpp.Proofs.Roundtrip
import Smpp.Generated.Layouts
import Smpp.Generated.PduFacts

namespace Smpp.Properties.C02
open Smpp Smpp.Pdu Smpp.Generated

/-! ## the regenerated Go layouts against the independent specification table -/

/-- mandatory parameters of a Go struct: everything after the header except the TLV map -/
def goParams (L : Layout) : List (String × Kind) :=
  ((L.fields.drop 1).filter (fun f => f.kind != .tags)).map (fun f => (f.name, f.kind))

def hasTags (L : Layout) : Bool := L.fields.any (fun f => f.kind == .tags)

def layoutMatches (L : Layout) : Bool :=
  match Spec.specOf L.id with
  | some op => goParams L == op.params.map (fun p => (p.goField, p.kind))
  | none => false

/-- KNOWN FINDING C02-queryresp-errorcode: every operation's mandatory parameters — names, order
and field kinds — are those of SMPP v5 §4, except that query_sm_resp's `error_code`
(a one-octet integer in the specification) is a field the codec skips.  A swapped, missing,
added or re-typed field in packet.go changes the regenerated layouts and breaks this lemma. -/
theorem table_matches_except_known :
    (pduLayouts.filter (fun L => !layoutMatches L)).map (·.name) = ["QuerySMResp"] := by decide +kernel

/-- … and for query_sm_resp the difference is exactly the kind of that one field. -/
theorem queryresp_difference :
    (pduLayouts.find? (·.name == "QuerySMResp")).map goParams
      = some [("MessageID", .cstr), ("FinalDate", .cstr), ("MessageState", .u8), ("ErrorCode", .skipped "uint32")] := by
  decide +kernel

/-- The specification covers exactly the 33 registered command ids. -/
theorem ids_covered :
    (Spec.smppV5.map (·.id)).all (fun i => pduLayouts.any (·.id == i)) = true ∧
    Spec.smppV5.length = pduLayouts.length := by decide +kernel

/-- Where the Go struct and the specification disagree on the presence of optional TLVs
(DESIGN.md §9.2): two structs carry a Tags field the specification lacks (empty ⇒ no octets),
one lacks the field although the specification allows TLVs. -/
theorem tlv_presence :
    (pduLayouts.filter (fun L => match Spec.specOf L.id with
        | some op => hasTags L != op.tlvs
        | none => true)).map (·.name) = ["EnquireLink", "GenericNACK", "SubmitSMResp"] := by decide +kernel

/-- esm_class / registered_delivery: the statements the model's bit codecs transcribe. -/
theorem bit_codec_source : bitCodecStmts = [
  "ESMClass.ReadByte: c |= e.MessageMode & 0b11",
  "ESMClass.ReadByte: c |= e.MessageType & 0b1111 << 2",
  "ESMClass.ReadByte: c |= getBool(e.UDHIndicator) << 6",
  "ESMClass.ReadByte: c |= getBool(e.ReplyPath) << 7",
  "ESMClass.ReadByte: return",
  "ESMClass.WriteByte: e.MessageMode = c & 0b11",
  "ESMClass.WriteByte: e.MessageType = c >> 2 & 0b1111",
  "ESMClass.WriteByte: e.UDHIndicator = c>>6&0b1 == 1",
  "ESMClass.WriteByte: e.ReplyPath = c>>7&0b1 == 1",
  "ESMClass.WriteByte: return nil",
  "RegisteredDelivery.ReadByte: c |= r.MCDeliveryReceipt & 0b11",
  "RegisteredDelivery.ReadByte: c |= r.SMEOriginatedAcknowledgment & 0b11 << 2",
  "RegisteredDelivery.ReadByte: c |= getBool(r.IntermediateNotification) << 4",
  "RegisteredDelivery.ReadByte: c |= r.Reserved & 0b111 << 5",
  "RegisteredDelivery.ReadByte: return",
  "RegisteredDelivery.WriteByte: r.MCDeliveryReceipt = c & 0b11",
  "RegisteredDelivery.WriteByte: r.SMEOriginatedAcknowledgment = c >> 2 & 0b11",
  "RegisteredDelivery.WriteByte: r.IntermediateNotification = c>>4&0b1 == 1",
  "RegisteredDelivery.WriteByte: r.Reserved = c >> 5 & 0b111",
  "RegisteredDelivery.WriteByte: return nil"] := by decide +kernel

/-- the encoders' size guards (what makes an unrepresentable value an error) -/
theorem encoder_guards :
    pduGuards.filter (fun g => g.startsWith "pdu/address.go" || g.startsWith "pdu/tag.go Tags.WriteTo"
        || g.startsWith "pdu/udh.go UserDataHeader.WriteTo" || g.startsWith "pdu/message.go ShortMessage.WriteTo") = [
      "pdu/message.go ShortMessage.WriteTo: len(p.Message) > MaxShortMessageLength",
      "pdu/message.go ShortMessage.WriteTo: len(data)-1-start > 0xFF",
      "pdu/udh.go UserDataHeader.WriteTo: len(data) > 0xFF",
      "pdu/udh.go UserDataHeader.WriteTo: len(data)-1 > 0xFF",
      "pdu/tag.go Tags.WriteTo: length < 0xFFFF",
      "pdu/address.go Address.String: len(p.No) > 0",
      "pdu/address.go DestinationAddresses.WriteTo: length > 0xFF",
      "pdu/address.go UnsuccessfulRecords.WriteTo: len(p) > 0xFF"] := by decide +kernel

/-! ## octets -/

theorem be32_ofNat {n : Nat} (h : n < 4294967296) : be32 (UInt32.ofNat n) = Spec.int4 n := by
  rw [be32_int4, u32_ofNat_toNat h]

/-- **C02, encoding.**  For a representable value the frame Marshal writes is the frame the
specification prescribes for the operation with this command_id: 16-octet big-endian header
with command_length = frame size, then each parameter as the specification lays it out, then
the (non-empty) TLVs in ascending tag order — one of the orders the specification allows. -/
theorem C02_encode (L : Layout) (op : Spec.Op) (hid : op.id = L.id) (hidlt : L.id < 4294967296)
    (h : Header) (rest : List FVal)
    (hwf : ∀ x ∈ rest, FValWF L.isReplace (udhiOf L.fields (.header h :: rest)) x)
    (b : Bytes) (after : List FVal) (hm : marshal L (.header h :: rest) = ⟨.ok b, after⟩)
    (hst : h.status = 0) (hlen : b.length ≤ 65536) :
    b = Spec.frame op L.isReplace 0 h.seq.toNat after.tail := by
  obtain ⟨_, hcase⟩ := marshal_ok L h rest b after hm
  rcases hcase with ⟨hne, _, _⟩ | ⟨_, body, rest', he, hb, ha⟩
  · exact absurd hst hne
  · have hbody := encFields_spec L.isReplace _ rest body rest' hwf he
    have hbl : b.length = 16 + body.length := by rw [hb]; simp [encHeader_length]
    subst ha
    simp only [List.tail_cons, Spec.frame, ← hbody, hid]
    rw [hb]
    simp only [encHeader, be32_ofNat (show 16 + body.length < 4294967296 by omega), be32_ofNat hidlt, hst,
      be32_int4 h.seq]
    rfl

/-- **C02, unrepresentable values.**  If Marshal succeeds then every length-prefixed field of
the (prepared) value fits its length field: a value that cannot be expressed — more than 255
destinations or records, a TLV above 65534 octets, a UDH element or a UDH above 255 octets,
UDH plus message above what the one-octet sm_length can state — makes Marshal report an error. -/
theorem C02_unrepresentable (rp U : Bool) (v v' : FVal) (b : Bytes)
    (he : encField rp U v = .ok (b, v')) : Spec.expressible v' = true := by
  cases v with
  | dests d =>
    obtain ⟨bb, hd, h2⟩ := except_map_ok _ _ _ he
    simp only [Prod.mk.injEq] at h2
    obtain ⟨_, rfl⟩ := h2
    by_cases hn : d.addrs.length + d.dls.length > 255
    · simp [encDests, hn] at hd
    · simp [Spec.expressible]; omega
  | unsucc l =>
    obtain ⟨bb, hd, h2⟩ := except_map_ok _ _ _ he
    simp only [Prod.mk.injEq] at h2
    obtain ⟨_, rfl⟩ := h2
    by_cases hn : l.length > 255
    · simp [encUnsucc, hn] at hd
    · simp [Spec.expressible]; omega
  | tags t =>
    obtain ⟨bb, hd, h2⟩ := except_map_ok _ _ _ he
    simp only [Prod.mk.injEq] at h2
    obtain ⟨hbb, rfl⟩ := h2
    simp only [Spec.expressible, List.all_eq_true, decide_eq_true_eq]
    clear he hbb
    induction t generalizing bb with
    | nil => simp
    | cons a t ih =>
      intro kv hkv
      simp only [encTagsSorted] at hd
      split at hd
      · next hz =>
        simp only [List.mem_cons] at hkv
        rcases hkv with rfl | hkv
        · omega
        · exact ih bb hd kv hkv
      · split at hd
        · next hlt =>
          split at hd
          · next b' hb' =>
            simp only [List.mem_cons] at hkv
            rcases hkv with rfl | hkv
            · omega
            · exact ih b' hb' kv hkv
          · simp at hd
        · simp at hd
  | sm m =>
    obtain ⟨bb, hd, h2⟩ := except_map_ok _ _ _ he
    simp only [Prod.mk.injEq] at h2
    obtain ⟨_, rfl⟩ := h2
    generalize prepare rp U m = m' at hd
    obtain ⟨defId, dc, udh, msg⟩ := m'
    unfold encSm at hd
    by_cases hml : msg.length > 140
    · simp [hml] at hd
    · simp only [hml, ↓reduceIte] at hd
      cases udh with
      | none => simp [Spec.expressible]; omega
      | some els =>
        simp only [encUdh] at hd
        by_cases hany : els.any (fun kv => kv.2.length > 255)
        · simp only [hany, ↓reduceIte] at hd; cases hd
        · simp only [hany, Bool.false_eq_true, ↓reduceIte] at hd
          have hsum : (els.flatMap encUdhEl).length = (els.map fun kv => 2 + kv.2.length).sum := by
            clear hd hany
            induction els with
            | nil => rfl
            | cons a els ih => simp [encUdhEl, ih]; omega
          by_cases hb : (els.flatMap encUdhEl).length > 255
          · simp only [hb, ↓reduceIte] at hd; cases hd
          · simp only [hb, ↓reduceIte] at hd
            by_cases htot : (UInt8.ofNat (els.flatMap encUdhEl).length :: els.flatMap encUdhEl ++ msg).length > 255
            · simp only [htot, ↓reduceIte] at hd; cases hd
            · simp only [List.length_cons, List.length_append] at htot
              simp only [Spec.expressible, Bool.and_eq_true, decide_eq_true_eq, List.all_eq_true]
              refine ⟨⟨?_, by omega⟩, by omega⟩
              intro kv hkv
              simp only [List.any_eq_true, not_exists, not_and] at hany
              have := hany kv hkv
              simpa using this
  | _ => simp [encField] at he; simp [← he.2, Spec.expressible]

/-! ## non-vacuity -/
example : Spec.frame ⟨"unbind", 6, [], false⟩ false 0 9 [] = [0, 0, 0, 16, 0, 0, 0, 6, 0, 0, 0, 0, 0, 0, 0, 9] := by
  decide

end Smpp.Properties.C02
