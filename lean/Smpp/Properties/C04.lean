/-
C04 — ReadPDU is total and memory-bounded on arbitrary bytes.

Totality: `readPDU` is a total Lean function whose result type `ReadOut` has no panic
constructor; every recursion in the decoder model (`readCStr`, `decDestsLoop`,
`decUnsuccLoop`, `decTags`, `decUdhLoop`, `decFields`) is structural or carries a measure that
Lean's termination checker accepted (remaining octets / remaining count).  What ties that to
the Go source is (a) the correspondence run of this check on arbitrary and mutated input and
(b) the inventory below: the complete list of operations in the codec files that CAN panic,
regenerated from the source on every run; each is accounted for in the model.
-/
import Smpp.Properties.SrcPduCodec
import Smpp.Properties.SrcPduFrame
import Smpp.Proofs.Framing
import Smpp.Generated.Layouts
import Smpp.Generated.PduFacts

namespace Smpp.Properties.C04
open Smpp Smpp.Pdu Smpp.Generated

/-! ## expectations on regenerated facts -/

/-- Every index / slice / unchecked type assertion in the codec files.  On the decode path:
`types[id]`, `header[id]`, `tags[..]` are map operations (cannot panic); `values[:]`,
`values[0]`, `values[1]` index a `[2]uint16` array with constants; `value[0:len-1]` follows a
successful ReadString (at least the delimiter is there); `.(ESMClass)` is guarded by
`layouts_esm_typed` below.  The remaining sites are on the encode / accessor paths (C11, C12). -/
theorem panic_sites_inventory : pduPanicSites = [
  ("pdu/address.go|Address.String|index", 1),
  ("pdu/internal.go|readCString|slice", 1),
  ("pdu/marshal.go|Marshal|slice", 1),
  ("pdu/message.go|ShortMessage.Prepare|assert", 1),
  ("pdu/message.go|ShortMessage.WriteTo|index", 1),
  ("pdu/pdu.go|ReadPDU|index", 1),
  ("pdu/tag.go|Tags.ReadFrom|index", 3),
  ("pdu/tag.go|Tags.ReadFrom|slice", 1),
  ("pdu/tag.go|Tags.WriteTo|index", 3),
  ("pdu/udh.go|UserDataHeader.ConcatenatedHeader|index", 7),
  ("pdu/udh.go|UserDataHeader.ConcatenatedHeader|slice", 1),
  ("pdu/udh.go|UserDataHeader.ReadFrom|index", 1),
  ("pdu/udh.go|UserDataHeader.WriteTo|index", 4)] := by decide +kernel

/-- The unchecked assertion `v.Interface().(ESMClass)` in Prepare cannot fail: every field named
ESMClass is an ESMClass. -/
theorem layouts_esm_typed :
    pduLayouts.all (fun L => L.fields.all (fun f => f.name != "ESMClass" || f.kind == .esm)) = true := by
  decide +kernel

/-- Allocation sizes come from the (bounded) command_length, a one-octet length, or a
two-octet length — nothing else. -/
theorem make_sites_inventory : pduMakeSites = [
  ("pdu/message.go|ShortMessage.ReadFrom|make", 1),
  ("pdu/pdu.go|ReadPDU|make", 1),
  ("pdu/tag.go|Tags.ReadFrom|make", 1),
  ("pdu/udh.go|UserDataHeader.ReadFrom|make", 1)] := by decide +kernel

/-! ## theorems -/

/-- At most 65536 octets are taken from the reader, for every input and fragmentation. -/
theorem C04_consumed (s : Stream) : (readPDU pduLayouts s).consumed ≤ 65536 := by
  have h := readPDU_eq_flat pduLayouts s
  have hc : (readPDU pduLayouts s).consumed = (readPDUFlat pduLayouts s.flatten).2.1 := by rw [← h]
  rw [hc]
  exact (readPDUFlat_consumed_le pduLayouts s.flatten).1

/-- Either an error, or a PDU of a registered type — never neither. -/
theorem C04_classify (s : Stream) :
    (∃ e, (readPDU pduLayouts s).out = .errNil e) ∨
    (∃ e n q, (readPDU pduLayouts s).out = .errPdu e n q) ∨
    (∃ L v, L ∈ pduLayouts ∧ (readPDU pduLayouts s).out = .ok L.name v) := by
  unfold readPDU
  simp only
  split
  · exact Or.inl ⟨_, rfl⟩
  · split
    · exact Or.inl ⟨_, rfl⟩
    · split
      · exact Or.inl ⟨_, rfl⟩
      · split
        · exact Or.inl ⟨_, rfl⟩
        · split
          · exact Or.inl ⟨_, rfl⟩
          · split
            · exact Or.inl ⟨_, rfl⟩
            · next L hfind =>
              split
              · right; right
                exact ⟨L, _, List.mem_of_find?_eq_some hfind, rfl⟩
              · right; left
                exact ⟨_, _, _, rfl⟩

/-- A header announcing fewer than 16 or more than 65536 octets is rejected after exactly 16
octets and before any body buffer is allocated. -/
theorem C04_reject_early (s : Stream) (hdr : Header) (r : Bytes)
    (hs : s.flatten = encHeader hdr ++ r) (hbad : hdr.len.toNat < 16 ∨ hdr.len.toNat > 65536) :
    (readPDU pduLayouts s).out = .errNil (.status 2) ∧ (readPDU pduLayouts s).consumed = 16 ∧
      (readPDU pduLayouts s).allocs = [] :=
  readPDU_bad_length pduLayouts s hdr r hs hbad

/-- The only allocation ReadPDU itself sizes from the wire is the body buffer, at most 65520
octets; the decoders then work on that private copy (their own buffers are sized by one- and
two-octet length fields, see `make_sites_inventory`). -/
theorem C04_alloc (s : Stream) :
    (readPDU pduLayouts s).allocs.length ≤ 1 ∧ ∀ n ∈ (readPDU pduLayouts s).allocs, n ≤ 65520 :=
  readPDU_allocs pduLayouts s

/-! ## non-vacuity -/
example : (readPDU pduLayouts [[0, 0, 0, 16, 0, 0, 0, 0x15, 0, 0, 0, 0, 0, 0, 0, 7]]).consumed = 16 := by
  decide +kernel
example : (readPDU pduLayouts [[0xFF, 0xFF, 0xFF, 0xFF, 0, 0, 0, 0x15], [0, 0, 0, 0, 0, 0, 0, 7, 1, 2]]).out
    = .errNil (.status 2) := by decide +kernel

end Smpp.Properties.C04
