-- Expectations on the regenerated source snapshot group PduFrame (written by tools/gen_srcgroup_expect.py after the models
-- were validated against this source).  A changed statement or declaration breaks the lemma of its function / file.
import Smpp.Generated.SrcPduFrame
namespace Smpp.Properties.SrcPduFrame
open Smpp.Generated.SrcPduFrame

theorem exp_pdu_pdu_ReadPDU : src_pdu_pdu_ReadPDU = [
  "sig: func(r io.Reader) (pdu interface{}, err error)",
  "var buf bytes.Buffer",
  "r = io.TeeReader(r, &buf)",
  "header := new(Header)",
  "if err = readHeaderFrom(r, header); err != nil { return }",
  "if _, err = io.ReadFull(r, make([]byte, header.CommandLength-16)); err != nil { err = ErrInvalidCommandLength return }",
  "if t, ok := types[header.CommandID]; !ok { err = ErrInvalidCommandID } else { pdu = reflect.New(t).Interface() _, err = unmarshal(&buf, pdu) }",
  "return"] := rfl

theorem exp_pdu_pdu__functions : src_pdu_pdu__functions = [
  "ReadPDU"] := rfl

theorem exp_pdu_pdu__decls : src_pdu_pdu__decls = [] := rfl

theorem exp_pdu_header_readHeaderFrom : src_pdu_header_readHeaderFrom = [
  "sig: func(r io.Reader, header *Header) (err error)",
  "err = binary.Read(r, binary.BigEndian, header)",
  "if err == nil && (header.CommandLength < 16 || header.CommandLength > 0x10000) { err = ErrInvalidCommandLength }",
  "return"] := rfl

theorem exp_pdu_header__functions : src_pdu_header__functions = [
  "readHeaderFrom"] := rfl

theorem exp_pdu_header__decls : src_pdu_header__decls = [
  "// CommandID see SMPP v5, section 4.7.5 (115p) type CommandID uint32",
  "// CommandStatus see SMPP v5, section 4.7.6 (116p) type CommandStatus uint32",
  "type Header struct { CommandLength uint32 CommandID CommandID CommandStatus CommandStatus Sequence int32 }"] := rfl

end Smpp.Properties.SrcPduFrame
