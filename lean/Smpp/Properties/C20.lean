/-
C20 — Scalar field codecs are exact inverses and follow the SMPP bit and time layouts.
-/
import Smpp.Properties.SrcScalar
import Smpp.Proofs.TimeProofs
import Smpp.Proofs.SpecLayout
import Smpp.Generated.PduFacts

namespace Smpp.Properties.C20
open Smpp Smpp.Pdu Smpp.Time Smpp.Generated

/-! ## expectation: the bit-codec statements the model transcribes (regenerated from the source) -/

theorem bit_codec_source : bitCodecStmts = [
  "ESMClass.ReadByte: c |= e.MessageMode & 0b11",
  "ESMClass.ReadByte: c |= e.MessageType & 0b1111 << 2",
  "ESMClass.ReadByte: c |= getBool(e.UDHIndicator) << 6",
  "ESMClass.ReadByte: c |= getBool(e.ReplyPath) << 7",
  "ESMClass.ReadByte: return",
  "ESMClass.WriteByte: e.MessageMode = c & 0b11",
  "ESMClass.WriteByte: e.MessageType = c >> 2 & 0b1111",
  "ESMClass.WriteByte: e.UDHIndicator = c>>6&0b1 == 1",
  "ESMClass.WriteByte: e.ReplyPath = c>>7&0b1 == 1",
  "ESMClass.WriteByte: return nil",
  "RegisteredDelivery.ReadByte: c |= r.MCDeliveryReceipt & 0b11",
  "RegisteredDelivery.ReadByte: c |= r.SMEOriginatedAcknowledgment & 0b11 << 2",
  "RegisteredDelivery.ReadByte: c |= getBool(r.IntermediateNotification) << 4",
  "RegisteredDelivery.ReadByte: c |= r.Reserved & 0b111 << 5",
  "RegisteredDelivery.ReadByte: return",
  "RegisteredDelivery.WriteByte: r.MCDeliveryReceipt = c & 0b11",
  "RegisteredDelivery.WriteByte: r.SMEOriginatedAcknowledgment = c >> 2 & 0b11",
  "RegisteredDelivery.WriteByte: r.IntermediateNotification = c>>4&0b1 == 1",
  "RegisteredDelivery.WriteByte: r.Reserved = c >> 5 & 0b111",
  "RegisteredDelivery.WriteByte: return nil"] := by decide +kernel

theorem time_source : timeStmts = [
  "fmt: \"%02d%02d%02d%02d%02d%02d%d%02d%c\" t.Year() - 2000, int(t.Month()), t.Day(), t.Hour(), t.Minute(), t.Second(), t.Nanosecond() / 1e8, offset / 900, symbol",
  "fmt: \"%02d%02d%02d%02d%02d%02d%d00R\" parts[0], parts[1], parts[2], parts[3], parts[4], parts[5], int(ts.Nanoseconds() / 1e8)",
  "date: int(2000 + parts[0]), time.Month(parts[1]), int(parts[2]), int(parts[3]), int(parts[4]), int(parts[5]), int(parts[6]) * 1e8, time.FixedZone(\"\", int(parts[7]*900))",
  "bases: time.Hour * 8760, time.Hour * 720, time.Hour * 24, time.Hour, time.Minute, time.Second, 1e8, 0",
  "units: time.Hour * 8760, time.Hour * 720, time.Hour * 24, time.Hour, time.Minute, time.Second",
  "slice: input[i : i+2]", "slice: input[12:13]", "slice: input[13:15]", "index: input[15]"] := by decide +kernel

/-! ## octet codecs: all 256 values -/

/-- esm_class: decode-then-encode is the identity on every octet … -/
theorem C20_esm (c : UInt8) : encEsm (decEsm c) = c := esm_write_read c

/-- … and each field sits where SMPP v5 §4.7.12 puts it (mode bits 1-0, type bits 5-2, UDHI bit 6,
reply path bit 7), stated arithmetically and independently of the bit operators. -/
theorem C20_esm_positions_fin : ∀ c : Fin 256,
    let e := decEsm (UInt8.ofNat c.val)
    e.mode.toNat = c.val % 4 ∧ e.type.toNat = c.val / 4 % 16 ∧ e.udhi = (c.val / 64 % 2 == 1) ∧
      e.reply = (c.val / 128 == 1) := by decide +kernel

theorem C20_regdlv (c : UInt8) : encRegDlv (decRegDlv c) = c := regdlv_write_read c

/-- registered_delivery §4.7.21: receipt bits 1-0, SME ack bits 3-2, intermediate bit 4, reserved 7-5 -/
theorem C20_regdlv_positions_fin : ∀ c : Fin 256,
    let r := decRegDlv (UInt8.ofNat c.val)
    r.mc.toNat = c.val % 4 ∧ r.sme.toNat = c.val / 4 % 4 ∧ r.inter = (c.val / 16 % 2 == 1) ∧
      r.reserved.toNat = c.val / 32 := by decide +kernel

/-- interface_version survives its text form ("major.minor") for all 256 values -/
theorem C20_ifver_fin : ∀ c : Fin 256, versionParse (versionString (UInt8.ofNat c.val)) = some (UInt8.ofNat c.val) := by
  decide +kernel

theorem C20_ifver (c : UInt8) : versionParse (versionString c) = some c := by
  have h := C20_ifver_fin ⟨c.toNat, c.toNat_lt⟩
  simpa using h

/-! ## absolute time -/

/-- **format → parse.**  Every instant whose civil fields in its own zone are a valid date of
2000–2099 at tenth-of-second resolution, in any quarter-hour zone within ±12 h, comes back with
the same fields and the same offset (hence the same instant). -/
theorem C20_time_format_parse (yy m d h mi s t q : Nat) (sym : UInt8) (hyy : yy < 100)
    (hv : ValidCivil (2000 + yy) m d h mi s t) (hq : q ≤ 48) (hsym : sym = 43 ∨ sym = 45)
    (hz : q = 0 → sym = 43) :
    let g : GoDate := ⟨((2000 + yy : Nat) : Int), m, d, h, mi, s, (t : Int) * 100000000, offsetOf q sym⟩
    timeFrom (timeString g) = some g := by
  intro g
  show timeFrom (timeString ⟨((2000 + yy : Nat) : Int), m, d, h, mi, s, (t : Int) * 100000000, offsetOf q sym⟩) = _
  rw [timeString_valid yy m d h mi s t q sym hyy hv hq hsym hz]
  exact timeFrom_enc yy m d h mi s t q sym hyy hv (by omega) hsym

/-- **parse → format.**  Every valid absolute time string (16 characters, valid date and time,
nn ≤ 48, "00-" excluded — DESIGN.md §9.3) is reproduced character for character. -/
theorem C20_time_parse_format (yy m d h mi s t q : Nat) (sym : UInt8) (hyy : yy < 100)
    (hv : ValidCivil (2000 + yy) m d h mi s t) (hq : q ≤ 48) (hsym : sym = 43 ∨ sym = 45)
    (hz : q = 0 → sym = 43) :
    (timeFrom (encAbs yy m d h mi s t q sym)).map timeString = some (encAbs yy m d h mi s t q sym) := by
  rw [timeFrom_enc yy m d h mi s t q sym hyy hv (by omega) hsym]
  simp only [Option.map_some]
  rw [timeString_valid yy m d h mi s t q sym hyy hv hq hsym hz]

/-- negative zero cannot be preserved (why "00-" is outside the domain): it formats as "00+" -/
theorem C20_negative_zero :
    (timeFrom (encAbs 21 3 4 5 6 7 8 0 45)).map timeString = some (encAbs 21 3 4 5 6 7 8 0 43) := by
  decide +kernel

/-! ## relative period -/

/-- format → parse returns the same duration for every period from one second to just under
100 (365-day) years at tenth-of-second resolution. -/
theorem C20_duration (d : Nat) (h1 : 1000000000 ≤ d) (h2 : d < 100 * 8760 * 3600000000000)
    (h3 : d % 100000000 = 0) : durFrom (durString (d : Int)) = some (d : Int) :=
  durFrom_durString d h1 h2 h3

/-! ## non-vacuity -/
example : ValidCivil 2024 2 29 23 59 59 9 := ⟨by decide, by decide, by decide, by decide, by decide, by decide, by decide⟩
example : timeString ⟨2024, 2, 29, 23, 59, 59, 900000000, -(48 * 900)⟩ = "240229235959948-".toUTF8.toList := by
  decide +kernel
example : durString 3723500000000 = "000000010203500R".toUTF8.toList := by decide +kernel

end Smpp.Properties.C20
