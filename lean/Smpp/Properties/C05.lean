/-
C05 — Submit returns exactly its own response under every schedule.

Theorems over the small-step model of conn.go (Smpp/Model/Conn.lean), for EVERY reachable state: any number
of callers with distinct sequence numbers, any interleaving of {request handed to the transport, transport
write returns, response readable, Watch dispatches}, any response order, any placement of peer-originated
PDUs.  The model is tied to conn.go by the regenerated source snapshot (Properties/ConnSource.lean) and by the
scenario correspondence run (ops `conn …` through a scripted transport).
-/
import Smpp.Proofs.ConnProgress
import Smpp.Properties.ConnSource
import Smpp.Generated.PduFacts
import Smpp.Generated.Layouts

namespace Smpp.Properties.C05
open Smpp Smpp.Conn Smpp.Generated

/-! ## expectations on regenerated facts -/

/-- Submit registers its callback BEFORE it sends (the order the proofs rest on), unregisters on every return path,
and waits on a one-slot channel -/
theorem submit_shape : connSrc_Conn_Submit = [
  "Conn.Submit: sequence := c.NextSequence()",
  "Conn.Submit: WriteSequence(packet, sequence)",
  "Conn.Submit: returns := make(chan interface{}, 1)",
  "Conn.Submit: c.register(sequence, func(resp interface{}) { returns <- resp })",
  "Conn.Submit: defer c.register(sequence, nil)",
  "Conn.Submit: if err = c.Send(packet); err != nil { return }",
  "Conn.Submit: select { case <-c.ctx.Done(): err = ErrConnectionClosed case <-ctx.Done(): err = ctx.Err() case resp = <-returns: }",
  "Conn.Submit: return"] := rfl

/-- every Resp() copies the request's sequence number … -/
theorem resp_copies_sequence : respTable.all (fun r => r.2.2) = true := by decide +kernel

def idOf (name : String) : Option Nat := (pduLayouts.find? (·.name == name)).map (·.id)

/-- … into the paired response type: command_id = request id with the top bit set; all 15 request types -/
theorem resp_ids : respTable.length = 15 ∧
    respTable.all (fun r => match idOf r.1, idOf r.2.1 with
      | some a, some b => a < 0x80000000 && b == a + 0x80000000
      | _, _ => false) = true := by decide +kernel

/-- and every request type that has a response type in the registry has a Resp() -/
theorem resp_complete : (pduLayouts.filter fun L => L.id < 0x80000000 && pduLayouts.any (fun R => R.id == L.id + 0x80000000)).all
    (fun L => respTable.any (·.1 == L.name)) = true := by decide +kernel

/-! ## the property -/

/-- **own response**: whatever Submit returns without error carries the caller's own sequence number -/
theorem C05_own (tbl) (hd : Distinct tbl) (hf : Fresh tbl) (s : State) (h : Reach tbl s) (i : Nat) (p : InPdu)
    (hr : (s.callers i).pc = .done (.resp p)) : p.seq = (tbl i).seq :=
  (inv_all tbl hd hf s h).1.resultSeq i p (by rw [hr]; rfl)

/-- **no leak to the application**: a response the peer produced for request i is never delivered on PDU() while the
call is outstanding — if it is there, the call had already returned (its own context or the connection ended) -/
theorem C05_no_leak (tbl) (hd : Distinct tbl) (hf : Fresh tbl) (s : State) (h : Reach tbl s) (i : Nat) (p : InPdu)
    (hp : p ∈ s.delivered) (ho : p.origin = .ans i) (hk : (tbl i).kind ≠ .send) : (s.callers i).pc.departed = true := by
  obtain ⟨_, _, i3, _⟩ := inv_all tbl hd hf s h
  exact i3.noLeak p i (i3.missBound.1.subset hp) ho hk

/-- **no leak to another caller**: the response to request i never becomes the result of a different call -/
theorem C05_not_to_other (tbl) (hd : Distinct tbl) (hf : Fresh tbl) (s : State) (h : Reach tbl s) (i j : Nat) (p : InPdu)
    (hr : (s.callers j).pc.result? = some (.resp p)) (ho : p.origin = .ans i)
    (hki : (tbl i).kind ≠ .send) (hkj : (tbl j).kind ≠ .send) : i = j := by
  obtain ⟨i1, i2, _, _⟩ := inv_all tbl hd hf s h
  have h1 := i1.resultSeq j p hr
  have h2 := (i2.origin p i (Or.inr (Or.inr (Or.inr (Or.inr (Or.inr (Or.inl ⟨j, hr⟩)))))) ho).1
  by_cases hij : i = j
  · exact hij
  · exact absurd (h2.symm.trans h1) (hd i j hij hki hkj)

/-- the response slot only ever holds the caller's own response, so the final select cannot hand out a foreign PDU -/
theorem C05_slot (tbl) (hd : Distinct tbl) (hf : Fresh tbl) (s : State) (h : Reach tbl s) (i : Nat) (p : InPdu)
    (hb : (s.callers i).box = some p) : p.seq = (tbl i).seq :=
  (inv_all tbl hd hf s h).1.boxSeq i p hb

/-- progress, local form: a caller whose response has been put in its slot can take it at once (no further event needed) -/
theorem C05_take_enabled (s : State) (i : Nat) (p : InPdu) (hw : (s.callers i).pc = .waiting)
    (hb : (s.callers i).box = some p) : ∃ s', step s (.takeResp i) = some s' ∧ (s'.callers i).pc = .leaving (.resp p) := by
  refine ⟨{ s with callers := upd s.callers i { s.callers i with pc := .leaving (.resp p), box := none } }, ?_, by simp [upd]⟩
  simp [step, hw, hb]

/-! ## "every Submit call returns": progress

The environment of C05 (`ReachP`): the peer answers requests — calls that expect a response — each at most once, and
originates PDUs only under sequence numbers of its own.  Goroutine steps (`Label.internal`) are the steps of callers past
their start, of Watch, and the transport's Write returning.  The statement is in two halves, which together say that under
ANY schedule in which enabled goroutine steps are eventually taken, every answered Submit returns its own response:

 1. `C05_no_livelock`: from any reachable state ANY sequence of goroutine steps is finite, of length at most the measure
    `mu n s` (n bounding the calls started so far) — so after the last environment event the goroutines come to rest;
 2. `C05_returns_own_response`: in EVERY reachable state at rest in which neither context is done and the application is
    draining, a Submit whose answer the peer has sent HAS RETURNED, and returned exactly its own response;
    `C05_waits_for_answer`: one whose answer has not been sent yet is waiting with its request at the peer, so that the
    peer's answer is enabled (nothing else is needed for it to complete). -/

theorem C05_no_livelock (tbl) (hd : Distinct tbl) (hf : Fresh tbl) (n : Nat) (ls : List Label) (s s' : State)
    (hr : ReachP tbl s) (hb : Bounded n s) (hall : ∀ l ∈ ls, l.internal = true) (hrun : run s ls = some s') :
    ls.length ≤ mu n s := by
  have := (internal_run_bound tbl hd hf n ls s s' hr hb hall hrun).1
  omega

theorem C05_returns_own_response (tbl) (hd : Distinct tbl) (hf : Fresh tbl) (s : State) (hr : ReachP tbl s)
    (hq : Quiescent s) (i : Nat) (hkind : (tbl i).kind = .submit) (hans : (s.callers i).answered = true)
    (hconn : s.connDone = false) (hown : (s.callers i).ownDone = false) (hdrain : s.draining = true) :
    (s.callers i).pc = .done (.resp ⟨(tbl i).seq, .ans i⟩) :=
  answered_returns tbl hd hf s hr hq i hkind hans hconn hown hdrain

theorem C05_waits_for_answer (tbl) (hd : Distinct tbl) (hf : Fresh tbl) (s : State) (hr : ReachP tbl s)
    (hq : Quiescent s) (i : Nat) (hkind : (tbl i).kind = .submit) (hstarted : (s.callers i).pc ≠ .idle)
    (hpos : 0 < (tbl i).seq) (hans : (s.callers i).answered = false)
    (hconn : s.connDone = false) (hown : (s.callers i).ownDone = false) (hwb : s.writeBroken = false) :
    (s.callers i).pc = .waiting ∧ (step s (.peerAnswer i)).isSome = true :=
  unanswered_waits tbl hd hf s hr hq i hkind hstarted hpos hans hconn hown hwb

/-- **Every answered Submit can run to completion on goroutine steps alone**, from every reachable calm state (connection
live, transport open, nothing fatal queued, application draining, no Close call): no further event from the peer, the
application or a timer is needed.  Together with `C05_no_livelock` (every goroutine run is finite) and
`C05_returns_own_response` (where it stops, the call has returned its own response) this is "every Submit call returns …
the PDU whose sequence number equals that of its own request" under any schedule that keeps taking enabled goroutine steps. -/
theorem C05_completion_reachable (tbl) (hd : Distinct tbl) (hf : Fresh tbl) (n : Nat) (s : State) (i : Nat)
    (hkind : (tbl i).kind = .submit) (hr : ReachP tbl s) (hb : Bounded n s) (hc : Calm s)
    (hans : (s.callers i).answered = true) (hown : (s.callers i).ownDone = false) :
    ∃ ls s', (∀ l ∈ ls, l.internal = true) ∧ run s ls = some s' ∧
      (s'.callers i).pc = .done (.resp ⟨(tbl i).seq, .ans i⟩) :=
  completion_reachable tbl hd hf n i hkind (mu n s) s rfl hr hb hc hans hown

/-- Watch is never wedged on a response slot that is still full (a second copy of one answer does not exist) -/
theorem C05_watch_not_wedged (tbl) (hd : Distinct tbl) (hf : Fresh tbl) (s : State) (hr : ReachP tbl s)
    (k : Nat) (p : InPdu) (hw : s.watch = .delivering k p) : (s.callers k).box = none := by
  cases hb : (s.callers k).box with
  | none => rfl
  | some q => exact absurd hb (fun hb => no_double_delivery tbl hd hf s hr k p q hw hb)

/-! ### non-vacuity of the progress theorems: a table of Submit calls with sequence numbers 1, 2, 3, …; call 0 runs to
completion and the state reached is at rest, satisfies every premise of `C05_returns_own_response`, and shows its conclusion -/

def tblN : Nat → Caller := fun i => { kind := .submit, seq := (i : Int) + 1, after := none }

theorem tblN_distinct : Distinct tblN := by
  intro i j hij _ _ h
  simp [tblN] at h
  exact hij (by omega)

theorem tblN_fresh : Fresh tblN := by intro i; simp [tblN]

/-- the calm environment is satisfiable: the initial state of the all-Submit table -/
example : Calm (init tblN) := by
  refine ⟨rfl, rfl, by simp [init], by simp [init], by simp [init], rfl, ?_⟩
  intro j
  simp [init, tblN]

def scriptN : List Label :=
  [.start 0, .check 0, .write 0, .writeRet 0, .peerAnswer 0, .wPoll, .wRead, .wLookup, .wDeliver, .takeResp 0, .finish 0, .wPoll]

theorem runN : ∃ s, run (init tblN) scriptN = some s ∧ (s.callers 0).pc = .done (.resp (answerOf tblN 0)) ∧
    (s.callers 0).answered = true ∧ s.connDone = false ∧ s.draining = true ∧ s.watch = .reading ∧ s.inbound = [] ∧
    s.readSide = .open ∧ (s.callers 0).ownDone = false ∧ (∀ j, j ≠ 0 → (s.callers j).pc = .idle) := by
  simp [run, scriptN, step, init, tblN, setPc, upd, updI, predDone, answerOf]
  intro j hj; simp [hj]

example : ∃ s, ReachP tblN s ∧ Quiescent s ∧ (tblN 0).kind = .submit ∧ (s.callers 0).answered = true ∧ s.connDone = false ∧
    (s.callers 0).ownDone = false ∧ s.draining = true ∧ (s.callers 0).pc = .done (.resp ⟨(tblN 0).seq, .ans 0⟩) := by
  obtain ⟨s, hrun, hpc, hans, hc, hdr, hw, hin, hrs, hown, hidle⟩ := runN
  refine ⟨s, ?_, ?_, rfl, hans, hc, hown, hdr, hpc⟩
  · refine reachP_run tblN scriptN _ s ReachP.init ?_ hrun
    intro l hl
    simp [scriptN] at hl
    rcases hl with rfl | rfl | rfl | rfl | rfl | rfl | rfl | rfl | rfl | rfl | rfl | rfl <;> simp [AdmissibleP, Admissible, tblN]
  · apply quiescent_of_rest s hw hin hrs
    intro j
    by_cases hj : j = 0
    · subst hj; exact Or.inr ⟨_, hpc⟩
    · exact Or.inl (hidle j hj)

/-! ## non-vacuity: the schedule the property singles out (response dispatched before the transport's Write returns) -/

def tbl2 : Nat → Caller := fun i => if i = 0 then { kind := .submit, seq := 5, after := none } else { kind := .submit, seq := 7 + i, after := none }

example : Distinct tbl2 := by
  intro i j hij _ _
  simp only [tbl2]
  split <;> split <;> simp_all <;> omega

example : ((run (init tbl2) [.start 0, .check 0, .write 0, .peerAnswer 0, .wPoll, .wRead, .wLookup, .wDeliver,
    .writeRet 0, .takeResp 0, .finish 0]).map fun s => ((s.callers 0).pc, s.delivered)) = some (.done (.resp ⟨5, .ans 0⟩), []) := by
  decide +kernel

end Smpp.Properties.C05
