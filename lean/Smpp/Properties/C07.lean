/-
C07 — Multipart composition: every segment fits, is labelled, and loses nothing.
-/
import Smpp.Properties.SrcCompose
import Smpp.Proofs.SplitterProofs
import Smpp.Properties.C07Known
import Smpp.Proofs.CombinerProofs
import Smpp.Proofs.Gsm7Pack
import Smpp.Proofs.Utf16
import Smpp.Generated.CodingFacts
import Smpp.Generated.Gsm7Facts

namespace Smpp.Properties.C07
open Smpp Smpp.Pdu Smpp.Splitter Smpp.Combiner Smpp.Generated

/-! ## expectations on regenerated facts -/

theorem splitter_source : splitterDefs = [
  "_7BitSplitter Splitter = func(r rune) int { switch r { case '\\f', '[', '\\\\', ']', '^', '{', '|', '}', '~', '€': return 14 } return 7 }",
  "_1ByteSplitter Splitter = func(rune) int { return 8 }",
  "_MultibyteSplitter Splitter = func(r rune) int { if r < 0x7F { return 8 } return 16 }",
  "_UTF16Splitter Splitter = func(r rune) int { if (r <= 0xD7FF) || ((r >= 0xE000) && (r <= 0xFFFF)) { return 16 } return 32 }"] := by
  decide +kernel

theorem split_source : codingStmts.filter (fun s => s.startsWith "Splitter.") = [
  "Splitter.Len: for _, point := range input { n += fn(point) }",
  "Splitter.Len: if n%8 != 0 { n += 8 - n%8 }",
  "Splitter.Len: return n / 8",
  "Splitter.Split: limit *= 8",
  "Splitter.Split: points := []rune(input)",
  "Splitter.Split: var start, length int",
  "Splitter.Split: for i := 0; i < len(points); i++ { length += fn(points[i]) if length > limit { segments = append(segments, string(points[start:i])) start, length = i, 0 i-- } }",
  "Splitter.Split: if length > 0 { segments = append(segments, string(points[start:])) }",
  "Splitter.Split: return"] := by decide +kernel

/-- the limit (140 - 1 - header.Len()), the 254 ceiling, and Len/Set of the concatenation element -/
theorem compose_source :
    composeStmts.filter (fun s => !(s.startsWith "ComposeMultipartShortMessage: if coding.Splitter() == nil")
        && !(s.startsWith "ComposeMultipartShortMessage: for _, segment")) = [
  "ComposeMultipartShortMessage: header := ConcatenatedHeader{Reference: reference}",
  "ComposeMultipartShortMessage: segments := coding.Splitter().Split(input, MaxShortMessageLength-1-header.Len())",
  "ComposeMultipartShortMessage: if len(segments) > 0xFE { err = ErrMultipartTooMuch return }",
  "ComposeMultipartShortMessage: header.TotalParts = byte(len(segments))",
  "ComposeMultipartShortMessage: encoder := coding.Encoding().NewEncoder()",
  "ComposeMultipartShortMessage: part := ShortMessage{DataCoding: coding}",
  "ComposeMultipartShortMessage: return",
  "ConcatenatedHeader.Len: if h.Reference <= 0xFF { return 5 }",
  "ConcatenatedHeader.Len: return 6",
  "ConcatenatedHeader.Set: var buf bytes.Buffer",
  "ConcatenatedHeader.Set: _ = binary.Write(&buf, binary.BigEndian, h)",
  "ConcatenatedHeader.Set: if data := buf.Bytes(); data[0] == 0 { udh[0x00] = data[1:4] } else { udh[0x08] = data }"] := by
  decide +kernel

/-- the per-segment loop resets the encoder and builds a fresh header map -/
theorem compose_loop_source :
    (composeStmts.filter (fun s => s.startsWith "ComposeMultipartShortMessage: for _, segment")) = [
  "ComposeMultipartShortMessage: for _, segment := range segments { encoder.Reset() part.UDHeader = make(UserDataHeader) if part.Message, err = encoder.Bytes([]byte(segment)); err != nil { return } header.Sequence++ header.Set(part.UDHeader) parts = append(parts, part) }"] := by
  decide +kernel

/-- the splitter's extension list is the encoder's escape table -/
theorem ext_is_escape_table : gsmExt = gsmEscapes.map (·.1) := by decide +kernel

/-! ## widths -/

theorem width_bounds (c r n : Nat) (h : width c r = some n) : 7 ≤ n ∧ n ≤ 32 := by
  unfold width at h
  split at h
  · simp only [Option.some.injEq] at h; subst h; split <;> omega
  · split at h
    · simp only [Option.some.injEq] at h; omega
    · split at h
      · simp only [Option.some.injEq] at h; subst h; split <;> omega
      · split at h
        · simp only [Option.some.injEq] at h; subst h; split <;> omega
        · simp at h

theorem width_some (c : Nat) (h : (width c 0).isSome = true) (r : Nat) : ∃ n, width c r = some n := by
  unfold width at h ⊢
  split
  · exact ⟨_, rfl⟩
  · split
    · exact ⟨_, rfl⟩
    · split
      · exact ⟨_, rfl⟩
      · split
        · exact ⟨_, rfl⟩
        · next h0 h1 h2 h3 => simp [h0, h1, h2, h3] at h

/-- the width function compose uses -/
def w (c : Nat) : Nat → Nat := fun r => (width c r).getD 0

theorem w_bounds (c : Nat) (h : (width c 0).isSome = true) (r : Nat) : 0 < w c r ∧ w c r ≤ 32 := by
  obtain ⟨n, hn⟩ := width_some c h r
  have := width_bounds c r n hn
  simp only [w, hn, Option.getD_some]
  omega

/-! ## the concatenation element -/

theorem concatLen_val (ref : Nat) : concatLen ref = 5 ∨ concatLen ref = 6 := by
  unfold concatLen; split <;> simp

/-- the element Set writes (IEI + IEIDL + data) has the size Len announces, so the splitter's limit
140 - 1 - Len() is exactly what remains beside UDHL and the element -/
theorem udh_size (ref total seq : Nat) (href : ref < 65536) :
    udhLen (some (concatUdh ref total seq)) = 1 + concatLen ref := by
  unfold concatUdh concatLen
  by_cases h : ref ≤ 0xFF
  · have : ref / 256 % 256 = 0 := by omega
    simp [this, h, udhLen]
  · have : ¬ (ref / 256 % 256 = 0) := by omega
    simp [this, h, udhLen]

/-- **labels**: the element decodes (through the library's own accessor) to the caller's reference,
the total and the sequence number -/
theorem label_decodes (ref total seq : Nat) (href : ref < 65536) (ht : total < 256) (hs : seq < 256) :
    concatHeader (some (concatUdh ref total seq)) = .ok (some ⟨ref, total, seq⟩) := by
  unfold concatUdh
  by_cases h : ref / 256 % 256 = 0
  · have hr : ref < 256 := by omega
    simp only [h, ↓reduceIte]
    simp [concatHeader, kmapFind, Option.filter, idx, u8_ofNat_toNat (show ref ≤ 255 by omega),
      u8_ofNat_toNat (show total ≤ 255 by omega), u8_ofNat_toNat (show seq ≤ 255 by omega)]
  · simp only [h, ↓reduceIte]
    have h1 : (UInt8.ofNat (ref / 256)).toNat = ref / 256 := u8_ofNat_toNat (by omega)
    have h2 : (UInt8.ofNat ref).toNat = ref % 256 := by simp [UInt8.toNat_ofNat']
    simp [concatHeader, kmapFind, Option.filter, idx, h1, h2,
      u8_ofNat_toNat (show total ≤ 255 by omega), u8_ofNat_toNat (show seq ≤ 255 by omega)]
    omega

/-! ## composition -/

/-- **single part**: a text whose estimate is at most 140 octets gives one part without header -/
theorem C07_single (c : Nat) (acc : List Nat → Bool) (ref : Nat) (t : List Nat) (parts : List Part)
    (hw : (width c 0).isSome = true) (hl : len (w c) t ≤ 140) (h : compose c acc ref t = .ok parts) :
    parts = [⟨none, t⟩] := by
  unfold compose at h
  obtain ⟨n, hn⟩ := width_some c hw 0
  simp only [hn] at h
  have hl' : len (fun r => (width c r).getD 0) t ≤ 140 := hl
  simp only [hl', ↓reduceIte] at h
  split at h
  · simp only [Except.ok.injEq] at h; exact h.symm
  · cases h

/-- the shape of a multi-part result -/
theorem compose_multi (c : Nat) (acc : List Nat → Bool) (ref : Nat) (t : List Nat) (parts : List Part)
    (hw : (width c 0).isSome = true) (hl : ¬ len (w c) t ≤ 140) (h : compose c acc ref t = .ok parts) :
    let segs := split (w c) (140 - 1 - concatLen ref) t
    segs.length ≤ 254 ∧
    parts = segs.zipIdx.map (fun (s, i) => ⟨some (concatUdh ref segs.length (i + 1)), s⟩) := by
  unfold compose at h
  obtain ⟨n, hn⟩ := width_some c hw 0
  simp only [hn] at h
  have hl' : ¬ len (fun r => (width c r).getD 0) t ≤ 140 := hl
  simp only [hl', ↓reduceIte] at h
  intro segs
  by_cases hmany : (split (fun r => (width c r).getD 0) (140 - 1 - concatLen ref) t).length > 0xFE
  · simp only [hmany, ↓reduceIte] at h; cases h
  · simp only [hmany, ↓reduceIte] at h
    split at h
    · simp only [Except.ok.injEq] at h
      exact ⟨by show (split (w c) _ t).length ≤ 254; unfold w; omega, h.symm⟩
    · cases h

/-- **ceiling**: a text needing more than 254 parts is refused -/
theorem C07_ceiling (c : Nat) (acc : List Nat → Bool) (ref : Nat) (t : List Nat)
    (hw : (width c 0).isSome = true) (hl : ¬ len (w c) t ≤ 140)
    (hmany : (split (w c) (140 - 1 - concatLen ref) t).length > 254) :
    compose c acc ref t = .error .tooMany := by
  unfold compose
  obtain ⟨n, hn⟩ := width_some c hw 0
  simp only [hn]
  have hl' : ¬ len (fun r => (width c r).getD 0) t ≤ 140 := hl
  have hm : (split (fun r => (width c r).getD 0) (140 - 1 - concatLen ref) t).length > 0xFE := hmany
  simp only [hl', ↓reduceIte, hm]

/-- **nothing lost**: the texts of the parts, joined in order, are the input — no rune dropped,
duplicated or cut (the splitter cuts between runes, never inside one) -/
theorem C07_partition (c : Nat) (acc : List Nat → Bool) (ref : Nat) (t : List Nat) (parts : List Part)
    (hw : (width c 0).isSome = true) (h : compose c acc ref t = .ok parts) :
    (parts.map (·.text)).flatten = t := by
  by_cases hl : len (w c) t ≤ 140
  · rw [C07_single c acc ref t parts hw hl h]; simp
  · obtain ⟨_, hp⟩ := compose_multi c acc ref t parts hw hl h
    rw [hp, List.map_map]
    have : (fun (p : List Nat × Nat) => (⟨some (concatUdh ref (split (w c) (140 - 1 - concatLen ref) t).length (p.2 + 1)), p.1⟩ : Part).text)
        = fun p => p.1 := rfl
    simp only [Function.comp_def]
    rw [show ((split (w c) (140 - 1 - concatLen ref) t).zipIdx.map fun p => p.1) = split (w c) (140 - 1 - concatLen ref) t
      from List.zipIdx_map_fst 0 _]
    exact split_flatten (w c) _ (fun r => (w_bounds c hw r).1) t

/-- **every segment fits**: in a multi-part result each part's text needs at most
(140 - 1 - Len()) octets by the splitter's own count, which together with the 1 + 1 + Len()
octets of UDHL and element is at most 140 — provided the coding's encoder never needs more octets
than the splitter budgets (`size s ≤ len w s`; see the instantiations below and the known finding
for EUC-JP / ISO-2022-JP). -/
theorem C07_fits (c : Nat) (acc : List Nat → Bool) (ref : Nat) (t : List Nat) (parts : List Part)
    (size : List Nat → Nat) (hsound : ∀ s, size s ≤ len (w c) s)
    (hw : (width c 0).isSome = true) (href : ref < 65536) (hl : ¬ len (w c) t ≤ 140)
    (h : compose c acc ref t = .ok parts) :
    ∀ p ∈ parts, udhLen p.udh + size p.text ≤ 140 := by
  obtain ⟨_, hp⟩ := compose_multi c acc ref t parts hw hl h
  intro p hpm
  rw [hp] at hpm
  simp only [List.mem_map] at hpm
  obtain ⟨⟨s, i⟩, hmem, rfl⟩ := hpm
  have hs : s ∈ split (w c) (140 - 1 - concatLen ref) t := List.fst_mem_of_mem_zipIdx hmem
  have hcl := concatLen_val ref
  have hfit := (split_fits (w c) (140 - 1 - concatLen ref)
    (fun r => ⟨(w_bounds c hw r).1, by have := (w_bounds c hw r).2; rcases hcl with h | h <;> omega⟩) t s hs).1
  have hsz := hsound s
  simp only [udh_size ref _ (i + 1) href]
  unfold len at hsz
  rcases hcl with h | h <;> omega

/-- **labels**: in a multi-part result of N parts, part i (counting from 1) carries exactly one
information element, and the library's own accessor reads (reference, N, i) from it -/
theorem C07_labels (c : Nat) (acc : List Nat → Bool) (ref : Nat) (t : List Nat) (parts : List Part)
    (hw : (width c 0).isSome = true) (href : ref < 65536) (hl : ¬ len (w c) t ≤ 140)
    (h : compose c acc ref t = .ok parts) (i : Nat) (p : Part) (hp : parts[i]? = some p) :
    parts.length ≤ 254 ∧ (∃ el, p.udh = some [el]) ∧
      concatHeader p.udh = .ok (some ⟨ref, parts.length, i + 1⟩) := by
  obtain ⟨hn, hps⟩ := compose_multi c acc ref t parts hw hl h
  have hlen : parts.length = (split (w c) (140 - 1 - concatLen ref) t).length := by rw [hps]; simp
  have hi : i < parts.length := by
    rcases Nat.lt_or_ge i parts.length with h | h
    · exact h
    · rw [List.getElem?_eq_none h] at hp; cases hp
  rw [hps, List.getElem?_map] at hp
  have hz : ((split (w c) (140 - 1 - concatLen ref) t).zipIdx)[i]? = some ((split (w c) (140 - 1 - concatLen ref) t)[i]'(by omega), i) := by
    rw [List.getElem?_eq_getElem (by rw [List.length_zipIdx]; omega), List.getElem_zipIdx]
    simp
  rw [hz] at hp
  simp only [Option.map_some, Option.some.injEq] at hp
  subst hp
  refine ⟨by omega, ?_, ?_⟩
  · simp only [concatUdh]; split <;> exact ⟨_, rfl⟩
  · rw [hlen]
    exact label_decodes ref _ (i + 1) href (by omega) (by omega)

/-- **maximality** (any width function): a part other than the last was closed only because the
first rune of the next part would not have fitted the splitter's budget -/
theorem C07_maximal (c : Nat) (ref : Nat) (t : List Nat) (pre : List (List Nat)) (a b : List Nat)
    (post : List (List Nat)) (h : split (w c) (140 - 1 - concatLen ref) t = pre ++ a :: b :: post) :
    ∃ r b', b = r :: b' ∧ bits (w c) a + w c r > (140 - 1 - concatLen ref) * 8 :=
  split_maximal (w c) _ t pre a b post h

/-! ## the encoders the fit theorem applies to (octets needed ≤ the splitter's estimate) -/

/-- single-octet charsets (ASCII, Latin-1, Cyrillic, Hebrew): one octet per rune -/
theorem sound_single_octet (c : Nat) (hc : c = 1 ∨ c = 3 ∨ c = 6 ∨ c = 7) (s : List Nat) :
    s.length ≤ len (w c) s := by
  have hw : ∀ r, w c r = 8 := by
    intro r; rcases hc with rfl | rfl | rfl | rfl <;> simp [w, width]
  have : bits (w c) s = 8 * s.length := by
    induction s with
    | nil => rfl
    | cons r s ih => rw [bits_cons, ih, hw]; simp; omega
  unfold len; omega

/-- UCS-2: 2 octets in the BMP, 4 beyond -/
theorem sound_ucs2 (s : List Nat) : (Smpp.Coding.encUcs2 s).length ≤ len (w 8) s := by
  have : (Smpp.Coding.encUcs2 s).length * 8 ≤ bits (w 8) s := by
    induction s with
    | nil => simp [Smpp.Coding.encUcs2, bits]
    | cons r s ih =>
      simp only [Smpp.Coding.encUcs2, List.flatMap_cons, List.length_append] at ih ⊢
      rw [bits_cons, Nat.add_mul, Smpp.Coding.utf16be_length]
      have hw : (if r < 65536 then 2 else 4) * 8 ≤ w 8 r := by
        simp only [w, width]
        by_cases h : r < 65536
        · simp only [h, ↓reduceIte]
          -- BMP scalar: 16 = 16; a surrogate code point (not a scalar value): the splitter says 32
          simp; split <;> omega
        · have h1 : (decide (r ≤ 0xD7FF) || (decide (0xE000 ≤ r) && decide (r ≤ 0xFFFF))) = false := by
            simp only [Bool.or_eq_false_iff, Bool.and_eq_false_iff, decide_eq_false_iff_not]; omega
          simp [h, h1]
      omega
  unfold len; omega

/-- GSM 7-bit: ⌈7n/8⌉ octets for n septets, extension characters counting twice on both sides -/
theorem sound_gsm7 (s sept : List Nat) (hs : Smpp.Gsm7.toSeptets gsmReverse gsmEscapes s = some sept) :
    (Smpp.Gsm7.pack sept).length ≤ len (w 0) s := by
  rw [Smpp.Gsm7.pack_length]
  have hb : 7 * sept.length ≤ bits (w 0) s := by
    induction s generalizing sept with
    | nil => simp [Smpp.Gsm7.toSeptets] at hs; subst hs; simp [bits]
    | cons r s ih =>
      simp only [Smpp.Gsm7.toSeptets] at hs
      rw [bits_cons]
      have hwr : 7 ≤ w 0 r := by simp [w, width]; split <;> omega
      cases hf : Smpp.Gsm7.forwardOf gsmReverse r with
      | some v =>
        simp only [hf, Option.map_eq_some_iff] at hs
        obtain ⟨s', hs', rfl⟩ := hs
        have := ih s' hs'
        simp only [List.length_cons]; omega
      | none =>
        simp only [hf] at hs
        cases he : Smpp.Gsm7.escapeOf gsmEscapes r with
        | some v =>
          simp only [he, Option.map_eq_some_iff] at hs
          obtain ⟨s', hs', rfl⟩ := hs
          have := ih s' hs'
          -- an escaped rune is in the escape table = the splitter's extension list: width 14
          have hmem : r ∈ gsmEscapes.map (·.1) := by
            unfold Smpp.Gsm7.escapeOf at he
            simp only [Option.map_eq_some_iff] at he
            obtain ⟨p, hp, _⟩ := he
            have h1 := List.mem_of_find?_eq_some hp
            have h2 := List.find?_some hp
            simp only [beq_iff_eq] at h2
            exact List.mem_map.mpr ⟨p, h1, h2⟩
          have hw14 : w 0 r = 14 := by
            rw [← ext_is_escape_table] at hmem
            simp [w, width, hmem]
          simp only [List.length_cons]; omega
        | none => simp [he] at hs
  unfold len; omega

/-! ## width soundness per rune, from an exhaustive sweep regenerated on every run -/

/-- **for EVERY scalar value the encoder of the coding accepts, its encoding needs no more bits than the coding's splitter budgets**
(8 x octets; GSM 7-bit: 7 x septets) — GSM 7-bit, ASCII, Latin-1, Cyrillic, Hebrew, Shift-JIS, UCS-2, EUC-KR.  The lists are
computed by the extractor with the REAL encoder and the REAL splitter over all 1,112,064 scalars. -/
theorem C07_width_sound_per_rune :
    overBudget_0 = [] ∧ overBudget_1 = [] ∧ overBudget_3 = [] ∧ overBudget_5 = [] ∧ overBudget_6 = [] ∧ overBudget_7 = [] ∧
    overBudget_8 = [] ∧ overBudget_14 = [] := by decide +kernel

/-- EUC-JP: exactly the committed set of three-octet characters exceeds its budget (known finding), nothing else -/
theorem C07_width_eucjp_known : overBudget_13 = C07Known.eucjpThreeOctet := by decide +kernel

/-! ## known finding: the multi-octet widths are not sound for EUC-JP and ISO-2022-JP -/

/-- KNOWN FINDING C07-multibyte-width: `_MultibyteSplitter` budgets 16 bits for every non-ASCII rune,
but EUC-JP needs three octets for JIS X 0212 characters (U+4E02 → 8F B0 A1) and ISO-2022-JP adds
escape sequences; the splitter's estimate for one such rune is 2 octets. -/
theorem C07_cex_width : len (w 13) [0x4E02] = 2 ∧ len (w 10) [0x65E5] = 2 := by decide

/-! ## non-vacuity -/
example : (split (w 3) 134 (List.replicate 300 65)).map List.length = [134, 134, 32] := by decide +kernel
example : (match compose 3 (fun _ => true) 0xFFFF (List.replicate 200 65) with
    | .ok ps => ps.map (fun p => (p.udh, p.text.length))
    | .error _ => []) = [(some [(8, [0xFF, 0xFF, 2, 1])], 133), (some [(8, [0xFF, 0xFF, 2, 2])], 67)] := by
  decide +kernel

end Smpp.Properties.C07
