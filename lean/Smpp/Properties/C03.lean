/-
C03 — A PDU stream is re-framed correctly under any fragmentation.
-/
import Smpp.Properties.SrcPduFrame
import Smpp.Proofs.Framing
import Smpp.Generated.Layouts
import Smpp.Generated.PduFacts
import Smpp.Generated.ConnFacts

namespace Smpp.Properties.C03
open Smpp Smpp.Pdu Smpp.Generated

/-! ## expectations on regenerated facts -/

/-- No decoder uses a bare `Read` (which may return short): header via binary.Read, body,
message, TLV value and UDH element data via io.ReadFull, the rest via ReadByte/ReadString.
This is what makes the decoders functions of the octet sequence alone. -/
theorem all_reads_exact :
    pduReadSites.all (fun p => !(p.1.endsWith "|read:Read")) = true := by decide +kernel

theorem readpdu_reads :
    pduReadSites.filter (fun p => p.1.startsWith "pdu/pdu.go" || p.1.startsWith "pdu/header.go")
      = [("pdu/header.go|readHeaderFrom|read:binary.Read", 1), ("pdu/pdu.go|ReadPDU|read:ReadFull", 1)] := by
  decide +kernel

/-- the 16..0x10000 bounds the model uses are the ones in header.go -/
theorem length_bounds :
    pduGuards.filter (fun g => g.startsWith "pdu/header.go")
      = ["pdu/header.go readHeaderFrom: header.CommandLength < 16",
         "pdu/header.go readHeaderFrom: header.CommandLength > 0x10000"] := by decide +kernel

/-- Watch — the consumer that relies on exact consumption — hands the transport itself to every ReadPDU call: no buffered
reader between calls that could read ahead and drop octets of the next frame, `continue` after the generic_nack -/
theorem watch_reads_transport_directly : connSrc_Conn_Watch = [
  "Conn.Watch: defer close(c.receiveQueue)",
  "Conn.Watch: defer c.cancel()",
  "Conn.Watch: var err error",
  "Conn.Watch: var packet interface{}",
  "Conn.Watch: for { select { case <-c.ctx.Done(): return default: } if c.ReadTimeout > 0 { _ = c.parent.SetReadDeadline(time.Now().Add(c.ReadTimeout)) } if packet, err = ReadPDU(c.parent); err == io.EOF { return } else if status, ok := err.(CommandStatus); err != nil { if packet == nil { return } else if !ok { status = ErrUnknownError } sequence := ReadSequence(packet) _ = c.Send(&GenericNACK{ Header: Header{CommandStatus: status, Sequence: sequence}, Tags: Tags{0xFFFF: []byte(err.Error())}, }) continue } else if callback, ok := c.lookup(ReadSequence(packet)); ok { callback(packet) } else { select { case <-c.ctx.Done(): return case c.receiveQueue <- packet: } } }"] := rfl

/-! ## theorems -/

/-- **Fragmentation independence** of one ReadPDU call: result, octets taken and octets left
depend only on the concatenation of what the reads hand out. -/
theorem C03_fragmentation (s s' : Stream) (h : s.flatten = s'.flatten) :
    (readPDU pduLayouts s).out = (readPDU pduLayouts s').out ∧
    (readPDU pduLayouts s).consumed = (readPDU pduLayouts s').consumed ∧
    (readPDU pduLayouts s).rest.flatten = (readPDU pduLayouts s').rest.flatten :=
  readPDU_chunk_indep pduLayouts s s' h

/-- … and of any number of successive calls. -/
theorem C03_fragmentation_all (fuel : Nat) (s s' : Stream) (h : s.flatten = s'.flatten) :
    readAll pduLayouts fuel s = readAll pduLayouts fuel s' :=
  readAll_chunk_indep pduLayouts fuel s s' h

/-- **Exact consumption.**  With an acceptable header (command_length = frame size, 16..65536)
ReadPDU takes exactly command_length octets and leaves the rest of the stream untouched —
also when the body does not decode or the command_id is unknown (`Frame.result` covers all
three outcomes). -/
theorem C03_consumes (f : Frame) (hf : f.framed) (s : Stream) (tail : Bytes)
    (hs : s.flatten = f.bytes ++ tail) :
    (readPDU pduLayouts s).out = f.result pduLayouts ∧
    (readPDU pduLayouts s).consumed = f.bytes.length ∧
    (readPDU pduLayouts s).rest.flatten = tail := by
  have h := readPDU_eq_flat pduLayouts s
  rw [hs, readPDUFlat_framed pduLayouts f tail hf] at h
  simpa using h

/-- **Streams.**  PDUs written back to back come out in order, then io.EOF, for every
fragmentation `s` of the byte string. -/
theorem C03_frames (fs : List Frame) (s : Stream)
    (hall : ∀ f ∈ fs, f.framed ∧ ∃ n v, f.result pduLayouts = .ok n v)
    (hs : s.flatten = (fs.map Frame.bytes).flatten) :
    readAll pduLayouts (fs.length + 1) s = fs.map (Frame.result pduLayouts) ++ [.errNil .eof] :=
  readAll_frames pduLayouts fs s hall hs

/-- **Truncation.**  A stream that ends strictly inside a PDU produces an error: never a PDU,
never a clean io.EOF. -/
theorem C03_truncated (f : Frame) (hf : f.framed) (k : Nat) (hk0 : 0 < k) (hk : k < f.bytes.length)
    (s : Stream) (hs : s.flatten = f.bytes.take k) :
    (readPDU pduLayouts s).out = .errNil .ueof ∨ (readPDU pduLayouts s).out = .errNil (.status 2) := by
  have h := readPDU_eq_flat pduLayouts s
  have hbl : f.bytes.length = 16 + f.body.length := by simp [Frame.bytes, encHeader_length']
  have ht := readPDUFlat_truncated pduLayouts f.hdr f.body k hf.1 hk0 (by omega)
  rw [hs] at h
  have ho : (readPDU pduLayouts s).out = (readPDUFlat pduLayouts (f.bytes.take k)).1 := by
    rw [← h]
  rw [ho]
  exact ht

/-! ## non-vacuity -/

/-- an enquire_link frame (16 octets, sequence 7) is well framed and decodes -/
def exFrame : Frame := ⟨⟨16, 0x15, 0, 7⟩, []⟩

example : exFrame.framed := ⟨by decide, by decide⟩
example : exFrame.result pduLayouts = .ok "EnquireLink" [.header ⟨16, 0x15, 0, 7⟩, .tags []] := by
  decide +kernel

end Smpp.Properties.C03
