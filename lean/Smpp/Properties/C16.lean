/-
C16 — Unsolicited PDUs are delivered once and in order; bad PDUs are NACKed, not fatal.

Over the transition system of conn.go, for every reachable state (every inbound history mixing peer-originated PDUs,
responses and undecodable frames, every consumer speed).  Independence of the fragmentation of the inbound octet
stream is C03 (ReadPDU re-frames any fragmentation); the classification of a frame into
decodable / body error with header / fatal is the byte-level model of C03 / C04.
-/
import Smpp.Proofs.ConnProgress
import Smpp.Properties.ConnSource

namespace Smpp.Properties.C16
open Smpp Smpp.Conn Smpp.Generated

/-! ## expectations on regenerated facts -/

/-- the dispatch in Watch: EOF and errors without a PDU end the loop; an error WITH a partially decoded PDU is answered by
generic_nack carrying its sequence number and the error's status (or ErrUnknownError, never 0), then `continue`; a decoded
PDU goes to its waiter or, failing that, to the queue -/
theorem watch_dispatch : connSrc_Conn_Watch.drop 4 = [
  "Conn.Watch: for { select { case <-c.ctx.Done(): return default: } if c.ReadTimeout > 0 { _ = c.parent.SetReadDeadline(time.Now().Add(c.ReadTimeout)) } if packet, err = ReadPDU(c.parent); err == io.EOF { return } else if status, ok := err.(CommandStatus); err != nil { if packet == nil { return } else if !ok { status = ErrUnknownError } sequence := ReadSequence(packet) _ = c.Send(&GenericNACK{ Header: Header{CommandStatus: status, Sequence: sequence}, Tags: Tags{0xFFFF: []byte(err.Error())}, }) continue } else if callback, ok := c.lookup(ReadSequence(packet)); ok { callback(packet) } else { select { case <-c.ctx.Done(): return case c.receiveQueue <- packet: } } }"] := rfl

/-- the queue is unbuffered (a buffered queue could reorder nothing, but Watch must not drop when it is full) -/
theorem queue_unbuffered : connSrc_NewConn = [
  "NewConn: ctx, cancel := context.WithCancel(ctx)",
  "NewConn: return &Conn{ parent: parent, ctx: ctx, cancel: cancel, receiveQueue: make(chan interface{}), pending: make(map[int32]func(interface{})), NextSequence: rand.Int31, ReadTimeout: time.Minute * 15, WriteTimeout: time.Minute * 15, }"] := rfl

/-! ## the property -/

/-- **in order, at most once**: what the application received is a prefix of the PDUs Watch found no waiter for, in the
order it took them from the transport; those are a subsequence of the decodable frames read so far -/
theorem C16_order (tbl) (hd : Distinct tbl) (hf : Fresh tbl) (s : State) (h : Reach tbl s) :
    s.delivered <+: s.missLog ∧ s.missLog.Sublist (okPdus s.readLog) := by
  obtain ⟨_, _, i3, i4⟩ := inv_all tbl hd hf s h
  exact ⟨i3.missBound.1, (List.sublist_append_left _ _).trans i4.missSub⟩

/-- **exactly once**: while Watch is in its loop every such PDU has been delivered, except the one it is handing over right now -/
theorem C16_exactly_once (tbl) (hd : Distinct tbl) (hf : Fresh tbl) (s : State) (h : Reach tbl s)
    (hl : s.watch.inLoop = true) : s.missLog = s.delivered ++ offerTail s :=
  (inv_all tbl hd hf s h).2.2.1.missExact hl

/-- never more than one PDU is held back, even during teardown -/
theorem C16_at_most_one_held (tbl) (hd : Distinct tbl) (hf : Fresh tbl) (s : State) (h : Reach tbl s) :
    s.missLog.length ≤ s.delivered.length + 1 :=
  (inv_all tbl hd hf s h).2.2.1.missBound.2

/-- arrival order is the transport's: frames are only ever appended behind those not yet read -/
theorem C16_fifo (s s' : State) (l : Label) (h : step s l = some s') :
    ∃ x, s'.readLog ++ s'.inbound = s.readLog ++ s.inbound ++ x := by
  have hs := step_sound s s' l h
  cases hs
  case wReadOk p rest hw hin => exact ⟨[], by simp [hin]⟩
  case wReadBad q k rest hw hin => exact ⟨[], by simp [hin]⟩
  case wReadFatal rest hw hin => exact ⟨[], by simp [hin]⟩
  case peerAnswer i hw ha => exact ⟨[.ok ⟨(s.callers i).seq, .ans i⟩], by simp⟩
  case peerUnsol q k => exact ⟨[.ok ⟨q, .peer k⟩], by simp⟩
  case peerBad q k => exact ⟨[.bad q k], by simp⟩
  case peerFatal => exact ⟨[.fatal], by simp⟩
  all_goals exact ⟨[], by simp [setPc]⟩

/-- **one generic_nack per undecodable frame with a positive sequence number**, carrying that number, in order — and nothing
is delivered for it (it never enters `missLog`, see C16_order: only decodable frames do) -/
theorem C16_nacks (tbl) (s : State) (h : Reach tbl s) (hb : s.writeBroken = false) :
    s.wire.filter isNack ++ nackTail s = (badSeqs s.readLog).map OutFrame.nack :=
  nack_inv tbl s h hb

/-- **not fatal**: after the NACK the loop goes on — Watch is back at the top of its loop -/
theorem C16_continues (s s' : State) (h : step s .wNack = some s') : s'.watch = .poll := by
  have hs := step_sound s s' _ h
  cases hs <;> rfl

/-- and from there it reads again unless the connection context is done -/
theorem C16_reads_on (s : State) (hw : s.watch = .poll) (hc : s.connDone = false) :
    ∃ s', step s .wPoll = some s' ∧ s'.watch = .reading :=
  ⟨{ s with watch := if s.connDone then .exiting else .reading }, by simp [step, hw], by simp [hc]⟩

/-! ## non-vacuity: unsolicited, bad (positive and zero sequence), unsolicited — slow consumer -/
def tbl0 : Nat → Caller := fun _ => { kind := .send, seq := 0, after := none }

example : ((run (init tbl0) [.peerUnsol 3 1, .peerBad 44 2, .peerBad 0 3, .peerUnsol 4 4,
    .wPoll, .wRead, .wLookup, .setDrain false, .setDrain true, .wOffer, .wPoll, .wRead, .wNack, .wPoll, .wRead, .wNack,
    .wPoll, .wRead, .wLookup, .wOffer]).map fun s => (s.delivered, s.wire, s.watch))
    = some ([⟨3, .peer 1⟩, ⟨4, .peer 4⟩], [.nack 44], .poll) := by decide +kernel

/-! ## completeness at rest (goroutine steps are finitely many: `C05_no_livelock` / `mu_decreases`) -/

/-- **nothing is left behind**: in every state at rest with the connection live and the application draining, Watch is back
in Read with nothing unread, every PDU that found no waiter HAS been handed to the application (in order, once), and every
undecodable frame with a positive sequence number HAS been answered by its generic_nack -/
theorem C16_complete_at_rest (tbl) (hd : Distinct tbl) (hf : Fresh tbl) (s : State) (hr : ReachP tbl s) (hq : Quiescent s)
    (hconn : s.connDone = false) (hdrain : s.draining = true) :
    s.watch = .reading ∧ s.inbound = [] ∧ s.delivered = s.missLog ∧
    (s.writeBroken = false → s.wire.filter isNack = (badSeqs s.readLog).map OutFrame.nack) := by
  obtain ⟨_, _, h3, _⟩ := inv_all tbl hd hf s hr.reach
  have hn := nack_inv tbl s hr.reach
  rcases quiescent_watch s hq with hw | ⟨hw, hin, _⟩ | ⟨k, p, q, hw, hb⟩ | ⟨p, _, hdr, _⟩
  · have := (h3.watchDone hw).1; rw [hconn] at this; cases this
  · refine ⟨hw, hin, ?_, ?_⟩
    · have := h3.missExact (by simp [hw, WatchPc.inLoop])
      simp [offerTail, hw] at this
      exact this.symm
    · intro hb
      have := hn hb
      simpa [nackTail, hw] using this
  · exact absurd hb (fun hb => no_double_delivery tbl hd hf s hr k p q hw hb)
  · rw [hdrain] at hdr; cases hdr

end Smpp.Properties.C16
