/-
C18 — SMS TPDU decoding is total on arbitrary octets.

`sms.Unmarshal` on every octet string returns an error or one of the eight TPDU structures and never
panics; `sms.Marshal` of anything it returned never panics either.  The model (Smpp/Model/Sms.lean)
makes every index expression and the one computed `make` length of the Go code an explicit partial
operation with a `panic` outcome; the theorems show that outcome unreachable for EVERY input.
-/
import Smpp.Proofs.SmsTotal
import Smpp.Properties.SmsSource
import Smpp.Generated.SmsFacts
import Smpp.Generated.Gsm7Facts

namespace Smpp.Properties.C18
open Smpp Smpp.Sms Smpp.Generated

/-- the environment the theorems are instantiated with: regenerated layouts and GSM 7-bit tables -/
def env : Env := ⟨gsmReverse, gsmEscapes, tpduLayouts, flagLayouts⟩

/-! ## expectations on regenerated facts (what the model's shape relies on) -/

/-- the eight structures Unmarshal's switch allocates all have a regenerated layout -/
theorem layouts_cover_switch :
    tpduLayouts.map (·.name) = ["Deliver", "DeliverReport", "DeliverReportError", "Submit", "SubmitReport",
      "SubmitReportError", "StatusReport", "Command"] := by decide +kernel

/-- no field is dispatched to a reader/writer the model does not have -/
theorem kinds_modelled : tpduLayouts.all (fun L => L.fields.all fun f =>
    (match f.ukind with | .flags ty => flagLayouts.any (·.1 == ty) | _ => true) &&
    (match f.mkind with | .flags ty => flagLayouts.any (·.1 == ty) | _ => true)) = true := by decide +kernel

/-- decoder and encoder dispatch agree on every field (a field read is a field written) -/
theorem kinds_symmetric : tpduLayouts.all (fun L => L.fields.all fun f => f.ukind == f.mkind) = true := by
  decide +kernel

/-- the flag structs: field kinds, and the position of ValidityPeriodFormat the walk reads and rewrites -/
theorem flag_structs : flagLayouts = [
    ("DeliverFlags", [.mtype, .one, .one, .one, .one]),
    ("Flags", [.mtype]),
    ("ParameterIndicator", [.one, .one, .one]),
    ("SubmitFlags", [.mtype, .one, .two, .one, .one, .one])] ∧
    (flagFieldNames.find? (·.1 == "SubmitFlags")).map (·.2[2]?) = some (some "ValidityPeriodFormat") ∧
    (flagFieldNames.find? (·.1 == "ParameterIndicator")).map (·.2) = some ["ProtocolIdentifier", "DataCoding", "UserData"] := by
  decide +kernel

/-! ## the property -/

/-- **Unmarshal never panics**, for every octet string (and any layout table). -/
theorem C18_unmarshal_total (e : Env) (bs : Bytes) : (unmarshal e bs).isPanic = false := by
  unfold unmarshal
  cases h : getType bs with
  | panic s => exact absurd h (not_panic (getType_np bs) s)
  | err e => rfl
  | ok p =>
    simp only
    split
    · rfl
    · split
      · rfl
      · next L _ =>
        have := (unmarshalFields_spec e.rev e.escs e.flagLayouts L.fields {} bs).1
        cases h2 : unmarshalFields e.rev e.escs e.flagLayouts L.fields {} bs with
        | panic s => exact absurd h2 (not_panic this s)
        | err e => rfl
        | ok vs => rfl

theorem typeName_mem (k : Nat) (f : Bool) (n : String) (h : typeName k f = some n) :
    n ∈ ["Deliver", "DeliverReport", "DeliverReportError", "Submit", "SubmitReport", "SubmitReportError",
      "StatusReport", "Command"] := by
  unfold typeName at h
  split at h
  · cases h; simp
  split at h
  · cases h; simp
  split at h
  · cases h; simp
  split at h
  · cases h; simp
  split at h
  · cases h; simp
  split at h
  · cases h; simp
  split at h
  · cases h; simp
  split at h
  · cases h; simp
  · cases h

/-- **error or one of the eight structures** -/
theorem C18_classify (bs : Bytes) (p : Tpdu) (h : unmarshal env bs = .ok p) :
    p.name ∈ ["Deliver", "DeliverReport", "DeliverReportError", "Submit", "SubmitReport", "SubmitReportError",
      "StatusReport", "Command"] := by
  unfold unmarshal at h
  cases h1 : getType bs with
  | panic s => simp [h1] at h
  | err e => simp [h1] at h
  | ok q =>
    simp only [h1] at h
    cases hn : typeName q.1 q.2 with
    | none => simp [hn] at h
    | some n =>
      simp only [hn] at h
      split at h
      · cases h
      · split at h
        · next vs _ =>
          simp only [Res.ok.injEq] at h
          subst h
          exact typeName_mem _ _ _ hn
        · cases h
        · cases h

/-- **Marshal of anything Unmarshal returned never panics** -/
theorem C18_marshal_total (e : Env) (bs : Bytes) (p : Tpdu) (h : unmarshal e bs = .ok p) :
    (marshal e p).isPanic = false := by
  have hvals : ∀ v ∈ p.vals, FValOK v := by
    unfold unmarshal at h
    cases h1 : getType bs with
    | panic s => simp [h1] at h
    | err e => simp [h1] at h
    | ok q =>
      simp only [h1] at h
      split at h
      · cases h
      · split at h
        · cases h
        · next L _ =>
          cases h2 : unmarshalFields e.rev e.escs e.flagLayouts L.fields {} bs with
          | panic s => simp [h2] at h
          | err e => simp [h2] at h
          | ok vs =>
            simp only [h2, Res.ok.injEq] at h
            subst h
            exact (unmarshalFields_spec e.rev e.escs e.flagLayouts L.fields {} bs).2 vs h2
  unfold marshal
  split
  · rfl
  · exact marshalFields_np e _ _ _ hvals

/-- the two together, as the property states it -/
theorem C18_total (bs : Bytes) :
    (unmarshal env bs).isPanic = false ∧ ∀ p, unmarshal env bs = .ok p → (marshal env p).isPanic = false :=
  ⟨C18_unmarshal_total env bs, fun p h => C18_marshal_total env bs p h⟩

/-! ## the cases the property names (evaluated on the model; the same inputs run on the code in corpus/C18.txt) -/

/-- a time stamp made of filler nibbles is an error, not a panic (the defect repaired by 0bbec60) -/
example : unmarshal env ([0x07, 0x91, 0x16, 0x04, 0x89, 0x56, 0x26, 0xF9, 0x04, 0x00, 0x00, 0x00,
    0xFF, 0xFF, 0xFF, 0xFF, 0xFF, 0xFF, 0xFF, 0x00]) = .err .filler := by decide +kernel

/-- an enhanced validity period hh:mm:ss with a filler nibble -/
example : unmarshal env ([0x00, 0x09, 0x2A, 0x00, 0x00, 0x00, 0x03, 0xF0, 0x21, 0x54, 0, 0, 0, 0x00]) = .err .filler := by
  decide +kernel

/-- user-data length beyond the remaining octets: a value (zero padded), re-encoded without panic -/
example : (match unmarshal env [0x00, 0x01, 0x2A, 0x00, 0x00, 0x00, 0xFF, 0x41] with
    | .ok p => (p.name, (marshal env p).isOk)
    | _ => ("", false)) = ("Submit", true) := by decide +kernel

/-- non-vacuity: a captured SMS-DELIVER decodes and re-encodes -/
example : (match unmarshal env [0x07, 0x91, 0x16, 0x04, 0x89, 0x56, 0x26, 0xF9, 0x04, 0x0B, 0x91, 0x16, 0x04, 0x89, 0x56, 0x26, 0xF9,
      0x00, 0x00, 0x71, 0x80, 0x13, 0x11, 0x12, 0x45, 0x23, 0x02, 0x41, 0x42] with
    | .ok p => marshal env p
    | _ => .err .eof) = .ok [0x07, 0x91, 0x16, 0x04, 0x89, 0x56, 0x26, 0xF9, 0x04, 0x0B, 0x91, 0x16, 0x04, 0x89, 0x56, 0x26, 0xF9,
      0x00, 0x00, 0x71, 0x80, 0x13, 0x11, 0x12, 0x45, 0x23, 0x02, 0x41, 0x42] := by decide +kernel

end Smpp.Properties.C18
