/-
C14 — Concurrent senders never interleave or tear frames on the wire.

Two layers.  (1) Octet level, from C12: a successful Marshal issues exactly ONE Write carrying the whole frame, a
failed one issues none; Send refuses a non-positive sequence number before touching the transport (regenerated
statements of Conn.Send).  Given atomic Write calls, the peer's octet stream is therefore the concatenation of the
frames in `wire` order.  (2) Frame level, over the transition system of conn.go for every reachable state and any
number of goroutines: each successful call's frame is on the wire exactly once, failed calls contribute nothing, and
the frames of one goroutine appear in its call order.
-/
import Smpp.Proofs.ConnProgress
import Smpp.Properties.ConnSource
import Smpp.Properties.C12

namespace Smpp.Properties.C14
open Smpp Smpp.Conn Smpp.Generated

/-! ## expectations on regenerated facts -/

/-- Send: sequence test first, then the deadline, then ONE call of Marshal on the transport -/
theorem send_shape : connSrc_Conn_Send = [
  "Conn.Send: sequence := ReadSequence(packet)",
  "Conn.Send: if sequence == 0 || sequence < 0 { err = ErrInvalidSequence return }",
  "Conn.Send: if c.WriteTimeout > 0 { err = c.parent.SetWriteDeadline(time.Now().Add(c.WriteTimeout)) }",
  "Conn.Send: if err == nil { _, err = Marshal(c.parent, packet) }",
  "Conn.Send: if err == io.EOF { err = ErrConnectionClosed }",
  "Conn.Send: return"] := rfl

/-! ## octet level (C12) -/

/-- a successful Marshal hands the transport one Write with the whole frame, whose first four octets state its size -/
theorem C14_send_atomic (L : Pdu.Layout) (v : List Pdu.FVal) (b : Bytes) (after : List Pdu.FVal)
    (h : Pdu.marshal L v = ⟨.ok b, after⟩) :
    C12.writes (Pdu.marshal L v) = [b] ∧ 16 ≤ b.length ∧ b.take 4 = be32 (UInt32.ofNat b.length) :=
  C12.C12_success L v b after h

/-- a failed Marshal writes nothing -/
theorem C14_failed_marshal_writes_nothing (L : Pdu.Layout) (v : List Pdu.FVal) (e : Pdu.Err) (after : List Pdu.FVal)
    (h : Pdu.marshal L v = ⟨.err e, after⟩) : C12.writes (Pdu.marshal L v) = [] :=
  C12.C12_failure L v e after h

/-! ## frame level -/

/-- **each successful call's frame is on the wire**, with the call's own sequence number -/
theorem C14_present (tbl) (hd : Distinct tbl) (hf : Fresh tbl) (s : State) (h : Reach tbl s) (i : Nat)
    (hp : (s.callers i).pc.pastWrite = true) : OutFrame.req i (tbl i).seq ∈ s.wire :=
  (inv_all tbl hd hf s h).2.1.pastWriteWire i hp

/-- **exactly once**: no call has two frames on the wire -/
theorem C14_once (tbl) (hd : Distinct tbl) (hf : Fresh tbl) (s : State) (h : Reach tbl s) :
    (s.wire.filterMap reqId).Nodup :=
  (inv_all tbl hd hf s h).2.2.2.wireNodup

/-- **nothing else**: a request frame on the wire belongs to a call that got past its Write, and carries that call's number -/
theorem C14_only (tbl) (hd : Distinct tbl) (hf : Fresh tbl) (s : State) (h : Reach tbl s) (i : Nat) (q : Int)
    (hw : OutFrame.req i q ∈ s.wire) : q = (tbl i).seq ∧ (s.callers i).pc.pastWrite = true :=
  (inv_all tbl hd hf s h).2.1.wireSeq i q hw

/-- **a call that fails before the transport contributes no octets**; in particular a non-positive sequence number -/
theorem C14_failed_calls_absent (tbl) (hd : Distinct tbl) (hf : Fresh tbl) (s : State) (h : Reach tbl s) (i : Nat) (q : Int)
    (hr : (s.callers i).pc = .done (.err .invalidSeq) ∨ (s.callers i).pc = .done (.err .write)) : OutFrame.req i q ∉ s.wire := by
  intro hw
  have := (C14_only tbl hd hf s h i q hw).2
  rcases hr with hr | hr <;> rw [hr] at this <;> simp [Pc.pastWrite, Result.afterWrite] at this

theorem C14_refuses_nonpositive (tbl) (hd : Distinct tbl) (hf : Fresh tbl) (s : State) (h : Reach tbl s) (i : Nat) (q : Int)
    (hs : (tbl i).seq ≤ 0) : OutFrame.req i q ∉ s.wire := by
  intro hw
  obtain ⟨_, i2, _, _⟩ := inv_all tbl hd hf s h
  have hpw := (i2.wireSeq i q hw).2
  have : (s.callers i).pc.pastCheck = true := by
    cases hpc : (s.callers i).pc <;> simp_all [Pc.pastCheck, Pc.pastWrite]
  have := i2.checkedPos i this
  omega

/-- **per-goroutine order**: no frame of a later call of a goroutine precedes a frame of an earlier call of the same goroutine -/
theorem C14_thread_order (tbl) (hd : Distinct tbl) (hf : Fresh tbl) (s : State) (h : Reach tbl s) :
    s.wire.Pairwise (OrderOK tbl) :=
  (inv_all tbl hd hf s h).2.2.2.wireOrder

/-- the only labels that change the wire append exactly one whole frame -/
theorem C14_append_only (s s' : State) (l : Label) (h : step s l = some s') :
    s'.wire = s.wire ∨ ∃ f, s'.wire = s.wire ++ [f] := by
  have hs := step_sound s s' l h
  cases hs <;> simp [setPc]

/-! ## non-vacuity: two goroutines, the second call of goroutine A after its first -/
def tbl3 : Nat → Caller := fun i =>
  if i = 0 then { kind := .send, seq := 5, after := none }
  else if i = 1 then { kind := .submit, seq := 6, after := none }
  else { kind := .send, seq := 7, after := some 0 }

example : ((run (init tbl3) [.start 0, .start 1, .check 1, .check 0, .write 1, .write 0, .writeRet 0, .finish 0,
    .start 2, .check 2, .write 2]).map (·.wire)) = some [.req 1 6, .req 0 5, .req 2 7] := by decide +kernel

/-- **a Send call never stays blocked**: in every reachable state where no goroutine step is enabled (and goroutine steps are
finitely many, `mu_decreases`) a Send call has returned or was never started — Send waits for nothing but the transport's Write -/
theorem C14_send_returns_at_rest (tbl) (hd : Distinct tbl) (hf : Fresh tbl) (s : State) (hr : Reach tbl s) (hq : Quiescent s)
    (i : Nat) (hk : (tbl i).kind = .send) : (s.callers i).pc = .idle ∨ ∃ r, (s.callers i).pc = .done r :=
  send_returns_at_rest tbl hd hf s hr hq i hk

end Smpp.Properties.C14
