-- Expectations on regenerated source facts (snapshot written by tools/gen_src_expect.py after the model was
-- validated against this source).  A changed statement breaks the lemma of its function.
import Smpp.Generated.ConnFacts
namespace Smpp.Properties.ConnSource
open Smpp.Generated

theorem src_OpenConn : connSrc_OpenConn = [
  "OpenConn: parent, err := net.Dial(\"tcp\", smsc)",
  "OpenConn: if err == nil { conn = NewConn(ctx, parent) }",
  "OpenConn: return"] := rfl

theorem src_NewConn : connSrc_NewConn = [
  "NewConn: ctx, cancel := context.WithCancel(ctx)",
  "NewConn: return &Conn{ parent: parent, ctx: ctx, cancel: cancel, receiveQueue: make(chan interface{}), pending: make(map[int32]func(interface{})), NextSequence: rand.Int31, ReadTimeout: time.Minute * 15, WriteTimeout: time.Minute * 15, }"] := rfl

theorem src_Conn_Watch : connSrc_Conn_Watch = [
  "Conn.Watch: defer close(c.receiveQueue)",
  "Conn.Watch: defer c.cancel()",
  "Conn.Watch: var err error",
  "Conn.Watch: var packet interface{}",
  "Conn.Watch: for { select { case <-c.ctx.Done(): return default: } if c.ReadTimeout > 0 { _ = c.parent.SetReadDeadline(time.Now().Add(c.ReadTimeout)) } if packet, err = ReadPDU(c.parent); err == io.EOF { return } else if status, ok := err.(CommandStatus); err != nil { if packet == nil { return } else if !ok { status = ErrUnknownError } sequence := ReadSequence(packet) _ = c.Send(&GenericNACK{ Header: Header{CommandStatus: status, Sequence: sequence}, Tags: Tags{0xFFFF: []byte(err.Error())}, }) continue } else if callback, ok := c.lookup(ReadSequence(packet)); ok { callback(packet) } else { select { case <-c.ctx.Done(): return case c.receiveQueue <- packet: } } }"] := rfl

theorem src_Conn_Submit : connSrc_Conn_Submit = [
  "Conn.Submit: sequence := c.NextSequence()",
  "Conn.Submit: WriteSequence(packet, sequence)",
  "Conn.Submit: returns := make(chan interface{}, 1)",
  "Conn.Submit: c.register(sequence, func(resp interface{}) { returns <- resp })",
  "Conn.Submit: defer c.register(sequence, nil)",
  "Conn.Submit: if err = c.Send(packet); err != nil { return }",
  "Conn.Submit: select { case <-c.ctx.Done(): err = ErrConnectionClosed case <-ctx.Done(): err = ctx.Err() case resp = <-returns: }",
  "Conn.Submit: return"] := rfl

theorem src_Conn_lookup : connSrc_Conn_lookup = [
  "Conn.lookup: c.mu.Lock()",
  "Conn.lookup: defer c.mu.Unlock()",
  "Conn.lookup: callback, ok = c.pending[sequence]",
  "Conn.lookup: return"] := rfl

theorem src_Conn_register : connSrc_Conn_register = [
  "Conn.register: c.mu.Lock()",
  "Conn.register: defer c.mu.Unlock()",
  "Conn.register: if callback == nil { delete(c.pending, sequence) } else { c.pending[sequence] = callback }"] := rfl

theorem src_Conn_Send : connSrc_Conn_Send = [
  "Conn.Send: sequence := ReadSequence(packet)",
  "Conn.Send: if sequence == 0 || sequence < 0 { err = ErrInvalidSequence return }",
  "Conn.Send: if c.WriteTimeout > 0 { err = c.parent.SetWriteDeadline(time.Now().Add(c.WriteTimeout)) }",
  "Conn.Send: if err == nil { _, err = Marshal(c.parent, packet) }",
  "Conn.Send: if err == io.EOF { err = ErrConnectionClosed }",
  "Conn.Send: return"] := rfl

theorem src_Conn_EnquireLink : connSrc_Conn_EnquireLink = [
  "Conn.EnquireLink: ticker := time.NewTicker(tick)",
  "Conn.EnquireLink: defer ticker.Stop()",
  "Conn.EnquireLink: sendEnquireLink := func() { ctx, cancel := context.WithTimeout(c.ctx, timeout) defer cancel() if _, err := c.Submit(ctx, new(EnquireLink)); err != nil { ticker.Stop() _ = c.Close() } }",
  "Conn.EnquireLink: for { sendEnquireLink() select { case <-c.ctx.Done(): return case <-ticker.C: } }"] := rfl

theorem src_Conn_Close : connSrc_Conn_Close = [
  "Conn.Close: ctx, cancel := context.WithTimeout(c.ctx, time.Second)",
  "Conn.Close: defer cancel()",
  "Conn.Close: defer c.cancel()",
  "Conn.Close: if _, err = c.Submit(ctx, new(Unbind)); err == nil { err = c.parent.Close() }",
  "Conn.Close: return"] := rfl

theorem src_Conn_Done : connSrc_Conn_Done = [
  "Conn.Done: return c.ctx.Done()"] := rfl

theorem src_Conn_PDU : connSrc_Conn_PDU = [
  "Conn.PDU: return c.receiveQueue"] := rfl

end Smpp.Properties.ConnSource
