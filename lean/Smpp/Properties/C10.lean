/-
C10 — Multipart reassembly delivers each message once, complete and unmixed.
-/
import Smpp.Properties.SrcCombine
import Smpp.Proofs.CombinerProofs
import Smpp.Proofs.CombinerOnce
import Smpp.Generated.PduFacts

namespace Smpp.Properties.C10
open Smpp Smpp.Pdu Smpp.Combiner Smpp.Generated

/-! ## expectation: the combiner's guards and its key, regenerated from the source -/

/-- the registry key is the comparable tuple (source address, destination address, reference) —
not a formatted string — and the three guards the model transcribes are in place -/
theorem combiner_source :
    accessorStmts.filter (fun s => s.startsWith "combiner") = [
      "combiner if: sm != nil",
      "combiner if: header == nil",
      "combiner if: header.Sequence == 0 || header.Sequence > header.TotalParts",
      "combiner: id := key{p.SourceAddr, p.DestAddr, header.Reference}",
      "combiner if: !ok",
      "combiner: registry[id] = make([]*DeliverSM, header.TotalParts)",
      "combiner if: len(registry[id]) != int(header.TotalParts)",
      "combiner: registry[id][header.Sequence-1] = p",
      "combiner if: isDone(id, header.TotalParts)"] := by decide +kernel

/-! ## theorems: every arrival history -/

/-- a non-concatenated PDU is handed to the callback at once, alone, and leaves the registry untouched -/
theorem C10_immediate (r : Registry) (p : Seg) (h : concatHeader p.udh = .ok none) :
    step r p = .ok (r, [[p]]) := by
  unfold step
  rw [h]

/-- **Never mixed, never partial, in order.**  For ANY history of deliver_sm PDUs — any number of
concurrently arriving messages, any interleaving, duplicates, malformed segments — every list the
callback receives is either a single non-concatenated PDU or ALL N segments of one message:
same source address, destination address and reference number throughout, each announcing total
N = the length of the list, with sequence numbers 1..N in that order. -/
theorem C10_deliveries (history : List Seg) (r : Registry) (ds : List (List Seg))
    (h : run [] history = .ok (r, ds)) : ∀ d ∈ ds, GoodDelivery d :=
  (run_good history [] r ds (by intro e he; simp at he) h).2

/-- the run itself cannot fail (no history makes the combiner panic) -/
theorem C10_run_total (history : List Seg) : ∃ out, run [] history = .ok out := run_ok history []

/-- all-filled test, as a proposition -/
def Filled (l : List (Option Seg)) : Prop := ∀ o ∈ l, o.isSome = true

theorem isDone_iff (slots : List (Option Seg)) (total : Nat) (hl : slots.length = total) (ht : total < 256) :
    isDone slots total = true ↔ Filled slots := by
  constructor
  · intro hd
    have h := isDone_allSome slots total hl ht hd
    have heq : slots.filter Option.isSome = slots := List.filter_sublist.eq_of_length h
    exact List.filter_eq_self.mp heq
  · intro hf
    have : (slots.filter Option.isSome).length = slots.length := by
      rw [List.filter_eq_self.mpr hf]
    unfold isDone
    simp only [beq_iff_eq]
    omega

/-- **Exactly when the last missing segment arrives.**  For a well-formed segment of a message whose
slot array has the announced size, the callback fires on this very call iff — with this segment
in place — no slot is empty; otherwise the segment is stored and nothing is delivered. -/
theorem C10_exactly_when_complete (r : Registry) (p : Seg) (h : ConcatHeader)
    (hh : concatHeader p.udh = .ok (some h)) (h0 : h.seq ≠ 0) (h1 : h.seq ≤ h.total)
    (slots : List (Option Seg))
    (hs : (regFind r ⟨p.src, p.dst, h.reference⟩).getD (List.replicate h.total none) = slots)
    (hl : slots.length = h.total) :
    ∃ r' ds, step r p = .ok (r', ds) ∧
      (Filled (slots.set (h.seq - 1) (some p)) → ds = [(slots.set (h.seq - 1) (some p)).filterMap id]) ∧
      (¬ Filled (slots.set (h.seq - 1) (some p)) → ds = []) := by
  obtain ⟨o, ho, hb⟩ := concatHeader_ok p.udh
  rw [hh] at ho
  cases ho
  obtain ⟨ht, hsq⟩ := hb h rfl
  have hi : (h.seq + 255) % 256 = h.seq - 1 := by omega
  have hguard : (decide (h.seq = 0) || decide (h.seq > h.total)) = false := by
    simp only [Bool.or_eq_false_iff, decide_eq_false_iff_not]; omega
  unfold step
  have hlne : ¬ (slots.length ≠ h.total) := by simp [hl]
  have hlt : h.seq - 1 < slots.length := by omega
  simp only [hh, hguard, Bool.false_eq_true, ↓reduceIte, hs, hlne, setSlot, hi, hlt]
  have hiff := isDone_iff (slots.set (h.seq - 1) (some p)) h.total (by rw [List.length_set]; exact hl) ht
  by_cases hd : isDone (slots.set (h.seq - 1) (some p)) h.total = true
  · simp only [hd, ↓reduceIte]
    exact ⟨_, _, rfl, fun _ => rfl, fun hn => absurd (hiff.mp hd) hn⟩
  · simp only [hd, Bool.false_eq_true, ↓reduceIte]
    exact ⟨_, _, rfl, fun hf => absurd (hiff.mpr hf) hd, fun _ => rfl⟩

/-! ## non-vacuity: two interleaved two-part messages whose keys collided under the old string key -/
def a12 : Addr := ⟨1, 1, [49, 50]⟩
def a1 : Addr := ⟨1, 1, [49]⟩
def d3 : Addr := ⟨3, 1, [52, 53, 54]⟩
def d23 : Addr := ⟨23, 1, [52, 53, 54]⟩
def seg (s d : Addr) (seq tag : Nat) : Seg := ⟨s, d, some [(0, [7, 2, UInt8.ofNat seq])], tag⟩

example : (match run [] [seg a12 d3 1 0, seg a1 d23 2 1, seg a1 d23 1 2, seg a12 d3 2 3] with
    | .ok (_, ds) => ds.map (·.map (·.tag))
    | .panic _ => []) = [[2, 1], [0, 3]] := by decide +kernel

/-! ## once: a delivered message is forgotten, an incomplete one is kept -/

theorem regFind_erase (r : Registry) (k : Key) : regFind (regErase r k) k = none := by
  unfold regFind regErase
  rw [Option.map_eq_none_iff, List.find?_eq_none]
  intro x hx
  have := (List.mem_filter.mp hx).2
  simpa using this

theorem regFind_set (r : Registry) (k : Key) (s : List (Option Seg)) : regFind (regSet r k s) k = some s := by
  simp [regFind, regSet]

/-- **Once.**  On the call that completes a message the registry entry of its key (source address,
destination address, reference) is removed: none of the delivered segments is retained, so a
later delivery under that key can only be built from segments that arrive afterwards — the same
arrivals are never delivered twice.  On a call that does not complete it, the entry holds exactly
the slots with this segment in place. -/
theorem C10_once (r : Registry) (p : Seg) (h : ConcatHeader)
    (hh : concatHeader p.udh = .ok (some h)) (h0 : h.seq ≠ 0) (h1 : h.seq ≤ h.total)
    (slots : List (Option Seg))
    (hs : (regFind r ⟨p.src, p.dst, h.reference⟩).getD (List.replicate h.total none) = slots)
    (hl : slots.length = h.total) :
    ∃ r' ds, step r p = .ok (r', ds) ∧
      (Filled (slots.set (h.seq - 1) (some p)) → regFind r' ⟨p.src, p.dst, h.reference⟩ = none) ∧
      (¬ Filled (slots.set (h.seq - 1) (some p)) →
        regFind r' ⟨p.src, p.dst, h.reference⟩ = some (slots.set (h.seq - 1) (some p))) := by
  obtain ⟨o, ho, hb⟩ := concatHeader_ok p.udh
  rw [hh] at ho
  cases ho
  obtain ⟨ht, hsq⟩ := hb h rfl
  have hi : (h.seq + 255) % 256 = h.seq - 1 := by omega
  have hguard : (decide (h.seq = 0) || decide (h.seq > h.total)) = false := by
    simp only [Bool.or_eq_false_iff, decide_eq_false_iff_not]; omega
  unfold step
  have hlne : ¬ (slots.length ≠ h.total) := by simp [hl]
  have hlt : h.seq - 1 < slots.length := by omega
  simp only [hh, hguard, Bool.false_eq_true, ↓reduceIte, hs, hlne, setSlot, hi, hlt]
  have hiff := isDone_iff (slots.set (h.seq - 1) (some p)) h.total (by rw [List.length_set]; exact hl) ht
  by_cases hd : isDone (slots.set (h.seq - 1) (some p)) h.total = true
  · simp only [hd, ↓reduceIte]
    exact ⟨_, _, rfl, fun _ => regFind_erase _ _, fun hn => absurd (hiff.mp hd) hn⟩
  · simp only [hd, Bool.false_eq_true, ↓reduceIte]
    exact ⟨_, _, rfl, fun hf => absurd (hiff.mpr hf) hd, fun _ => regFind_set _ _ _⟩

/-- **Never more often than it arrived.**  For ANY history and any PDU x: the number of times x occurs in
the deliveries (all of them, flattened) is at most the number of times x occurs in the history. -/
theorem C10_at_most_once (history : List Seg) (r : Registry) (ds : List (List Seg))
    (h : run [] history = .ok (r, ds)) (x : Seg) : ds.flatten.count x ≤ history.count x := by
  have := run_count x history [] r ds h
  simp only [stored, List.flatMap_nil, List.count_nil] at this
  omega

/-- **Nothing fabricated.**  Every PDU handed to the callback is one that arrived. -/
theorem C10_delivered_arrived (history : List Seg) (r : Registry) (ds : List (List Seg))
    (h : run [] history = .ok (r, ds)) (x : Seg) (hx : x ∈ ds.flatten) : x ∈ history := by
  have h1 := C10_at_most_once history r ds h x
  have h2 : 0 < ds.flatten.count x := List.count_pos_iff.mpr hx
  exact List.count_pos_iff.mp (by omega)

/-- **Once.**  When the PDUs of the history are pairwise distinct (each arrival is its own PDU: `tag` is its
position), no PDU is handed to the callback twice — neither within one delivery nor in two. -/
theorem C10_no_redelivery (history : List Seg) (r : Registry) (ds : List (List Seg))
    (h : run [] history = .ok (r, ds)) (hn : history.Nodup) : ds.flatten.Nodup := by
  rw [List.nodup_iff_count]
  intro x
  have h1 := C10_at_most_once history r ds h x
  have h2 := List.nodup_iff_count.mp hn x
  omega

/-- a segment that re-arrives after its message was delivered starts a fresh message: with N > 1 it is
stored, not delivered (non-vacuity of `C10_once` on a concrete history: 1,2 delivered; 2 again: nothing) -/
example : (match run [] [seg a1 d3 1 0, seg a1 d3 2 1, seg a1 d3 2 2] with
    | .ok (r, ds) => (ds.map (·.map (·.tag)), r.length)
    | .panic _ => ([], 0)) = ([[0, 1]], 1) := by decide +kernel

/-- the hypothesis of `C10_no_redelivery` is met by the history above (distinct tags), which does make deliveries -/
example : [seg a1 d3 1 0, seg a1 d3 2 1, seg a1 d3 2 2].Nodup := by decide +kernel

end Smpp.Properties.C10
