/-
Round-trip lemmas for the map-backed fields: TLVs and the short message with its
user data header.
-/
import Smpp.Proofs.Codec

namespace Smpp.Pdu
open Smpp

/-! ### TLVs -/

def TagsWF (t : KMap) : Prop := KSorted t ∧ ∀ kv ∈ t, kv.1 < 65536 ∧ kv.2.length < 65535

/-- Tags.WriteTo skips empty values, so they do not survive a round trip (C13: "counting as absent"). -/
def dropEmpty (t : KMap) : KMap := t.filter (fun kv => kv.2.length != 0)

theorem KSorted.tail_of_append_cons {acc t : KMap} {a : Nat × Bytes} (h : KSorted (acc ++ a :: t)) :
    KSorted (acc ++ t) := by
  unfold KSorted at *
  exact h.sublist (by simp)

theorem KSorted.acc_lt {acc t : KMap} {a : Nat × Bytes} (h : KSorted (acc ++ a :: t)) :
    ∀ x ∈ acc, x.1 < a.1 := by
  intro x hx
  unfold KSorted at h
  rw [List.pairwise_append] at h
  exact h.2.2 x hx a (by simp)

theorem decTags_enc (t : KMap) : ∀ (b : Bytes) (acc : KMap), TagsWF t → encTagsSorted t = .ok b →
    KSorted (acc ++ t) → decTags acc b = some (acc ++ dropEmpty t) := by
  induction t with
  | nil =>
    intro b acc _ he _
    simp [encTagsSorted] at he
    subst he
    simp [decTags, dropEmpty]
  | cons a t ih =>
    intro b acc hwf he hs
    obtain ⟨k, v⟩ := a
    have hwf' : TagsWF t := ⟨(List.pairwise_cons.mp hwf.1).2, fun kv hkv => hwf.2 kv (by simp [hkv])⟩
    have hkv := hwf.2 (k, v) (by simp)
    simp only at hkv
    by_cases hv : v.length = 0
    · simp only [encTagsSorted, hv, ↓reduceIte] at he
      have := ih b acc hwf' he (KSorted.tail_of_append_cons hs)
      simpa [dropEmpty, hv] using this
    · have hlt : v.length < 0xFFFF := hkv.2
      simp only [encTagsSorted, hv, ↓reduceIte, hlt] at he
      split at he
      · next b' hb' =>
        simp only [Except.ok.injEq] at he
        subst he
        have hk16 : (UInt16.ofNat k).toNat = k := u16_ofNat_toNat hkv.1
        have hl16 : (UInt16.ofNat v.length).toNat = v.length := u16_ofNat_toNat (by omega)
        have hins : acc.insert k v = acc ++ [(k, v)] :=
          KMap.insert_of_all_lt acc k v (KSorted.acc_lt hs)
        have hs' : KSorted ((acc ++ [(k, v)]) ++ t) := by simpa using hs
        have hrec := ih b' (acc ++ [(k, v)]) hwf' hb' hs'
        simp only [encTlv, be16, List.cons_append, List.nil_append, List.append_assoc]
        rw [decTags]
        simp only [hk16, hl16, List.length_append, rd16_nat hkv.1, rd16_nat (show v.length < 65536 by omega)]
        have h1 : ¬ (v.length + b'.length = 0) := by omega
        have h2 : ¬ (v.length + b'.length < v.length) := by omega
        simp only [hv, h1, h2, ↓reduceIte, List.take_left', List.drop_left', hins]
        rw [hrec]
        simp [dropEmpty, hv]
      · simp at he

/-! ### user data header -/

theorem decUdhLoop_enc (els : KMap) : ∀ (acc : KMap) (total i : Nat) (r : Bytes),
    (∀ kv ∈ els, kv.1 < 256 ∧ kv.2.length ≤ 255) → KSorted (acc ++ els) →
    i + (els.flatMap encUdhEl).length = total →
    decUdhLoop total i acc (els.flatMap encUdhEl ++ r) = some (acc ++ els, r) := by
  induction els with
  | nil =>
    intro acc total i r _ _ htot
    simp at htot
    subst htot
    rw [decUdhLoop.eq_def]
    simp
  | cons a els ih =>
    intro acc total i r hb hs htot
    obtain ⟨k, v⟩ := a
    have hkv := hb (k, v) (by simp)
    simp only at hkv
    have hb' : ∀ kv ∈ els, kv.1 < 256 ∧ kv.2.length ≤ 255 := fun kv h => hb kv (by simp [h])
    have hins : acc.insert k v = acc ++ [(k, v)] := KMap.insert_of_all_lt acc k v (KSorted.acc_lt hs)
    have hs' : KSorted ((acc ++ [(k, v)]) ++ els) := by simpa using hs
    simp only [List.flatMap_cons, encUdhEl, List.cons_append, List.length_cons, List.length_append] at htot ⊢
    have hlt : i < total := by omega
    rw [decUdhLoop]
    simp only [hlt, ↓reduceIte, u8_ofNat_toNat hkv.2, u8_ofNat_toNat (show k ≤ 255 by omega), List.append_assoc,
      takeN_append, hins]
    rw [ih (acc ++ [(k, v)]) total (i + 2 + v.length) r hb' hs' (by omega)]
    simp

theorem udhLen_some (els : KMap) : udhLen (some els) = 1 + (els.flatMap encUdhEl).length := by
  simp only [udhLen]
  congr 1
  induction els with
  | nil => rfl
  | cons a els ih => simp [encUdhEl, ih]; omega

/-- A prepared short message as the wire can carry it. -/
def SmWF (rp udhi : Bool) (m : ShortMsg) : Prop :=
  (if rp then m.dc = noCoding ∧ m.udh = none else m.dc ≠ noCoding ∧ m.udh.isSome = udhi) ∧
  (∀ els, m.udh = some els → KSorted els ∧ ∀ kv ∈ els, kv.1 < 256)

theorem decSm_enc (rp udhi : Bool) (m : ShortMsg) (b r : Bytes) (hwf : SmWF rp udhi m)
    (he : encSm m = .ok b) : decSm rp udhi (b ++ r) = some (m, r) := by
  obtain ⟨defId, dc, udh, msg⟩ := m
  unfold encSm at he
  by_cases hml : msg.length > 140
  · simp [hml] at he
  · simp only [hml, ↓reduceIte] at he
    cases udh with
    | none =>
      simp only [encUdh, List.nil_append] at he
      by_cases hbl : msg.length > 255
      · omega
      · simp only [hbl, ↓reduceIte, Except.ok.injEq] at he
        subst he
        have hl : (UInt8.ofNat msg.length).toNat = msg.length := u8_ofNat_toNat (by omega)
        have hm : msg.length % 256 = msg.length := by omega
        cases rp with
        | true =>
          have hdc : dc = noCoding := by simpa [SmWF] using hwf.1.1
          subst hdc
          simp [decSm, udhLen, hl, hm, takeN_append]
        | false =>
          have hdc : dc ≠ noCoding := by simpa [SmWF] using hwf.1.1
          have hu : udhi = false := by
            have := hwf.1; simp [SmWF] at this; exact this.2
          subst hu
          simp [decSm, readByte, hdc, udhLen, hl, hm, takeN_append]
    | some els =>
      have hrp : rp = false := by
        cases rp with
        | false => rfl
        | true => have := hwf.1; simp at this
      subst hrp
      have hdc : dc ≠ noCoding := by have := hwf.1; simp at this; exact this.1
      have hu : udhi = true := by have := hwf.1; simp at this; exact this.2
      subst hu
      obtain ⟨hsorted, hkeys⟩ := hwf.2 els rfl
      have hulen := udhLen_some els
      simp only [encUdh] at he
      by_cases hany : els.any (fun kv => kv.2.length > 255)
      · simp only [hany, ↓reduceIte] at he
        cases he
      · have hb : ∀ kv ∈ els, kv.1 < 256 ∧ kv.2.length ≤ 255 := by
          intro kv hkv
          refine ⟨hkeys kv hkv, ?_⟩
          have h2 := hany
          simp only [List.any_eq_true, not_exists, not_and] at h2
          have := h2 kv hkv
          simpa using this
        have hloop := fun r' => decUdhLoop_enc els [] (els.flatMap encUdhEl).length 0 r' hb
          (by simpa using hsorted) (by simp)
        simp only [hany, Bool.false_eq_true, ↓reduceIte] at he
        generalize els.flatMap encUdhEl = body at he hloop hulen
        by_cases hbody : body.length > 255
        · simp only [hbody, ↓reduceIte] at he
          cases he
        · simp only [hbody, ↓reduceIte] at he
          by_cases htot : (UInt8.ofNat body.length :: body ++ msg).length > 255
          · simp only [htot, ↓reduceIte] at he
            cases he
          · simp only [htot, ↓reduceIte, Except.ok.injEq] at he
            subst he
            simp only [List.length_cons, List.length_append] at htot
            have hl1 : (UInt8.ofNat body.length).toNat = body.length := u8_ofNat_toNat (by omega)
            have hdc' : (dc != noCoding) = true := by simpa using hdc
            have key : ∀ n, n = msg.length →
                (match takeN n (msg ++ r) with
                  | some (msg, r5) => some ((⟨defId, dc, some els, msg⟩ : ShortMsg), r5)
                  | none => none) = some (⟨defId, dc, some els, msg⟩, r) := by
              intro n hn
              subst hn
              simp [takeN_append]
            simp only [decSm, readByte, hdc', ↓reduceIte, List.cons_append, List.nil_append,
              List.length_cons, List.length_append, Bool.not_false, Bool.and_self, hl1,
              List.append_assoc, hloop, hulen, Bool.false_eq_true]
            apply key
            rw [u8_ofNat_toNat (by omega)]
            omega

end Smpp.Pdu
