/-
The reflection walk: decoding the octets Marshal's loop produced returns the
(Prepare-normalised) values — by induction over the field list, for any layout
that passes the decidable shape test `LayoutOK`.
-/
import Smpp.Proofs.Codec2

namespace Smpp.Pdu
open Smpp

/-! ### decidable shape conditions on a layout (checked on the regenerated layouts by `decide`) -/

def tagsLast : List Field → Bool
  | [] => true
  | [_] => true
  | f :: g :: fs => f.kind != .tags && tagsLast (g :: fs)

def noHeader (fs : List Field) : Bool := fs.all (fun f => f.kind != .header)

def esmAhead (fs : List Field) : Bool := fs.any (fun f => f.name == "ESMClass")

def esmOK : List Field → Bool
  | [] => true
  | f :: fs =>
    (if f.name == "ESMClass" then f.kind == .esm && !esmAhead fs else true) &&
    (if f.kind == .sm then !esmAhead (f :: fs) else true) && esmOK fs

def LayoutOK (L : Layout) : Bool :=
  match L.fields with
  | f :: fs => f.kind == .header && f.name != "ESMClass" && noHeader fs && tagsLast fs && esmOK fs
      && decide (L.id < 4294967296)
  | [] => false

/-! ### well-formed values: what the wire format can carry -/

def FValWF (rp U : Bool) : FVal → Prop
  | .cstr s => NulFree s
  | .u8 _ => True
  | .bool _ => True
  | .header _ => True
  | .esm e => e.mode.toNat < 4 ∧ e.type.toNat < 16
  | .regdlv g => g.mc.toNat < 4 ∧ g.sme.toNat < 4 ∧ g.reserved.toNat < 8
  | .addr a => NulFree a.no
  | .dests d => DestsWF d
  | .unsucc l => ∀ u ∈ l, NulFree u.addr.no
  | .tags t => TagsWF t
  | .sm m => SmWF rp U (prepare rp U m)
  | .skipped n => n = 0

/-- what a value looks like after one encode/decode trip -/
def normVal : FVal → FVal
  | .tags t => .tags (dropEmpty t)
  | v => v

theorem decField_enc (rp U : Bool) (k : Kind) (v v' : FVal) (b r : Bytes)
    (hk : v.hasKind k = true) (hne : k ≠ .header) (hnt : k ≠ .tags) (hwf : FValWF rp U v)
    (he : encField rp U v = .ok (b, v')) :
    decField rp U k (b ++ r) = some (v', r) := by
  cases v with
  | cstr s =>
    cases k <;> simp [FVal.hasKind] at hk
    simp only [encField, Except.ok.injEq, Prod.mk.injEq] at he
    obtain ⟨rfl, rfl⟩ := he
    simp [decField, readCStr_enc s r hwf]
  | u8 x =>
    cases k <;> simp [FVal.hasKind] at hk
    simp only [encField, Except.ok.injEq, Prod.mk.injEq] at he
    obtain ⟨rfl, rfl⟩ := he
    simp [decField, readByte]
  | bool x =>
    cases k <;> simp [FVal.hasKind] at hk
    simp only [encField, Except.ok.injEq, Prod.mk.injEq] at he
    obtain ⟨rfl, rfl⟩ := he
    simp [decField, readByte, b2u_eq_one]
  | header h => cases k <;> simp [FVal.hasKind] at hk; exact absurd rfl hne
  | esm e =>
    cases k <;> simp [FVal.hasKind] at hk
    simp only [encField, Except.ok.injEq, Prod.mk.injEq] at he
    obtain ⟨rfl, rfl⟩ := he
    simp [decField, readByte, esm_roundtrip e hwf.1 hwf.2]
  | regdlv g =>
    cases k <;> simp [FVal.hasKind] at hk
    simp only [encField, Except.ok.injEq, Prod.mk.injEq] at he
    obtain ⟨rfl, rfl⟩ := he
    simp [decField, readByte, regdlv_roundtrip g hwf.1 hwf.2.1 hwf.2.2]
  | addr a =>
    cases k <;> simp [FVal.hasKind] at hk
    simp only [encField, Except.ok.injEq, Prod.mk.injEq] at he
    obtain ⟨rfl, rfl⟩ := he
    simp [decField, decAddr_enc a r hwf]
  | dests d =>
    cases k <;> simp [FVal.hasKind] at hk
    simp only [encField] at he
    cases hd : encDests d with
    | error e => simp [hd, Except.map] at he
    | ok bb =>
      simp [hd, Except.map] at he
      obtain ⟨rfl, rfl⟩ := he
      simp [decField, decDests_enc d bb r hwf hd]
  | unsucc l =>
    cases k <;> simp [FVal.hasKind] at hk
    simp only [encField] at he
    cases hd : encUnsucc l with
    | error e => simp [hd, Except.map] at he
    | ok bb =>
      simp [hd, Except.map] at he
      obtain ⟨rfl, rfl⟩ := he
      simp [decField, decUnsucc_enc l bb r hwf hd]
  | tags t => cases k <;> simp [FVal.hasKind] at hk; exact absurd rfl hnt
  | sm m =>
    cases k <;> simp [FVal.hasKind] at hk
    simp only [encField] at he
    cases hd : encSm (prepare rp U m) with
    | error e => simp [hd, Except.map] at he
    | ok bb =>
      simp [hd, Except.map] at he
      obtain ⟨rfl, rfl⟩ := he
      simp [decField, decSm_enc rp U (prepare rp U m) bb r hwf hd]
  | skipped n =>
    cases k <;> simp [FVal.hasKind] at hk
    simp only [encField, Except.ok.injEq, Prod.mk.injEq] at he
    obtain ⟨rfl, rfl⟩ := he
    simp only [FValWF] at hwf
    subst hwf
    simp [decField]

theorem decField_tags_enc (rp U u : Bool) (t : KMap) (b : Bytes) (v' : FVal) (hwf : TagsWF t)
    (he : encField rp U (.tags t) = .ok (b, v')) :
    decField rp u .tags b = some (.tags (dropEmpty t), []) ∧ v' = .tags t := by
  simp only [encField] at he
  cases hd : encTagsSorted t with
  | error e => simp [hd, Except.map] at he
  | ok bb =>
    simp [hd, Except.map] at he
    obtain ⟨rfl, rfl⟩ := he
    have := decTags_enc t bb [] hwf hd (by simpa using hwf.1)
    simp [decField, this]

theorem except_map_ok {α β ε : Type} (f : α → β) (x : Except ε α) (y : β)
    (h : Except.map f x = .ok y) : ∃ a, x = .ok a ∧ y = f a := by
  cases x with
  | error e => simp [Except.map] at h
  | ok a => simp [Except.map] at h; exact ⟨a, rfl, h.symm⟩

/-- The value Marshal leaves in the struct: unchanged, except that a short message is Prepared. -/
def afterEnc (rp U : Bool) : FVal → FVal
  | .sm m => .sm (prepare rp U m)
  | x => x

theorem encField_snd (rp U : Bool) (v v1 : FVal) (b : Bytes) (he : encField rp U v = .ok (b, v1)) :
    v1 = afterEnc rp U v := by
  cases v with
  | dests d => obtain ⟨a, _, h⟩ := except_map_ok _ _ _ he; simp at h; exact h.2
  | unsucc l => obtain ⟨a, _, h⟩ := except_map_ok _ _ _ he; simp at h; exact h.2
  | tags t => obtain ⟨a, _, h⟩ := except_map_ok _ _ _ he; simp at h; exact h.2
  | sm m => obtain ⟨a, _, h⟩ := except_map_ok _ _ _ he; simp at h; exact h.2
  | _ => simp [encField] at he; simp [afterEnc, he.2]

theorem decField_indep (rp u u' : Bool) (k : Kind) (bs : Bytes) (h : k ≠ .sm) :
    decField rp u k bs = decField rp u' k bs := by
  cases k <;> simp [decField] at h ⊢

end Smpp.Pdu

namespace Smpp.Pdu
open Smpp

theorem udhiOf_cons_ne (f : Field) (fs : List Field) (v : FVal) (vs : List FVal)
    (h : f.name ≠ "ESMClass") : udhiOf (f :: fs) (v :: vs) = udhiOf fs vs := by
  simp [udhiOf, h]

theorem udhiOf_not_ahead (fs : List Field) (vs : List FVal) (h : esmAhead fs = false) :
    udhiOf fs vs = false := by
  induction fs generalizing vs with
  | nil => cases vs <;> simp [udhiOf]
  | cons f fs ih =>
    cases vs with
    | nil => simp [udhiOf]
    | cons v vs =>
      simp only [esmAhead, List.any_cons, Bool.or_eq_false_iff, beq_eq_false_iff_ne] at h
      rw [udhiOf_cons_ne f fs v vs h.1]
      exact ih vs (by simpa [esmAhead] using h.2)

/-- The induction over the struct fields after the header. -/
theorem decFields_enc (rp U : Bool) : ∀ (fs : List Field) (vs : List FVal) (u : Bool) (bs : Bytes)
    (vs' : List FVal),
    Typed fs vs = true → (∀ v ∈ vs, FValWF rp U v) → tagsLast fs = true → noHeader fs = true →
    esmOK fs = true → (if esmAhead fs then udhiOf fs vs = U else u = U) →
    encFields rp U vs = .ok (bs, vs') → decFields rp u fs bs = some (vs'.map normVal) := by
  intro fs
  induction fs with
  | nil =>
    intro vs u bs vs' hty _ _ _ _ _ he
    cases vs with
    | nil =>
      simp [encFields] at he
      obtain ⟨rfl, rfl⟩ := he
      simp [decFields]
    | cons v vs => simp [Typed] at hty
  | cons f fs ih =>
    intro vs u bs vs' hty hwf htl hnh hesm hinv he
    cases vs with
    | nil => simp [Typed] at hty
    | cons v vs =>
      simp only [Typed, Bool.and_eq_true] at hty
      obtain ⟨hk, hty'⟩ := hty
      have hwfv : FValWF rp U v := hwf v (by simp)
      have hwf' : ∀ x ∈ vs, FValWF rp U x := fun x hx => hwf x (by simp [hx])
      simp only [noHeader, List.all_cons, Bool.and_eq_true, bne_iff_ne, ne_eq] at hnh
      obtain ⟨hfk, hnh'⟩ := hnh
      -- split the encoder
      simp only [encFields] at he
      cases h1 : encField rp U v with
      | error e => simp [h1] at he
      | ok p1 =>
        obtain ⟨b, v1⟩ := p1
        simp only [h1] at he
        cases h2 : encFields rp U vs with
        | error e => simp [h2] at he
        | ok p2 =>
          obtain ⟨bs2, vs2⟩ := p2
          simp only [h2, Except.ok.injEq, Prod.mk.injEq] at he
          obtain ⟨rfl, rfl⟩ := he
          -- esmOK pieces
          simp only [esmOK, Bool.and_eq_true] at hesm
          obtain ⟨⟨hE1, hE2⟩, hesm'⟩ := hesm
          rw [decFields]
          simp only [hfk, ↓reduceIte]
          by_cases htag : f.kind = .tags
          · -- tags: must be last
            have hfs : fs = [] := by
              cases fs with
              | nil => rfl
              | cons g gs => simp [tagsLast, htag] at htl
            subst hfs
            have hvs : vs = [] := by
              cases vs with
              | nil => rfl
              | cons _ _ => simp [Typed] at hty'
            subst hvs
            simp [encFields] at h2
            obtain ⟨rfl, rfl⟩ := h2
            cases v <;> simp [htag, FVal.hasKind] at hk
            next t =>
              obtain ⟨hd, rfl⟩ := decField_tags_enc rp U u t b v1 hwfv h1
              simp [htag, hd, decFields, normVal]
          · -- any other kind: prefix lemma
            have hu : decField rp u f.kind (b ++ bs2) = decField rp U f.kind (b ++ bs2) := by
              by_cases hsm : f.kind = .sm
              · have hna : esmAhead (f :: fs) = false := by simpa [hsm] using hE2
                simp only [hna, Bool.false_eq_true, ↓reduceIte] at hinv
                rw [hinv]
              · exact decField_indep rp u U f.kind _ hsm
            rw [hu, decField_enc rp U f.kind v v1 b bs2 hk hfk htag hwfv h1]
            simp only
            have htl' : tagsLast fs = true := by
              cases fs with
              | nil => rfl
              | cons g gs => simp [tagsLast] at htl; exact htl.2
            -- the running ESMClass value
            have hinv' : (if esmAhead fs then udhiOf fs vs = U else udhiNext u f v1 = U) := by
              by_cases hname : f.name = "ESMClass"
              · simp only [hname, beq_self_eq_true, ↓reduceIte, Bool.and_eq_true, beq_iff_eq,
                  Bool.not_eq_true'] at hE1
                obtain ⟨hkind, hna⟩ := hE1
                simp only [hna, Bool.false_eq_true, ↓reduceIte]
                have hah : esmAhead (f :: fs) = true := by simp [esmAhead, hname]
                simp only [hah, ↓reduceIte] at hinv
                cases v <;> simp [hkind, FVal.hasKind] at hk
                next e =>
                  simp only [encField, Except.ok.injEq, Prod.mk.injEq] at h1
                  obtain ⟨_, rfl⟩ := h1
                  simpa [udhiNext, udhiOf, hname] using hinv
              · have hah : esmAhead (f :: fs) = esmAhead fs := by simp [esmAhead, hname]
                rw [hah, udhiOf_cons_ne f fs v vs hname] at hinv
                simpa [udhiNext, hname] using hinv
            rw [ih vs (udhiNext u f v1) bs2 vs2 hty' hwf' htl' hnh' hesm' hinv' h2]
            have hnv : normVal v1 = v1 := by
              have hs := encField_snd rp U v v1 b h1
              subst hs
              cases v <;> simp [normVal, afterEnc]
              next t => cases hkk : f.kind <;> simp [hkk, FVal.hasKind] at hk htag
            simp [hnv]

end Smpp.Pdu
