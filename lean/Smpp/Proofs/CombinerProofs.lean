/-
The multipart combiner: no history can make it panic, and every delivery it makes is either
one non-concatenated PDU or one complete, unmixed message in sequence order.
-/
import Smpp.Model.Combiner

namespace Smpp.Combiner
open Smpp Smpp.Pdu

/-! ### ConcatenatedHeader -/

theorem idx_ok (site : String) (d : Bytes) (i : Nat) (h : i < d.length) : ∃ b, idx site d i = .ok b ∧ b.toNat < 256 := by
  unfold idx
  rw [List.getElem?_eq_getElem h]
  exact ⟨d[i], rfl, d[i].toNat_lt⟩

/-- the accessor never panics, and what it returns are octet-sized total and sequence numbers -/
theorem concatHeader_ok (udh : Option KMap) :
    ∃ r, concatHeader udh = .ok r ∧ ∀ h, r = some h → h.total < 256 ∧ h.seq < 256 := by
  unfold concatHeader
  cases udh with
  | none => exact ⟨none, rfl, by simp⟩
  | some m =>
    simp only
    cases h0 : (kmapFind m 0).filter (fun d => d.length ≥ 3) with
    | some d =>
      have hl : d.length ≥ 3 := by
        have := Option.eq_some_of_isSome (o := (kmapFind m 0).filter (fun d => d.length ≥ 3)) (by simp [h0])
        rw [Option.filter_eq_some_iff] at h0
        simpa using h0.2
      obtain ⟨a, ha, _⟩ := idx_ok "udh.go data[0]" d 0 (by omega)
      obtain ⟨b, hb, hb'⟩ := idx_ok "udh.go data[1]" d 1 (by omega)
      obtain ⟨c, hc, hc'⟩ := idx_ok "udh.go data[2]" d 2 (by omega)
      simp only [ha, hb, hc]
      exact ⟨_, rfl, by intro h hh; cases hh; exact ⟨hb', hc'⟩⟩
    | none =>
      simp only
      cases h8 : (kmapFind m 8).filter (fun d => d.length ≥ 4) with
      | some d =>
        have hl : d.length ≥ 4 := by
          rw [Option.filter_eq_some_iff] at h8
          simpa using h8.2
        obtain ⟨a, ha, _⟩ := idx_ok "udh.go data[0:2]" d 0 (by omega)
        obtain ⟨b, hb, _⟩ := idx_ok "udh.go data[0:2]" d 1 (by omega)
        obtain ⟨c, hc, hc'⟩ := idx_ok "udh.go data[2]" d 2 (by omega)
        obtain ⟨e, he, he'⟩ := idx_ok "udh.go data[3]" d 3 (by omega)
        simp only [ha, hb, hc, he]
        exact ⟨_, rfl, by intro h hh; cases hh; exact ⟨hc', he'⟩⟩
      | none => exact ⟨none, rfl, by simp⟩

/-! ### the combiner never panics -/

theorem step_ok (r : Registry) (p : Seg) : ∃ out, step r p = .ok out := by
  unfold step
  obtain ⟨o, ho, hb⟩ := concatHeader_ok p.udh
  rw [ho]
  cases o with
  | none => exact ⟨_, rfl⟩
  | some h =>
    simp only
    obtain ⟨ht, hs⟩ := hb h rfl
    by_cases hg : (h.seq = 0 || h.seq > h.total) = true
    · simp only [hg, ↓reduceIte]; exact ⟨_, rfl⟩
    · simp only [hg, Bool.false_eq_true, ↓reduceIte]
      simp only [Bool.or_eq_true, decide_eq_true_eq, not_or, Nat.not_lt] at hg
      by_cases hl : ((regFind r ⟨p.src, p.dst, h.reference⟩).getD (List.replicate h.total none)).length ≠ h.total
      · simp only [hl, ne_eq, not_false_eq_true, ↓reduceIte]; exact ⟨_, rfl⟩
      · simp only [hl, ↓reduceIte]
        have hl' : ((regFind r ⟨p.src, p.dst, h.reference⟩).getD (List.replicate h.total none)).length = h.total := by
          simpa using hl
        unfold setSlot
        have hi : (h.seq + 255) % 256 < ((regFind r ⟨p.src, p.dst, h.reference⟩).getD (List.replicate h.total none)).length := by
          rw [hl']; omega
        simp only [hi, ↓reduceIte]
        split <;> exact ⟨_, rfl⟩

theorem run_ok (ps : List Seg) : ∀ r, ∃ out, run r ps = .ok out := by
  induction ps with
  | nil => intro r; exact ⟨_, rfl⟩
  | cons p ps ih =>
    intro r
    obtain ⟨⟨r', d⟩, h1⟩ := step_ok r p
    obtain ⟨⟨r'', ds⟩, h2⟩ := ih r'
    exact ⟨(r'', d ++ ds), by simp [run, h1, h2]⟩

theorem addressString_ok (a : Addr) : ∃ s, addressString a = .ok s := by
  unfold addressString
  by_cases h : (a.ton = 1 && a.npi = 1 && a.no.length > 0) = true
  · simp only [h, ↓reduceIte]
    have hl : 0 < a.no.length := by
      simp only [Bool.and_eq_true, decide_eq_true_eq] at h; exact h.2
    obtain ⟨c, hc, _⟩ := idx_ok "address.go p.No[0]" a.no 0 hl
    rw [hc]
    simp only
    split <;> exact ⟨_, rfl⟩
  · simp only [h, Bool.false_eq_true, ↓reduceIte]
    exact ⟨_, rfl⟩

theorem messageStateString_ok (names : List String) (m : Nat) : ∃ s, messageStateString names m = .ok s := by
  unfold messageStateString
  by_cases h : m ≥ names.length
  · simp [h]
  · simp only [h, ↓reduceIte]
    rw [List.getElem?_eq_getElem (by omega)]
    exact ⟨_, rfl⟩

end Smpp.Combiner

namespace Smpp.Combiner
open Smpp Smpp.Pdu

/-! ### deliveries are complete, unmixed and ordered -/

/-- segment `p` is part `i+1` of an `n`-part message with key `k` -/
def IsPart (k : Key) (n i : Nat) (p : Seg) : Prop :=
  ∃ h, concatHeader p.udh = .ok (some h) ∧ (⟨p.src, p.dst, h.reference⟩ : Key) = k ∧ h.total = n ∧ h.seq = i + 1

def GoodSlots (k : Key) (slots : List (Option Seg)) : Prop :=
  ∀ i p, slots[i]? = some (some p) → IsPart k slots.length i p

def Inv (r : Registry) : Prop := ∀ e ∈ r, GoodSlots e.1 e.2

/-- what the callback may receive -/
def GoodDelivery (d : List Seg) : Prop :=
  (∃ p, d = [p] ∧ concatHeader p.udh = .ok none) ∨
  (∃ k, ∀ i p, d[i]? = some p → IsPart k d.length i p)

theorem goodSlots_replicate (k : Key) (n : Nat) : GoodSlots k (List.replicate n none) := by
  intro i p h
  rw [List.getElem?_replicate] at h
  split at h <;> simp at h

theorem goodSlots_set (k : Key) (slots : List (Option Seg)) (i : Nat) (p : Seg)
    (hg : GoodSlots k slots) (hp : IsPart k slots.length i p) : GoodSlots k (slots.set i (some p)) := by
  intro j q hq
  rw [List.length_set]
  rw [List.getElem?_set] at hq
  by_cases hij : i = j
  · subst hij
    simp only [↓reduceIte] at hq
    split at hq
    · simp only [Option.some.injEq] at hq; subst hq; exact hp
    · simp at hq
  · simp only [hij, ↓reduceIte] at hq
    exact hg j q hq

theorem inv_erase (r : Registry) (k : Key) (h : Inv r) : Inv (regErase r k) := by
  intro e he
  exact h e (List.mem_filter.mp he).1

theorem inv_set (r : Registry) (k : Key) (slots : List (Option Seg)) (h : Inv r) (hs : GoodSlots k slots) :
    Inv (regSet r k slots) := by
  intro e he
  unfold regSet at he
  simp only [List.mem_cons] at he
  rcases he with rfl | he
  · exact hs
  · exact inv_erase r k h e he

theorem regFind_good (r : Registry) (k : Key) (slots : List (Option Seg)) (h : Inv r)
    (hf : regFind r k = some slots) : GoodSlots k slots := by
  unfold regFind at hf
  simp only [Option.map_eq_some_iff] at hf
  obtain ⟨e, he, rfl⟩ := hf
  have hm := List.mem_of_find?_eq_some he
  have hk := List.find?_some he
  simp only [beq_iff_eq] at hk
  rw [← hk]
  exact h e hm

/-- all slots filled ⇒ `filterMap id` lists them in slot order -/
theorem filterMap_allSome : ∀ (l : List (Option Seg)), (l.filter Option.isSome).length = l.length →
    (l.filterMap id).length = l.length ∧
      ∀ (i : Nat) (p : Seg), (l.filterMap id)[i]? = some p → l[i]? = some (some p) := by
  intro l
  induction l with
  | nil => intro _; simp
  | cons a l ih =>
    intro h
    cases a with
    | none =>
      simp only [List.filter_cons, Option.isSome_none, Bool.false_eq_true, ↓reduceIte, List.length_cons] at h
      have := List.length_filter_le Option.isSome l
      omega
    | some q =>
      simp only [List.filter_cons, Option.isSome_some, ↓reduceIte, List.length_cons, Nat.add_right_cancel_iff] at h
      obtain ⟨h1, h2⟩ := ih h
      refine ⟨by simp [h1], ?_⟩
      intro i p hp
      cases i with
      | zero => simpa using hp
      | succ i => simpa using h2 i p (by simpa using hp)

theorem isDone_allSome (slots : List (Option Seg)) (total : Nat) (hl : slots.length = total) (ht : total < 256)
    (hd : isDone slots total = true) : (slots.filter Option.isSome).length = slots.length := by
  unfold isDone at hd
  simp only [beq_iff_eq] at hd
  have := List.length_filter_le Option.isSome slots
  omega

theorem step_good (r : Registry) (p : Seg) (r' : Registry) (ds : List (List Seg)) (hinv : Inv r)
    (hs : step r p = .ok (r', ds)) : Inv r' ∧ ∀ d ∈ ds, GoodDelivery d := by
  unfold step at hs
  obtain ⟨o, ho, hb⟩ := concatHeader_ok p.udh
  rw [ho] at hs
  cases o with
  | none =>
    simp only [P.ok.injEq, Prod.mk.injEq] at hs
    obtain ⟨rfl, rfl⟩ := hs
    refine ⟨hinv, ?_⟩
    intro d hd
    simp only [List.mem_cons, List.not_mem_nil, or_false] at hd
    subst hd
    exact Or.inl ⟨p, rfl, ho⟩
  | some h =>
    simp only at hs
    obtain ⟨ht, hsq⟩ := hb h rfl
    by_cases hg : (h.seq = 0 || h.seq > h.total) = true
    · simp only [hg, ↓reduceIte, P.ok.injEq, Prod.mk.injEq] at hs
      obtain ⟨rfl, rfl⟩ := hs
      exact ⟨hinv, by simp⟩
    · simp only [hg, Bool.false_eq_true, ↓reduceIte] at hs
      simp only [Bool.or_eq_true, decide_eq_true_eq, not_or, Nat.not_lt] at hg
      generalize hk : (⟨p.src, p.dst, h.reference⟩ : Key) = k at hs
      have hslots : GoodSlots k ((regFind r k).getD (List.replicate h.total none)) := by
        cases hf : regFind r k with
        | none => simpa using goodSlots_replicate k h.total
        | some sl => simpa using regFind_good r k sl hinv hf
      generalize (regFind r k).getD (List.replicate h.total none) = slots at hs hslots
      by_cases hl : slots.length ≠ h.total
      · simp only [hl, ne_eq, not_false_eq_true, ↓reduceIte, P.ok.injEq, Prod.mk.injEq] at hs
        obtain ⟨rfl, rfl⟩ := hs
        exact ⟨inv_set r k slots hinv hslots, by simp⟩
      · have hl' : slots.length = h.total := by simpa using hl
        simp only [hl, ↓reduceIte] at hs
        unfold setSlot at hs
        have hi : (h.seq + 255) % 256 < slots.length := by rw [hl']; omega
        simp only [hi, ↓reduceIte] at hs
        have hpart : IsPart k slots.length ((h.seq + 255) % 256) p :=
          ⟨h, ho, hk, hl'.symm, by omega⟩
        have hset := goodSlots_set k slots ((h.seq + 255) % 256) p hslots hpart
        by_cases hdone : isDone (slots.set ((h.seq + 255) % 256) (some p)) h.total = true
        · simp only [hdone, ↓reduceIte, P.ok.injEq, Prod.mk.injEq] at hs
          obtain ⟨rfl, rfl⟩ := hs
          refine ⟨inv_erase r k hinv, ?_⟩
          intro d hd
          simp only [List.mem_cons, List.not_mem_nil, or_false] at hd
          subst hd
          right
          have hall := isDone_allSome _ h.total (by rw [List.length_set]; exact hl') ht hdone
          obtain ⟨hlen, hget⟩ := filterMap_allSome _ hall
          refine ⟨k, ?_⟩
          intro i q hq
          rw [hlen]
          exact hset i q (hget i q hq)
        · simp only [hdone, Bool.false_eq_true, ↓reduceIte, P.ok.injEq, Prod.mk.injEq] at hs
          obtain ⟨rfl, rfl⟩ := hs
          exact ⟨inv_set r k _ hinv hset, by simp⟩

/-- **every history**: all deliveries are well formed -/
theorem run_good (ps : List Seg) : ∀ (r r' : Registry) (ds : List (List Seg)), Inv r →
    run r ps = .ok (r', ds) → Inv r' ∧ ∀ d ∈ ds, GoodDelivery d := by
  induction ps with
  | nil =>
    intro r r' ds hinv h
    simp only [run, P.ok.injEq, Prod.mk.injEq] at h
    obtain ⟨rfl, rfl⟩ := h
    exact ⟨hinv, by simp⟩
  | cons p ps ih =>
    intro r r' ds hinv h
    obtain ⟨⟨r1, d1⟩, h1⟩ := step_ok r p
    obtain ⟨⟨r2, d2⟩, h2⟩ := run_ok ps r1
    simp only [run, h1, h2, P.ok.injEq, Prod.mk.injEq] at h
    obtain ⟨rfl, rfl⟩ := h
    obtain ⟨hi1, hg1⟩ := step_good r p r1 d1 hinv h1
    obtain ⟨hi2, hg2⟩ := ih r1 r2 d2 hi1 h2
    refine ⟨hi2, ?_⟩
    intro d hd
    rcases List.mem_append.mp hd with hd | hd
    · exact hg1 d hd
    · exact hg2 d hd

end Smpp.Combiner
