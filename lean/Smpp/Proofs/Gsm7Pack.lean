/-
The GSM 7-bit packer: the octets are the little-endian bit stream of the septets
(plus the CR filler exactly when seven bits would be spare), and unpacking returns
the septets (plus that filler).
-/
import Smpp.Proofs.Bits
import Smpp.Proofs.Bytes

namespace Smpp.Gsm7
open Smpp

/-- the septets that are actually packed: the text's septets plus the CR filler when n % 8 = 7 -/
def withFiller (s : List Nat) : List Nat := if s.length % 8 = 7 then s ++ [cr] else s

/-- the packed bit stream: septets LSB first, zero bits up to the octet boundary -/
def stream (s : List Nat) : List Bool :=
  let bits := (withFiller s).flatMap (bitsLE 7)
  bits ++ List.replicate ((8 - bits.length % 8) % 8) false

theorem flatMap_bits_length (S : List Nat) (w : Nat) : (S.flatMap (bitsLE w)).length = w * S.length := by
  induction S with
  | nil => simp
  | cons x S ih => simp [ih]; rw [Nat.mul_add]; omega

theorem pack_eq (s : List Nat) : pack s = (chunks 7 (stream s)).map (fun c => UInt8.ofNat (ofBitsLE c)) := by
  unfold pack stream withFiller
  by_cases h : s.length % 8 = 7
  · simp [h]
  · simp [h]

theorem stream_length_mod (s : List Nat) : (stream s).length % 8 = 0 := by
  unfold stream
  simp only [List.length_append, List.length_replicate]
  omega

/-- **octets ↔ bit stream**: reading the octets LSB first gives back the stream -/
theorem pack_stream (s : List Nat) : (pack s).flatMap (fun o => bitsLE 8 o.toNat) = stream s := by
  rw [pack_eq, List.flatMap_map]
  have hall := chunks_lengths 7 (stream s)
  have : ∀ c ∈ chunks 7 (stream s), bitsLE 8 (UInt8.ofNat (ofBitsLE c)).toNat = c := by
    intro c hc
    have hl : c.length = 8 := hall c hc
    have hlt : ofBitsLE c < 256 := by have := ofBitsLE_lt c; rw [hl] at this; exact this
    rw [u8_ofNat_toNat (by omega)]
    have := bitsLE_ofBitsLE c
    rw [hl] at this
    exact this
  have hmap : (chunks 7 (stream s)).map (fun a => bitsLE 8 (UInt8.ofNat (ofBitsLE a)).toNat)
      = (chunks 7 (stream s)).map id := List.map_congr_left this
  rw [List.flatMap_def, hmap, List.map_id]
  exact flatten_chunks 7 (stream s) (stream_length_mod s)

/-- **length**: ⌈7n/8⌉ octets, n the number of septets (the filler needs no extra octet) -/
theorem pack_length (s : List Nat) : (pack s).length = (7 * s.length + 7) / 8 := by
  rw [pack_eq, List.length_map, chunks_count]
  unfold stream withFiller
  simp only [List.length_append, List.length_replicate, flatMap_bits_length]
  by_cases h : s.length % 8 = 7
  · simp only [h, ↓reduceIte, List.length_append, List.length_cons, List.length_nil]; omega
  · simp only [h, ↓reduceIte]; omega

/-- **unpack ∘ pack**: the septets come back, followed by the filler septet when there is one -/
theorem unpack_pack (s : List Nat) (hs : ∀ x ∈ s, x < 128) : unpack (pack s) = withFiller s := by
  unfold unpack
  rw [pack_stream]
  unfold stream
  simp only
  have hS : ∀ x ∈ withFiller s, x < 128 := by
    intro x hx
    unfold withFiller at hx
    split at hx
    · simp only [List.mem_append, List.mem_cons, List.not_mem_nil, or_false] at hx
      rcases hx with hx | rfl
      · exact hs x hx
      · decide
    · exact hs x hx
  have hmod : (withFiller s).length % 8 ≠ 7 := by
    unfold withFiller
    split
    · simp only [List.length_append, List.length_cons, List.length_nil]; omega
    · assumption
  have hflat : (withFiller s).flatMap (bitsLE 7) = ((withFiller s).map (bitsLE 7)).flatten := by
    rw [List.flatMap_def]
  rw [hflat, chunks_flatten 6 ((withFiller s).map (bitsLE 7)) _ (by simp)
    (by
      simp only [List.length_replicate, ← hflat, flatMap_bits_length]
      omega)]
  rw [List.map_map]
  have : ∀ x ∈ withFiller s, (ofBitsLE ∘ bitsLE 7) x = x := by
    intro x hx
    simp only [Function.comp, ofBitsLE_bitsLE]
    have := hS x hx
    omega
  rw [List.map_congr_left this]
  simp

/-- **bit positions**: bit j of septet i sits at bit offset 7i + j of the stream -/
theorem stream_bit (S : List Nat) (tail : List Bool) (i j : Nat) (hi : i < S.length) (hj : j < 7) :
    (S.flatMap (bitsLE 7) ++ tail)[7 * i + j]? = some ((S[i]! / 2 ^ j) % 2 == 1) := by
  induction S generalizing i with
  | nil => simp at hi
  | cons x S ih =>
    cases i with
    | zero =>
      simp only [List.flatMap_cons, Nat.mul_zero, Nat.zero_add, List.append_assoc]
      rw [List.getElem?_append_left (by simp; omega)]
      -- a bit of one septet
      have hb : ∀ (w x j : Nat), j < w → (bitsLE w x)[j]? = some ((x / 2 ^ j) % 2 == 1) := by
        intro w
        induction w with
        | zero => intro x j hj; omega
        | succ w ihw =>
          intro x j hj
          cases j with
          | zero => simp [bitsLE]
          | succ j =>
            simp only [bitsLE, List.getElem?_cons_succ]
            rw [ihw (x / 2) j (by omega), Nat.div_div_eq_div_mul, Nat.pow_succ, Nat.mul_comm]
      simpa using hb 7 x j hj
    | succ i =>
      simp only [List.flatMap_cons, List.append_assoc]
      have : 7 * (i + 1) + j = (bitsLE 7 x).length + (7 * i + j) := by simp; omega
      rw [this, List.getElem?_append_right (by omega)]
      simp only [Nat.add_sub_cancel_left]
      rw [ih i (by simpa using hi)]
      simp

end Smpp.Gsm7
