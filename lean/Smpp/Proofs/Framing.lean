/-
ReadPDU over a chunked stream depends only on the concatenation of the chunks
(the fragmentation quantifier of C03/C04/C16), and consumes exactly
command_length octets whenever the header is acceptable.
-/
import Smpp.Model.Pdu
import Smpp.Proofs.Bytes

namespace Smpp.Pdu
open Smpp

/-- ReadPDU as a function of the octet sequence alone: (result, octets consumed, octets left). -/
def readPDUFlat (layouts : List Layout) (bs : Bytes) : ReadOut × Nat × Bytes :=
  let h := bs.take 16
  if h.length = 0 then (.errNil .eof, 0, bs.drop 16)
  else if h.length < 16 then (.errNil .ueof, h.length, bs.drop 16)
  else
    match decHeader h with
    | none => (.errNil .ueof, h.length, bs.drop 16)
    | some (hdr, _) =>
      let len := hdr.len.toNat
      if len < 16 || len > 0x10000 then (.errNil (.status 2), 16, bs.drop 16)
      else
        let body := (bs.drop 16).take (len - 16)
        let rest := (bs.drop 16).drop (len - 16)
        if body.length < len - 16 then (.errNil (.status 2), 16 + body.length, rest)
        else
          match lookupLayout layouts hdr.id.toNat with
          | none => (.errNil (.status 3), len, rest)
          | some L =>
            match unmarshal L (h ++ body) with
            | some v => (.ok L.name v, len, rest)
            | none => (.errPdu .unmarshalFailed L.name hdr.seq, len, rest)

/-- **Fragmentation independence.**  However the stream hands out its octets, ReadPDU's
result, the number of octets it takes and the octets it leaves are those of the flat sequence. -/
theorem readPDU_eq_flat (layouts : List Layout) (s : Stream) :
    ((readPDU layouts s).out, (readPDU layouts s).consumed, (readPDU layouts s).rest.flatten)
      = readPDUFlat layouts s.flatten := by
  unfold readPDU readPDUFlat
  simp only [readFull_fst, readFull_snd]
  generalize s.flatten.take 16 = A
  by_cases h0 : A.length = 0
  · simp only [h0, ↓reduceIte, readFull_snd]
  · by_cases h1 : A.length < 16
    · simp only [h0, h1, ↓reduceIte, readFull_snd]
    · simp only [h0, h1, ↓reduceIte]
      cases hd : decHeader A with
      | none => simp only [readFull_snd]
      | some p =>
        obtain ⟨hdr, x⟩ := p
        simp only
        by_cases hl : (decide (hdr.len.toNat < 16) || decide (hdr.len.toNat > 0x10000)) = true
        · simp only [hl, ↓reduceIte, readFull_snd]
        · simp only [hl, Bool.false_eq_true, ↓reduceIte]
          generalize (s.flatten.drop 16).take (hdr.len.toNat - 16) = B
          by_cases hb : B.length < hdr.len.toNat - 16
          · simp only [hb, ↓reduceIte, readFull_snd]
          · simp only [hb, ↓reduceIte]
            cases hk : lookupLayout layouts hdr.id.toNat with
            | none => simp only [readFull_snd]
            | some L =>
              simp only
              cases hu : unmarshal L (A ++ B) with
              | none => simp only [readFull_snd]
              | some v => simp only [readFull_snd]

theorem readPDU_chunk_indep (layouts : List Layout) (s s' : Stream) (h : s.flatten = s'.flatten) :
    (readPDU layouts s).out = (readPDU layouts s').out ∧
    (readPDU layouts s).consumed = (readPDU layouts s').consumed ∧
    (readPDU layouts s).rest.flatten = (readPDU layouts s').rest.flatten := by
  have h1 := readPDU_eq_flat layouts s
  have h2 := readPDU_eq_flat layouts s'
  rw [h] at h1
  have := h1.trans h2.symm
  simp only [Prod.mk.injEq] at this
  exact this

/-- Repeated reads (what Watch does) are fragmentation independent too. -/
theorem readAll_chunk_indep (layouts : List Layout) (fuel : Nat) :
    ∀ (s s' : Stream), s.flatten = s'.flatten → readAll layouts fuel s = readAll layouts fuel s' := by
  induction fuel with
  | zero => intro s s' _; rfl
  | succ n ih =>
    intro s s' h
    obtain ⟨ho, _, hr⟩ := readPDU_chunk_indep layouts s s' h
    simp only [readAll]
    rw [ho]
    split
    · next n' v heq => rw [ih _ _ hr]
    · rfl

/-- Octets consumed never exceed 65536 (and never exceed what the stream holds). -/
theorem readPDUFlat_consumed_le (layouts : List Layout) (bs : Bytes) :
    (readPDUFlat layouts bs).2.1 ≤ 65536 ∧ (readPDUFlat layouts bs).2.1 ≤ bs.length := by
  unfold readPDUFlat
  simp only
  have hA : (bs.take 16).length = min 16 bs.length := List.length_take
  by_cases h0 : (bs.take 16).length = 0
  · simp only [h0, ↓reduceIte]; omega
  · by_cases h1 : (bs.take 16).length < 16
    · simp only [h0, h1, ↓reduceIte]; omega
    · simp only [h0, h1, ↓reduceIte]
      cases hd : decHeader (bs.take 16) with
      | none => dsimp only; omega
      | some p =>
        obtain ⟨hdr, x⟩ := p
        dsimp only
        by_cases hl : (decide (hdr.len.toNat < 16) || decide (hdr.len.toNat > 0x10000)) = true
        · simp only [hl, ↓reduceIte]; omega
        · simp only [hl, Bool.false_eq_true, ↓reduceIte]
          simp only [Bool.or_eq_true, decide_eq_true_eq, not_or, Nat.not_lt] at hl
          have hB : ((bs.drop 16).take (hdr.len.toNat - 16)).length
              = min (hdr.len.toNat - 16) (bs.length - 16) := by simp [List.length_take, List.length_drop]
          by_cases hb : ((bs.drop 16).take (hdr.len.toNat - 16)).length < hdr.len.toNat - 16
          · simp only [hb, ↓reduceIte]; omega
          · simp only [hb, ↓reduceIte]
            cases hk : lookupLayout layouts hdr.id.toNat with
            | none => dsimp only; omega
            | some L =>
              dsimp only
              cases hu : unmarshal L (bs.take 16 ++ (bs.drop 16).take (hdr.len.toNat - 16)) with
              | none => dsimp only; omega
              | some v => dsimp only; omega

end Smpp.Pdu

namespace Smpp.Pdu
open Smpp

theorem encHeader_length' (h : Header) : (encHeader h).length = 16 := rfl

theorem decHeader_encHeader (h : Header) (r : Bytes) : decHeader (encHeader h ++ r) = some (h, r) := by
  obtain ⟨a, b, c, d⟩ := h
  simp only [encHeader, be32, List.cons_append, List.nil_append, decHeader, rd32_be32]

/-- ReadPDU on a stream that starts with one well-framed PDU: exactly that frame is taken and
handed to `unmarshal`; whatever follows is left untouched — whether or not the body decodes. -/
theorem readPDUFlat_frame (layouts : List Layout) (hdr : Header) (body tail : Bytes) (L : Layout)
    (hlen : hdr.len.toNat = 16 + body.length) (hle : 16 + body.length ≤ 65536)
    (hreg : lookupLayout layouts hdr.id.toNat = some L) :
    readPDUFlat layouts (encHeader hdr ++ body ++ tail) =
      ((match unmarshal L (encHeader hdr ++ body) with
        | some v => ReadOut.ok L.name v
        | none => ReadOut.errPdu .unmarshalFailed L.name hdr.seq), 16 + body.length, tail) := by
  have ht : (encHeader hdr ++ body ++ tail).take 16 = encHeader hdr := by
    rw [List.append_assoc, List.take_left' (encHeader_length' hdr)]
  have hd : (encHeader hdr ++ body ++ tail).drop 16 = body ++ tail := by
    rw [List.append_assoc, List.drop_left' (encHeader_length' hdr)]
  unfold readPDUFlat
  simp only [ht, hd]
  have h0 : ¬ ((encHeader hdr).length = 0) := by rw [encHeader_length']; omega
  have h1 : ¬ ((encHeader hdr).length < 16) := by rw [encHeader_length']; omega
  have hdh := decHeader_encHeader hdr []
  simp only [List.append_nil] at hdh
  have hrange : (decide (hdr.len.toNat < 16) || decide (hdr.len.toNat > 0x10000)) = false := by
    rw [hlen]
    have hc1 : ¬ (16 + body.length < 16) := by omega
    have hc2 : ¬ (16 + body.length > 0x10000) := by omega
    simp only [hc1, hc2, decide_false, Bool.or_self]
  have hsub : hdr.len.toNat - 16 = body.length := by omega
  have hb : ¬ (((body ++ tail).take (hdr.len.toNat - 16)).length < hdr.len.toNat - 16) := by
    rw [hsub, List.take_left' rfl]; omega
  simp only [h0, h1, ↓reduceIte, hdh, hrange, Bool.false_eq_true, hb, hreg]
  rw [hsub, List.take_left' rfl, List.drop_left' rfl, hlen]
  cases unmarshal L (encHeader hdr ++ body) <;> rfl

/-- A header announcing a bad length is rejected after exactly 16 octets, before any allocation. -/
theorem readPDU_bad_length (layouts : List Layout) (s : Stream) (hdr : Header) (r : Bytes)
    (hs : s.flatten = encHeader hdr ++ r) (hbad : hdr.len.toNat < 16 ∨ hdr.len.toNat > 65536) :
    (readPDU layouts s).out = .errNil (.status 2) ∧ (readPDU layouts s).consumed = 16 ∧
      (readPDU layouts s).allocs = [] := by
  unfold readPDU
  simp only [readFull_fst, hs]
  have ht : (encHeader hdr ++ r).take 16 = encHeader hdr := List.take_left' (encHeader_length' hdr)
  rw [ht]
  have h0 : ¬ ((encHeader hdr).length = 0) := by rw [encHeader_length']; omega
  have h1 : ¬ ((encHeader hdr).length < 16) := by rw [encHeader_length']; omega
  have hdh := decHeader_encHeader hdr []
  simp only [List.append_nil] at hdh
  have hrange : (decide (hdr.len.toNat < 16) || decide (hdr.len.toNat > 0x10000)) = true := by
    rcases hbad with h | h
    · simp only [h, decide_true, Bool.true_or]
    · have : hdr.len.toNat > 0x10000 := h
      simp only [this, decide_true, Bool.or_true]
  simp only [h0, h1, ↓reduceIte, hdh, hrange, and_self]

/-- The allocation log: at most one wire-driven allocation per call, never above 65520 octets. -/
theorem readPDU_allocs (layouts : List Layout) (s : Stream) :
    (readPDU layouts s).allocs.length ≤ 1 ∧ ∀ n ∈ (readPDU layouts s).allocs, n ≤ 65520 := by
  unfold readPDU
  simp only
  split
  · simp
  · split
    · simp
    · split
      · simp
      · rename_i hdr _ _
        by_cases hl : (decide (hdr.len.toNat < 16) || decide (hdr.len.toNat > 0x10000)) = true
        · simp only [hl, ↓reduceIte]; simp
        · simp only [hl, Bool.false_eq_true, ↓reduceIte]
          have hle : hdr.len.toNat - 16 ≤ 65520 := by
            simp only [Bool.or_eq_true, decide_eq_true_eq, not_or, Nat.not_lt] at hl
            omega
          split
          · simp [hle]
          · split
            · simp [hle]
            · split <;> simp [hle]

end Smpp.Pdu

namespace Smpp.Pdu
open Smpp

theorem readPDUFlat_frame_unknown (layouts : List Layout) (hdr : Header) (body tail : Bytes)
    (hlen : hdr.len.toNat = 16 + body.length) (hle : 16 + body.length ≤ 65536)
    (hreg : lookupLayout layouts hdr.id.toNat = none) :
    readPDUFlat layouts (encHeader hdr ++ body ++ tail) = (.errNil (.status 3), 16 + body.length, tail) := by
  have ht : (encHeader hdr ++ body ++ tail).take 16 = encHeader hdr := by
    rw [List.append_assoc, List.take_left' (encHeader_length' hdr)]
  have hd : (encHeader hdr ++ body ++ tail).drop 16 = body ++ tail := by
    rw [List.append_assoc, List.drop_left' (encHeader_length' hdr)]
  unfold readPDUFlat
  simp only [ht, hd]
  have h0 : ¬ ((encHeader hdr).length = 0) := by rw [encHeader_length']; omega
  have h1 : ¬ ((encHeader hdr).length < 16) := by rw [encHeader_length']; omega
  have hdh := decHeader_encHeader hdr []
  simp only [List.append_nil] at hdh
  have hrange : (decide (hdr.len.toNat < 16) || decide (hdr.len.toNat > 0x10000)) = false := by
    rw [hlen]
    have hc1 : ¬ (16 + body.length < 16) := by omega
    have hc2 : ¬ (16 + body.length > 0x10000) := by omega
    simp only [hc1, hc2, decide_false, Bool.or_self]
  have hsub : hdr.len.toNat - 16 = body.length := by omega
  have hb : ¬ (((body ++ tail).take (hdr.len.toNat - 16)).length < hdr.len.toNat - 16) := by
    rw [hsub, List.take_left' rfl]; omega
  simp only [h0, h1, ↓reduceIte, hdh, hrange, Bool.false_eq_true, hb, hreg]
  rw [hsub, List.drop_left' rfl, hlen]

theorem readPDUFlat_nil (layouts : List Layout) : readPDUFlat layouts [] = (.errNil .eof, 0, []) := by
  simp [readPDUFlat]

/-- A stream that ends strictly inside a PDU yields an error (never a PDU, never a clean EOF). -/
theorem readPDUFlat_truncated (layouts : List Layout) (hdr : Header) (body : Bytes) (k : Nat)
    (hlen : hdr.len.toNat = 16 + body.length) (hk0 : 0 < k) (hk : k < 16 + body.length) :
    (readPDUFlat layouts ((encHeader hdr ++ body).take k)).1 = .errNil .ueof ∨
    (readPDUFlat layouts ((encHeader hdr ++ body).take k)).1 = .errNil (.status 2) := by
  have hfull : (encHeader hdr ++ body).length = 16 + body.length := by simp [encHeader_length']
  by_cases hk16 : k < 16
  · left
    unfold readPDUFlat
    have hl : (((encHeader hdr ++ body).take k).take 16).length = k := by
      simp only [List.length_take, hfull]; omega
    have h0 : ¬ (k = 0) := by omega
    simp only [hl, h0, ↓reduceIte, hk16]
  · right
    have hsplit : (encHeader hdr ++ body).take k = encHeader hdr ++ body.take (k - 16) := by
      rw [List.take_append, encHeader_length']
      rw [List.take_of_length_le (by rw [encHeader_length']; omega)]
    rw [hsplit]
    unfold readPDUFlat
    have ht : (encHeader hdr ++ body.take (k - 16)).take 16 = encHeader hdr := List.take_left' (encHeader_length' hdr)
    have hd : (encHeader hdr ++ body.take (k - 16)).drop 16 = body.take (k - 16) := List.drop_left' (encHeader_length' hdr)
    simp only [ht, hd]
    have h0 : ¬ ((encHeader hdr).length = 0) := by rw [encHeader_length']; omega
    have h1 : ¬ ((encHeader hdr).length < 16) := by rw [encHeader_length']; omega
    have hdh := decHeader_encHeader hdr []
    simp only [List.append_nil] at hdh
    by_cases hrange : (decide (hdr.len.toNat < 16) || decide (hdr.len.toNat > 0x10000)) = true
    · simp only [h0, h1, ↓reduceIte, hdh, hrange]
    · have hb : ((body.take (k - 16)).take (hdr.len.toNat - 16)).length < hdr.len.toNat - 16 := by
        simp only [List.length_take]; omega
      simp only [h0, h1, ↓reduceIte, hdh, hrange, Bool.false_eq_true, hb]

structure Frame where
  hdr : Header
  body : Bytes

def Frame.bytes (f : Frame) : Bytes := encHeader f.hdr ++ f.body

/-- intact framing: command_length states the frame size, 16..65536 -/
def Frame.framed (f : Frame) : Prop := f.hdr.len.toNat = 16 + f.body.length ∧ 16 + f.body.length ≤ 65536

/-- what ReadPDU returns for this frame on its own -/
def Frame.result (layouts : List Layout) (f : Frame) : ReadOut :=
  match lookupLayout layouts f.hdr.id.toNat with
  | none => .errNil (.status 3)
  | some L =>
    match unmarshal L f.bytes with
    | some v => .ok L.name v
    | none => .errPdu .unmarshalFailed L.name f.hdr.seq

theorem readPDUFlat_framed (layouts : List Layout) (f : Frame) (tail : Bytes) (hf : f.framed) :
    readPDUFlat layouts (f.bytes ++ tail) = (f.result layouts, f.bytes.length, tail) := by
  have hbl : f.bytes.length = 16 + f.body.length := by simp [Frame.bytes, encHeader_length']
  unfold Frame.result
  cases hreg : lookupLayout layouts f.hdr.id.toNat with
  | none => rw [hbl]; exact readPDUFlat_frame_unknown layouts f.hdr f.body tail hf.1 hf.2 hreg
  | some L => rw [hbl]; exact readPDUFlat_frame layouts f.hdr f.body tail L hf.1 hf.2 hreg

/-- **Re-framing.**  Any sequence of well-framed PDUs that decode, written back to back and
handed out in ANY fragmentation, is returned PDU by PDU and then io.EOF. -/
theorem readAll_frames (layouts : List Layout) : ∀ (fs : List Frame) (s : Stream),
    (∀ f ∈ fs, f.framed ∧ ∃ n v, f.result layouts = .ok n v) →
    s.flatten = (fs.map Frame.bytes).flatten →
    readAll layouts (fs.length + 1) s = fs.map (Frame.result layouts) ++ [.errNil .eof] := by
  intro fs
  induction fs with
  | nil =>
    intro s _ hs
    have hflat := readPDU_eq_flat layouts s
    simp only [List.map_nil, List.flatten_nil] at hs
    rw [hs, readPDUFlat_nil] at hflat
    simp only [Prod.mk.injEq] at hflat
    simp [readAll, hflat.1]
  | cons f fs ih =>
    intro s hall hs
    obtain ⟨hfr, n, v, hres⟩ := hall f (by simp)
    have hflat := readPDU_eq_flat layouts s
    simp only [List.map_cons, List.flatten_cons] at hs
    rw [hs, readPDUFlat_framed layouts f _ hfr] at hflat
    simp only [Prod.mk.injEq] at hflat
    obtain ⟨ho, _, hr⟩ := hflat
    have hrec := ih (readPDU layouts s).rest (fun g hg => hall g (by simp [hg])) hr
    simp only [List.length_cons, readAll]
    rw [ho, hres]
    simp only [List.map_cons, List.cons_append, hres]
    rw [← hrec]
    simp only [readAll]

end Smpp.Pdu
