/-
C13 stability at full strength: a frame the decoder accepted, re-encoded, decodes to the same
value (empty TLVs dropped, header length restated) and that value encodes to the same octets.
-/
import Smpp.Proofs.DecodedWF

namespace Smpp.Pdu
open Smpp

/-! ### what the encoder's own success adds to what the decoder guarantees -/

theorem tagsLen_of_enc : ∀ (t : KMap) (b : Bytes), encTagsSorted t = .ok b → ∀ kv ∈ t, kv.2.length < 65535 := by
  intro t
  induction t with
  | nil => intro b _ kv hkv; simp at hkv
  | cons a t ih =>
    intro b h kv hkv
    obtain ⟨k, v⟩ := a
    simp only [encTagsSorted] at h
    simp only [List.mem_cons] at hkv
    split at h
    · next h0 =>
      rcases hkv with rfl | hkv
      · simp only; omega
      · exact ih b h kv hkv
    · split at h
      · next hne hlt =>
        cases hr : encTagsSorted t with
        | error e => simp [hr] at h
        | ok bb =>
          rcases hkv with rfl | hkv
          · simp only; omega
          · exact ih bb hr kv hkv
      · simp at h

theorem encTagsSorted_dropEmpty (t : KMap) : encTagsSorted (dropEmpty t) = encTagsSorted t := by
  induction t with
  | nil => rfl
  | cons a t ih =>
    obtain ⟨k, v⟩ := a
    unfold dropEmpty at ih ⊢
    by_cases h0 : v.length = 0
    · simp only [List.filter_cons, h0, bne_self_eq_false, Bool.false_eq_true, ↓reduceIte, encTagsSorted]
      exact ih
    · have : (v.length != 0) = true := by simpa using h0
      simp only [List.filter_cons, this, ↓reduceIte, encTagsSorted, h0, ih]

theorem dropEmpty_idem (t : KMap) : dropEmpty (dropEmpty t) = dropEmpty t := by
  unfold dropEmpty; simp [List.filter_filter]

theorem normVal_idem (v : FVal) : normVal (normVal v) = normVal v := by
  cases v <;> simp [normVal, dropEmpty_idem]

theorem normVal_zero (k : Kind) : normVal (zeroVal k) = zeroVal k := by
  cases k <;> simp [normVal, zeroVal, dropEmpty]

theorem hasKind_zero (k : Kind) : (zeroVal k).hasKind k = true := by
  cases k <;> simp [zeroVal, FVal.hasKind]

theorem typed_zero (fs : List Field) : Typed fs (fs.map fun g => zeroVal g.kind) = true := by
  induction fs with
  | nil => simp [Typed]
  | cons f fs ih => simp [Typed, hasKind_zero, ih]

theorem encFields_each (rp U : Bool) : ∀ (vs : List FVal) (bs : Bytes) (vs' : List FVal),
    encFields rp U vs = .ok (bs, vs') → ∀ x ∈ vs, ∃ p, encField rp U x = .ok p := by
  intro vs
  induction vs with
  | nil => intro _ _ _ x hx; simp at hx
  | cons v vs ih =>
    intro bs vs' h x hx
    simp only [encFields] at h
    cases h1 : encField rp U v with
    | error e => simp [h1] at h
    | ok p1 =>
      obtain ⟨b1, v1⟩ := p1
      simp only [h1] at h
      cases h2 : encFields rp U vs with
      | error e => simp [h2] at h
      | ok p2 =>
        obtain ⟨b2, vs2⟩ := p2
        simp only [List.mem_cons] at hx
        rcases hx with rfl | hx
        · exact ⟨_, h1⟩
        · exact ih b2 vs2 h2 x hx

theorem FValWF_of_pre (rp U : Bool) (v : FVal) (p : Bytes × FVal) (hp : FValPre rp U v)
    (he : encField rp U v = .ok p) : FValWF rp U v := by
  cases v with
  | tags t =>
    obtain ⟨a, ha, _⟩ := except_map_ok _ _ _ he
    exact ⟨hp.1, fun kv hkv => ⟨hp.2 kv hkv, tagsLen_of_enc t a ha kv hkv⟩⟩
  | sm m =>
    simp only [FValPre] at hp
    simp only [FValWF, hp.2]
    exact hp.1
  | _ => exact hp

theorem afterEnc_of_pre (rp U : Bool) (v : FVal) (hp : FValPre rp U v) : afterEnc rp U v = v := by
  cases v <;> simp [afterEnc]
  next m => exact hp.2

theorem encFields_after_id (rp U : Bool) : ∀ (vs : List FVal) (bs : Bytes) (vs' : List FVal),
    (∀ x ∈ vs, FValPre rp U x) → encFields rp U vs = .ok (bs, vs') → vs' = vs := by
  intro vs
  induction vs with
  | nil => intro bs vs' _ h; simp [encFields] at h; exact h.2
  | cons v vs ih =>
    intro bs vs' hp h
    simp only [encFields] at h
    cases h1 : encField rp U v with
    | error e => simp [h1] at h
    | ok p1 =>
      obtain ⟨b1, v1⟩ := p1
      simp only [h1] at h
      cases h2 : encFields rp U vs with
      | error e => simp [h2] at h
      | ok p2 =>
        obtain ⟨b2, vs2⟩ := p2
        simp only [h2, Except.ok.injEq, Prod.mk.injEq] at h
        obtain ⟨_, rfl⟩ := h
        rw [encField_snd rp U v v1 b1 h1, afterEnc_of_pre rp U v (hp v (by simp)),
          ih b2 vs2 (fun x hx => hp x (by simp [hx])) h2]

/-! ### dropping empty TLVs changes neither the octets nor the UDH indicator -/

theorem encField_norm (rp U : Bool) (v v' : FVal) (b : Bytes) (he : encField rp U v = .ok (b, v')) :
    encField rp U (normVal v) = .ok (b, normVal v') := by
  cases v with
  | tags t =>
    obtain ⟨a, ha, h⟩ := except_map_ok _ _ _ he
    simp only [Prod.mk.injEq] at h
    obtain ⟨rfl, rfl⟩ := h
    simp [normVal, encField, encTagsSorted_dropEmpty, ha, Except.map]
  | _ =>
    have := encField_snd rp U _ v' b he
    subst this
    simpa [normVal, afterEnc] using he

theorem encFields_norm (rp U : Bool) : ∀ (vs : List FVal) (bs : Bytes) (vs' : List FVal),
    encFields rp U vs = .ok (bs, vs') → encFields rp U (vs.map normVal) = .ok (bs, vs'.map normVal) := by
  intro vs
  induction vs with
  | nil => intro bs vs' h; simp [encFields] at h; obtain ⟨rfl, rfl⟩ := h; simp [encFields]
  | cons v vs ih =>
    intro bs vs' h
    simp only [encFields] at h
    cases h1 : encField rp U v with
    | error e => simp [h1] at h
    | ok p1 =>
      obtain ⟨b1, v1⟩ := p1
      simp only [h1] at h
      cases h2 : encFields rp U vs with
      | error e => simp [h2] at h
      | ok p2 =>
        obtain ⟨b2, vs2⟩ := p2
        simp only [h2, Except.ok.injEq, Prod.mk.injEq] at h
        obtain ⟨rfl, rfl⟩ := h
        simp only [List.map_cons, encFields, encField_norm rp U v v1 b1 h1, ih b2 vs2 h2]

theorem udhiOf_norm : ∀ (fs : List Field) (vs : List FVal), udhiOf fs (vs.map normVal) = udhiOf fs vs := by
  intro fs
  induction fs with
  | nil => intro vs; cases vs <;> simp [udhiOf]
  | cons f fs ih =>
    intro vs
    cases vs with
    | nil => simp [udhiOf]
    | cons v vs =>
      simp only [List.map_cons, udhiOf]
      split
      · cases v <;> simp [normVal]
      · exact ih vs

/-! ### Marshal, introduced from its parts (converse of `marshal_ok`) -/

theorem marshal_status (L : Layout) (h : Header) (rest : List FVal) (hseq : h.seqPos = true) (hst : h.status ≠ 0) :
    marshal L (.header h :: rest) =
      ⟨.ok (encHeader ⟨UInt32.ofNat 16, UInt32.ofNat L.id, h.status, h.seq⟩),
        .header ⟨h.len, UInt32.ofNat L.id, h.status, h.seq⟩ :: rest⟩ := by
  have hst' : (h.status != 0) = true := by simpa using hst
  unfold marshal
  simp only [hseq, Bool.not_true, Bool.false_eq_true, ↓reduceIte, hst', encHeader_length]
  have := setLen_encHeader 16 ⟨h.len, UInt32.ofNat L.id, h.status, h.seq⟩ []
  simp only [List.append_nil] at this
  rw [this]

theorem marshal_body (L : Layout) (h : Header) (rest : List FVal) (body : Bytes) (rest' : List FVal)
    (hseq : h.seqPos = true) (hst : h.status = 0)
    (he : encFields L.isReplace (udhiOf L.fields (.header h :: rest)) rest = .ok (body, rest')) :
    marshal L (.header h :: rest) =
      ⟨.ok (encHeader ⟨UInt32.ofNat (16 + body.length), UInt32.ofNat L.id, h.status, h.seq⟩ ++ body),
        .header ⟨h.len, UInt32.ofNat L.id, h.status, h.seq⟩ :: rest'⟩ := by
  have hst' : (h.status != 0) = false := by simp [hst]
  unfold marshal
  simp only [hseq, Bool.not_true, Bool.false_eq_true, ↓reduceIte, hst', he]
  have hlen4 : ¬ ((encHeader ⟨h.len, UInt32.ofNat L.id, h.status, h.seq⟩ ++ body).length < 4) := by
    simp [encHeader_length]; omega
  simp only [hlen4, ↓reduceIte, setLen_encHeader]
  simp [encHeader_length]

/-! ### the decoder's output, as a whole -/

/-- What `unmarshal` returns: a typed value that is either a bare negative response (all fields
after the header zero) or has every field well-formed. -/
theorem unmarshal_wf (L : Layout) (hL : LayoutOK L = true) (b : Bytes) (v : List FVal)
    (hu : unmarshal L b = some v) (hbf : NoReserved L.isReplace v) :
    ∃ h rest, v = .header h :: rest ∧ Typed L.fields v = true ∧
      ((h.status ≠ 0 ∧ rest = L.fields.tail.map (fun g => zeroVal g.kind)) ∨
       (h.status = 0 ∧ ∀ x ∈ rest, FValPre L.isReplace (udhiOf L.fields v) x)) := by
  unfold LayoutOK at hL
  cases hf : L.fields with
  | nil => simp [hf] at hL
  | cons f fs =>
    simp only [hf, Bool.and_eq_true, beq_iff_eq, bne_iff_ne, ne_eq, decide_eq_true_eq] at hL
    obtain ⟨⟨⟨⟨⟨hfk, hfn⟩, hnh⟩, htl⟩, hesm⟩, hid⟩ := hL
    unfold unmarshal at hu
    rw [hf, decFields, if_pos hfk] at hu
    cases hd : decHeaderChecked b with
    | none => simp [hd] at hu
    | some p =>
      obtain ⟨h, r⟩ := p
      simp only [hd] at hu
      by_cases hst : (h.status != 0) = true
      · simp only [hst, ↓reduceIte, Option.some.injEq] at hu
        subst hu
        refine ⟨h, _, rfl, ?_, Or.inl ⟨by simpa using hst, by simp⟩⟩
        simp [Typed, hfk, FVal.hasKind, typed_zero]
      · simp only [hst, Bool.false_eq_true, ↓reduceIte] at hu
        cases hr : decFields L.isReplace false fs r with
        | none => simp [hr] at hu
        | some vs =>
          simp only [hr, Option.some.injEq] at hu
          subst hu
          have hbf' : NoReserved L.isReplace vs := fun m hm => hbf m (by simp [hm])
          obtain ⟨hty, hwf⟩ := decFields_wf L.isReplace fs false r vs hnh hesm hr hbf'
          refine ⟨h, vs, rfl, by simp [Typed, hfk, FVal.hasKind, hty], Or.inr ⟨by simpa using hst, ?_⟩⟩
          have hU : udhiOf (f :: fs) (.header h :: vs) = udhiOf fs vs := udhiOf_cons_ne f fs _ vs hfn
          rw [hU]
          by_cases ha : esmAhead fs = true
          · simpa [ha] using hwf
          · have ha' : esmAhead fs = false := by simpa using ha
            rw [udhiOf_not_ahead fs vs ha']
            simpa [ha'] using hwf

/-- restate the header's command_length -/
def relen (n : Nat) : List FVal → List FVal
  | .header h :: r => .header { h with len := UInt32.ofNat n } :: r
  | v => v

/-- **Re-encoding is stable.**  Let `v` be what the decoder made of ANY frame `b` (command_id as
ReadPDU's registry lookup guarantees; no reserved data_coding 0xBF).  If Marshal accepts `v`,
writing `b2` (within ReadPDU's 64 KiB frame limit), then
 * Marshal left the caller's value unchanged,
 * decoding `b2` gives `v` again, up to empty TLVs being dropped and the header restating `b2`'s length,
 * and Marshal of that value writes exactly `b2` again, leaving it unchanged (a fixed point). -/
theorem reencode_stable (L : Layout) (hL : LayoutOK L = true) (b : Bytes) (v : List FVal)
    (hu : unmarshal L b = some v) (hbf : NoReserved L.isReplace v)
    (hid : ∀ h rest, v = .header h :: rest → h.id = UInt32.ofNat L.id)
    (b2 : Bytes) (after : List FVal) (hm : marshal L v = ⟨.ok b2, after⟩) (hlen : b2.length ≤ 65536) :
    after = v ∧
    unmarshal L b2 = some (relen b2.length (v.map normVal)) ∧
    marshal L (relen b2.length (v.map normVal)) = ⟨.ok b2, relen b2.length (v.map normVal)⟩ := by
  obtain ⟨h, rest, rfl, hty, hcase⟩ := unmarshal_wf L hL b v hu hbf
  have hid' := hid h rest rfl
  obtain ⟨hseq, hmcase⟩ := marshal_ok L h rest b2 after hm
  have hhdr : (⟨h.len, UInt32.ofNat L.id, h.status, h.seq⟩ : Header) = h := by
    rw [← hid']
  rcases hcase with ⟨hst, hz⟩ | ⟨hst, hpre⟩
  · -- bare negative response
    rcases hmcase with ⟨_, ⟨n16, hn16, hb⟩, ha⟩ | ⟨hst0, _⟩
    · rw [hhdr] at ha
      have hwf : ∀ x ∈ rest, FValWF L.isReplace (udhiOf L.fields (.header h :: rest)) x := by
        -- never consulted on this path: provide it from the zero values
        intro x hx
        rw [hz] at hx
        simp only [List.mem_map] at hx
        obtain ⟨g, _, rfl⟩ := hx
        cases g.kind <;> simp [zeroVal, FValWF, NulFree, DestsWF, TagsWF, KSorted, SmWF, prepare, noCoding]
        all_goals (cases L.isReplace <;> cases udhiOf L.fields (.header h :: rest) <;> simp)
      subst ha
      have hum := (unmarshal_marshal L hL h rest hty hwf b2 _ hm hlen).1
      have hst' : (h.status != 0) = true := by simpa using hst
      have hv2 : relen b2.length ((FVal.header h :: rest).map normVal)
          = decodedOf L b2.length (.header h :: rest) := by
        simp only [List.map_cons, normVal, relen, decodedOf, hst', ↓reduceIte, List.cons.injEq, true_and]
        rw [hz, List.map_map]
        apply List.map_congr_left
        intro g _
        exact normVal_zero g.kind
      rw [hv2]
      refine ⟨rfl, hum, ?_⟩
      simp only [decodedOf, hst', ↓reduceIte]
      have hn : n16 = UInt32.ofNat 16 := by
        apply UInt32.toNat_inj.mp; rw [hn16]; decide
      have := marshal_status L ⟨UInt32.ofNat b2.length, h.id, h.status, h.seq⟩
        (L.fields.tail.map fun g => zeroVal g.kind) (by simpa [Header.seqPos] using hseq) hst
      simp only at this
      rw [this, hb, hn, ← hid']
    · exact absurd hst0 hst
  · rcases hmcase with ⟨hne, _⟩ | ⟨_, body, rest', he, hb, ha⟩
    · exact absurd hst hne
    · have hst' : (h.status != 0) = false := by simp [hst]
      -- Marshal leaves the value as it was: Prepare is the identity on decoded short messages
      have hrest : rest = rest' := (encFields_after_id _ _ rest body rest' hpre he).symm
      subst hrest
      rw [hhdr] at ha
      subst ha
      have hwf : ∀ x ∈ rest, FValWF L.isReplace (udhiOf L.fields (.header h :: rest)) x := by
        intro x hx
        obtain ⟨p, hp⟩ := encFields_each _ _ rest body rest he x hx
        exact FValWF_of_pre _ _ x p (hpre x hx) hp
      have hum := (unmarshal_marshal L hL h rest hty hwf b2 _ hm hlen).1
      have hv2 : relen b2.length ((FVal.header h :: rest).map normVal)
          = decodedOf L b2.length (.header h :: rest) := by
        simp [normVal, relen, decodedOf, hst']
      rw [hv2]
      refine ⟨rfl, hum, ?_⟩
      simp only [decodedOf, hst', Bool.false_eq_true, ↓reduceIte]
      -- the UDH indicator the second Marshal sees is the same
      have hU : udhiOf L.fields (.header ⟨UInt32.ofNat b2.length, h.id, h.status, h.seq⟩ :: rest.map normVal)
          = udhiOf L.fields (.header h :: rest) := by
        have := udhiOf_norm L.fields (.header h :: rest)
        simp only [List.map_cons, normVal] at this
        rw [← this]
        cases hf : L.fields with
        | nil => simp [udhiOf]
        | cons f fs => simp only [udhiOf]
      have he2 := encFields_norm _ _ rest body rest he
      rw [← hU] at he2
      have := marshal_body L ⟨UInt32.ofNat b2.length, h.id, h.status, h.seq⟩ (rest.map normVal) body
        (rest.map normVal) (by simpa [Header.seqPos] using hseq) hst he2
      simp only at this
      rw [this, hb, ← hid']


/-- A decoded value that Marshal accepts lies in the domain of the round-trip theorem. -/
theorem decoded_representable (L : Layout) (hL : LayoutOK L = true) (b : Bytes) (v : List FVal)
    (hu : unmarshal L b = some v) (hbf : NoReserved L.isReplace v)
    (b2 : Bytes) (after : List FVal) (hm : marshal L v = ⟨.ok b2, after⟩) :
    ∃ h rest, v = .header h :: rest ∧ Typed L.fields v = true ∧
      ∀ x ∈ rest, FValWF L.isReplace (udhiOf L.fields v) x := by
  obtain ⟨h, rest, rfl, hty, hcase⟩ := unmarshal_wf L hL b v hu hbf
  refine ⟨h, rest, rfl, hty, ?_⟩
  rcases hcase with ⟨hst, hz⟩ | ⟨hst, hpre⟩
  · intro x hx
    rw [hz] at hx
    simp only [List.mem_map] at hx
    obtain ⟨g, _, rfl⟩ := hx
    cases g.kind <;> simp [zeroVal, FValWF, NulFree, DestsWF, TagsWF, KSorted, SmWF, prepare, noCoding]
    all_goals (cases L.isReplace <;> cases udhiOf L.fields (.header h :: rest) <;> simp)
  · obtain ⟨_, hmcase⟩ := marshal_ok L h rest b2 after hm
    rcases hmcase with ⟨hne, _⟩ | ⟨_, body, rest', he, _, _⟩
    · exact absurd hst hne
    · intro x hx
      obtain ⟨p, hp⟩ := encFields_each _ _ rest body rest' he x hx
      exact FValWF_of_pre _ _ x p (hpre x hx) hp

/-! ### ReadPDU level -/

/-- Marshal → ReadPDU on any fragmentation (the core of C01, with the well-formedness spelled out). -/
theorem readPDU_marshal (layouts : List Layout) (L : Layout) (hL : LayoutOK L = true)
    (hreg : lookupLayout layouts L.id = some L) (h : Header) (rest : List FVal)
    (hty : Typed L.fields (.header h :: rest) = true)
    (hwf : ∀ x ∈ rest, FValWF L.isReplace (udhiOf L.fields (.header h :: rest)) x)
    (b : Bytes) (after : List FVal)
    (hm : marshal L (.header h :: rest) = ⟨.ok b, after⟩) (hlen : b.length ≤ 65536)
    (cs : Stream) (hcs : cs.flatten = b) :
    (readPDU layouts cs).out = .ok L.name (decodedOf L b.length after) ∧
    (readPDU layouts cs).consumed = b.length := by
  have hflat := readPDU_eq_flat layouts cs
  rw [hcs] at hflat
  obtain ⟨hun, h16⟩ := unmarshal_marshal L hL h rest hty hwf b after hm hlen
  obtain ⟨_, hcase⟩ := marshal_ok L h rest b after hm
  have hidlt : L.id < 4294967296 := by
    have := hL
    unfold LayoutOK at this
    cases hf : L.fields with
    | nil => simp [hf] at this
    | cons f fs => simp [hf] at this; exact this.2
  have key : ∀ (hdr : Header) (body : Bytes), b = encHeader hdr ++ body → hdr.len.toNat = 16 + body.length →
      hdr.id.toNat = L.id →
      readPDUFlat layouts b = (.ok L.name (decodedOf L b.length after), b.length, []) := by
    intro hdr body hb hl hid
    have hbl : b.length = 16 + body.length := by rw [hb]; simp [encHeader_length']
    have := readPDUFlat_frame layouts hdr body [] L hl (by omega) (by rw [hid]; exact hreg)
    simp only [List.append_nil] at this
    rw [← hb, hun] at this
    rw [this, hbl]
  have hfin : readPDUFlat layouts b = (.ok L.name (decodedOf L b.length after), b.length, []) := by
    rcases hcase with ⟨_, ⟨n16, hn16, hb⟩, _⟩ | ⟨_, body, rest', _, hb, _⟩
    · exact key _ [] (by simpa using hb) (by simpa using hn16) (u32_ofNat_toNat hidlt)
    · have hbl : b.length = 16 + body.length := by rw [hb]; simp [encHeader_length']
      exact key _ body hb (u32_ofNat_toNat (by omega)) (u32_ofNat_toNat hidlt)
  rw [hfin] at hflat
  simp only [Prod.mk.injEq] at hflat
  exact ⟨hflat.1, hflat.2.1⟩

theorem decHeader_append {a : Bytes} {hdr : Header} {r : Bytes} (x : Bytes) (h : decHeader a = some (hdr, r)) :
    decHeader (a ++ x) = some (hdr, r ++ x) := by
  unfold decHeader at h
  split at h
  · simp only [Option.some.injEq, Prod.mk.injEq] at h
    obtain ⟨rfl, rfl⟩ := h
    simp [decHeader]
  · simp at h

theorem unmarshal_header (L : Layout) (hL : LayoutOK L = true) (b : Bytes) (v : List FVal)
    (hu : unmarshal L b = some v) : ∃ h r rest, decHeaderChecked b = some (h, r) ∧ v = .header h :: rest := by
  unfold LayoutOK at hL
  cases hf : L.fields with
  | nil => simp [hf] at hL
  | cons f fs =>
    simp only [hf, Bool.and_eq_true, beq_iff_eq] at hL
    have hfk : f.kind = .header := hL.1.1.1.1.1
    unfold unmarshal at hu
    rw [hf, decFields, if_pos hfk] at hu
    cases hd : decHeaderChecked b with
    | none => simp [hd] at hu
    | some p =>
      obtain ⟨h, r⟩ := p
      simp only [hd] at hu
      split at hu
      · simp only [Option.some.injEq] at hu; exact ⟨h, r, _, rfl, hu.symm⟩
      · split at hu
        · simp only [Option.some.injEq] at hu; exact ⟨h, r, _, rfl, hu.symm⟩
        · simp at hu

/-- What a successful ReadPDU means: some registered layout, looked up by the header's command_id,
decoded the frame, and the decoded header carries that command_id. -/
theorem readPDU_ok_inv (layouts : List Layout) (hOK : ∀ L ∈ layouts, LayoutOK L = true) (s : Stream)
    (name : String) (v : List FVal) (hr : (readPDU layouts s).out = .ok name v) :
    ∃ L frame, L ∈ layouts ∧ L.name = name ∧ unmarshal L frame = some v ∧
      (∀ h rest, v = .header h :: rest → h.id = UInt32.ofNat L.id) := by
  have hflat := readPDU_eq_flat layouts s
  simp only [hr] at hflat
  generalize s.flatten = bs at hflat
  unfold readPDUFlat at hflat
  simp only at hflat
  split at hflat
  · simp at hflat
  · split at hflat
    · simp at hflat
    · split at hflat
      · simp at hflat
      · next hdr x hdec =>
        split at hflat
        · simp at hflat
        · split at hflat
          · simp at hflat
          · split at hflat
            · simp at hflat
            · next L hlk =>
              split at hflat
              · next v' hun =>
                simp only [Prod.mk.injEq, ReadOut.ok.injEq] at hflat
                obtain ⟨⟨hn, hv⟩, _⟩ := hflat
                subst hv
                have hfind := List.find?_some hlk
                have hmem := List.mem_of_find?_eq_some hlk
                simp only [beq_iff_eq] at hfind
                refine ⟨L, _, hmem, hn.symm, hun, ?_⟩
                intro h rest hv
                obtain ⟨h', r, rest', hd', hv'⟩ := unmarshal_header L (hOK L hmem) _ _ hun
                rw [hv'] at hv
                simp only [List.cons.injEq, FVal.header.injEq] at hv
                obtain ⟨rfl, _⟩ := hv
                unfold decHeaderChecked at hd'
                rw [decHeader_append _ hdec] at hd'
                simp only at hd'
                split at hd'
                · simp at hd'
                · simp only [Option.some.injEq, Prod.mk.injEq] at hd'
                  obtain ⟨rfl, _⟩ := hd'
                  rw [hfind]
                  simp
              · simp at hflat

end Smpp.Pdu
