/-
Helper lemmas: big-endian integers, exact reads, the chunked-stream model.
-/
import Smpp.Prelude

namespace Smpp

theorem rd16_be16 (n : UInt16) :
    rd16 (UInt8.ofNat (n.toNat / 256)) (UInt8.ofNat n.toNat) = n := by
  unfold rd16
  apply UInt16.toNat_inj.mp
  have h := n.toNat_lt
  simp [UInt8.toNat_ofNat', UInt16.toNat_ofNat']
  omega

theorem rd32_be32 (n : UInt32) :
    rd32 (UInt8.ofNat (n.toNat / 16777216)) (UInt8.ofNat (n.toNat / 65536))
      (UInt8.ofNat (n.toNat / 256)) (UInt8.ofNat n.toNat) = n := by
  unfold rd32
  apply UInt32.toNat_inj.mp
  have h := n.toNat_lt
  simp [UInt8.toNat_ofNat', UInt32.toNat_ofNat']
  omega

theorem rd16_nat {k : Nat} (h : k < 65536) :
    (rd16 (UInt8.ofNat (k / 256)) (UInt8.ofNat k)).toNat = k := by
  unfold rd16
  simp [UInt8.toNat_ofNat', UInt16.toNat_ofNat']
  omega

theorem rd32_nat {k : Nat} (h : k < 4294967296) :
    (rd32 (UInt8.ofNat (k / 16777216)) (UInt8.ofNat (k / 65536)) (UInt8.ofNat (k / 256)) (UInt8.ofNat k)).toNat = k := by
  unfold rd32
  simp [UInt8.toNat_ofNat', UInt32.toNat_ofNat']
  omega

theorem be32_length (n : UInt32) : (be32 n).length = 4 := rfl
theorem be16_length (n : UInt16) : (be16 n).length = 2 := rfl

theorem u8_ofNat_toNat {n : Nat} (h : n ≤ 255) : (UInt8.ofNat n).toNat = n := by
  simp [UInt8.toNat_ofNat']; omega

theorem u16_ofNat_toNat {n : Nat} (h : n < 65536) : (UInt16.ofNat n).toNat = n := by
  simp [UInt16.toNat_ofNat']; omega

theorem u32_ofNat_toNat {n : Nat} (h : n < 4294967296) : (UInt32.ofNat n).toNat = n := by
  simp [UInt32.toNat_ofNat']; omega

/-! ### readCStr -/

theorem readCStr_append (s r : Bytes) (h : ∀ b ∈ s, b ≠ 0) :
    readCStr (s ++ 0 :: r) = some (s, r) := by
  induction s with
  | nil => simp [readCStr]
  | cons b s ih =>
    have hb : b ≠ 0 := h b (by simp)
    have hs : ∀ c ∈ s, c ≠ 0 := fun c hc => h c (by simp [hc])
    simp [readCStr, hb, ih hs]

/-- What readCStr returns never contains NUL, and the input is that prefix, a NUL, and the rest. -/
theorem readCStr_some {bs s r : Bytes} (h : readCStr bs = some (s, r)) :
    (∀ b ∈ s, b ≠ 0) ∧ bs = s ++ 0 :: r := by
  induction bs generalizing s r with
  | nil => simp [readCStr] at h
  | cons b t ih =>
    simp only [readCStr] at h
    split at h
    · next hb =>
      simp at h
      obtain ⟨rfl, rfl⟩ := h
      simp [hb]
    · next hb =>
      split at h
      · next s' r' hrec =>
        simp at h
        obtain ⟨rfl, rfl⟩ := h
        obtain ⟨h1, h2⟩ := ih hrec
        refine ⟨?_, by simp [h2]⟩
        intro c hc
        simp at hc
        rcases hc with rfl | hc
        · exact hb
        · exact h1 c hc
      · simp at h

/-! ### takeN -/

theorem takeN_append (a r : Bytes) : takeN a.length (a ++ r) = some (a, r) := by
  simp [takeN]

theorem takeN_some {n : Nat} {bs a r : Bytes} (h : takeN n bs = some (a, r)) :
    bs = a ++ r ∧ a.length = n := by
  unfold takeN at h
  split at h
  · next hle =>
    simp at h
    obtain ⟨rfl, rfl⟩ := h
    simp [List.take_append_drop, hle]
  · simp at h

/-! ### the chunked stream: io.ReadFull sees only the concatenation -/

theorem readFull_fst (n : Nat) (s : Stream) : (readFull n s).1 = s.flatten.take n := by
  induction s generalizing n with
  | nil => simp [readFull]
  | cons c s ih =>
    unfold readFull
    by_cases h0 : n = 0
    · simp [h0]
    · by_cases hc : c.length ≤ n
      · simp [h0, hc, ih, List.take_append]
        exact (List.take_of_length_le hc).symm
      · simp [h0, hc]
        have hlt : n ≤ c.length := by omega
        rw [List.take_append_of_le_length hlt]

theorem readFull_snd (n : Nat) (s : Stream) : (readFull n s).2.flatten = s.flatten.drop n := by
  induction s generalizing n with
  | nil => simp [readFull]
  | cons c s ih =>
    unfold readFull
    by_cases h0 : n = 0
    · simp [h0]
    · by_cases hc : c.length ≤ n
      · simp [h0, hc, ih, List.drop_append]
      · simp [h0, hc]
        have hlt : n ≤ c.length := by omega
        rw [List.drop_append_of_le_length hlt]

end Smpp
