/-
The greedy splitter: partition, fit, maximality.
-/
import Smpp.Model.Splitter

namespace Smpp.Splitter

theorem bits_append (w : Nat → Nat) (a b : List Nat) : bits w (a ++ b) = bits w a + bits w b := by
  simp [bits, List.sum_append]

theorem bits_reverse (w : Nat → Nat) (a : List Nat) : bits w a.reverse = bits w a := by
  induction a with
  | nil => rfl
  | cons r a ih =>
    rw [List.reverse_cons, bits_append, ih]
    simp [bits]
    omega

theorem bits_cons (w : Nat → Nat) (r : Nat) (a : List Nat) : bits w (r :: a) = w r + bits w a := by
  simp [bits]

/-- **partition**: the segments, concatenated, are the open segment followed by the rest of the text -/
theorem splitAux_flatten (w : Nat → Nat) (limit : Nat) (hw : ∀ r, 0 < w r) :
    ∀ (t cur : List Nat) (n : Nat), n = bits w cur →
      (splitAux w limit t cur n).flatten = cur.reverse ++ t := by
  intro t
  induction t with
  | nil =>
    intro cur n hn
    simp only [splitAux]
    split
    · simp
    · next h =>
      have : bits w cur = 0 := by omega
      cases cur with
      | nil => simp
      | cons r c => rw [bits_cons] at this; have := hw r; omega
  | cons r t ih =>
    intro cur n hn
    simp only [splitAux]
    split
    · simp only [List.flatten_cons]
      rw [ih [r] (w r) (by simp [bits])]
      simp
    · rw [ih (r :: cur) (n + w r) (by rw [bits_cons, hn]; omega)]
      simp

/-- **fit**: every segment stays within the limit, and none is empty -/
theorem splitAux_fits (w : Nat → Nat) (limit : Nat) (hw : ∀ r, 0 < w r ∧ w r ≤ limit) :
    ∀ (t cur : List Nat) (n : Nat), n = bits w cur → n ≤ limit → (cur = [] → n = 0) →
      ∀ s ∈ splitAux w limit t cur n, bits w s ≤ limit ∧ s ≠ [] := by
  intro t
  induction t with
  | nil =>
    intro cur n hn hl _ s hs
    simp only [splitAux] at hs
    split at hs
    · next hpos =>
      simp only [List.mem_cons, List.not_mem_nil, or_false] at hs
      subst hs
      refine ⟨by rw [bits_reverse]; omega, ?_⟩
      intro h0
      have : cur = [] := by simpa using h0
      subst this
      simp [bits] at hn
      omega
    · simp at hs
  | cons r t ih =>
    intro cur n hn hl hc s hs
    simp only [splitAux] at hs
    split at hs
    · next hover =>
      simp only [List.mem_cons] at hs
      rcases hs with rfl | hs
      · refine ⟨by rw [bits_reverse]; omega, ?_⟩
        intro h0
        have : cur = [] := by simpa using h0
        have := hc this
        have := (hw r).2
        omega
      · exact ih [r] (w r) (by simp [bits]) (hw r).2 (by simp) s hs
    · next hfit =>
      exact ih (r :: cur) (n + w r) (by rw [bits_cons, hn]; omega) (by omega) (by simp) s hs

/-- the first segment produced continues the open segment -/
theorem splitAux_first (w : Nat → Nat) (limit : Nat) :
    ∀ (t cur : List Nat) (n : Nat) (b : List Nat) (post : List (List Nat)),
      splitAux w limit t cur n = b :: post → ∃ b', b = cur.reverse ++ b' := by
  intro t
  induction t with
  | nil =>
    intro cur n b post h
    simp only [splitAux] at h
    split at h
    · simp only [List.cons.injEq] at h; exact ⟨[], by simp [h.1]⟩
    · simp at h
  | cons r t ih =>
    intro cur n b post h
    simp only [splitAux] at h
    split at h
    · simp only [List.cons.injEq] at h; exact ⟨[], by simp [h.1]⟩
    · obtain ⟨b', hb'⟩ := ih (r :: cur) (n + w r) b post h
      exact ⟨r :: b', by simp [hb']⟩

/-- **maximality**: a segment is closed only because the next rune would not have fitted -/
theorem splitAux_maximal (w : Nat → Nat) (limit : Nat) :
    ∀ (t cur : List Nat) (n : Nat), n = bits w cur →
      ∀ (pre : List (List Nat)) (a b : List Nat) (post : List (List Nat)),
        splitAux w limit t cur n = pre ++ a :: b :: post →
        ∃ r b', b = r :: b' ∧ bits w a + w r > limit := by
  intro t
  induction t with
  | nil =>
    intro cur n _ pre a b post h
    simp only [splitAux] at h
    split at h
    · have := congrArg List.length h
      simp at this
      omega
    · have := congrArg List.length h
      simp at this
  | cons r t ih =>
    intro cur n hn pre a b post h
    simp only [splitAux] at h
    split at h
    · next hover =>
      cases pre with
      | nil =>
        simp only [List.nil_append, List.cons.injEq] at h
        obtain ⟨ha, hrest⟩ := h
        obtain ⟨b', hb'⟩ := splitAux_first w limit t [r] (w r) b post hrest
        exact ⟨r, b', by simpa using hb', by rw [← ha, bits_reverse]; omega⟩
      | cons p pre' =>
        simp only [List.cons_append, List.cons.injEq] at h
        exact ih [r] (w r) (by simp [bits]) pre' a b post h.2
    · exact ih (r :: cur) (n + w r) (by rw [bits_cons, hn]; omega) pre a b post h

/-! ### Split itself -/

theorem split_flatten (w : Nat → Nat) (lim : Nat) (hw : ∀ r, 0 < w r) (t : List Nat) :
    (split w lim t).flatten = t := by
  unfold split
  simpa using splitAux_flatten w (lim * 8) hw t [] 0 (by simp [bits])

theorem split_fits (w : Nat → Nat) (lim : Nat) (hw : ∀ r, 0 < w r ∧ w r ≤ lim * 8) (t : List Nat) :
    ∀ s ∈ split w lim t, bits w s ≤ lim * 8 ∧ s ≠ [] := by
  unfold split
  exact splitAux_fits w (lim * 8) hw t [] 0 (by simp [bits]) (by omega) (by simp)

theorem split_maximal (w : Nat → Nat) (lim : Nat) (t : List Nat) (pre : List (List Nat)) (a b : List Nat)
    (post : List (List Nat)) (h : split w lim t = pre ++ a :: b :: post) :
    ∃ r b', b = r :: b' ∧ bits w a + w r > lim * 8 := by
  unfold split at h
  exact splitAux_maximal w (lim * 8) t [] 0 (by simp [bits]) pre a b post h

end Smpp.Splitter
