/-
The model's encoders produce the octets the independent SMPP v5 specification
prescribes (per field kind, then by induction over the fields).
-/
import Smpp.Proofs.Fields
import Smpp.Spec.SmppV5Layout

namespace Smpp.Pdu
open Smpp

theorem u8_ofNat_mod (n : Nat) : UInt8.ofNat (n % 256) = UInt8.ofNat n := by
  apply UInt8.toNat_inj.mp
  simp [UInt8.toNat_ofNat']

theorem esm_spec_fin : ∀ (m : Fin 4) (t : Fin 16) (u r : Bool),
    encEsm ⟨UInt8.ofNat m.val, UInt8.ofNat t.val, u, r⟩
      = Spec.esmClass ⟨UInt8.ofNat m.val, UInt8.ofNat t.val, u, r⟩ := by decide

theorem esm_spec (e : Esm) (hm : e.mode.toNat < 4) (ht : e.type.toNat < 16) : encEsm e = Spec.esmClass e := by
  have h := esm_spec_fin ⟨e.mode.toNat, hm⟩ ⟨e.type.toNat, ht⟩ e.udhi e.reply
  simpa using h

theorem regdlv_spec_fin : ∀ (a b : Fin 4) (i : Bool) (r : Fin 8),
    encRegDlv ⟨UInt8.ofNat a.val, UInt8.ofNat b.val, i, UInt8.ofNat r.val⟩
      = Spec.registeredDelivery ⟨UInt8.ofNat a.val, UInt8.ofNat b.val, i, UInt8.ofNat r.val⟩ := by decide

theorem regdlv_spec (g : RegDlv) (h1 : g.mc.toNat < 4) (h2 : g.sme.toNat < 4) (h3 : g.reserved.toNat < 8) :
    encRegDlv g = Spec.registeredDelivery g := by
  have h := regdlv_spec_fin ⟨g.mc.toNat, h1⟩ ⟨g.sme.toNat, h2⟩ g.inter ⟨g.reserved.toNat, h3⟩
  simpa using h

theorem be32_int4 (n : UInt32) : be32 n = Spec.int4 n.toNat := by
  simp only [be32, Spec.int4, u8_ofNat_mod]

theorem be16_int2 {k : Nat} (h : k < 65536) : be16 (UInt16.ofNat k) = Spec.int2 k := by
  simp only [be16, Spec.int2, u8_ofNat_mod, u16_ofNat_toNat h]

theorem encAddr_spec (a : Addr) : encAddr a = Spec.address a := by
  simp [encAddr, Spec.address, encCStr, Spec.cOctet]

theorem encTags_spec (t : KMap) : ∀ (b : Bytes), TagsWF t → encTagsSorted t = .ok b →
    b = t.flatMap (fun kv => if kv.2.length = 0 then [] else Spec.tlv kv.1 kv.2) := by
  induction t with
  | nil => intro b _ he; simp [encTagsSorted] at he; simp [he]
  | cons a t ih =>
    intro b hwf he
    obtain ⟨k, v⟩ := a
    have hwf' : TagsWF t := ⟨(List.pairwise_cons.mp hwf.1).2, fun kv hkv => hwf.2 kv (by simp [hkv])⟩
    have hkv := hwf.2 (k, v) (by simp)
    simp only at hkv
    by_cases hv : v.length = 0
    · simp only [encTagsSorted, hv, ↓reduceIte] at he
      rw [List.flatMap_cons]
      simp only [hv, ↓reduceIte, List.nil_append]
      exact ih b hwf' he
    · have hlt : v.length < 0xFFFF := hkv.2
      simp only [encTagsSorted, hv, ↓reduceIte, hlt] at he
      split at he
      · next b' hb' =>
        simp only [Except.ok.injEq] at he
        subst he
        have hrec := ih b' hwf' hb'
        rw [List.flatMap_cons]
        simp only [hv, ↓reduceIte]
        rw [← hrec]
        simp only [encTlv, Spec.tlv, be16_int2 hkv.1, be16_int2 (show v.length < 65536 by omega)]
      · simp at he

theorem encSm_spec (rp U : Bool) (m : ShortMsg) (b : Bytes) (hwf : SmWF rp U m) (he : encSm m = .ok b) :
    b = Spec.shortMessage (!rp) m := by
  obtain ⟨defId, dc, udh, msg⟩ := m
  have hdc : (dc != noCoding) = !rp := by
    cases rp with
    | true => have := hwf.1; simp at this; simp [this.1]
    | false => have := hwf.1; simp at this; simp [this.1]
  unfold encSm at he
  by_cases hml : msg.length > 140
  · simp [hml] at he
  · simp only [hml, ↓reduceIte] at he
    cases udh with
    | none =>
      simp only [encUdh, List.nil_append] at he
      by_cases hbl : msg.length > 255
      · omega
      · simp only [hbl, ↓reduceIte, Except.ok.injEq] at he
        subst he
        simp [Spec.shortMessage, hdc]
    | some els =>
      simp only [encUdh] at he
      by_cases hany : els.any (fun kv => kv.2.length > 255)
      · simp only [hany, ↓reduceIte] at he
        cases he
      · simp only [hany, Bool.false_eq_true, ↓reduceIte] at he
        have hbody : els.flatMap encUdhEl
            = els.flatMap (fun kv => [UInt8.ofNat kv.1, UInt8.ofNat kv.2.length] ++ kv.2) := by
          congr 1
        generalize els.flatMap encUdhEl = body at he hbody
        by_cases hb : body.length > 255
        · simp only [hb, ↓reduceIte] at he
          cases he
        · simp only [hb, ↓reduceIte] at he
          by_cases htot : (UInt8.ofNat body.length :: body ++ msg).length > 255
          · simp only [htot, ↓reduceIte] at he
            cases he
          · simp only [htot, ↓reduceIte, Except.ok.injEq] at he
            subst he
            subst hbody
            simp only [Spec.shortMessage, hdc, List.length_cons, List.length_append,
              List.append_assoc, List.cons_append, List.nil_append]
            rw [Nat.add_right_comm]

/-- One field: Marshal's octets are the specification's. -/
theorem encField_spec (rp U : Bool) (v v' : FVal) (b : Bytes) (hwf : FValWF rp U v)
    (he : encField rp U v = .ok (b, v')) : b = Spec.param rp v' := by
  cases v with
  | cstr s => simp [encField] at he; simp [← he.1, ← he.2, Spec.param, encCStr, Spec.cOctet]
  | u8 x => simp [encField] at he; simp [← he.1, ← he.2, Spec.param]
  | bool x => simp [encField] at he; cases x <;> simp [← he.1, ← he.2, Spec.param, b2u]
  | header h => simp [encField] at he; simp [← he.1, ← he.2, Spec.param]
  | esm e => simp [encField] at he; simp [← he.1, ← he.2, Spec.param, esm_spec e hwf.1 hwf.2]
  | regdlv g =>
    simp [encField] at he
    simp [← he.1, ← he.2, Spec.param, regdlv_spec g hwf.1 hwf.2.1 hwf.2.2]
  | addr a => simp [encField] at he; simp [← he.1, ← he.2, Spec.param, encAddr_spec]
  | dests d =>
    obtain ⟨bb, hd, h2⟩ := except_map_ok _ _ _ he
    simp only [Prod.mk.injEq] at h2
    obtain ⟨rfl, rfl⟩ := h2
    by_cases hn : d.addrs.length + d.dls.length > 255
    · simp [encDests, hn] at hd
    · unfold encDests at hd
      simp only [hn, ↓reduceIte, Except.ok.injEq] at hd
      subst hd
      simp only [Spec.param, encAddr_spec, encCStr, Spec.cOctet]
  | unsucc l =>
    obtain ⟨bb, hd, h2⟩ := except_map_ok _ _ _ he
    simp only [Prod.mk.injEq] at h2
    obtain ⟨rfl, rfl⟩ := h2
    by_cases hn : l.length > 255
    · simp [encUnsucc, hn] at hd
    · unfold encUnsucc at hd
      simp only [hn, ↓reduceIte, Except.ok.injEq] at hd
      subst hd
      simp only [Spec.param, encAddr_spec, be32_int4]
  | tags t =>
    obtain ⟨bb, hd, h2⟩ := except_map_ok _ _ _ he
    simp only [Prod.mk.injEq] at h2
    obtain ⟨rfl, rfl⟩ := h2
    simp only [Spec.param]
    exact encTags_spec t b hwf hd
  | sm m =>
    obtain ⟨bb, hd, h2⟩ := except_map_ok _ _ _ he
    simp only [Prod.mk.injEq] at h2
    obtain ⟨rfl, rfl⟩ := h2
    simp only [Spec.param]
    exact encSm_spec rp U (prepare rp U m) b hwf hd
  | skipped n => simp [encField] at he; simp [← he.1, ← he.2, Spec.param]

theorem encFields_spec (rp U : Bool) : ∀ (vs : List FVal) (bs : Bytes) (vs' : List FVal),
    (∀ v ∈ vs, FValWF rp U v) → encFields rp U vs = .ok (bs, vs') →
    bs = vs'.flatMap (Spec.param rp) := by
  intro vs
  induction vs with
  | nil => intro bs vs' _ he; simp [encFields] at he; obtain ⟨rfl, rfl⟩ := he; rfl
  | cons v vs ih =>
    intro bs vs' hwf he
    simp only [encFields] at he
    cases h1 : encField rp U v with
    | error e => simp [h1] at he
    | ok p1 =>
      obtain ⟨b1, v1⟩ := p1
      simp only [h1] at he
      cases h2 : encFields rp U vs with
      | error e => simp [h2] at he
      | ok p2 =>
        obtain ⟨b2, vs2⟩ := p2
        simp only [h2, Except.ok.injEq, Prod.mk.injEq] at he
        obtain ⟨rfl, rfl⟩ := he
        rw [List.flatMap_cons, ← encField_spec rp U v v1 b1 (hwf v (by simp)) h1,
          ← ih b2 vs2 (fun x hx => hwf x (by simp [hx])) h2]

end Smpp.Pdu
