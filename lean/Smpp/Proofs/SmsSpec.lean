/-
Field-level agreement between the sms model and the independent GSM 03.40 layout (helper lemmas for C19).
-/
import Smpp.Model.Sms
import Smpp.Spec.Gsm0340
import Smpp.Proofs.TimeProofs
import Smpp.Proofs.SmsTotal

namespace Smpp.Sms
open Smpp Smpp.Time Smpp.Spec.Gsm0340

/-! ## swapped BCD pairs -/

theorem decodeSemi_bcd_fin : ∀ v : Fin 100, ∀ r : List Nat,
    (fun rest => decodeSemi (bcdSwapped v.val :: rest)) = (fun rest => v.val :: decodeSemi rest) := by
  intro v r
  funext rest
  have h : ∀ v : Fin 100, (bcdSwapped v.val).toNat / 16 ≠ 15 ∧
      (bcdSwapped v.val).toNat % 16 * 10 + (bcdSwapped v.val).toNat / 16 = v.val := by decide +kernel
  obtain ⟨h1, h2⟩ := h v
  simp only [decodeSemi, h1, ↓reduceIte, h2]

theorem decodeSemi_bcd (v : Nat) (hv : v < 100) (rest : Bytes) :
    decodeSemi (bcdSwapped v :: rest) = v :: decodeSemi rest :=
  congrFun (decodeSemi_bcd_fin ⟨v, hv⟩ []) rest

/-- EncodeSemi's digits of one chunk below 100: tens digit then units digit -/
theorem chunk_digits_fin : ∀ v : Fin 100,
    (if ((v.val : Nat) : Int) < 10 then [(0 : UInt8)] else []) ++ itoaDigits ((v.val : Nat) : Int)
      = [UInt8.ofNat (v.val / 10), UInt8.ofNat (v.val % 10)] := by decide +kernel

theorem pack_pair_fin : ∀ v : Fin 100,
    ((UInt8.ofNat (v.val % 10)) <<< (4 : UInt8)) ||| UInt8.ofNat (v.val / 10) = bcdSwapped v.val := by decide +kernel

/-- EncodeSemi of values below 100 is the list of swapped BCD octets -/
theorem encodeSemi_bcd (vs : List Nat) (h : ∀ v ∈ vs, v < 100) :
    encodeSemi (vs.map fun v => ((v : Nat) : Int)) = vs.map bcdSwapped := by
  unfold encodeSemi
  induction vs with
  | nil => rfl
  | cons v vs ih =>
    have hv : v < 100 := h v (by simp)
    simp only [List.map_cons, toDigits]
    have hc := chunk_digits_fin ⟨v, hv⟩
    simp only at hc
    rw [List.append_assoc] at *
    rw [← List.append_assoc, hc]
    simp only [List.cons_append, List.nil_append, packDigits]
    rw [ih (fun x hx => h x (by simp [hx]))]
    have hp := pack_pair_fin ⟨v, hv⟩
    simp only at hp
    rw [hp]

/-! ## digits in semi-octet representation -/

/-- the model's digit packing is the specification's semi-octet representation -/
theorem packDigits_spec (ds : List Nat) (h : ∀ d ∈ ds, d ≤ 9) :
    packDigits (ds.map fun d => UInt8.ofNat d) = semiOctets ds := by
  fun_induction semiOctets ds with
  | case1 a b r ih =>
    have ha : a ≤ 9 := h a (by simp)
    have hb : b ≤ 9 := h b (by simp)
    simp only [List.map_cons, packDigits]
    rw [ih (fun d hd => h d (by simp [hd]))]
    congr 1
    have : ∀ a b : Fin 10, ((UInt8.ofNat b.val) <<< (4 : UInt8)) ||| UInt8.ofNat a.val = UInt8.ofNat (b.val * 16 + a.val) := by
      decide +kernel
    exact this ⟨a, by omega⟩ ⟨b, by omega⟩
  | case2 a =>
    have ha : a ≤ 9 := h a (by simp)
    simp only [List.map_cons, List.map_nil, packDigits]
    have : ∀ a : Fin 10, (0xF0 : UInt8) ||| UInt8.ofNat a.val = UInt8.ofNat (15 * 16 + a.val) := by decide +kernel
    rw [this ⟨a, by omega⟩]
  | case3 => rfl

/-- decoding the specification's semi-octets gives the digit characters back (odd and even counts) -/
theorem decodeSemiAddress_spec (ds : List Nat) (h : ∀ d ∈ ds, d ≤ 9) :
    decodeSemiAddress (semiOctets ds) = ds.map (· + 48) := by
  fun_induction semiOctets ds with
  | case1 a b r ih =>
    have ha : a ≤ 9 := h a (by simp)
    have hb : b ≤ 9 := h b (by simp)
    simp only [decodeSemiAddress, List.map_cons]
    have e : (UInt8.ofNat (b * 16 + a)).toNat = b * 16 + a := by
      simp [UInt8.toNat_ofNat']; omega
    rw [e]
    have h1 : (b * 16 + a) / 16 = b := by omega
    have h2 : (b * 16 + a) % 16 = a := by omega
    have h3 : ¬ b = 15 := by omega
    simp only [h1, h2, h3, ↓reduceIte]
    rw [ih (fun d hd => h d (by simp [hd]))]
    simp [Nat.add_comm]
  | case2 a =>
    have ha : a ≤ 9 := h a (by simp)
    simp only [decodeSemiAddress, List.map_cons, List.map_nil]
    have e : (UInt8.ofNat (15 * 16 + a)).toNat = 15 * 16 + a := by
      simp [UInt8.toNat_ofNat']; omega
    rw [e]
    have h1 : (15 * 16 + a) / 16 = 15 := by omega
    have h2 : (15 * 16 + a) % 16 = a := by omega
    simp only [h1, h2, ↓reduceIte, decodeSemiAddress]
    simp [Nat.add_comm]
  | case3 => rfl

theorem semiOctets_length (ds : List Nat) : (semiOctets ds).length = (ds.length + 1) / 2 := by
  fun_induction semiOctets ds with
  | case1 a b r ih => simp [ih]; omega
  | case2 a => simp
  | case3 => simp

/-! ## SC address (RP layer) -/


theorem toa_bits' : ∀ t : Fin 8, ∀ n : Fin 16,
    (toa t.val n.val &&& (0x0F : UInt8)) = UInt8.ofNat n.val ∧
    ((toa t.val n.val >>> (4 : UInt8)) &&& (0x07 : UInt8)) = UInt8.ofNat t.val ∧
    ((UInt8.ofNat n.val &&& (0x0F : UInt8)) ||| ((UInt8.ofNat t.val &&& (0x07 : UInt8)) <<< (4 : UInt8)) ||| (0x80 : UInt8)) = toa t.val n.val := by
  decide +kernel

theorem rdN_exact' (a rest : Bytes) (h : a ≠ []) : rdN a.length (a ++ rest) = .ok (a, rest) := by
  unfold rdN
  have h1 : a.length ≠ 0 := by
    intro h0; exact h (List.length_eq_zero_iff.mp h0)
  simp only [h1, ↓reduceIte]
  have h2 : (a ++ rest).isEmpty = false := by
    cases a with
    | nil => exact absurd rfl h
    | cons x xs => rfl
  simp [h2]

/-- SC address, decoding: length octet counts the type octet and the digit octets -/
theorem sc_decode (rev : List Nat) (escs : List (Nat × Nat)) (ton npi : Nat) (ds : List Nat) (rest : Bytes)
    (hton : ton < 8) (hnpi : npi < 16) (hnot5 : ton ≠ 5) (hds : ∀ d ∈ ds, d ≤ 9) (hlen : 1 ≤ ds.length ∧ ds.length ≤ 20) :
    readSCAddr rev escs (scAddressField (some ⟨ton, npi, .digits ds⟩) ++ rest)
      = .ok (⟨UInt8.ofNat npi, UInt8.ofNat ton, ds.map (· + 48)⟩, rest) := by
  obtain ⟨hb1, hb2, _⟩ := toa_bits' ⟨ton, hton⟩ ⟨npi, hnpi⟩
  simp only at hb1 hb2
  have hsemi : (semiOctets ds).length = (ds.length + 1) / 2 := semiOctets_length ds
  have hne : semiOctets ds ≠ [] := by
    intro h; rw [h] at hsemi; simp at hsemi; omega
  have hl : (UInt8.ofNat (1 + (ds.length + 1) / 2)).toNat = 1 + (ds.length + 1) / 2 := by
    simp [UInt8.toNat_ofNat']; omega
  have hl0 : UInt8.ofNat (1 + (ds.length + 1) / 2) ≠ 0 := by
    intro h
    have := congrArg UInt8.toNat h
    rw [hl] at this
    simp at this
  have hton5 : UInt8.ofNat ton ≠ 5 := by
    intro h
    have := congrArg UInt8.toNat h
    simp [UInt8.toNat_ofNat'] at this
    omega
  unfold readSCAddr scAddressField
  simp only [List.cons_append, rdByte, hl0, ↓reduceIte, hb1, hb2, hl]
  have : 1 + (ds.length + 1) / 2 - 1 = (semiOctets ds).length := by rw [hsemi]; omega
  rw [this, rdN_exact' _ _ hne]
  simp only [decodeNo, hton5, ne_eq, not_false_eq_true, ↓reduceIte, decodeSemiAddress_spec ds hds]

/-- SC address, encoding -/
theorem sc_encode (rev : List Nat) (escs : List (Nat × Nat)) (ton npi : Nat) (ds : List Nat)
    (hton : ton < 8) (hnpi : npi < 16) (hnot5 : ton ≠ 5) (hds : ∀ d ∈ ds, d ≤ 9) (hlen : 1 ≤ ds.length ∧ ds.length ≤ 20) :
    writeSCAddr rev escs ⟨UInt8.ofNat npi, UInt8.ofNat ton, ds.map (· + 48)⟩ = scAddressField (some ⟨ton, npi, .digits ds⟩) := by
  obtain ⟨_, _, hb3⟩ := toa_bits' ⟨ton, hton⟩ ⟨npi, hnpi⟩
  simp only at hb3
  have hton5 : UInt8.ofNat ton ≠ 5 := by
    intro h
    have := congrArg UInt8.toNat h
    simp [UInt8.toNat_ofNat'] at this
    omega
  have hne : (ds.map (· + 48)).isEmpty = false := by
    cases ds with
    | nil => simp at hlen
    | cons d r => rfl
  have hall : (ds.map (· + 48)).all (fun r => decide (48 ≤ r) && decide (r ≤ 57)) = true := by
    simp only [List.all_map, List.all_eq_true]
    intro d hd
    have := hds d hd
    simp; omega
  have hdig : (ds.map (· + 48)).map (fun r => UInt8.ofNat (r - 48)) = ds.map (fun d => UInt8.ofNat d) := by
    simp [List.map_map, Function.comp_def]
  have hsemi : (semiOctets ds).length = (ds.length + 1) / 2 := semiOctets_length ds
  unfold writeSCAddr addrBinary encodeSemiAddress scAddressField
  simp only [hne, Bool.false_eq_true, ↓reduceIte, hton5, ne_eq, not_false_eq_true, hall, hdig, Option.getD_some,
    packDigits_spec ds hds, hb3, hsemi]
  congr 1
  apply UInt8.toNat_inj.mp
  simp [UInt8.toNat_ofNat', UInt8.toNat_add]
  omega


end Smpp.Sms
