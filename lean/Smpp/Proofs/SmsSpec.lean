/-
Field-level agreement between the sms model and the independent GSM 03.40 layout (helper lemmas for C19).
-/
import Smpp.Model.Sms
import Smpp.Spec.Gsm0340
import Smpp.Proofs.TimeProofs
import Smpp.Proofs.SmsTotal

namespace Smpp.Sms
open Smpp Smpp.Time Smpp.Spec.Gsm0340

/-! ## swapped BCD pairs -/

theorem decodeSemi_bcd_fin : ∀ v : Fin 100, ∀ r : List Nat,
    (fun rest => decodeSemi (bcdSwapped v.val :: rest)) = (fun rest => v.val :: decodeSemi rest) := by
  intro v r
  funext rest
  have h : ∀ v : Fin 100, (bcdSwapped v.val).toNat / 16 ≠ 15 ∧
      (bcdSwapped v.val).toNat % 16 * 10 + (bcdSwapped v.val).toNat / 16 = v.val := by decide +kernel
  obtain ⟨h1, h2⟩ := h v
  simp only [decodeSemi, h1, ↓reduceIte, h2]

theorem decodeSemi_bcd (v : Nat) (hv : v < 100) (rest : Bytes) :
    decodeSemi (bcdSwapped v :: rest) = v :: decodeSemi rest :=
  congrFun (decodeSemi_bcd_fin ⟨v, hv⟩ []) rest

/-- EncodeSemi's digits of one chunk below 100: tens digit then units digit -/
theorem chunk_digits_fin : ∀ v : Fin 100,
    (if ((v.val : Nat) : Int) < 10 then [(0 : UInt8)] else []) ++ itoaDigits ((v.val : Nat) : Int)
      = [UInt8.ofNat (v.val / 10), UInt8.ofNat (v.val % 10)] := by decide +kernel

theorem pack_pair_fin : ∀ v : Fin 100,
    ((UInt8.ofNat (v.val % 10)) <<< (4 : UInt8)) ||| UInt8.ofNat (v.val / 10) = bcdSwapped v.val := by decide +kernel

/-- EncodeSemi of values below 100 is the list of swapped BCD octets -/
theorem encodeSemi_bcd (vs : List Nat) (h : ∀ v ∈ vs, v < 100) :
    encodeSemi (vs.map fun v => ((v : Nat) : Int)) = vs.map bcdSwapped := by
  unfold encodeSemi
  induction vs with
  | nil => rfl
  | cons v vs ih =>
    have hv : v < 100 := h v (by simp)
    simp only [List.map_cons, toDigits]
    have hc := chunk_digits_fin ⟨v, hv⟩
    simp only at hc
    rw [List.append_assoc] at *
    rw [← List.append_assoc, hc]
    simp only [List.cons_append, List.nil_append, packDigits]
    rw [ih (fun x hx => h x (by simp [hx]))]
    have hp := pack_pair_fin ⟨v, hv⟩
    simp only at hp
    rw [hp]

/-! ## digits in semi-octet representation -/

/-- the model's digit packing is the specification's semi-octet representation -/
theorem packDigits_spec (ds : List Nat) (h : ∀ d ∈ ds, d ≤ 9) :
    packDigits (ds.map fun d => UInt8.ofNat d) = semiOctets ds := by
  fun_induction semiOctets ds with
  | case1 a b r ih =>
    have ha : a ≤ 9 := h a (by simp)
    have hb : b ≤ 9 := h b (by simp)
    simp only [List.map_cons, packDigits]
    rw [ih (fun d hd => h d (by simp [hd]))]
    congr 1
    have : ∀ a b : Fin 10, ((UInt8.ofNat b.val) <<< (4 : UInt8)) ||| UInt8.ofNat a.val = UInt8.ofNat (b.val * 16 + a.val) := by
      decide +kernel
    exact this ⟨a, by omega⟩ ⟨b, by omega⟩
  | case2 a =>
    have ha : a ≤ 9 := h a (by simp)
    simp only [List.map_cons, List.map_nil, packDigits]
    have : ∀ a : Fin 10, (0xF0 : UInt8) ||| UInt8.ofNat a.val = UInt8.ofNat (15 * 16 + a.val) := by decide +kernel
    rw [this ⟨a, by omega⟩]
  | case3 => rfl

/-- decoding the specification's semi-octets gives the digit characters back (odd and even counts) -/
theorem decodeSemiAddress_spec (ds : List Nat) (h : ∀ d ∈ ds, d ≤ 9) :
    decodeSemiAddress (semiOctets ds) = ds.map (· + 48) := by
  fun_induction semiOctets ds with
  | case1 a b r ih =>
    have ha : a ≤ 9 := h a (by simp)
    have hb : b ≤ 9 := h b (by simp)
    simp only [decodeSemiAddress, List.map_cons]
    have e : (UInt8.ofNat (b * 16 + a)).toNat = b * 16 + a := by
      simp [UInt8.toNat_ofNat']; omega
    rw [e]
    have h1 : (b * 16 + a) / 16 = b := by omega
    have h2 : (b * 16 + a) % 16 = a := by omega
    have h3 : ¬ b = 15 := by omega
    simp only [h1, h2, h3, ↓reduceIte]
    rw [ih (fun d hd => h d (by simp [hd]))]
    simp [Nat.add_comm]
  | case2 a =>
    have ha : a ≤ 9 := h a (by simp)
    simp only [decodeSemiAddress, List.map_cons, List.map_nil]
    have e : (UInt8.ofNat (15 * 16 + a)).toNat = 15 * 16 + a := by
      simp [UInt8.toNat_ofNat']; omega
    rw [e]
    have h1 : (15 * 16 + a) / 16 = 15 := by omega
    have h2 : (15 * 16 + a) % 16 = a := by omega
    simp only [h1, h2, ↓reduceIte, decodeSemiAddress]
    simp [Nat.add_comm]
  | case3 => rfl

theorem semiOctets_length (ds : List Nat) : (semiOctets ds).length = (ds.length + 1) / 2 := by
  fun_induction semiOctets ds with
  | case1 a b r ih => simp [ih]; omega
  | case2 a => simp
  | case3 => simp

end Smpp.Sms
