/-
What the decoders return is well-formed (C13): NUL-free strings, bit-field components in
range, canonical maps, a user data header exactly when the UDH indicator was set.  Together
with `unmarshal_marshal` this closes the loop  frame → value → frame' → value' → frame'.
-/
import Smpp.Proofs.Roundtrip

namespace Smpp.Pdu
open Smpp

/-! ### per-decoder facts -/

theorem decAddr_wf {bs : Bytes} {a : Addr} {r : Bytes} (h : decAddr bs = some (a, r)) : NulFree a.no := by
  unfold decAddr at h
  split at h
  · split at h
    · next hrd =>
      simp only [Option.some.injEq, Prod.mk.injEq] at h
      obtain ⟨rfl, _⟩ := h
      exact (readCStr_some hrd).1
    · simp at h
  · simp at h

theorem decDestsLoop_wf : ∀ (n : Nat) (d : Dests) (bs : Bytes) (d' : Dests) (r : Bytes),
    DestsWF d → decDestsLoop n d bs = some (d', r) → DestsWF d' := by
  intro n
  induction n with
  | zero =>
    intro d bs d' r hd h
    simp only [decDestsLoop, Option.some.injEq, Prod.mk.injEq] at h
    obtain ⟨rfl, _⟩ := h
    exact hd
  | succ n ih =>
    intro d bs d' r hd h
    unfold decDestsLoop at h
    split at h
    · split at h
      · next a r' ha =>
        refine ih _ _ _ _ ?_ h
        refine ⟨?_, hd.2⟩
        intro x hx
        simp only [List.mem_append, List.mem_singleton] at hx
        rcases hx with hx | rfl
        · exact hd.1 x hx
        · exact decAddr_wf ha
      · simp at h
    · split at h
      · next s r' hs =>
        refine ih _ _ _ _ ?_ h
        refine ⟨hd.1, ?_⟩
        intro x hx
        simp only [List.mem_append, List.mem_singleton] at hx
        rcases hx with hx | rfl
        · exact hd.2 x hx
        · exact (readCStr_some hs).1
      · simp at h
    · simp at h

theorem decDests_wf {bs : Bytes} {d : Dests} {r : Bytes} (h : decDests bs = some (d, r)) : DestsWF d := by
  unfold decDests at h
  split at h
  · simp at h
  · exact decDestsLoop_wf _ _ _ _ _ ⟨by simp, by simp⟩ h

theorem decUnsuccLoop_wf : ∀ (n : Nat) (acc : List Unsucc) (bs : Bytes) (l : List Unsucc) (r : Bytes),
    (∀ u ∈ acc, NulFree u.addr.no) → decUnsuccLoop n acc bs = some (l, r) → ∀ u ∈ l, NulFree u.addr.no := by
  intro n
  induction n with
  | zero =>
    intro acc bs l r hacc h
    simp only [decUnsuccLoop, Option.some.injEq, Prod.mk.injEq] at h
    obtain ⟨rfl, _⟩ := h
    exact hacc
  | succ n ih =>
    intro acc bs l r hacc h
    unfold decUnsuccLoop at h
    split at h
    · next a r1 ha =>
      split at h
      · refine ih _ _ _ _ ?_ h
        intro x hx
        simp only [List.mem_append, List.mem_singleton] at hx
        rcases hx with hx | rfl
        · exact hacc x hx
        · exact decAddr_wf ha
      · simp at h
    · simp at h

theorem decUnsucc_wf {bs : Bytes} {l : List Unsucc} {r : Bytes} (h : decUnsucc bs = some (l, r)) :
    ∀ u ∈ l, NulFree u.addr.no := by
  unfold decUnsucc at h
  split at h
  · simp at h
  · exact decUnsuccLoop_wf _ _ _ _ _ (by simp) h

/-- canonical map with 16-bit keys: what Tags.ReadFrom builds (value lengths are bounded by the
encoder's own guard, see `tagsWF_of_enc`) -/
def TagsPre (t : KMap) : Prop := KSorted t ∧ ∀ kv ∈ t, kv.1 < 65536

theorem rd16_lt (a b : UInt8) : (rd16 a b).toNat < 65536 := (rd16 a b).toNat_lt

theorem decTags_wf (acc : KMap) (bs : Bytes) (t : KMap) (hacc : TagsPre acc) (h : decTags acc bs = some t) :
    TagsPre t := by
  fun_induction decTags acc bs with
  | case1 acc => simp only [Option.some.injEq] at h; subst h; exact hacc
  | case2 acc t1 t2 l1 l2 r len hlen ih =>
    exact ih ⟨KMap.insert_sorted _ _ _ hacc.1, KMap.insert_keys_lt hacc.2 (rd16_lt t1 t2)⟩ h
  | case3 acc t1 t2 l1 l2 r len hlen hr => simp only [Option.some.injEq] at h; subst h; exact hacc
  | case4 => simp at h
  | case5 acc t1 t2 l1 l2 r len hlen hr hlt ih =>
    exact ih ⟨KMap.insert_sorted _ _ _ hacc.1, KMap.insert_keys_lt hacc.2 (rd16_lt t1 t2)⟩ h
  | case6 => simp at h

/-- canonical map with 8-bit keys: what UserDataHeader.ReadFrom builds -/
def UdhPre (els : KMap) : Prop := KSorted els ∧ ∀ kv ∈ els, kv.1 < 256

theorem decUdhLoop_wf (total i : Nat) (acc : KMap) (bs : Bytes) (els : KMap) (r : Bytes)
    (hacc : UdhPre acc) (h : decUdhLoop total i acc bs = some (els, r)) : UdhPre els := by
  fun_induction decUdhLoop total i acc bs with
  | case1 i acc hi id l r0 d r' htk ih =>
    exact ih ⟨KMap.insert_sorted _ _ _ hacc.1, KMap.insert_keys_lt hacc.2 id.toNat_lt⟩ h
  | case2 => simp at h
  | case3 => simp at h
  | case4 i acc bs hi =>
    simp only [Option.some.injEq, Prod.mk.injEq] at h
    obtain ⟨rfl, _⟩ := h
    exact hacc

/-- ShortMessage.ReadFrom: replace_sm never has data_coding or a header; otherwise a header is
present exactly when the UDH indicator was set, with canonical 8-bit keys. -/
theorem decSm_wf (rp u : Bool) (bs : Bytes) (m : ShortMsg) (r : Bytes) (h : decSm rp u bs = some (m, r))
    (hbf : rp = false → m.dc ≠ noCoding) : SmWF rp u m ∧ prepare rp u m = m := by
  unfold decSm at h
  cases rp <;> cases u <;> simp only [↓reduceIte, Bool.not_true, Bool.not_false, Bool.and_self, Bool.and_true, Bool.and_false, Bool.false_eq_true] at h
  all_goals (repeat' split at h)
  all_goals (try (simp at h; done))
  all_goals (simp only [Option.some.injEq, Prod.mk.injEq] at h; obtain ⟨rfl, _⟩ := h)
  · have := hbf rfl
    simp only [ne_eq] at this
    simp [SmWF, prepare, this]
  · have := hbf rfl
    simp only [ne_eq] at this
    rename_i hur _ _ _ _ _
    split at hur
    · simp at hur
    · split at hur
      · next els r3 hloop =>
        simp only [Option.some.injEq, Prod.mk.injEq] at hur
        obtain ⟨rfl, rfl⟩ := hur
        have hp := decUdhLoop_wf _ _ _ _ _ _ ⟨by simp [KSorted], by simp⟩ hloop
        refine ⟨⟨by simp [this], ?_⟩, by simp [prepare]⟩
        intro e he
        simp only [Option.some.injEq] at he
        subst he
        exact hp
      · simp at hur
  · simp [SmWF, prepare]
  · simp [SmWF, prepare]

/-- what a decoder arm returns: `FValWF` except that TLV value lengths are not yet bounded -/
def FValPre (rp U : Bool) : FVal → Prop
  | .tags t => TagsPre t
  | .sm m => SmWF rp U m ∧ prepare rp U m = m
  | v => FValWF rp U v

/-- no short message of a non-replace PDU carries the reserved data_coding 0xBF -/
def NoReserved (rp : Bool) (vs : List FVal) : Prop := ∀ m, FVal.sm m ∈ vs → rp = false → m.dc ≠ noCoding

theorem decField_wf (rp u : Bool) (k : Kind) (bs : Bytes) (v : FVal) (r : Bytes) (hk : k ≠ .header)
    (h : decField rp u k bs = some (v, r)) (hbf : NoReserved rp [v]) :
    v.hasKind k = true ∧ FValPre rp u v := by
  cases k with
  | header => exact absurd rfl hk
  | cstr =>
    simp only [decField, Option.map_eq_some_iff, Prod.mk.injEq, Prod.exists] at h
    obtain ⟨s, r', hrd, rfl, _⟩ := h
    exact ⟨rfl, (readCStr_some hrd).1⟩
  | u8 =>
    simp only [decField, Option.map_eq_some_iff, Prod.mk.injEq, Prod.exists] at h
    obtain ⟨s, r', _, rfl, _⟩ := h
    exact ⟨rfl, trivial⟩
  | bool =>
    simp only [decField, Option.map_eq_some_iff, Prod.mk.injEq, Prod.exists] at h
    obtain ⟨s, r', _, rfl, _⟩ := h
    exact ⟨rfl, trivial⟩
  | esm =>
    simp only [decField, Option.map_eq_some_iff, Prod.mk.injEq, Prod.exists] at h
    obtain ⟨s, r', _, rfl, _⟩ := h
    exact ⟨rfl, esm_dec_range s⟩
  | regdlv =>
    simp only [decField, Option.map_eq_some_iff, Prod.mk.injEq, Prod.exists] at h
    obtain ⟨s, r', _, rfl, _⟩ := h
    exact ⟨rfl, regdlv_dec_range s⟩
  | addr =>
    simp only [decField, Option.map_eq_some_iff, Prod.mk.injEq, Prod.exists] at h
    obtain ⟨a, r', ha, rfl, _⟩ := h
    exact ⟨rfl, decAddr_wf ha⟩
  | dests =>
    simp only [decField, Option.map_eq_some_iff, Prod.mk.injEq, Prod.exists] at h
    obtain ⟨a, r', ha, rfl, _⟩ := h
    exact ⟨rfl, decDests_wf ha⟩
  | unsucc =>
    simp only [decField, Option.map_eq_some_iff, Prod.mk.injEq, Prod.exists] at h
    obtain ⟨a, r', ha, rfl, _⟩ := h
    exact ⟨rfl, decUnsucc_wf ha⟩
  | tags =>
    simp only [decField, Option.map_eq_some_iff, Prod.mk.injEq] at h
    obtain ⟨t, ht, rfl, _⟩ := h
    exact ⟨rfl, decTags_wf [] _ _ ⟨by simp [KSorted], by simp⟩ ht⟩
  | sm =>
    simp only [decField, Option.map_eq_some_iff, Prod.mk.injEq, Prod.exists] at h
    obtain ⟨m, r', hm, rfl, _⟩ := h
    exact ⟨rfl, decSm_wf rp u bs m r' hm (hbf m (by simp))⟩
  | skipped g =>
    simp only [decField, Option.some.injEq, Prod.mk.injEq] at h
    obtain ⟨rfl, _⟩ := h
    exact ⟨rfl, rfl⟩

theorem FValPre_indep (rp U U' : Bool) (v : FVal) (h : ∀ m, v ≠ .sm m) : FValPre rp U v → FValPre rp U' v := by
  cases v <;> simp_all [FValPre, FValWF]

/-- The induction over the fields after the header: everything decoded is typed and well-formed
with respect to the UDH indicator the finished struct holds. -/
theorem decFields_wf (rp : Bool) : ∀ (fs : List Field) (u : Bool) (bs : Bytes) (vs : List FVal),
    noHeader fs = true → esmOK fs = true → decFields rp u fs bs = some vs → NoReserved rp vs →
    Typed fs vs = true ∧ ∀ x ∈ vs, FValPre rp (if esmAhead fs then udhiOf fs vs else u) x := by
  intro fs
  induction fs with
  | nil =>
    intro u bs vs _ _ h _
    simp only [decFields, Option.some.injEq] at h
    subst h
    simp [Typed]
  | cons f fs ih =>
    intro u bs vs hnh hesm h hbf
    simp only [noHeader, List.all_cons, Bool.and_eq_true, bne_iff_ne, ne_eq] at hnh
    obtain ⟨hfk, hnh'⟩ := hnh
    unfold decFields at h
    simp only [hfk, ↓reduceIte] at h
    cases hd : decField rp u f.kind bs with
    | none => simp [hd] at h
    | some p =>
      obtain ⟨v, r⟩ := p
      simp only [hd] at h
      cases hr : decFields rp (udhiNext u f v) fs r with
      | none => simp [hr] at h
      | some vs' =>
        simp only [hr, Option.some.injEq] at h
        subst h
        have hbf1 : NoReserved rp [v] := fun m hm => hbf m (by simp at hm; simp [hm])
        have hbf2 : NoReserved rp vs' := fun m hm => hbf m (by simp [hm])
        obtain ⟨hkind, hpre⟩ := decField_wf rp u f.kind bs v r hfk hd hbf1
        simp only [esmOK, Bool.and_eq_true] at hesm
        obtain ⟨⟨hE1, hE2⟩, hE3⟩ := hesm
        obtain ⟨hty, hwf⟩ := ih (udhiNext u f v) r vs' (by simpa [noHeader] using hnh') hE3 hr hbf2
        refine ⟨by simp [Typed, hkind, hty], ?_⟩
        by_cases hname : f.name = "ESMClass"
        · -- this field is the ESMClass: it is an esm value and no later field has that name
          simp only [hname, beq_self_eq_true, ↓reduceIte, Bool.and_eq_true, beq_iff_eq,
            Bool.not_eq_true'] at hE1
          obtain ⟨hke, hna⟩ := hE1
          have hah : esmAhead (f :: fs) = true := by simp [esmAhead, hname]
          cases v with
          | esm e =>
            have hU : udhiOf (f :: fs) (FVal.esm e :: vs') = e.udhi := by simp [udhiOf, hname]
            have hN : udhiNext u f (.esm e) = e.udhi := by simp [udhiNext, hname]
            simp only [hah, ↓reduceIte, hU]
            simp only [hna, Bool.false_eq_true, ↓reduceIte, hN] at hwf
            intro x hx
            simp only [List.mem_cons] at hx
            rcases hx with rfl | hx
            · exact FValPre_indep rp u _ _ (by simp) hpre
            · exact hwf x hx
          | _ => rw [hke] at hkind; simp [FVal.hasKind] at hkind
        · have hah : esmAhead (f :: fs) = esmAhead fs := by
            simp [esmAhead, hname]
          have hU : udhiOf (f :: fs) (v :: vs') = udhiOf fs vs' := udhiOf_cons_ne f fs v vs' hname
          have hN : udhiNext u f v = u := by simp [udhiNext, hname]
          rw [hah, hU]
          rw [hN] at hwf
          intro x hx
          simp only [List.mem_cons] at hx
          rcases hx with rfl | hx
          · by_cases hsm : f.kind = .sm
            · -- a short message has no ESMClass at or after it: the indicator is final
              simp only [hsm, beq_self_eq_true, ↓reduceIte, Bool.not_eq_true'] at hE2
              rw [hah] at hE2
              simpa [hE2] using hpre
            · refine FValPre_indep rp u _ x ?_ hpre
              intro m hm
              subst hm
              cases hk : f.kind <;> rw [hk] at hkind <;> simp [FVal.hasKind] at hkind
              exact hsm hk
          · exact hwf x hx

end Smpp.Pdu
