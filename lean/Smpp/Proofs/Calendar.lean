/-
Exhaustive check (kernel evaluation, every day of 2000-01-01 … 2099-12-31) that
the day-number conversion is the identity on valid civil dates.  ~4 minutes; cached.
-/
import Smpp.Model.Calendar

namespace Smpp.Time

def calOK (y m d : Nat) : Bool :=
  !(d ≤ daysInMonth y m) ||
    civilFromDays (daysFromCivil (y : Int) (m : Int) (d : Int)) == ((y : Int), (m : Int), (d : Int))

def calAllOK : Bool :=
  (List.range 100).all fun yy => (List.range 12).all fun m => (List.range 31).all fun d =>
    calOK (2000 + yy) (m + 1) (d + 1)

theorem calAllOK_true : calAllOK = true := by decide +kernel

/-- For every valid civil date of the years 2000–2099 the round trip through day numbers is the identity. -/
theorem civil_roundtrip (y m d : Nat) (hy : 2000 ≤ y ∧ y ≤ 2099) (hm : 1 ≤ m ∧ m ≤ 12)
    (hd : 1 ≤ d ∧ d ≤ daysInMonth y m) :
    civilFromDays (daysFromCivil (y : Int) (m : Int) (d : Int)) = ((y : Int), (m : Int), (d : Int)) := by
  have h := calAllOK_true
  unfold calAllOK at h
  rw [List.all_eq_true] at h
  have h1 := h (y - 2000) (List.mem_range.mpr (by omega))
  rw [List.all_eq_true] at h1
  have h2 := h1 (m - 1) (List.mem_range.mpr (by omega))
  rw [List.all_eq_true] at h2
  have hd31 : d ≤ 31 := by
    have : daysInMonth y m ≤ 31 := by unfold daysInMonth; split <;> (try split) <;> omega
    omega
  have h3 := h2 (d - 1) (List.mem_range.mpr (by omega))
  have e1 : 2000 + (y - 2000) = y := by omega
  have e2 : m - 1 + 1 = m := by omega
  have e3 : d - 1 + 1 = d := by omega
  rw [e1, e2, e3] at h3
  unfold calOK at h3
  simp only [Bool.or_eq_true, Bool.not_eq_true', decide_eq_false_iff_not, beq_iff_eq] at h3
  rcases h3 with h3 | h3
  · exact absurd hd.2 h3
  · exact h3

end Smpp.Time
