/-
Text level of the GSM 7-bit codec: the tables are mutually inverse on the accepted
repertoire (a finite check on the regenerated tables), hence decoding what the encoder
produced returns the text — up to the one trailing CR of the ambiguous case.
-/
import Smpp.Proofs.Gsm7Pack

namespace Smpp.Gsm7

/-- every rune the encoder can accept, listed from the tables -/
def acceptedList (rev : List Nat) (escs : List (Nat × Nat)) : List Nat :=
  (((rev.take 128).zipIdx).filter (fun p => p.2 != esc)).map (·.1) ++ escs.map (·.1)

/-- per-rune consistency of the forward and inverse tables -/
def runeOK (rev : List Nat) (escs : List (Nat × Nat)) (r : Nat) : Bool :=
  match forwardOf rev r with
  | some v => v != esc && decide (v < 128) && rev.getD v 0 == r && (v != cr || r == 13)
  | none =>
    match escapeOf escs r with
    | some v => unescapeOf escs v == some r && decide (v < 128) && v != cr
    | none => true

/-- the finite condition checked on the regenerated tables -/
def tablesOK (rev : List Nat) (escs : List (Nat × Nat)) : Bool :=
  (acceptedList rev escs).all (runeOK rev escs) && rev.getD cr 0 == 13

theorem forwardOf_mem {rev : List Nat} {escs : List (Nat × Nat)} {r v : Nat} (h : forwardOf rev r = some v) :
    r ∈ acceptedList rev escs := by
  unfold forwardOf at h
  simp only [Option.map_eq_some_iff] at h
  obtain ⟨p, hp, _⟩ := h
  have hm := List.mem_of_getLast? hp
  simp only [List.mem_filter, Bool.and_eq_true, bne_iff_ne, ne_eq, beq_iff_eq] at hm
  unfold acceptedList
  apply List.mem_append_left
  simp only [List.mem_map, List.mem_filter, bne_iff_ne, ne_eq]
  exact ⟨p, ⟨hm.1, hm.2.1⟩, hm.2.2⟩

theorem escapeOf_mem {rev : List Nat} {escs : List (Nat × Nat)} {r v : Nat} (h : escapeOf escs r = some v) :
    r ∈ acceptedList rev escs := by
  unfold escapeOf at h
  simp only [Option.map_eq_some_iff] at h
  obtain ⟨p, hp, _⟩ := h
  have hm := List.mem_of_find?_eq_some hp
  have hk := List.find?_some hp
  simp only [beq_iff_eq] at hk
  unfold acceptedList
  apply List.mem_append_right
  simp only [List.mem_map]
  exact ⟨p, hm, hk⟩

theorem runeOK_all {rev : List Nat} {escs : List (Nat × Nat)} (hT : tablesOK rev escs = true) (r : Nat) :
    runeOK rev escs r = true := by
  unfold tablesOK at hT
  simp only [Bool.and_eq_true, List.all_eq_true] at hT
  cases hf : forwardOf rev r with
  | some v => exact hT.1 r (forwardOf_mem hf)
  | none =>
    cases he : escapeOf escs r with
    | some v => exact hT.1 r (escapeOf_mem he)
    | none => simp [runeOK, hf, he]

theorem toSeptets_lt {rev : List Nat} {escs : List (Nat × Nat)} (hT : tablesOK rev escs = true) :
    ∀ (t s : List Nat), toSeptets rev escs t = some s → ∀ x ∈ s, x < 128 := by
  intro t
  induction t with
  | nil => intro s h; simp [toSeptets] at h; subst h; simp
  | cons r t ih =>
    intro s h x hx
    have hr := runeOK_all hT r
    simp only [toSeptets] at h
    cases hf : forwardOf rev r with
    | some v =>
      simp only [hf, Option.map_eq_some_iff] at h
      obtain ⟨s', hs', rfl⟩ := h
      simp only [runeOK, hf, Bool.and_eq_true, decide_eq_true_eq] at hr
      simp only [List.mem_cons] at hx
      rcases hx with rfl | hx
      · exact hr.1.1.2
      · exact ih s' hs' x hx
    | none =>
      simp only [hf] at h
      cases he : escapeOf escs r with
      | some v =>
        simp only [he, Option.map_eq_some_iff] at h
        obtain ⟨s', hs', rfl⟩ := h
        simp only [runeOK, hf, he, Bool.and_eq_true, decide_eq_true_eq] at hr
        simp only [List.mem_cons] at hx
        rcases hx with rfl | rfl | hx
        · decide
        · exact hr.1.2
        · exact ih s' hs' x hx
      | none => simp [he] at h

/-- decoding the septets of a text (followed by anything) yields the text (followed by the rest) -/
theorem decodeSeptets_toSeptets {rev : List Nat} {escs : List (Nat × Nat)} (hT : tablesOK rev escs = true) :
    ∀ (t s rest : List Nat), toSeptets rev escs t = some s →
      decodeSeptets rev escs (s ++ rest) = (decodeSeptets rev escs rest).map (t ++ ·) := by
  intro t
  induction t with
  | nil =>
    intro s rest h
    simp [toSeptets] at h
    subst h
    simp only [List.nil_append]
    cases decodeSeptets rev escs rest <;> simp
  | cons r t ih =>
    intro s rest h
    have hr := runeOK_all hT r
    simp only [toSeptets] at h
    cases hf : forwardOf rev r with
    | some v =>
      simp only [hf, Option.map_eq_some_iff] at h
      obtain ⟨s', hs', rfl⟩ := h
      simp only [runeOK, hf, Bool.and_eq_true, decide_eq_true_eq, bne_iff_ne, ne_eq, beq_iff_eq] at hr
      have hne : (v != esc) = true := by simp [hr.1.1.1]
      rw [List.cons_append, decodeSeptets.eq_def]
      simp only [hne, ↓reduceIte, ih s' rest hs', hr.1.2]
      cases decodeSeptets rev escs rest <;> simp
    | none =>
      simp only [hf] at h
      cases he : escapeOf escs r with
      | some v =>
        simp only [he, Option.map_eq_some_iff] at h
        obtain ⟨s', hs', rfl⟩ := h
        simp only [runeOK, hf, he, Bool.and_eq_true, decide_eq_true_eq, beq_iff_eq] at hr
        have hesc : (esc != esc) = false := by decide
        rw [List.cons_append, List.cons_append, decodeSeptets.eq_def]
        simp only [hesc, Bool.false_eq_true, ↓reduceIte, hr.1.1, ih s' rest hs']
        cases decodeSeptets rev escs rest <;> simp
      | none => simp [he] at h

/-- the last septet of a text is CR only if the text ends in the CR character -/
theorem toSeptets_last_cr {rev : List Nat} {escs : List (Nat × Nat)} (hT : tablesOK rev escs = true) :
    ∀ (t s : List Nat), toSeptets rev escs t = some s → s.getLast? = some cr → t.getLast? = some 13 := by
  intro t
  induction t with
  | nil => intro s h hl; simp [toSeptets] at h; subst h; simp at hl
  | cons r t ih =>
    intro s h hl
    have hr := runeOK_all hT r
    simp only [toSeptets] at h
    cases hf : forwardOf rev r with
    | some v =>
      simp only [hf, Option.map_eq_some_iff] at h
      obtain ⟨s', hs', rfl⟩ := h
      simp only [runeOK, hf, Bool.and_eq_true, decide_eq_true_eq, bne_iff_ne, ne_eq, beq_iff_eq, Bool.or_eq_true] at hr
      cases s' with
      | nil =>
        have ht : t = [] := by
          cases t with
          | nil => rfl
          | cons a t' =>
            simp only [toSeptets] at hs'
            cases h1 : forwardOf rev a <;> simp [h1] at hs'
            cases h2 : escapeOf escs a <;> simp [h2] at hs'
        subst ht
        simp only [List.getLast?_singleton, Option.some.injEq] at hl
        subst hl
        rcases hr.2 with h | h
        · exact absurd rfl h
        · simp [h]
      | cons a s'' =>
        have hl' : (a :: s'').getLast? = some cr := by simpa [List.getLast?_cons_cons] using hl
        have := ih (a :: s'') hs' hl'
        cases t with
        | nil => simp at this
        | cons b t' => simpa [List.getLast?_cons_cons] using this
    | none =>
      simp only [hf] at h
      cases he : escapeOf escs r with
      | some v =>
        simp only [he, Option.map_eq_some_iff] at h
        obtain ⟨s', hs', rfl⟩ := h
        simp only [runeOK, hf, he, Bool.and_eq_true, decide_eq_true_eq, beq_iff_eq, bne_iff_ne, ne_eq] at hr
        cases s' with
        | nil =>
          simp only [List.getLast?_cons_cons, List.getLast?_singleton, Option.some.injEq] at hl
          exact absurd hl hr.2
        | cons a s'' =>
          have hl' : (a :: s'').getLast? = some cr := by simpa [List.getLast?_cons_cons] using hl
          have := ih (a :: s'') hs' hl'
          cases t with
          | nil => simp at this
          | cons b t' => simpa [List.getLast?_cons_cons] using this
      | none => simp [he] at h

theorem toSeptets_nil {rev : List Nat} {escs : List (Nat × Nat)} (t : List Nat)
    (h : toSeptets rev escs t = some []) : t = [] := by
  cases t with
  | nil => rfl
  | cons a t' =>
    simp only [toSeptets] at h
    cases h1 : forwardOf rev a <;> simp [h1] at h
    cases h2 : escapeOf escs a <;> simp [h2] at h

/-- **Round trip.**  Decoding the encoder's output returns the text; only when the text has a
multiple of eight septets and ends in CR is that final CR taken for a filler and dropped. -/
theorem decode_encode {rev : List Nat} {escs : List (Nat × Nat)} (hT : tablesOK rev escs = true)
    (t : List Nat) (b : List UInt8) (he : encode rev escs t = some b) :
    decode rev escs b = some t ∨
    (∃ s, toSeptets rev escs t = some s ∧ s.length % 8 = 0 ∧ t.getLast? = some 13 ∧
      decode rev escs b = some t.dropLast) := by
  unfold encode at he
  by_cases ht : t.isEmpty = true
  · simp only [ht, ↓reduceIte, Option.some.injEq] at he
    subst he
    left
    have : t = [] := List.isEmpty_iff.mp ht
    simp [decode, this]
  · simp only [ht, Bool.false_eq_true, ↓reduceIte, Option.map_eq_some_iff] at he
    obtain ⟨s, hs, rfl⟩ := he
    have hlt := toSeptets_lt hT t s hs
    have hun := unpack_pack s hlt
    have hsne : s ≠ [] := by
      intro h0; subst h0
      exact ht (by simp [toSeptets_nil t hs])
    have hbne : (pack s).isEmpty = false := by
      have hl := pack_length s
      have : 0 < s.length := List.length_pos_iff.mpr hsne
      cases hp : pack s with
      | nil => rw [hp] at hl; simp at hl; omega
      | cons _ _ => rfl
    unfold decode
    simp only [hbne, Bool.false_eq_true, ↓reduceIte, hun]
    unfold withFiller
    by_cases h7 : s.length % 8 = 7
    · -- filler present: stripped again
      left
      have hcr : rev.getD cr 0 = 13 := by
        unfold tablesOK at hT; simp only [Bool.and_eq_true, beq_iff_eq] at hT; exact hT.2
      have hd := decodeSeptets_toSeptets hT t s [cr] hs
      have hcrne : (cr != esc) = true := by decide
      simp only [decodeSeptets, hcrne, ↓reduceIte, Option.map_some, hcr] at hd
      simp only [h7, ↓reduceIte, hd, List.length_append, List.length_cons, List.length_nil]
      have h0 : (s.length + (0 + 1)) % 8 = 0 := by omega
      simp [h0]
    · have hd := decodeSeptets_toSeptets hT t s [] hs
      simp only [List.append_nil, decodeSeptets, Option.map_some] at hd
      simp only [h7, ↓reduceIte, hd]
      by_cases hstrip : (decide (s.length % 8 = 0) && s.getLast? == some cr) = true
      · right
        simp only [Bool.and_eq_true, decide_eq_true_eq, beq_iff_eq] at hstrip
        refine ⟨s, hs, hstrip.1, toSeptets_last_cr hT t s hs hstrip.2, ?_⟩
        simp [hstrip.1, hstrip.2]
      · left
        simp only [Bool.and_eq_true, decide_eq_true_eq, beq_iff_eq, not_and] at hstrip
        by_cases h0 : s.length % 8 = 0
        · simp [h0, hstrip h0]
        · simp [h0]

end Smpp.Gsm7
