/-
Counting argument for C10 "once": for any segment x, the number of times x is held in the registry
plus the number of times it has been delivered never exceeds the number of times it arrived.
-/
import Smpp.Proofs.CombinerProofs

namespace Smpp.Combiner
open Smpp Smpp.Pdu

/-- every segment currently held in some slot of the registry -/
def stored (r : Registry) : List Seg := r.flatMap (fun e => e.2.filterMap id)

theorem stored_cons (e : Key × List (Option Seg)) (r : Registry) :
    stored (e :: r) = e.2.filterMap id ++ stored r := by
  simp [stored]

theorem count_erase_le (x : Seg) (r : Registry) (k : Key) :
    (stored (regErase r k)).count x ≤ (stored r).count x := by
  induction r with
  | nil => simp [regErase, stored]
  | cons e r ih =>
    by_cases hk : (e.1 == k) = true
    · have h2 : regErase (e :: r) k = regErase r k := by simp [regErase, hk]
      rw [h2, stored_cons, List.count_append]
      omega
    · have hk' : (e.1 == k) = false := by simpa using hk
      have h2 : regErase (e :: r) k = e :: regErase r k := by simp [regErase, hk']
      rw [h2, stored_cons, stored_cons, List.count_append, List.count_append]
      omega

theorem count_find_erase_le (x : Seg) (r : Registry) (k : Key) (dflt : List (Option Seg))
    (hd : dflt.filterMap id = []) :
    (stored (regErase r k)).count x + (((regFind r k).getD dflt).filterMap id).count x ≤ (stored r).count x := by
  induction r with
  | nil => simp [regErase, regFind, stored, hd]
  | cons e r ih =>
    by_cases hk : (e.1 == k) = true
    · have h1 : regFind (e :: r) k = some e.2 := by simp [regFind, List.find?, hk]
      have h2 : regErase (e :: r) k = regErase r k := by simp [regErase, hk]
      have := count_erase_le x r k
      rw [h1, h2, stored_cons, List.count_append]
      simp only [Option.getD_some]
      omega
    · have hk' : (e.1 == k) = false := by simpa using hk
      have h1 : regFind (e :: r) k = regFind r k := by simp [regFind, List.find?, hk']
      have h2 : regErase (e :: r) k = e :: regErase r k := by simp [regErase, hk']
      rw [h1, h2, stored_cons, stored_cons, List.count_append, List.count_append]
      omega

theorem count_set_le (x p : Seg) : ∀ (slots : List (Option Seg)) (i : Nat),
    ((slots.set i (some p)).filterMap id).count x ≤ (slots.filterMap id).count x + (if p = x then 1 else 0)
  | [], _ => by simp
  | o :: rest, 0 => by
    cases o <;> simp [List.set, List.count_cons] <;> split <;> omega
  | o :: rest, i + 1 => by
    have ih := count_set_le x p rest i
    cases o <;> simp only [List.set, List.filterMap_cons, id, List.count_cons] <;> omega

theorem count_stored_set (x : Seg) (r : Registry) (k : Key) (s : List (Option Seg)) :
    (stored (regSet r k s)).count x = (s.filterMap id).count x + (stored (regErase r k)).count x := by
  simp [regSet, stored_cons, List.count_append]

/-- one call: held + delivered grows by at most one occurrence, and only of the segment that arrived -/
theorem step_count (x : Seg) (r r' : Registry) (p : Seg) (ds : List (List Seg))
    (h : step r p = .ok (r', ds)) :
    (stored r').count x + ds.flatten.count x ≤ (stored r).count x + (if p = x then 1 else 0) := by
  unfold step at h
  split at h
  · cases h
  · cases h
    simp only [List.flatten_cons, List.flatten_nil, List.append_nil, List.count_cons, List.count_nil, beq_iff_eq]
    split <;> omega
  · rename_i hd _
    split at h
    · cases h; simp
    · have hrep : (List.replicate hd.total (none : Option Seg)).filterMap id = [] := by simp
      dsimp only at h
      have hfe := count_find_erase_le x r ⟨p.src, p.dst, hd.reference⟩ (List.replicate hd.total none) hrep
      split at h
      · cases h
        rw [count_stored_set]
        simp only [List.flatten_nil, List.count_nil]
        split <;> omega
      · split at h
        · cases h
        · rename_i slots' hset
          have hs := count_set_le x p ((regFind r ⟨p.src, p.dst, hd.reference⟩).getD (List.replicate hd.total none)) ((hd.seq + 255) % 256)
          unfold setSlot at hset
          simp only at hset
          split at hset
          · cases hset
            split at h
            · cases h
              simp only [List.flatten_cons, List.flatten_nil, List.append_nil]
              omega
            · cases h
              rw [count_stored_set]
              simp only [List.flatten_nil, List.count_nil]
              omega
          · cases hset

theorem run_count (x : Seg) : ∀ (ps : List Seg) (r r' : Registry) (ds : List (List Seg)),
    run r ps = .ok (r', ds) →
    (stored r').count x + ds.flatten.count x ≤ (stored r).count x + ps.count x
  | [], r, r', ds, h => by
    simp only [run] at h; cases h; simp
  | p :: ps, r, r', ds, h => by
    simp only [run] at h
    cases hst : step r p with
    | panic s => rw [hst] at h; cases h
    | ok o =>
      obtain ⟨r1, d⟩ := o
      rw [hst] at h
      simp only at h
      cases hrun : run r1 ps with
      | panic s => rw [hrun] at h; cases h
      | ok o2 =>
        obtain ⟨r2, ds2⟩ := o2
        rw [hrun] at h
        simp only [P.ok.injEq, Prod.mk.injEq] at h
        obtain ⟨rfl, rfl⟩ := h
        have h1 := step_count x r r1 p d hst
        have h2 := run_count x ps r1 r2 ds2 hrun
        simp only [List.flatten_append, List.count_append, List.count_cons, beq_iff_eq]
        split at h1 <;> split <;> simp_all <;> omega

end Smpp.Combiner
