/-
A verified inclusion test for unions of closed intervals: one linear sweep per interval.
-/
import Smpp.Model.Coding

namespace Smpp.Coding

/-- sweep: are all points of [p, hi] covered by intervals of X?  (complete when X is sorted by
lower bound; SOUND for any X).  The position passed on is always either the old `p` or `x.2 + 1`
— never a growing expression — so that the kernel evaluates each step in constant time. -/
def sweep : List (Nat × Nat) → Nat → Nat → Bool
  | [], p, hi => decide (p > hi)
  | x :: xs, p, hi =>
    if p > hi then true
    else if x.1 ≤ p then (if x.2 < p then sweep xs p hi else sweep xs (x.2 + 1) hi)
    else false

theorem sweep_sound : ∀ (X : List (Nat × Nat)) (p hi : Nat), sweep X p hi = true →
    ∀ r, p ≤ r → r ≤ hi → inIv X r = true := by
  intro X
  induction X with
  | nil =>
    intro p hi h r hp hh
    simp only [sweep, decide_eq_true_eq] at h
    omega
  | cons x xs ih =>
    intro p hi h r hp hh
    simp only [sweep] at h
    by_cases h1 : p > hi
    · omega
    · simp only [h1, ↓reduceIte] at h
      by_cases h2 : x.1 ≤ p
      · simp only [h2, ↓reduceIte] at h
        by_cases h3 : x.2 < p
        · simp only [h3, ↓reduceIte] at h
          have := ih p hi h r hp hh
          simp only [inIv, List.any_cons, Bool.or_eq_true]
          exact Or.inr this
        · simp only [h3, ↓reduceIte] at h
          by_cases hr : r ≤ x.2
          · simp only [inIv, List.any_cons, Bool.or_eq_true, Bool.and_eq_true, decide_eq_true_eq]
            exact Or.inl ⟨by omega, hr⟩
          · have := ih (x.2 + 1) hi h r (by omega) hh
            simp only [inIv, List.any_cons, Bool.or_eq_true]
            exact Or.inr this
      · simp [h2] at h

/-- every interval of V is covered by X -/
def coveredB (V X : List (Nat × Nat)) : Bool := V.all fun v => sweep X v.1 v.2

theorem covered_sound (V X : List (Nat × Nat)) (h : coveredB V X = true) (r : Nat)
    (hr : inIv V r = true) : inIv X r = true := by
  simp only [inIv, List.any_eq_true, Bool.and_eq_true, decide_eq_true_eq] at hr
  obtain ⟨v, hv, h1, h2⟩ := hr
  have := List.all_eq_true.mp h v hv
  exact sweep_sound X v.1 v.2 this r h1 h2

/-- merge by lower bound (no coalescing needed); structural on the fuel so that the kernel evaluates it -/
def mergeAux : Nat → List (Nat × Nat) → List (Nat × Nat) → List (Nat × Nat)
  | 0, xs, ys => xs ++ ys
  | _ + 1, [], ys => ys
  | _ + 1, xs, [] => xs
  | f + 1, x :: xs, y :: ys =>
    if x.1 ≤ y.1 then x :: mergeAux f xs (y :: ys) else y :: mergeAux f (x :: xs) ys

def mergeLo (xs ys : List (Nat × Nat)) : List (Nat × Nat) := mergeAux (xs.length + ys.length) xs ys

theorem mem_mergeAux : ∀ (f : Nat) (xs ys : List (Nat × Nat)) (z : Nat × Nat),
    z ∈ mergeAux f xs ys → z ∈ xs ∨ z ∈ ys := by
  intro f
  induction f with
  | zero => intro xs ys z h; simpa [mergeAux] using h
  | succ f ih =>
    intro xs ys z h
    cases xs with
    | nil => simp [mergeAux] at h; exact Or.inr h
    | cons x xs =>
      cases ys with
      | nil => simp [mergeAux] at h; exact Or.inl (by simpa using h)
      | cons y ys =>
        simp only [mergeAux] at h
        split at h
        · simp only [List.mem_cons] at h
          rcases h with rfl | h
          · exact Or.inl (by simp)
          · rcases ih xs (y :: ys) z h with h | h
            · exact Or.inl (by simp [h])
            · exact Or.inr h
        · simp only [List.mem_cons] at h
          rcases h with rfl | h
          · exact Or.inr (by simp)
          · rcases ih (x :: xs) ys z h with h | h
            · exact Or.inl h
            · exact Or.inr (by simp [h])

theorem inIv_mergeLo (xs ys : List (Nat × Nat)) (r : Nat) (h : inIv (mergeLo xs ys) r = true) :
    inIv xs r = true ∨ inIv ys r = true := by
  simp only [inIv, List.any_eq_true] at h ⊢
  obtain ⟨z, hz, hc⟩ := h
  rcases mem_mergeAux _ xs ys z hz with h | h
  · exact Or.inl ⟨z, h, hc⟩
  · exact Or.inr ⟨z, h, hc⟩

end Smpp.Coding
