/-
Marshal followed by ReadPDU: the top-level round trip (C01), from which the
stability of re-encoding (C13) also follows.
-/
import Smpp.Proofs.Fields
import Smpp.Proofs.Framing

namespace Smpp.Pdu
open Smpp

theorem decHeader_enc (h : Header) (r : Bytes) : decHeader (encHeader h ++ r) = some (h, r) := by
  obtain ⟨a, b, c, d⟩ := h
  simp only [encHeader, be32, List.cons_append, List.nil_append, decHeader, rd32_be32]

theorem encHeader_length (h : Header) : (encHeader h).length = 16 := rfl

theorem setLen_encHeader (n : Nat) (h : Header) (r : Bytes) :
    setLen n (encHeader h ++ r) = encHeader { h with len := UInt32.ofNat n } ++ r := by
  simp [encHeader, be32, setLen]

/-- What ReadPDU returns for a frame Marshal produced from `after` (the struct as Marshal left it). -/
def decodedOf (L : Layout) (n : Nat) (after : List FVal) : List FVal :=
  match after with
  | .header h' :: rest' =>
    let hd := FVal.header { h' with len := UInt32.ofNat n }
    if h'.status != 0 then hd :: L.fields.tail.map (fun g => zeroVal g.kind)
    else hd :: rest'.map normVal
  | _ => []

/-- Shape of a successful Marshal. -/
theorem marshal_ok (L : Layout) (h : Header) (rest : List FVal) (b : Bytes) (after : List FVal)
    (hm : marshal L (.header h :: rest) = ⟨.ok b, after⟩) :
    h.seqPos = true ∧
    ((h.status ≠ 0 ∧ (∃ n16 : UInt32, n16.toNat = 16 ∧ b = encHeader ⟨n16, UInt32.ofNat L.id, h.status, h.seq⟩) ∧
        after = .header ⟨h.len, UInt32.ofNat L.id, h.status, h.seq⟩ :: rest) ∨
     (h.status = 0 ∧ ∃ body rest', encFields L.isReplace (udhiOf L.fields (.header h :: rest)) rest = .ok (body, rest') ∧
        b = encHeader ⟨UInt32.ofNat (16 + body.length), UInt32.ofNat L.id, h.status, h.seq⟩ ++ body ∧
        after = .header ⟨h.len, UInt32.ofNat L.id, h.status, h.seq⟩ :: rest')) := by
  unfold marshal at hm
  simp only at hm
  by_cases hseq : h.seqPos = true
  · refine ⟨hseq, ?_⟩
    simp only [hseq, Bool.not_true, Bool.false_eq_true, ↓reduceIte] at hm
    by_cases hst : (h.status != 0) = true
    · left
      simp only [hst, ↓reduceIte, MarshalOut.mk.injEq, Res.ok.injEq] at hm
      obtain ⟨hb, ha⟩ := hm
      refine ⟨by simpa using hst, ⟨UInt32.ofNat 16, by decide, ?_⟩, ha.symm⟩
      rw [← hb, encHeader_length]
      have := setLen_encHeader 16 ⟨h.len, UInt32.ofNat L.id, h.status, h.seq⟩ []
      simp only [List.append_nil] at this
      exact this
    · right
      simp only [hst, Bool.false_eq_true, ↓reduceIte] at hm
      refine ⟨by simpa using hst, ?_⟩
      cases he : encFields L.isReplace (udhiOf L.fields (.header h :: rest)) rest with
      | error e => simp [he] at hm
      | ok p =>
        obtain ⟨body, rest'⟩ := p
        simp only [he] at hm
        have hlen4 : ¬ ((encHeader ⟨h.len, UInt32.ofNat L.id, h.status, h.seq⟩ ++ body).length < 4) := by
          simp [encHeader_length]; omega
        simp only [hlen4, ↓reduceIte, MarshalOut.mk.injEq, Res.ok.injEq] at hm
        obtain ⟨hb, ha⟩ := hm
        refine ⟨body, rest', rfl, ?_, ha.symm⟩
        rw [← hb, setLen_encHeader]
        simp [encHeader_length]
  · simp only [hseq, Bool.not_false, ↓reduceIte, MarshalOut.mk.injEq] at hm
    cases hm.1

/-- The frame Marshal wrote decodes (by `unmarshal`) to the value Marshal left behind. -/
theorem unmarshal_marshal (L : Layout) (hL : LayoutOK L = true) (h : Header) (rest : List FVal)
    (hty : Typed L.fields (.header h :: rest) = true)
    (hwf : ∀ x ∈ rest, FValWF L.isReplace (udhiOf L.fields (.header h :: rest)) x)
    (b : Bytes) (after : List FVal) (hm : marshal L (.header h :: rest) = ⟨.ok b, after⟩)
    (hlen : b.length ≤ 65536) :
    unmarshal L b = some (decodedOf L b.length after) ∧ 16 ≤ b.length := by
  unfold LayoutOK at hL
  cases hf : L.fields with
  | nil => simp [hf] at hL
  | cons f fs =>
    simp only [hf, Bool.and_eq_true, beq_iff_eq, bne_iff_ne, ne_eq, decide_eq_true_eq] at hL
    obtain ⟨⟨⟨⟨⟨hfk, hfn⟩, hnh⟩, htl⟩, hesm⟩, hid⟩ := hL
    simp only [hf, Typed, Bool.and_eq_true] at hty
    obtain ⟨_, hcase⟩ := marshal_ok L h rest b after hm
    rcases hcase with ⟨hst, ⟨n16, hn16, hb⟩, ha⟩ | ⟨hst, body, rest', he, hb, ha⟩
    · subst hb ha
      rw [encHeader_length]
      refine ⟨?_, Nat.le_refl 16⟩
      unfold unmarshal
      rw [hf, decFields]
      have hd := decHeader_enc ⟨n16, UInt32.ofNat L.id, h.status, h.seq⟩ []
      simp only [List.append_nil] at hd
      have hst' : (h.status != 0) = true := by simpa using hst
      have hn : UInt32.ofNat 16 = n16 := by
        apply UInt32.toNat_inj.mp; rw [hn16]; decide
      have hrange : (decide (n16.toNat < 16) || decide (n16.toNat > 0x10000)) = false := by
        rw [hn16]; decide
      have hdc : decHeaderChecked (encHeader ⟨n16, UInt32.ofNat L.id, h.status, h.seq⟩)
          = some (⟨n16, UInt32.ofNat L.id, h.status, h.seq⟩, []) := by
        unfold decHeaderChecked
        rw [hd]
        simp only [hrange, Bool.false_eq_true, ↓reduceIte]
      rw [if_pos hfk, hdc]
      simp only [hst', ↓reduceIte, decodedOf, hf, List.tail_cons, hn]
    · subst hb ha
      have hbl : (encHeader ⟨UInt32.ofNat (16 + body.length), UInt32.ofNat L.id, h.status, h.seq⟩ ++ body).length
          = 16 + body.length := by simp [encHeader_length]
      rw [hbl] at hlen ⊢
      refine ⟨?_, by omega⟩
      unfold unmarshal
      rw [hf, decFields]
      have hl : (UInt32.ofNat (16 + body.length)).toNat = 16 + body.length := u32_ofNat_toNat (by omega)
      have hrange : (decide ((UInt32.ofNat (16 + body.length)).toNat < 16)
          || decide ((UInt32.ofNat (16 + body.length)).toNat > 0x10000)) = false := by
        rw [hl]
        have hc1 : ¬ (16 + body.length < 16) := by omega
        have hc2 : ¬ (16 + body.length > 0x10000) := by omega
        simp only [hc1, hc2, decide_false, Bool.or_self]
      have hdc : decHeaderChecked (encHeader ⟨UInt32.ofNat (16 + body.length), UInt32.ofNat L.id, h.status, h.seq⟩ ++ body)
          = some (⟨UInt32.ofNat (16 + body.length), UInt32.ofNat L.id, h.status, h.seq⟩, body) := by
        unfold decHeaderChecked
        rw [decHeader_enc]
        simp only [hrange, Bool.false_eq_true, ↓reduceIte]
      have hst0 : (h.status != 0) = false := by simp [hst]
      rw [if_pos hfk, hdc]
      simp only [hst0, Bool.false_eq_true, ↓reduceIte]
      have hU : udhiOf L.fields (.header h :: rest) = udhiOf fs rest := by
        rw [hf]; exact udhiOf_cons_ne f fs _ rest hfn
      rw [hU] at he hwf
      have hinv : (if esmAhead fs then udhiOf fs rest = udhiOf fs rest else false = udhiOf fs rest) := by
        by_cases ha : esmAhead fs = true
        · simp [ha]
        · have ha' : esmAhead fs = false := by simpa using ha
          simp [ha', udhiOf_not_ahead fs rest ha']
      rw [decFields_enc L.isReplace (udhiOf fs rest) fs rest false body rest' hty.2 hwf htl hnh hesm hinv he]
      simp [decodedOf, hst]

end Smpp.Pdu
