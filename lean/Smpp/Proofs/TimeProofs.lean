/-
SMPP time strings: digit lemmas (finite, by evaluation), time.Date's normalisation is the
identity on valid civil dates (from the exhaustive calendar check), and the two round trips.
-/
import Smpp.Model.Time
import Smpp.Proofs.Calendar

namespace Smpp.Time

/-- the two ASCII digits of n < 100 -/
def d2a (n : Nat) : UInt8 := UInt8.ofNat (48 + n / 10)
def d2b (n : Nat) : UInt8 := UInt8.ofNat (48 + n % 10)

theorem fmt02_fin : ∀ n : Fin 100, fmt02 ((n.val : Nat) : Int) = [d2a n.val, d2b n.val] := by decide +kernel
theorem parse2_fin : ∀ n : Fin 100, parseInt [d2a n.val, d2b n.val] = ((n.val : Nat) : Int) := by decide +kernel
theorem fmtD_fin : ∀ n : Fin 10, fmtD ((n.val : Nat) : Int) = [UInt8.ofNat (48 + n.val)] := by decide +kernel
theorem parse1_fin : ∀ n : Fin 10, parseInt [UInt8.ofNat (48 + n.val)] = ((n.val : Nat) : Int) := by decide +kernel

theorem fmt02_lt {n : Nat} (h : n < 100) : fmt02 (n : Int) = [d2a n, d2b n] := fmt02_fin ⟨n, h⟩
theorem parse2_lt {n : Nat} (h : n < 100) : parseInt [d2a n, d2b n] = (n : Int) := parse2_fin ⟨n, h⟩
theorem fmtD_lt {n : Nat} (h : n < 10) : fmtD (n : Int) = [UInt8.ofNat (48 + n)] := fmtD_fin ⟨n, h⟩
theorem parse1_lt {n : Nat} (h : n < 10) : parseInt [UInt8.ofNat (48 + n)] = (n : Int) := parse1_fin ⟨n, h⟩

/-- digit characters come back from parse-then-format -/
theorem fmt02_parse_fin : ∀ a b : Fin 10,
    fmt02 (parseInt [UInt8.ofNat (48 + a.val), UInt8.ofNat (48 + b.val)])
      = [UInt8.ofNat (48 + a.val), UInt8.ofNat (48 + b.val)] := by decide +kernel

theorem parse2_range_fin : ∀ a b : Fin 10,
    parseInt [UInt8.ofNat (48 + a.val), UInt8.ofNat (48 + b.val)] = ((a.val * 10 + b.val : Nat) : Int) := by
  decide +kernel

theorem fmtD_parse_fin : ∀ a : Fin 10,
    fmtD (parseInt [UInt8.ofNat (48 + a.val)]) = [UInt8.ofNat (48 + a.val)] := by decide +kernel

/-! ### time.Date is the identity on valid civil fields -/

theorem dfc_linear (y m d : Int) : daysFromCivil y m 1 + (d - 1) = daysFromCivil y m d := by
  unfold daysFromCivil
  simp only
  omega

structure ValidCivil (y m d h mi s t : Nat) : Prop where
  year : 2000 ≤ y ∧ y ≤ 2099
  month : 1 ≤ m ∧ m ≤ 12
  day : 1 ≤ d ∧ d ≤ daysInMonth y m
  hour : h < 24
  min : mi < 60
  sec : s < 60
  tenth : t < 10

theorem norm_valid (y m d h mi s t : Nat) (off : Int) (hv : ValidCivil y m d h mi s t) :
    GoDate.norm ⟨y, m, d, h, mi, s, (t : Int) * 100000000, off⟩
      = ⟨y, m, d, h, mi, s, (t : Int) * 100000000, off⟩ := by
  obtain ⟨hy, hm, hd, hh, hmi, hs, ht⟩ := hv
  have hcal := civil_roundtrip y m d hy hm hd
  unfold GoDate.norm
  simp only
  have e1 : ((m : Int) - 1) / 12 = 0 := by omega
  have e2 : ((m : Int) - 1) % 12 + 1 = m := by omega
  have e3 : (t : Int) * 100000000 / 1000000000 = 0 := by omega
  have e4 : (t : Int) * 100000000 % 1000000000 = (t : Int) * 100000000 := by omega
  simp only [e1, e2, e3, e4, Int.add_zero]
  have hlin := dfc_linear y m d
  have htot : daysFromCivil (y : Int) m 1 * 86400 + ((d : Int) - 1) * 86400 + (h : Int) * 3600 + (mi : Int) * 60 + s
      = daysFromCivil (y : Int) m d * 86400 + ((h : Int) * 3600 + (mi : Int) * 60 + s) := by omega
  rw [htot]
  have hq : (daysFromCivil (y : Int) m d * 86400 + ((h : Int) * 3600 + (mi : Int) * 60 + s)) / 86400
      = daysFromCivil (y : Int) m d := by omega
  have hr : (daysFromCivil (y : Int) m d * 86400 + ((h : Int) * 3600 + (mi : Int) * 60 + s)) % 86400
      = (h : Int) * 3600 + (mi : Int) * 60 + s := by omega
  rw [hq, hr, hcal]
  simp only
  have a1 : ((h : Int) * 3600 + (mi : Int) * 60 + s) / 3600 = h := by omega
  have a2 : ((h : Int) * 3600 + (mi : Int) * 60 + s) % 3600 / 60 = mi := by omega
  have a3 : ((h : Int) * 3600 + (mi : Int) * 60 + s) % 60 = s := by omega
  rw [a1, a2, a3]

end Smpp.Time

namespace Smpp.Time

/-- the 16 characters `YYMMDDhhmmsstnnp` built from numbers -/
def encAbs (yy m d h mi s t q : Nat) (sym : UInt8) : List UInt8 :=
  [d2a yy, d2b yy, d2a m, d2b m, d2a d, d2b d, d2a h, d2b h, d2a mi, d2b mi, d2a s, d2b s,
   UInt8.ofNat (48 + t), d2a q, d2b q, sym]

def offsetOf (q : Nat) (sym : UInt8) : Int := if sym = 45 then -((q : Int) * 900) else (q : Int) * 900

theorem daysFromCivil_ge (y m d : Nat) (hy : 2000 ≤ y) (hm : 1 ≤ m ∧ m ≤ 12) (hd : 1 ≤ d) :
    -200000 ≤ daysFromCivil (y : Int) (m : Int) (d : Int) := by
  unfold daysFromCivil
  simp only
  generalize hy' : (if (m : Int) ≤ 2 then (y : Int) - 1 else (y : Int)) = y'
  have hy'' : 1999 ≤ y' := by rw [← hy']; split <;> omega
  have he : 4 ≤ y' / 400 := by omega
  generalize y' / 400 = era at *
  have hyoe : 0 ≤ y' - era * 400 ∨ True := Or.inr trivial
  have hmp : 0 ≤ (153 * (((m : Int) + 9) % 12) + 2) / 5 := by omega
  generalize (153 * (((m : Int) + 9) % 12) + 2) / 5 = dm at *
  by_cases hneg : 0 ≤ y' - era * 400
  · generalize y' - era * 400 = yoe at *
    have : 0 ≤ yoe * 365 + yoe / 4 - yoe / 100 := by omega
    omega
  · -- cannot happen (yoe is a remainder), but any value keeps the bound
    omega

/-- (B) parsing the 16 characters of valid fields gives exactly those fields -/
theorem timeFrom_enc (yy m d h mi s t q : Nat) (sym : UInt8) (hyy : yy < 100)
    (hv : ValidCivil (2000 + yy) m d h mi s t) (hq : q < 100) (hsym : sym = 43 ∨ sym = 45) :
    timeFrom (encAbs yy m d h mi s t q sym)
      = some ⟨((2000 + yy : Nat) : Int), m, d, h, mi, s, (t : Int) * 100000000, offsetOf q sym⟩ := by
  have hm : m < 100 := by have := hv.month; omega
  have hd : d < 100 := by
    have : daysInMonth (2000 + yy) m ≤ 31 := by unfold daysInMonth; split <;> (try split) <;> omega
    have := hv.day; omega
  have hh : h < 100 := by have := hv.hour; omega
  have hmi : mi < 100 := by have := hv.min; omega
  have hs : s < 100 := by have := hv.sec; omega
  unfold timeFrom encAbs
  simp only [List.isEmpty_cons, Bool.false_eq_true, ↓reduceIte, fromTimeString, parse2_lt hyy, parse2_lt hm,
    parse2_lt hd, parse2_lt hh, parse2_lt hmi, parse2_lt hs, parse2_lt hq, parse1_lt hv.tenth]
  have hsym' : (sym = 43 || sym = 45) = true := by rcases hsym with h | h <;> simp [h]
  simp only [hsym', ↓reduceIte]
  have e : (2000 : Int) + (yy : Int) = ((2000 + yy : Nat) : Int) := by omega
  have hoff : (if sym = 45 then -(q : Int) else (q : Int)) * 900 = offsetOf q sym := by
    unfold offsetOf; split <;> omega
  rw [e, hoff, norm_valid (2000 + yy) m d h mi s t (offsetOf q sym) hv]

/-- (A) formatting valid fields gives the 16 characters -/
theorem timeString_valid (yy m d h mi s t q : Nat) (sym : UInt8) (hyy : yy < 100)
    (hv : ValidCivil (2000 + yy) m d h mi s t) (hq : q ≤ 48) (hsym : sym = 43 ∨ sym = 45)
    (hz : q = 0 → sym = 43) :
    timeString ⟨((2000 + yy : Nat) : Int), m, d, h, mi, s, (t : Int) * 100000000, offsetOf q sym⟩
      = encAbs yy m d h mi s t q sym := by
  have hm : m < 100 := by have := hv.month; omega
  have hd : d < 100 := by
    have : daysInMonth (2000 + yy) m ≤ 31 := by unfold daysInMonth; split <;> (try split) <;> omega
    have := hv.day; omega
  have hh : h < 100 := by have := hv.hour; omega
  have hmi : mi < 100 := by have := hv.min; omega
  have hs : s < 100 := by have := hv.sec; omega
  have hge := daysFromCivil_ge (2000 + yy) m d (by omega) hv.month hv.day.1
  have hoffb : -43200 ≤ offsetOf q sym ∧ offsetOf q sym ≤ 43200 := by unfold offsetOf; split <;> omega
  have hnz : GoDate.isZero ⟨((2000 + yy : Nat) : Int), m, d, h, mi, s, (t : Int) * 100000000, offsetOf q sym⟩ = false := by
    have h1 : daysFromCivil 1 1 1 = -719162 := by decide
    have hne : (daysFromCivil ((2000 + yy : Nat) : Int) (m : Int) (d : Int) * 86400 + (h : Int) * 3600 + (mi : Int) * 60
        + (s : Int) - offsetOf q sym == daysFromCivil 1 1 1 * 86400) = false := by
      rw [beq_eq_false_iff_ne, h1]; omega
    simp only [GoDate.isZero, hne, Bool.false_and]
  unfold timeString
  simp only [hnz, Bool.false_eq_true, ↓reduceIte]
  have ey : ((2000 + yy : Nat) : Int) - 2000 = (yy : Int) := by omega
  have et : (t : Int) * 100000000 / 100000000 = (t : Int) := by omega
  rw [ey, et, fmt02_lt hyy, fmt02_lt hm, fmt02_lt hd, fmt02_lt hh, fmt02_lt hmi, fmt02_lt hs, fmtD_lt hv.tenth]
  rcases hsym with rfl | rfl
  · have hoff : offsetOf q 43 = (q : Int) * 900 := by unfold offsetOf; simp
    have hneg : ¬ ((q : Int) * 900 < 0) := by omega
    simp only [hoff, hneg, ↓reduceIte]
    have eq : (((q : Int) * 900).toNat / 900 : Nat) = q := by omega
    rw [eq, fmt02_lt (by omega : q < 100)]
    rfl
  · have hq0 : q ≠ 0 := fun h0 => by have := hz h0; simp at this
    have hoff : offsetOf q 45 = -((q : Int) * 900) := by unfold offsetOf; simp
    have hneg : -((q : Int) * 900) < 0 := by omega
    simp only [hoff, hneg, ↓reduceIte, Int.neg_neg]
    have eq : (((q : Int) * 900).toNat / 900 : Nat) = q := by omega
    rw [eq, fmt02_lt (by omega : q < 100)]
    rfl

/-! ### relative periods -/

theorem durFrom_durString (d : Nat) (h1 : 1000000000 ≤ d) (h2 : d < 100 * 8760 * 3600000000000)
    (h3 : d % 100000000 = 0) : durFrom (durString (d : Int)) = some (d : Int) := by
  have hlt : ¬ ((d : Int) < 1000000000) := by omega
  unfold durString
  simp only [hlt, ↓reduceIte, Int.toNat_natCast]
  have b1 : d / (8760 * 3600000000000) < 100 := by omega
  have b2 : d % (8760 * 3600000000000) / (720 * 3600000000000) < 100 := by omega
  have b3 : d % (8760 * 3600000000000) % (720 * 3600000000000) / (24 * 3600000000000) < 100 := by omega
  have b4 : d % (8760 * 3600000000000) % (720 * 3600000000000) % (24 * 3600000000000) / 3600000000000 < 100 := by
    omega
  have b5 : d % (8760 * 3600000000000) % (720 * 3600000000000) % (24 * 3600000000000) % 3600000000000
      / 60000000000 < 100 := by omega
  have b6 : d % (8760 * 3600000000000) % (720 * 3600000000000) % (24 * 3600000000000) % 3600000000000
      % 60000000000 / 1000000000 < 100 := by omega
  have b7 : d % (8760 * 3600000000000) % (720 * 3600000000000) % (24 * 3600000000000) % 3600000000000
      % 60000000000 % 1000000000 / 100000000 < 10 := by omega
  rw [fmt02_lt b1, fmt02_lt b2, fmt02_lt b3, fmt02_lt b4, fmt02_lt b5, fmt02_lt b6, fmtD_lt b7]
  unfold durFrom
  simp only [List.cons_append, List.nil_append, List.isEmpty_cons, Bool.false_eq_true, ↓reduceIte, fromTimeString,
    parse2_lt b1, parse2_lt b2, parse2_lt b3, parse2_lt b4, parse2_lt b5, parse2_lt b6, parse1_lt b7]
  have hR : ((82 : UInt8) = 45) = False := by decide
  simp only [hR, ↓reduceIte, durBases, List.zipWith_cons_cons, List.zipWith_nil_right, List.sum_cons, List.sum_nil]
  congr 1
  omega

end Smpp.Time
