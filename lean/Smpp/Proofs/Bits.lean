/-
Bit-stream lemmas for the GSM 7-bit packer: little-endian bit lists, chunking.
-/
import Smpp.Model.Gsm7

namespace Smpp.Gsm7

@[simp] theorem bitsLE_length (w x : Nat) : (bitsLE w x).length = w := by
  induction w generalizing x with
  | zero => rfl
  | succ w ih => simp [bitsLE, ih]

theorem ofBitsLE_bitsLE (w x : Nat) : ofBitsLE (bitsLE w x) = x % 2 ^ w := by
  induction w generalizing x with
  | zero => simp [bitsLE, ofBitsLE, Nat.mod_one]
  | succ w ih =>
    simp only [bitsLE, ofBitsLE, ih]
    have h2 : 2 ^ (w + 1) = 2 * 2 ^ w := by rw [Nat.pow_succ]; omega
    rw [h2, Nat.mod_mul]
    by_cases hx : x % 2 = 1
    · simp [hx]
    · have : x % 2 = 0 := by omega
      simp [this]

theorem ofBitsLE_lt (l : List Bool) : ofBitsLE l < 2 ^ l.length := by
  induction l with
  | nil => simp [ofBitsLE]
  | cons b l ih =>
    simp only [ofBitsLE, List.length_cons, Nat.pow_succ]
    split <;> omega

theorem bitsLE_ofBitsLE (l : List Bool) : bitsLE l.length (ofBitsLE l) = l := by
  induction l with
  | nil => rfl
  | cons b l ih =>
    simp only [List.length_cons, bitsLE, ofBitsLE]
    cases b with
    | true =>
      have h1 : (1 + 2 * ofBitsLE l) % 2 = 1 := by omega
      have h2 : (1 + 2 * ofBitsLE l) / 2 = ofBitsLE l := by omega
      simp [h1, h2, ih]
    | false =>
      have h1 : (0 + 2 * ofBitsLE l) % 2 = 0 := by omega
      have h2 : (0 + 2 * ofBitsLE l) / 2 = ofBitsLE l := by omega
      simp [h1, h2, ih]

theorem chunks_short (k : Nat) (l : List Bool) (h : l.length < k + 1) : chunks k l = [] := by
  rw [chunks]; simp; omega

theorem chunks_cons (k : Nat) (c rest : List Bool) (hc : c.length = k + 1) :
    chunks k (c ++ rest) = c :: chunks k rest := by
  rw [chunks]
  have : k + 1 ≤ (c ++ rest).length := by simp; omega
  simp only [this, ↓reduceDIte]
  rw [← hc, List.take_left', List.drop_left'] <;> rfl

/-- chunking a concatenation of full chunks followed by a short tail -/
theorem chunks_flatten (k : Nat) (L : List (List Bool)) (tail : List Bool)
    (hL : ∀ c ∈ L, c.length = k + 1) (ht : tail.length < k + 1) :
    chunks k (L.flatten ++ tail) = L := by
  induction L with
  | nil => simpa using chunks_short k tail ht
  | cons c L ih =>
    simp only [List.flatten_cons, List.append_assoc]
    rw [chunks_cons k c _ (hL c (by simp)), ih (fun x hx => hL x (by simp [hx]))]

theorem chunks_lengths (k : Nat) (l : List Bool) : ∀ c ∈ chunks k l, c.length = k + 1 := by
  induction h : l.length using Nat.strongRecOn generalizing l with
  | _ n ih =>
    intro c hc
    rw [chunks] at hc
    by_cases hk : k + 1 ≤ l.length
    · simp only [hk, ↓reduceDIte, List.mem_cons] at hc
      rcases hc with rfl | hc
      · simp; omega
      · exact ih (l.drop (k + 1)).length (by simp; omega) (l.drop (k + 1)) rfl c hc
    · simp [hk] at hc

/-- a list whose length is a multiple of the chunk size is the concatenation of its chunks -/
theorem flatten_chunks (k : Nat) (l : List Bool) (h : l.length % (k + 1) = 0) : (chunks k l).flatten = l := by
  induction hn : l.length using Nat.strongRecOn generalizing l with
  | _ n ih =>
    rw [chunks]
    by_cases hk : k + 1 ≤ l.length
    · simp only [hk, ↓reduceDIte, List.flatten_cons]
      have hd : (l.drop (k + 1)).length % (k + 1) = 0 := by
        simp only [List.length_drop]
        exact Nat.mod_eq_zero_of_dvd (Nat.dvd_sub (Nat.dvd_of_mod_eq_zero h) (Nat.dvd_refl _))
      rw [ih (l.drop (k + 1)).length (by simp; omega) (l.drop (k + 1)) hd rfl]
      exact List.take_append_drop (k + 1) l
    · have : l.length = 0 := by
        have hlt : l.length < k + 1 := by omega
        rw [Nat.mod_eq_of_lt hlt] at h; exact h
      have hl : l = [] := List.length_eq_zero_iff.mp this
      simp [hl]

theorem chunks_count (k : Nat) (l : List Bool) : (chunks k l).length = l.length / (k + 1) := by
  induction hn : l.length using Nat.strongRecOn generalizing l with
  | _ n ih =>
    rw [chunks]
    by_cases hk : k + 1 ≤ l.length
    · simp only [hk, ↓reduceDIte, List.length_cons]
      rw [ih (l.drop (k + 1)).length (by simp; omega) (l.drop (k + 1)) rfl]
      simp only [List.length_drop]
      have := Nat.div_eq l.length (k + 1)
      rw [if_pos ⟨by omega, hk⟩] at this
      rw [← hn, this]
    · simp only [hk, ↓reduceDIte, List.length_nil]
      rw [Nat.div_eq_of_lt (by omega)]

end Smpp.Gsm7
