/-
Inductive invariants of the connection model (Smpp/Model/Conn.lean), for every reachable state:
any number of callers, any schedule, any placement of the environment's events.
-/
import Smpp.Model.Conn

namespace Smpp.Conn

/-! ## the call table and what the environment may do -/

/-- the property's premise: calls that register for a response carry distinct sequence numbers -/
def Distinct (tbl : Nat → Caller) : Prop :=
  ∀ i j, i ≠ j → (tbl i).kind ≠ .send → (tbl j).kind ≠ .send → (tbl i).seq ≠ (tbl j).seq

/-- every call starts idle with an empty response slot -/
def Fresh (tbl : Nat → Caller) : Prop :=
  ∀ i, (tbl i).pc = .idle ∧ (tbl i).box = none ∧ (tbl i).answered = false

/-- peer-originated PDUs use the peer's own sequence numbers (DESIGN.md §9.6) -/
def Admissible (tbl : Nat → Caller) : Label → Prop
  | .peerUnsol seq _ => ∀ i, (tbl i).kind ≠ .send → (tbl i).seq ≠ seq
  | _ => True

inductive Reach (tbl : Nat → Caller) : State → Prop where
  | init : Reach tbl (init tbl)
  | step {s s' : State} (l : Label) : Reach tbl s → Admissible tbl l → step s l = some s' → Reach tbl s'

/-! ## program counters -/

/-- registered for a response (Submit between register and the deferred unregister) -/
def Pc.active : Pc → Bool
  | .registered | .checked | .wrote | .waiting | .leaving _ => true
  | _ => false

def Result.afterWrite : Result → Bool
  | .err .invalidSeq | .err .write => false
  | _ => true

/-- the call's frame has reached the transport -/
def Pc.pastWrite : Pc → Bool
  | .wrote | .waiting => true
  | .leaving r | .closing r | .cancelling r | .done r => r.afterWrite
  | _ => false

/-- the call has returned from Submit / Send (Close may still be closing the transport) -/
def Pc.departed : Pc → Bool
  | .closing _ | .cancelling _ | .done _ => true
  | _ => false

def Pc.result? : Pc → Option Result
  | .leaving r | .closing r | .cancelling r | .done r => some r
  | _ => none

@[simp] theorem upd_same {α} (f : Nat → α) (i : Nat) (v : α) : upd f i v i = v := by simp [upd]
@[simp] theorem upd_other {α} (f : Nat → α) (i j : Nat) (v : α) (h : j ≠ i) : upd f i v j = f j := by simp [upd, h]
@[simp] theorem updI_same {α} (f : Int → α) (i : Int) (v : α) : updI f i v i = v := by simp [updI]
@[simp] theorem updI_other {α} (f : Int → α) (i j : Int) (v : α) (h : j ≠ i) : updI f i v j = f j := by simp [updI, h]

end Smpp.Conn

namespace Smpp.Conn

/-! ## the step function as a relation with one constructor per branch (for case analysis) -/

def setCaller (s : State) (i : Nat) (c : Caller) : State := { s with callers := upd s.callers i c }

inductive Step : State → Label → State → Prop where
  | startSubmit (s : State) (i : Nat) : (s.callers i).pc = .idle → predDone s i = true → (s.callers i).kind ≠ .send →
      Step s (.start i) { setPc s i .registered with pending := updI s.pending (s.callers i).seq (some i) }
  | startSend (s : State) (i : Nat) : (s.callers i).pc = .idle → predDone s i = true → (s.callers i).kind = .send →
      Step s (.start i) (setPc s i .registered)
  | checkBad (s : State) (i : Nat) : (s.callers i).pc = .registered → (s.callers i).seq ≤ 0 →
      Step s (.check i) (setPc s i (.leaving (.err .invalidSeq)))
  | checkOk (s : State) (i : Nat) : (s.callers i).pc = .registered → 0 < (s.callers i).seq →
      Step s (.check i) (setPc s i .checked)
  | writeBroken (s : State) (i : Nat) : (s.callers i).pc = .checked → s.writeBroken = true →
      Step s (.write i) (setPc s i (.leaving (.err .write)))
  | writeOk (s : State) (i : Nat) : (s.callers i).pc = .checked → s.writeBroken = false →
      Step s (.write i) { setPc s i .wrote with wire := s.wire ++ [.req i (s.callers i).seq] }
  | writeRetSend (s : State) (i : Nat) : (s.callers i).pc = .wrote → (s.callers i).kind = .send →
      Step s (.writeRet i) (setPc s i (.leaving .sent))
  | writeRetWait (s : State) (i : Nat) : (s.callers i).pc = .wrote → (s.callers i).kind ≠ .send →
      Step s (.writeRet i) (setPc s i .waiting)
  | takeResp (s : State) (i : Nat) (p : InPdu) : (s.callers i).pc = .waiting → (s.callers i).box = some p →
      Step s (.takeResp i) { s with callers := upd s.callers i { s.callers i with pc := .leaving (.resp p), box := none } }
  | seeConnDone (s : State) (i : Nat) : (s.callers i).pc = .waiting → s.connDone = true →
      Step s (.seeConnDone i) (setPc s i (.leaving (.err .closed)))
  | seeOwnDone (s : State) (i : Nat) : (s.callers i).pc = .waiting → (s.callers i).ownDone = true →
      Step s (.seeOwnDone i) (setPc s i (.leaving (.err .ctx)))
  | finishSend (s : State) (i : Nat) (r : Result) : (s.callers i).pc = .leaving r → (s.callers i).kind = .send →
      Step s (.finish i) (setPc s i (.done r))
  | finishSubmit (s : State) (i : Nat) (r : Result) : (s.callers i).pc = .leaving r → (s.callers i).kind = .submit →
      Step s (.finish i) { setPc s i (.done r) with pending := updI s.pending (s.callers i).seq none }
  | finishClose (s : State) (i : Nat) (r : Result) : (s.callers i).pc = .leaving r → (s.callers i).kind = .close →
      Step s (.finish i) { setPc s i (.closing r) with pending := updI s.pending (s.callers i).seq none }
  | closeTransportOk (s : State) (i : Nat) (p : InPdu) : (s.callers i).pc = .closing (.resp p) →
      Step s (.closeTransport i) { setPc s i (.cancelling (.resp p)) with writeBroken := true, readSide := (if s.readSide = Transport.open then Transport.err else s.readSide) }
  | closeTransportSkip (s : State) (i : Nat) (r : Result) : (s.callers i).pc = .closing r → (∀ p, r ≠ .resp p) →
      Step s (.closeTransport i) (setPc s i (.cancelling r))
  | closeCancel (s : State) (i : Nat) (r : Result) : (s.callers i).pc = .cancelling r →
      Step s (.closeCancel i) { setPc s i (.done r) with connDone := true }
  | wPoll (s : State) : s.watch = .poll → Step s .wPoll { s with watch := if s.connDone then .exiting else .reading }
  | wReadOk (s : State) (p : InPdu) (rest : List InFrame) : s.watch = .reading → s.inbound = .ok p :: rest →
      Step s .wRead { s with inbound := rest, readLog := s.readLog ++ [.ok p], watch := .looking p }
  | wReadBad (s : State) (seq : Int) (k : Nat) (rest : List InFrame) : s.watch = .reading → s.inbound = .bad seq k :: rest →
      Step s .wRead { s with inbound := rest, readLog := s.readLog ++ [.bad seq k], watch := .nacking seq }
  | wReadFatal (s : State) (rest : List InFrame) : s.watch = .reading → s.inbound = .fatal :: rest →
      Step s .wRead { s with inbound := rest, readLog := s.readLog ++ [.fatal], watch := .exiting }
  | wReadEnd (s : State) : s.watch = .reading → s.inbound = [] → s.readSide ≠ Transport.open →
      Step s .wRead { s with watch := .exiting }
  | wLookupHit (s : State) (p : InPdu) (i : Nat) : s.watch = .looking p → s.pending p.seq = some i →
      Step s .wLookup { s with watch := .delivering i p }
  | wLookupMiss (s : State) (p : InPdu) : s.watch = .looking p → s.pending p.seq = none →
      Step s .wLookup { s with watch := .offering p, missLog := s.missLog ++ [p] }
  | wDeliver (s : State) (i : Nat) (p : InPdu) : s.watch = .delivering i p → (s.callers i).box = none →
      Step s .wDeliver { s with callers := upd s.callers i { s.callers i with box := some p }, watch := .poll }
  | wOfferPanic (s : State) (p : InPdu) : s.watch = .offering p → s.queueClosed = true →
      Step s .wOffer { s with panicked := true }
  | wOffer (s : State) (p : InPdu) : s.watch = .offering p → s.queueClosed = false → s.draining = true →
      Step s .wOffer { s with delivered := s.delivered ++ [p], watch := .poll }
  | wOfferCancel (s : State) (p : InPdu) : s.watch = .offering p → s.connDone = true →
      Step s .wOfferCancel { s with watch := .exiting }
  | wNackSkip (s : State) (seq : Int) : s.watch = .nacking seq → (seq ≤ 0 ∨ s.writeBroken = true) →
      Step s .wNack { s with watch := .poll }
  | wNackSend (s : State) (seq : Int) : s.watch = .nacking seq → 0 < seq → s.writeBroken = false →
      Step s .wNack { s with watch := .poll, wire := s.wire ++ [.nack seq] }
  | wExitPanic (s : State) : s.watch = .exiting → s.queueClosed = true →
      Step s .wExit { s with panicked := true, watch := .returned, connDone := true }
  | wExit (s : State) : s.watch = .exiting → s.queueClosed = false →
      Step s .wExit { s with queueClosed := true, watch := .returned, connDone := true }
  | kaStart (s : State) : s.ka = .off → Step s .kaStart { s with ka := .idle }
  | kaSend (s : State) (i : Nat) : s.ka = .idle → (s.callers i).pc = .idle → (s.callers i).kind = .submit →
      Step s (.kaSend i) { s with ka := .submitting i }
  | kaSubmitOk (s : State) (i : Nat) (p : InPdu) : s.ka = .submitting i → (s.callers i).pc = .done (.resp p) →
      Step s .kaSubmitDone { s with ka := .select }
  | kaSubmitFail (s : State) (i : Nat) (r : Result) : s.ka = .submitting i → (s.callers i).pc = .done r → (∀ p, r ≠ .resp p) →
      Step s .kaSubmitDone { s with ka := .failed, tickerStopped := true }
  | kaClose (s : State) (j : Nat) : s.ka = .failed → (s.callers j).pc = .idle → (s.callers j).kind = .close →
      Step s (.kaClose j) { s with ka := .closing j }
  | kaCloseDone (s : State) (j : Nat) : s.ka = .closing j → (s.callers j).pc.isDone = true →
      Step s .kaCloseDone { s with ka := .select }
  | kaExit (s : State) : s.ka = .select → s.connDone = true → Step s .kaExit { s with ka := .returned }
  | kaTick (s : State) : s.ka = .select → s.tickerStopped = false → Step s .kaTick { s with ka := .idle }
  | peerAnswer (s : State) (i : Nat) : (OutFrame.req i (s.callers i).seq) ∈ s.wire → (s.callers i).answered = false →
      Step s (.peerAnswer i) { s with callers := upd s.callers i { s.callers i with answered := true }, inbound := s.inbound ++ [.ok ⟨(s.callers i).seq, .ans i⟩] }
  | peerUnsol (s : State) (seq : Int) (k : Nat) : Step s (.peerUnsol seq k) { s with inbound := s.inbound ++ [.ok ⟨seq, .peer k⟩] }
  | peerBad (s : State) (seq : Int) (k : Nat) : Step s (.peerBad seq k) { s with inbound := s.inbound ++ [.bad seq k] }
  | peerFatal (s : State) : Step s .peerFatal { s with inbound := s.inbound ++ [.fatal] }
  | transportEOF (s : State) : Step s .transportEOF { s with readSide := (if s.readSide = Transport.open then Transport.eof else s.readSide) }
  | transportErr (s : State) : Step s .transportErr { s with readSide := (if s.readSide = Transport.open then Transport.err else s.readSide) }
  | cancelParent (s : State) : Step s .cancelParent { s with connDone := true }
  | deadline (s : State) (i : Nat) : Step s (.deadline i) { s with callers := upd s.callers i { s.callers i with ownDone := true } }
  | setDrain (s : State) (b : Bool) : Step s (.setDrain b) { s with draining := b }
  | breakWrites (s : State) : Step s .breakWrites { s with writeBroken := true }

/-- the executable step function refines the relation -/
theorem step_sound (s s' : State) (l : Label) (h : step s l = some s') : Step s l s' := by
  cases l with
  | start i =>
    simp only [step] at h
    split at h
    · next hg =>
      obtain ⟨hpc, hpd⟩ := hg
      simp only [Option.some.injEq] at h
      by_cases hk : (s.callers i).kind = .send
      · simp only [hk, ↓reduceIte] at h; subst h; exact Step.startSend s i hpc hpd hk
      · simp only [hk, ↓reduceIte] at h; subst h; exact Step.startSubmit s i hpc hpd hk
    · cases h
  | check i =>
    simp only [step] at h
    split at h
    · next hpc =>
      simp only [Option.some.injEq] at h
      by_cases hq : (s.callers i).seq ≤ 0
      · simp only [hq, ↓reduceIte] at h; subst h; exact Step.checkBad s i hpc hq
      · simp only [hq, ↓reduceIte] at h; subst h; exact Step.checkOk s i hpc (by omega)
    · cases h
  | write i =>
    simp only [step] at h
    split at h
    · next hpc =>
      split at h
      · next hb => simp only [Option.some.injEq] at h; subst h; exact Step.writeBroken s i hpc hb
      · next hb => simp only [Option.some.injEq] at h; subst h; exact Step.writeOk s i hpc (by simpa using hb)
    · cases h
  | writeRet i =>
    simp only [step] at h
    split at h
    · next hpc =>
      simp only [Option.some.injEq] at h
      by_cases hk : (s.callers i).kind = .send
      · simp only [hk, ↓reduceIte] at h; subst h; exact Step.writeRetSend s i hpc hk
      · simp only [hk, ↓reduceIte] at h; subst h; exact Step.writeRetWait s i hpc hk
    · cases h
  | takeResp i =>
    simp only [step] at h
    split at h
    · next p hpc hbox => simp only [Option.some.injEq] at h; subst h; exact Step.takeResp s i p hpc hbox
    · cases h
  | seeConnDone i =>
    simp only [step] at h
    split at h
    · next hg => simp only [Option.some.injEq] at h; subst h; exact Step.seeConnDone s i hg.1 hg.2
    · cases h
  | seeOwnDone i =>
    simp only [step] at h
    split at h
    · next hg => simp only [Option.some.injEq] at h; subst h; exact Step.seeOwnDone s i hg.1 hg.2
    · cases h
  | finish i =>
    simp only [step] at h
    split at h
    · next r hpc =>
      simp only [Option.some.injEq] at h
      cases hk : (s.callers i).kind with
      | send => simp [hk] at h; subst h; exact Step.finishSend s i r hpc hk
      | submit => simp [hk] at h; subst h; exact Step.finishSubmit s i r hpc hk
      | close => simp [hk] at h; subst h; exact Step.finishClose s i r hpc hk
    · cases h
  | closeTransport i =>
    simp only [step] at h
    split at h
    · next r hpc =>
      simp only [Option.some.injEq] at h
      cases r with
      | resp p => simp only at h; subst h; exact Step.closeTransportOk s i p hpc
      | sent => simp only at h; subst h; exact Step.closeTransportSkip s i _ hpc (by intro p; simp)
      | err e => simp only at h; subst h; exact Step.closeTransportSkip s i _ hpc (by intro p; simp)
    · cases h
  | closeCancel i =>
    simp only [step] at h
    split at h
    · next r hpc => simp only [Option.some.injEq] at h; subst h; exact Step.closeCancel s i r hpc
    · cases h
  | wPoll =>
    simp only [step] at h
    split at h
    · next hw => simp only [Option.some.injEq] at h; subst h; exact Step.wPoll s hw
    · cases h
  | wRead =>
    simp only [step] at h
    split at h
    · next hw =>
      split at h
      · next f rest hin =>
        simp only [Option.some.injEq] at h
        cases f with
        | ok p => simp only at h; subst h; exact Step.wReadOk s p rest hw hin
        | bad q k => simp only at h; subst h; exact Step.wReadBad s q k rest hw hin
        | fatal => simp only at h; subst h; exact Step.wReadFatal s rest hw hin
      · next hin =>
        split at h
        · cases h
        · next ho => simp only [Option.some.injEq] at h; subst h; exact Step.wReadEnd s hw hin ho
    · cases h
  | wLookup =>
    simp only [step] at h
    split at h
    · next p hw =>
      simp only [Option.some.injEq] at h
      cases hp : s.pending p.seq with
      | some i => simp only [hp] at h; subst h; exact Step.wLookupHit s p i hw hp
      | none => simp only [hp] at h; subst h; exact Step.wLookupMiss s p hw hp
    · cases h
  | wDeliver =>
    simp only [step] at h
    split at h
    · next i p hw =>
      split at h
      · next hb => simp only [Option.some.injEq] at h; subst h; exact Step.wDeliver s i p hw hb
      · cases h
    · cases h
  | wOffer =>
    simp only [step] at h
    split at h
    · next p hw =>
      split at h
      · next hq => simp only [Option.some.injEq] at h; subst h; exact Step.wOfferPanic s p hw hq
      · next hq =>
        split at h
        · next hd => simp only [Option.some.injEq] at h; subst h; exact Step.wOffer s p hw (by simpa using hq) hd
        · cases h
    · cases h
  | wOfferCancel =>
    simp only [step] at h
    split at h
    · next p hw =>
      split at h
      · next hc => simp only [Option.some.injEq] at h; subst h; exact Step.wOfferCancel s p hw hc
      · cases h
    · cases h
  | wNack =>
    simp only [step] at h
    split at h
    · next q hw =>
      simp only [Option.some.injEq] at h
      by_cases hc : q ≤ 0 ∨ s.writeBroken = true
      · simp only [hc, ↓reduceIte] at h; subst h; exact Step.wNackSkip s q hw hc
      · simp only [hc, ↓reduceIte] at h; subst h
        have h1 : ¬ q ≤ 0 := fun hx => hc (Or.inl hx)
        have h2 : s.writeBroken = false := by
          cases hb : s.writeBroken with
          | true => exact absurd (Or.inr hb) hc
          | false => rfl
        have this : 0 < q ∧ s.writeBroken = false := ⟨by omega, h2⟩
        exact Step.wNackSend s q hw this.1 this.2
    · cases h
  | wExit =>
    simp only [step] at h
    split at h
    · next hw =>
      simp only [Option.some.injEq] at h
      by_cases hq : s.queueClosed = true
      · rw [if_pos hq] at h; subst h; exact Step.wExitPanic s hw hq
      · rw [if_neg hq] at h; subst h; exact Step.wExit s hw (by simpa using hq)
    · cases h
  | kaStart =>
    simp only [step] at h
    split at h
    · next hk => simp only [Option.some.injEq] at h; subst h; exact Step.kaStart s hk
    · cases h
  | kaSend i =>
    simp only [step] at h
    split at h
    · next hg => simp only [Option.some.injEq] at h; subst h; exact Step.kaSend s i hg.1 hg.2.1 hg.2.2
    · cases h
  | kaSubmitDone =>
    simp only [step] at h
    split at h
    · next i hk =>
      split at h
      · next p hp => simp only [Option.some.injEq] at h; subst h; exact Step.kaSubmitOk s i p hk hp
      · next r hnr hp =>
        simp only [Option.some.injEq] at h; subst h
        exact Step.kaSubmitFail s i r hk hp (by intro p hr; exact hnr p hr)
      · cases h
    · cases h
  | kaClose j =>
    simp only [step] at h
    split at h
    · next hg => simp only [Option.some.injEq] at h; subst h; exact Step.kaClose s j hg.1 hg.2.1 hg.2.2
    · cases h
  | kaCloseDone =>
    simp only [step] at h
    split at h
    · next j hk =>
      split at h
      · next hd => simp only [Option.some.injEq] at h; subst h; exact Step.kaCloseDone s j hk hd
      · cases h
    · cases h
  | kaExit =>
    simp only [step] at h
    split at h
    · next hg => simp only [Option.some.injEq] at h; subst h; exact Step.kaExit s hg.1 hg.2
    · cases h
  | kaTick =>
    simp only [step] at h
    split at h
    · next hg => simp only [Option.some.injEq] at h; subst h; exact Step.kaTick s hg.1 hg.2
    · cases h
  | peerAnswer i =>
    simp only [step] at h
    split at h
    · next hg => simp only [Option.some.injEq] at h; subst h; exact Step.peerAnswer s i hg.1 hg.2
    · cases h
  | peerUnsol q k => simp only [step, Option.some.injEq] at h; subst h; exact Step.peerUnsol s q k
  | peerBad q k => simp only [step, Option.some.injEq] at h; subst h; exact Step.peerBad s q k
  | peerFatal => simp only [step, Option.some.injEq] at h; subst h; exact Step.peerFatal s
  | transportEOF => simp only [step, Option.some.injEq] at h; subst h; exact Step.transportEOF s
  | transportErr => simp only [step, Option.some.injEq] at h; subst h; exact Step.transportErr s
  | cancelParent => simp only [step, Option.some.injEq] at h; subst h; exact Step.cancelParent s
  | deadline i => simp only [step, Option.some.injEq] at h; subst h; exact Step.deadline s i
  | setDrain b => simp only [step, Option.some.injEq] at h; subst h; exact Step.setDrain s b
  | breakWrites => simp only [step, Option.some.injEq] at h; subst h; exact Step.breakWrites s

/-! ## invariant 1: the pending table, response slots and results carry the right sequence numbers -/

structure Inv1 (tbl : Nat → Caller) (s : State) : Prop where
  static : ∀ i, (s.callers i).kind = (tbl i).kind ∧ (s.callers i).seq = (tbl i).seq ∧ (s.callers i).after = (tbl i).after
  pendSound : ∀ q i, s.pending q = some i → (tbl i).seq = q ∧ (tbl i).kind ≠ .send ∧ (s.callers i).pc.active = true
  pendComplete : ∀ i, (tbl i).kind ≠ .send → (s.callers i).pc.active = true → s.pending (tbl i).seq = some i
  boxSeq : ∀ i p, (s.callers i).box = some p → p.seq = (tbl i).seq
  watchSeq : ∀ i p, s.watch = .delivering i p → p.seq = (tbl i).seq
  resultSeq : ∀ i p, (s.callers i).pc.result? = some (.resp p) → p.seq = (tbl i).seq

set_option maxHeartbeats 1000000 in
theorem inv1_static (tbl) (s s' : State) (l : Label) (hi : Inv1 tbl s) (hs : Step s l s') :
    ∀ i, (s'.callers i).kind = (tbl i).kind ∧ (s'.callers i).seq = (tbl i).seq ∧ (s'.callers i).after = (tbl i).after := by
  have hst := hi.static
  cases hs <;> simp only [setPc] <;> intro j <;> first | exact hst j | (simp only [upd]; split <;> simp_all)

set_option maxHeartbeats 1000000 in
theorem inv1_pendSound (tbl) (hd : Distinct tbl) (s s' : State) (l : Label) (hi : Inv1 tbl s) (hs : Step s l s') :
    ∀ q i, s'.pending q = some i → (tbl i).seq = q ∧ (tbl i).kind ≠ .send ∧ (s'.callers i).pc.active = true := by
  obtain ⟨hst, hps, hpc, hbx, hws, hrs⟩ := hi
  cases hs <;> simp only [setPc] <;> intro q j hq <;>
    first
    | exact hps q j hq
    | grind [upd, updI, Pc.active, Distinct]

set_option maxHeartbeats 1000000 in
theorem inv1_pendComplete (tbl) (hd : Distinct tbl) (s s' : State) (l : Label) (hi : Inv1 tbl s) (hs : Step s l s') :
    ∀ i, (tbl i).kind ≠ .send → (s'.callers i).pc.active = true → s'.pending (tbl i).seq = some i := by
  obtain ⟨hst, hps, hpc, hbx, hws, hrs⟩ := hi
  cases hs <;> simp only [setPc] <;> intro j hk ha <;>
    first
    | exact hpc j hk ha
    | grind [upd, updI, Pc.active, Distinct]

set_option maxHeartbeats 1000000 in
theorem inv1_boxSeq (tbl) (s s' : State) (l : Label) (hi : Inv1 tbl s) (hs : Step s l s') :
    ∀ i p, (s'.callers i).box = some p → p.seq = (tbl i).seq := by
  obtain ⟨hst, hps, hpc, hbx, hws, hrs⟩ := hi
  cases hs <;> simp only [setPc] <;> intro j p hb <;>
    first
    | exact hbx j p hb
    | grind [upd, updI]

set_option maxHeartbeats 1000000 in
theorem inv1_watchSeq (tbl) (s s' : State) (l : Label) (hi : Inv1 tbl s) (hs : Step s l s') :
    ∀ i p, s'.watch = .delivering i p → p.seq = (tbl i).seq := by
  obtain ⟨hst, hps, hpc, hbx, hws, hrs⟩ := hi
  cases hs <;> simp only [setPc] <;> intro j p hb <;>
    first
    | exact hws j p hb
    | grind [upd, updI]

set_option maxHeartbeats 1000000 in
theorem inv1_resultSeq (tbl) (s s' : State) (l : Label) (hi : Inv1 tbl s) (hs : Step s l s') :
    ∀ i p, (s'.callers i).pc.result? = some (.resp p) → p.seq = (tbl i).seq := by
  obtain ⟨hst, hps, hpc, hbx, hws, hrs⟩ := hi
  cases hs <;> simp only [setPc] <;> intro j p hb <;>
    first
    | exact hrs j p hb
    | grind [upd, updI, Pc.result?]

theorem inv1_init (tbl) (hf : Fresh tbl) : Inv1 tbl (init tbl) := by
  constructor
  · intro i; simp [init]
  · intro q i h; simp [init] at h
  · intro i _ h; have := (hf i).1; simp [init, this, Pc.active] at h
  · intro i p h; have := (hf i).2.1; simp [init, this] at h
  · intro i p h; simp [init] at h
  · intro i p h; have := (hf i).1; simp [init, this, Pc.result?] at h

theorem inv1 (tbl) (hd : Distinct tbl) (hf : Fresh tbl) (s : State) (h : Reach tbl s) : Inv1 tbl s := by
  induction h with
  | init => exact inv1_init tbl hf
  | step l hr ha hs ih =>
    have hst := step_sound _ _ _ hs
    exact ⟨inv1_static tbl _ _ l ih hst, inv1_pendSound tbl hd _ _ l ih hst, inv1_pendComplete tbl hd _ _ l ih hst,
      inv1_boxSeq tbl _ _ l ih hst, inv1_watchSeq tbl _ _ l ih hst, inv1_resultSeq tbl _ _ l ih hst⟩

/-! ## invariant 2: what is on the wire, who was answered, where an answer can be -/

def Pc.pastCheck : Pc → Bool
  | .checked => true
  | pc => pc.pastWrite

/-- every place an inbound PDU can be -/
def located (s : State) (p : InPdu) : Prop :=
  InFrame.ok p ∈ s.inbound ∨ s.watch = .looking p ∨ (∃ j, s.watch = .delivering j p) ∨ s.watch = .offering p ∨
  (∃ j, (s.callers j).box = some p) ∨ (∃ j, (s.callers j).pc.result? = some (.resp p)) ∨ p ∈ s.missLog ∨ p ∈ s.delivered

structure Inv2 (tbl : Nat → Caller) (s : State) : Prop where
  answeredWire : ∀ i, (s.callers i).answered = true → OutFrame.req i (tbl i).seq ∈ s.wire
  wireSeq : ∀ i q, OutFrame.req i q ∈ s.wire → q = (tbl i).seq ∧ (s.callers i).pc.pastWrite = true
  pastWriteWire : ∀ i, (s.callers i).pc.pastWrite = true → OutFrame.req i (tbl i).seq ∈ s.wire
  checkedPos : ∀ i, (s.callers i).pc.pastCheck = true → 0 < (tbl i).seq
  origin : ∀ p i, located s p → p.origin = .ans i → p.seq = (tbl i).seq ∧ (s.callers i).answered = true

set_option maxHeartbeats 1000000 in
theorem inv2_answeredWire (tbl) (s s' : State) (l : Label) (h1 : Inv1 tbl s) (hi : Inv2 tbl s) (hs : Step s l s') :
    ∀ i, (s'.callers i).answered = true → OutFrame.req i (tbl i).seq ∈ s'.wire := by
  obtain ⟨haw, hws, hpw, hcp, hor⟩ := hi
  have hst := h1.static
  cases hs <;> simp only [setPc] <;> intro j ha <;>
    first
    | exact haw j ha
    | grind [upd, updI]

set_option maxHeartbeats 1000000 in
theorem inv2_wireSeq (tbl) (s s' : State) (l : Label) (h1 : Inv1 tbl s) (hi : Inv2 tbl s) (hs : Step s l s') :
    ∀ i q, OutFrame.req i q ∈ s'.wire → q = (tbl i).seq ∧ (s'.callers i).pc.pastWrite = true := by
  obtain ⟨haw, hws, hpw, hcp, hor⟩ := hi
  have hst := h1.static
  cases hs <;> simp only [setPc] <;> intro j q ha <;>
    first
    | exact hws j q ha
    | grind [upd, updI, Pc.pastWrite, Result.afterWrite]

set_option maxHeartbeats 1000000 in
theorem inv2_pastWriteWire (tbl) (s s' : State) (l : Label) (h1 : Inv1 tbl s) (hi : Inv2 tbl s) (hs : Step s l s') :
    ∀ i, (s'.callers i).pc.pastWrite = true → OutFrame.req i (tbl i).seq ∈ s'.wire := by
  obtain ⟨haw, hws, hpw, hcp, hor⟩ := hi
  have hst := h1.static
  cases hs <;> simp only [setPc] <;> intro j ha <;>
    first
    | exact hpw j ha
    | grind [upd, updI, Pc.pastWrite, Result.afterWrite]

set_option maxHeartbeats 1000000 in
theorem inv2_checkedPos (tbl) (s s' : State) (l : Label) (h1 : Inv1 tbl s) (hi : Inv2 tbl s) (hs : Step s l s') :
    ∀ i, (s'.callers i).pc.pastCheck = true → 0 < (tbl i).seq := by
  obtain ⟨haw, hws, hpw, hcp, hor⟩ := hi
  have hst := h1.static
  cases hs <;> simp only [setPc] <;> intro j ha <;>
    first
    | exact hcp j ha
    | grind [upd, updI, Pc.pastWrite, Pc.pastCheck, Result.afterWrite]

set_option maxHeartbeats 2000000 in
theorem inv2_origin (tbl) (s s' : State) (l : Label) (h1 : Inv1 tbl s) (hi : Inv2 tbl s) (hs : Step s l s') :
    ∀ p i, located s' p → p.origin = .ans i → p.seq = (tbl i).seq ∧ (s'.callers i).answered = true := by
  obtain ⟨haw, hws, hpw, hcp, hor⟩ := hi
  have hst := h1.static
  cases hs <;> simp only [setPc] <;> intro p j hl ho <;>
    first
    | exact hor p j hl ho
    | grind [upd, updI, located, Pc.result?]

theorem inv2_init (tbl) (hf : Fresh tbl) : Inv2 tbl (init tbl) := by
  constructor
  · intro i h; have := (hf i).2.2; simp [init, this] at h
  · intro i q h; simp [init] at h
  · intro i h; have := (hf i).1; simp [init, this, Pc.pastWrite] at h
  · intro i h; have := (hf i).1; simp [init, this, Pc.pastCheck, Pc.pastWrite] at h
  · intro p i hl ho
    have h1 := (hf)
    unfold located at hl
    simp only [init] at hl
    rcases hl with h | h | ⟨j, h⟩ | h | ⟨j, h⟩ | ⟨j, h⟩ | h | h
    · simp at h
    · simp at h
    · simp at h
    · simp at h
    · have := (hf j).2.1; simp [this] at h
    · have := (hf j).1; simp [this, Pc.result?] at h
    · simp at h
    · simp at h

/-! ## invariants 3 and 4: no leak, delivery order, teardown safety, the wire -/

def okPdus (l : List InFrame) : List InPdu := l.filterMap fun f => match f with | .ok p => some p | _ => none

def offerTail (s : State) : List InPdu := match s.watch with | .offering p => [p] | _ => []
def lookTail (s : State) : List InPdu := match s.watch with | .looking p => [p] | _ => []

def WatchPc.inLoop : WatchPc → Bool
  | .exiting | .returned => false
  | _ => true

structure Inv3 (tbl : Nat → Caller) (s : State) : Prop where
  noLeak : ∀ p i, p ∈ s.missLog → p.origin = .ans i → (tbl i).kind ≠ .send → (s.callers i).pc.departed = true
  missExact : s.watch.inLoop = true → s.missLog = s.delivered ++ offerTail s
  missBound : s.delivered <+: s.missLog ∧ s.missLog.length ≤ s.delivered.length + 1
  noPanic : s.panicked = false
  qClosed : s.queueClosed = true → s.watch = .returned
  watchDone : s.watch = .returned → s.connDone = true ∧ s.queueClosed = true
  closeDone : ∀ i, (tbl i).kind = .close → (s.callers i).pc.isDone = true → s.connDone = true
  startedPred : ∀ j i, (s.callers j).pc ≠ .idle → (tbl j).after = some i → (s.callers i).pc.isDone = true

set_option maxHeartbeats 2000000 in
theorem inv3_noLeak (tbl) (s s' : State) (l : Label) (h1 : Inv1 tbl s) (h2 : Inv2 tbl s) (hi : Inv3 tbl s) (hs : Step s l s') :
    ∀ p i, p ∈ s'.missLog → p.origin = .ans i → (tbl i).kind ≠ .send → (s'.callers i).pc.departed = true := by
  have hnl := hi.noLeak
  have hst := h1.static
  have hpc := h1.pendComplete
  have hor := h2.origin
  have haw := h2.answeredWire
  have hws := h2.wireSeq
  have key : ∀ pc : Pc, pc.pastWrite = true → pc.active = false → pc.departed = true := by
    intro pc; cases pc <;> simp [Pc.pastWrite, Pc.active, Pc.departed]
  have stable : ∀ pc : Pc, pc.departed = true → ∀ r, pc ≠ .leaving r := by
    intro pc h r; cases pc <;> simp_all [Pc.departed]
  cases hs <;> simp only [setPc] <;> intro p j hm ho hk
  case wLookupMiss p1 hw hp =>
    rcases List.mem_append.mp hm with h | h
    · exact hnl p j h ho hk
    · simp only [List.mem_singleton] at h
      subst h
      have hl : located s p := Or.inr (Or.inl hw)
      obtain ⟨hseq, hans⟩ := hor p j hl ho
      have hpw := (hws j _ (haw j hans)).2
      have hna : (s.callers j).pc.active = false := by
        cases ha : (s.callers j).pc.active with
        | false => rfl
        | true =>
          have := hpc j hk ha
          rw [← hseq, hp] at this
          cases this
      exact key _ hpw hna
  all_goals first
    | exact hnl p j hm ho hk
    | grind [upd, updI, Pc.departed]

set_option maxHeartbeats 2000000 in
theorem inv3_c15 (tbl) (s s' : State) (l : Label) (h1 : Inv1 tbl s) (hi : Inv3 tbl s) (hs : Step s l s') :
    s'.panicked = false ∧ (s'.queueClosed = true → s'.watch = .returned) ∧ (s'.watch = .returned → s'.connDone = true ∧ s'.queueClosed = true) := by
  obtain ⟨_, _, _, hnp, hqc, hwd, _, _⟩ := hi
  cases hs <;> simp only [setPc] <;> grind

set_option maxHeartbeats 2000000 in
theorem inv3_closeDone (tbl) (s s' : State) (l : Label) (h1 : Inv1 tbl s) (hi : Inv3 tbl s) (hs : Step s l s') :
    ∀ i, (tbl i).kind = .close → (s'.callers i).pc.isDone = true → s'.connDone = true := by
  have hcd := hi.closeDone
  have hst := h1.static
  cases hs <;> simp only [setPc] <;> intro j hk hd <;>
    first
    | exact hcd j hk hd
    | grind [upd, updI, Pc.isDone]

set_option maxHeartbeats 2000000 in
theorem inv3_startedPred (tbl) (s s' : State) (l : Label) (h1 : Inv1 tbl s) (hi : Inv3 tbl s) (hs : Step s l s') :
    ∀ j i, (s'.callers j).pc ≠ .idle → (tbl j).after = some i → (s'.callers i).pc.isDone = true := by
  have hsp := hi.startedPred
  have hst := h1.static
  cases hs <;> simp only [setPc] <;> intro j i hp ha <;>
    first
    | exact hsp j i hp ha
    | grind [upd, updI, Pc.isDone, predDone]

set_option maxHeartbeats 2000000 in
theorem inv3_missExact (tbl) (s s' : State) (l : Label) (hi : Inv3 tbl s) (hs : Step s l s') :
    s'.watch.inLoop = true → s'.missLog = s'.delivered ++ offerTail s' := by
  have hme := hi.missExact
  cases hs <;> simp only [setPc] <;> intro hw <;>
    first
    | exact hme hw
    | (simp_all [offerTail, WatchPc.inLoop]; done)
    | (simp [offerTail, WatchPc.inLoop] at hme hw ⊢; grind)

set_option maxHeartbeats 2000000 in
theorem inv3_missBound (tbl) (s s' : State) (l : Label) (hi : Inv3 tbl s) (hs : Step s l s') :
    s'.delivered <+: s'.missLog ∧ s'.missLog.length ≤ s'.delivered.length + 1 := by
  have hme := hi.missExact
  have hmb := hi.missBound
  cases hs <;> simp only [setPc] <;>
    first
    | exact hmb
    | (simp_all [offerTail, WatchPc.inLoop]; done)
    | (simp [offerTail, WatchPc.inLoop] at hme ⊢; grind)

theorem inv3_init (tbl) (hf : Fresh tbl) : Inv3 tbl (init tbl) := by
  constructor
  · intro p i h; simp [init] at h
  · intro _; simp [init, offerTail]
  · simp [init]
  · rfl
  · intro h; simp [init] at h
  · intro h; simp [init] at h
  · intro i _ h; have := (hf i).1; simp [init, this, Pc.isDone] at h
  · intro j i h; have := (hf j).1; simp [init, this] at h

def reqId : OutFrame → Option Nat
  | .req i _ => some i
  | .nack _ => none

/-- no frame of a later call of a goroutine precedes a frame of an earlier call of the same goroutine -/
def OrderOK (tbl : Nat → Caller) (a b : OutFrame) : Prop :=
  ∀ i j qi qj, a = .req j qj → b = .req i qi → (tbl j).after ≠ some i

structure Inv4 (tbl : Nat → Caller) (s : State) : Prop where
  missSub : (s.missLog ++ lookTail s).Sublist (okPdus s.readLog)
  wireNodup : (s.wire.filterMap reqId).Nodup
  wireOrder : s.wire.Pairwise (OrderOK tbl)

theorem okPdus_append (a b : List InFrame) : okPdus (a ++ b) = okPdus a ++ okPdus b := by
  simp [okPdus, List.filterMap_append]

set_option maxHeartbeats 2000000 in
theorem inv4_missSub (tbl) (s s' : State) (l : Label) (hi : Inv4 tbl s) (hs : Step s l s') :
    (s'.missLog ++ lookTail s').Sublist (okPdus s'.readLog) := by
  have hms := hi.missSub
  cases hs <;> simp only [setPc]
  case wReadOk p rest hw hin =>
    simp only [lookTail, hw] at hms
    simp only [lookTail, okPdus_append]
    simp only [List.append_nil] at hms
    exact List.Sublist.append hms (by simp [okPdus])
  case wReadBad q k rest hw hin =>
    simp only [lookTail, hw] at hms
    simp only [lookTail, okPdus_append]
    simp only [List.append_nil] at hms ⊢
    have : okPdus [InFrame.bad q k] = [] := by simp [okPdus]
    rw [this, List.append_nil]; exact hms
  case wReadFatal rest hw hin =>
    simp only [lookTail, hw] at hms
    simp only [lookTail, okPdus_append]
    simp only [List.append_nil] at hms ⊢
    have : okPdus [InFrame.fatal] = [] := by simp [okPdus]
    rw [this, List.append_nil]; exact hms
  case wLookupHit p i hw hp =>
    simp only [lookTail, hw] at hms
    simp only [lookTail, List.append_nil]
    exact (List.sublist_append_left _ _).trans hms
  case wLookupMiss p hw hp =>
    simp only [lookTail, hw] at hms
    simpa [lookTail] using hms
  all_goals first
    | exact hms
    | (simp_all [lookTail]; done)
    | (simp [lookTail] at hms ⊢; grind)


theorem mem_reqId {w : List OutFrame} {i : Nat} (h : i ∈ w.filterMap reqId) : ∃ q, OutFrame.req i q ∈ w := by
  simp only [List.mem_filterMap] at h
  obtain ⟨f, hf, hi⟩ := h
  cases f with
  | req j q => simp [reqId] at hi; subst hi; exact ⟨q, hf⟩
  | nack q => simp [reqId] at hi

set_option maxHeartbeats 2000000 in
theorem inv4_wireNodup (tbl) (s s' : State) (l : Label) (h2 : Inv2 tbl s) (hi : Inv4 tbl s) (hs : Step s l s') :
    (s'.wire.filterMap reqId).Nodup := by
  have hnd := hi.wireNodup
  have hws := h2.wireSeq
  cases hs <;> simp only [setPc]
  case writeOk i hpc hb =>
    rw [List.filterMap_append]
    simp only [List.filterMap_cons, reqId, List.filterMap_nil]
    refine List.nodup_append.mpr ⟨hnd, by simp, ?_⟩
    intro a ha b hb'
    simp only [List.mem_singleton] at hb'
    subst hb'
    intro hab; subst hab
    obtain ⟨q, hq⟩ := mem_reqId ha
    have := (hws a q hq).2
    rw [hpc] at this
    simp [Pc.pastWrite] at this
  case wNackSend q hw hq hb =>
    rw [List.filterMap_append]
    have : List.filterMap reqId [OutFrame.nack q] = [] := rfl
    rw [this, List.append_nil]; exact hnd
  all_goals exact hnd

set_option maxHeartbeats 2000000 in
theorem inv4_wireOrder (tbl) (s s' : State) (l : Label) (h2 : Inv2 tbl s) (h3 : Inv3 tbl s) (hi : Inv4 tbl s) (hs : Step s l s') :
    s'.wire.Pairwise (OrderOK tbl) := by
  have hwo := hi.wireOrder
  have hws := h2.wireSeq
  have hsp := h3.startedPred
  cases hs <;> simp only [setPc]
  case writeOk i hpc hb =>
    refine List.pairwise_append.mpr ⟨hwo, by simp, ?_⟩
    intro a ha b hb'
    simp only [List.mem_singleton] at hb'
    subst hb'
    intro i' j qi qj h1 h2' haft
    cases h2'
    subst h1
    have hpw := (hws j qj ha).2
    have hne : (s.callers j).pc ≠ .idle := by
      intro h; rw [h] at hpw; simp [Pc.pastWrite] at hpw
    have := hsp j i hne haft
    rw [hpc] at this
    simp [Pc.isDone] at this
  case wNackSend q hw hq hb =>
    refine List.pairwise_append.mpr ⟨hwo, by simp, ?_⟩
    intro a ha b hb'
    simp only [List.mem_singleton] at hb'
    subst hb'
    intro i j qi qj h1 h2'
    cases h2'
  all_goals exact hwo

def isNack : OutFrame → Bool
  | .nack _ => true
  | _ => false

def nackTail (s : State) : List OutFrame := match s.watch with
  | .nacking q => if 0 < q then [.nack q] else []
  | _ => []

def badSeqs (l : List InFrame) : List Int := l.filterMap fun f => match f with
  | .bad q _ => if 0 < q then some q else none
  | _ => none

/-- while writes work: one generic_nack per undecodable frame with a positive sequence number, in order -/
def NackInv (s : State) : Prop :=
  s.writeBroken = false → s.wire.filter isNack ++ nackTail s = (badSeqs s.readLog).map OutFrame.nack

theorem badSeqs_append (a b : List InFrame) : badSeqs (a ++ b) = badSeqs a ++ badSeqs b := by
  simp [badSeqs, List.filterMap_append]

set_option maxHeartbeats 2000000 in
theorem nack_step (s s' : State) (l : Label) (hi : NackInv s) (hs : Step s l s') : NackInv s' := by
  unfold NackInv at hi ⊢
  cases hs <;> simp only [setPc] <;> intro hb
  case wReadOk p rest hw hin =>
    have := hi hb
    simp only [nackTail, hw, List.append_nil] at this
    simp [nackTail, badSeqs_append, this, badSeqs]
  case wReadBad q k rest hw hin =>
    have := hi hb
    simp only [nackTail, hw, List.append_nil] at this
    simp only [nackTail, badSeqs_append, List.map_append, this]
    congr 1
    by_cases hq : 0 < q <;> simp [badSeqs, hq]
  case wReadFatal rest hw hin =>
    have := hi hb
    simp only [nackTail, hw, List.append_nil] at this
    simp [nackTail, badSeqs_append, this, badSeqs]
  case wNackSkip q hw hq =>
    have := hi hb
    rcases hq with hq | hq
    · have hq' : ¬ 0 < q := by omega
      simp only [nackTail, hw, hq', ↓reduceIte, List.append_nil] at this
      simp [nackTail, this]
    · rw [hq] at hb; cases hb
  case wNackSend q hw hq hb' =>
    have := hi hb
    simp only [nackTail, hw, hq, ↓reduceIte] at this
    have e : List.filter isNack [OutFrame.nack q] = [OutFrame.nack q] := rfl
    simp only [nackTail, List.filter_append, List.append_nil, e]
    exact this
  case writeOk i hpc hb' =>
    have := hi hb
    simpa [nackTail, List.filter_append, isNack] using this
  case wPoll hw =>
    have := hi hb
    simp only [nackTail, hw] at this
    by_cases hc : s.connDone = true <;> simp [nackTail, hc, this]
  all_goals first
    | exact hi hb
    | (have := hi hb; simp_all [nackTail]; done)
    | (simp at hb; done)

theorem inv4_init (tbl) : Inv4 tbl (init tbl) := by
  constructor
  · simp [init, lookTail, okPdus]
  · simp [init]
  · simp [init]

theorem inv_all (tbl) (hd : Distinct tbl) (hf : Fresh tbl) (s : State) (h : Reach tbl s) :
    Inv1 tbl s ∧ Inv2 tbl s ∧ Inv3 tbl s ∧ Inv4 tbl s := by
  induction h with
  | init => exact ⟨inv1_init tbl hf, inv2_init tbl hf, inv3_init tbl hf, inv4_init tbl⟩
  | step l hr ha hs ih =>
    have hst := step_sound _ _ _ hs
    obtain ⟨i1, i2, i3, i4⟩ := ih
    have c15 := inv3_c15 tbl _ _ l i1 i3 hst
    exact ⟨⟨inv1_static tbl _ _ l i1 hst, inv1_pendSound tbl hd _ _ l i1 hst, inv1_pendComplete tbl hd _ _ l i1 hst,
      inv1_boxSeq tbl _ _ l i1 hst, inv1_watchSeq tbl _ _ l i1 hst, inv1_resultSeq tbl _ _ l i1 hst⟩,
      ⟨inv2_answeredWire tbl _ _ l i1 i2 hst, inv2_wireSeq tbl _ _ l i1 i2 hst, inv2_pastWriteWire tbl _ _ l i1 i2 hst,
       inv2_checkedPos tbl _ _ l i1 i2 hst, inv2_origin tbl _ _ l i1 i2 hst⟩,
      ⟨inv3_noLeak tbl _ _ l i1 i2 i3 hst, inv3_missExact tbl _ _ l i3 hst, inv3_missBound tbl _ _ l i3 hst, c15.1, c15.2.1, c15.2.2,
       inv3_closeDone tbl _ _ l i1 i3 hst, inv3_startedPred tbl _ _ l i1 i3 hst⟩,
      ⟨inv4_missSub tbl _ _ l i4 hst, inv4_wireNodup tbl _ _ l i2 i4 hst, inv4_wireOrder tbl _ _ l i2 i3 i4 hst⟩⟩


theorem nack_inv (tbl) (s : State) (h : Reach tbl s) : NackInv s := by
  induction h with
  | init => intro _; simp [init, nackTail, badSeqs]
  | step l hr ha hs ih => exact nack_step _ _ l ih (step_sound _ _ _ hs)

/-! ## the keep-alive goroutine -/

/-- the keep-alive goroutine: once its ticker is stopped (a keep-alive failed) it can only be waiting with the connection
context already done — so its `select` has a ready case and the loop returns -/
structure InvKa (tbl : Nat → Caller) (s : State) : Prop where
  running : (s.ka = .off ∨ s.ka = .idle ∨ ∃ i, s.ka = .submitting i) → s.tickerStopped = false
  closingKind : ∀ j, s.ka = .closing j → (tbl j).kind = .close
  stoppedDone : s.ka = .select → s.tickerStopped = true → s.connDone = true

set_option maxHeartbeats 2000000 in
theorem invKa_step (tbl) (s s' : State) (l : Label) (h1 : Inv1 tbl s) (h3 : Inv3 tbl s) (hi : InvKa tbl s) (hs : Step s l s') :
    InvKa tbl s' := by
  obtain ⟨hr, hk, hsd⟩ := hi
  have hst := h1.static
  have hcd := h3.closeDone
  cases hs <;> (try simp only [setPc]) <;> constructor <;> first
    | exact hr
    | exact hk
    | exact hsd
    | grind [upd, updI, Pc.isDone]

theorem invKa_init (tbl) : InvKa tbl (init tbl) := by
  constructor <;> simp [init]

theorem invKa (tbl) (hd : Distinct tbl) (hf : Fresh tbl) (s : State) (h : Reach tbl s) : InvKa tbl s := by
  induction h with
  | init => exact invKa_init tbl
  | step l hr ha hs ih =>
    obtain ⟨i1, _, i3, _⟩ := inv_all tbl hd hf _ hr
    exact invKa_step tbl _ _ l i1 i3 ih (step_sound _ _ _ hs)

end Smpp.Conn
