/-
Progress for the connection model (C05 "every Submit call returns", C15 "returns promptly"):

 * every goroutine step strictly decreases a natural-number measure, so between two environment
   events the goroutines can only take finitely many steps (no livelock);
 * a state in which no goroutine step is enabled is characterised: under the C05 environment an
   answered Submit has returned its own response; after teardown every started call has returned.
-/
import Smpp.Proofs.ConnInv

namespace Smpp.Conn

/-- steps taken by the library's goroutines (callers past `start`, Watch) and the transport's Write
returning; NOT: the application starting a call, the peer, timers, faults, the keep-alive scheduler -/
def Label.internal : Label → Bool
  | .check _ | .write _ | .writeRet _ | .takeResp _ | .seeConnDone _ | .seeOwnDone _ | .finish _
  | .closeTransport _ | .closeCancel _
  | .wPoll | .wRead | .wLookup | .wDeliver | .wOffer | .wOfferCancel | .wNack | .wExit => true
  | _ => false

/-! ## the measure -/

def Pc.rank : Pc → Nat
  | .idle => 0
  | .registered => 7
  | .checked => 6
  | .wrote => 5
  | .waiting => 4
  | .leaving _ => 3
  | .closing _ => 2
  | .cancelling _ => 1
  | .done _ => 0

def WatchPc.rank : WatchPc → Nat
  | .poll => 3
  | .reading => 2
  | .looking _ => 5
  | .delivering _ _ => 4
  | .offering _ => 4
  | .nacking _ => 4
  | .exiting => 1
  | .returned => 0

def sumTo (f : Nat → Nat) : Nat → Nat
  | 0 => 0
  | n + 1 => sumTo f n + f n

theorem sumTo_congr (f g : Nat → Nat) (n : Nat) (h : ∀ i, i < n → f i = g i) : sumTo f n = sumTo g n := by
  induction n with
  | zero => rfl
  | succ n ih =>
    simp only [sumTo]
    rw [ih (fun i hi => h i (by omega)), h n (by omega)]

/-- lowering one summand lowers the sum by the same amount -/
theorem sumTo_lower (f g : Nat → Nat) (n i : Nat) (hi : i < n) (hlt : g i < f i) (hoth : ∀ j, j ≠ i → g j = f j) :
    sumTo g n < sumTo f n := by
  induction n with
  | zero => omega
  | succ n ih =>
    simp only [sumTo]
    by_cases hin : i = n
    · subst hin
      have := sumTo_congr g f i (fun j hj => hoth j (by omega))
      omega
    · have := ih (by omega)
      have hn := hoth n (fun h => hin h.symm)
      omega

/-- work left for the goroutines among the first `n` table entries and in Watch -/
def mu (n : Nat) (s : State) : Nat :=
  sumTo (fun i => (s.callers i).pc.rank) n + 4 * s.inbound.length + s.watch.rank

/-- `n` bounds the calls that have been started -/
def Bounded (n : Nat) (s : State) : Prop := ∀ i, n ≤ i → (s.callers i).pc = .idle

theorem mu_setPc (n : Nat) (s : State) (i : Nat) (pc : Pc) (hb : Bounded n s) (hne : (s.callers i).pc ≠ .idle)
    (hlt : pc.rank < (s.callers i).pc.rank) :
    sumTo (fun j => ((setPc s i pc).callers j).pc.rank) n < sumTo (fun j => (s.callers j).pc.rank) n := by
  have hi : i < n := by
    rcases Nat.lt_or_ge i n with h | h
    · exact h
    · exact absurd (hb i h) hne
  apply sumTo_lower _ _ n i hi
  · simpa [setPc] using hlt
  · intro j hj
    simp [setPc, upd, hj]

theorem mu_caller_lt (n : Nat) (s s' : State) (i : Nat) (hb : Bounded n s) (hne : (s.callers i).pc ≠ .idle)
    (hlt : (s'.callers i).pc.rank < (s.callers i).pc.rank)
    (hoth : ∀ j, j ≠ i → (s'.callers j).pc = (s.callers j).pc)
    (hin : s'.inbound = s.inbound) (hw : s'.watch = s.watch) : mu n s' < mu n s := by
  have hi : i < n := by
    rcases Nat.lt_or_ge i n with h | h
    · exact h
    · exact absurd (hb i h) hne
  have := sumTo_lower (fun j => (s.callers j).pc.rank) (fun j => (s'.callers j).pc.rank) n i hi hlt
    (fun j hj => by simp only [hoth j hj])
  unfold mu
  rw [hin, hw]
  omega

theorem mu_watch_lt (n : Nat) (s s' : State) (hc : ∀ j, (s'.callers j).pc = (s.callers j).pc)
    (h : 4 * s'.inbound.length + s'.watch.rank < 4 * s.inbound.length + s.watch.rank) : mu n s' < mu n s := by
  have := sumTo_congr (fun j => (s'.callers j).pc.rank) (fun j => (s.callers j).pc.rank) n (fun j _ => by simp only [hc j])
  unfold mu
  omega

/-- **No livelock.**  Every goroutine step strictly decreases the measure (in any state satisfying the
teardown-safety invariant: the queue is closed only once Watch has returned). -/
theorem mu_decreases (n : Nat) (s s' : State) (l : Label) (hq : s.queueClosed = true → s.watch = .returned)
    (hb : Bounded n s) (hl : l.internal = true) (hs : Step s l s') : mu n s' < mu n s := by
  cases hs
  case checkBad i h1 h2 =>
    exact mu_caller_lt n s _ i hb (by rw [h1]; simp) (by simp [setPc, h1, Pc.rank]) (fun j hj => by simp [setPc, upd, hj]) rfl rfl
  case checkOk i h1 h2 =>
    exact mu_caller_lt n s _ i hb (by rw [h1]; simp) (by simp [setPc, h1, Pc.rank]) (fun j hj => by simp [setPc, upd, hj]) rfl rfl
  case writeBroken i h1 h2 =>
    exact mu_caller_lt n s _ i hb (by rw [h1]; simp) (by simp [setPc, h1, Pc.rank]) (fun j hj => by simp [setPc, upd, hj]) rfl rfl
  case writeOk i h1 h2 =>
    exact mu_caller_lt n s _ i hb (by rw [h1]; simp) (by simp [setPc, h1, Pc.rank]) (fun j hj => by simp [setPc, upd, hj]) rfl rfl
  case writeRetSend i h1 h2 =>
    exact mu_caller_lt n s _ i hb (by rw [h1]; simp) (by simp [setPc, h1, Pc.rank]) (fun j hj => by simp [setPc, upd, hj]) rfl rfl
  case writeRetWait i h1 h2 =>
    exact mu_caller_lt n s _ i hb (by rw [h1]; simp) (by simp [setPc, h1, Pc.rank]) (fun j hj => by simp [setPc, upd, hj]) rfl rfl
  case takeResp i p h1 h2 =>
    exact mu_caller_lt n s _ i hb (by rw [h1]; simp) (by simp [h1, Pc.rank]) (fun j hj => by simp [upd, hj]) rfl rfl
  case seeConnDone i h1 h2 =>
    exact mu_caller_lt n s _ i hb (by rw [h1]; simp) (by simp [setPc, h1, Pc.rank]) (fun j hj => by simp [setPc, upd, hj]) rfl rfl
  case seeOwnDone i h1 h2 =>
    exact mu_caller_lt n s _ i hb (by rw [h1]; simp) (by simp [setPc, h1, Pc.rank]) (fun j hj => by simp [setPc, upd, hj]) rfl rfl
  case finishSend i r h1 h2 =>
    exact mu_caller_lt n s _ i hb (by rw [h1]; simp) (by simp [setPc, h1, Pc.rank]) (fun j hj => by simp [setPc, upd, hj]) rfl rfl
  case finishSubmit i r h1 h2 =>
    exact mu_caller_lt n s _ i hb (by rw [h1]; simp) (by simp [setPc, h1, Pc.rank]) (fun j hj => by simp [setPc, upd, hj]) rfl rfl
  case finishClose i r h1 h2 =>
    exact mu_caller_lt n s _ i hb (by rw [h1]; simp) (by simp [setPc, h1, Pc.rank]) (fun j hj => by simp [setPc, upd, hj]) rfl rfl
  case closeTransportOk i p h1 =>
    exact mu_caller_lt n s _ i hb (by rw [h1]; simp) (by simp [setPc, h1, Pc.rank]) (fun j hj => by simp [setPc, upd, hj]) rfl rfl
  case closeTransportSkip i r h1 h2 =>
    exact mu_caller_lt n s _ i hb (by rw [h1]; simp) (by simp [setPc, h1, Pc.rank]) (fun j hj => by simp [setPc, upd, hj]) rfl rfl
  case closeCancel i r h1 =>
    exact mu_caller_lt n s _ i hb (by rw [h1]; simp) (by simp [setPc, h1, Pc.rank]) (fun j hj => by simp [setPc, upd, hj]) rfl rfl
  case wPoll h1 =>
    refine mu_watch_lt n s _ (fun _ => rfl) ?_
    cases hc : s.connDone <;> simp [h1, WatchPc.rank]
  case wReadOk p rest h1 h2 =>
    refine mu_watch_lt n s _ (fun _ => rfl) ?_
    simp only [h1, h2, WatchPc.rank, List.length_cons]; omega
  case wReadBad q k rest h1 h2 =>
    refine mu_watch_lt n s _ (fun _ => rfl) ?_
    simp only [h1, h2, WatchPc.rank, List.length_cons]; omega
  case wReadFatal rest h1 h2 =>
    refine mu_watch_lt n s _ (fun _ => rfl) ?_
    simp only [h1, h2, WatchPc.rank, List.length_cons]; omega
  case wReadEnd h1 h2 h3 =>
    refine mu_watch_lt n s _ (fun _ => rfl) ?_
    simp only [h1, WatchPc.rank]; omega
  case wLookupHit p i h1 h2 =>
    refine mu_watch_lt n s _ (fun _ => rfl) ?_
    simp only [h1, WatchPc.rank]; omega
  case wLookupMiss p h1 h2 =>
    refine mu_watch_lt n s _ (fun _ => rfl) ?_
    simp only [h1, WatchPc.rank]; omega
  case wDeliver i p h1 h2 =>
    refine mu_watch_lt n s _ (fun j => ?_) ?_
    · simp only [upd]; split <;> simp_all
    simp only [h1, WatchPc.rank]; omega
  case wOfferPanic p h1 h2 =>
    rw [hq h2] at h1; cases h1
  case wOffer p h1 h2 h3 =>
    refine mu_watch_lt n s _ (fun _ => rfl) ?_
    simp only [h1, WatchPc.rank]; omega
  case wOfferCancel p h1 h2 =>
    refine mu_watch_lt n s _ (fun _ => rfl) ?_
    simp only [h1, WatchPc.rank]; omega
  case wNackSkip q h1 h2 =>
    refine mu_watch_lt n s _ (fun _ => rfl) ?_
    simp only [h1, WatchPc.rank]; omega
  case wNackSend q h1 h2 h3 =>
    refine mu_watch_lt n s _ (fun _ => rfl) ?_
    simp only [h1, WatchPc.rank]; omega
  case wExitPanic h1 h2 =>
    refine mu_watch_lt n s _ (fun _ => rfl) ?_
    simp only [h1, WatchPc.rank]; omega
  case wExit h1 h2 =>
    refine mu_watch_lt n s _ (fun _ => rfl) ?_
    simp only [h1, WatchPc.rank]; omega
  all_goals simp [Label.internal] at hl

/-- goroutine steps start no call: the bound on started calls is kept -/
theorem bounded_step (n : Nat) (s s' : State) (l : Label) (hb : Bounded n s) (hl : l.internal = true) (hs : Step s l s') :
    Bounded n s' := by
  intro j hj
  have hidle := hb j hj
  cases hs <;> first
    | (simp [Label.internal] at hl; done)
    | exact hidle
    | (simp only [setPc, upd]; split <;> simp_all)

/-! ## the C05 environment: the peer answers requests (calls that expect a response), each once -/

def AdmissibleP (tbl : Nat → Caller) (l : Label) : Prop :=
  Admissible tbl l ∧ (match l with | .peerAnswer k => (tbl k).kind ≠ .send | _ => True)

inductive ReachP (tbl : Nat → Caller) : State → Prop where
  | init : ReachP tbl (init tbl)
  | step {s s' : State} (l : Label) : ReachP tbl s → AdmissibleP tbl l → step s l = some s' → ReachP tbl s'

theorem ReachP.reach {tbl : Nat → Caller} {s : State} (h : ReachP tbl s) : Reach tbl s := by
  induction h with
  | init => exact Reach.init
  | step l _ ha hs ih => exact Reach.step l ih ha.1 hs

/-- the answer to call j -/
def answerOf (tbl : Nat → Caller) (j : Nat) : InPdu := ⟨(tbl j).seq, .ans j⟩

/-! ## invariant 5: whose PDU is where, and why a call returned what it returned -/

structure Inv5 (tbl : Nat → Caller) (s : State) : Prop where
  watchKind : ∀ k p, s.watch = .delivering k p → (tbl k).kind ≠ .send
  origU : ∀ p, located s p → ∀ j, (tbl j).kind ≠ .send → p.seq = (tbl j).seq → p = answerOf tbl j
  why : ∀ i r, (s.callers i).pc.result? = some r →
      (r = .err .closed → s.connDone = true) ∧ (r = .err .ctx → (s.callers i).ownDone = true) ∧
      (r = .sent → (tbl i).kind = .send) ∧ (r = .err .invalidSeq → (tbl i).seq ≤ 0) ∧
      (r = .err .write → s.writeBroken = true)

set_option maxHeartbeats 1000000 in
theorem inv5_watchKind (tbl) (s s' : State) (l : Label) (h1 : Inv1 tbl s) (hi : Inv5 tbl s) (hs : Step s l s') :
    ∀ k p, s'.watch = .delivering k p → (tbl k).kind ≠ .send := by
  have hwk := hi.watchKind
  have hps := h1.pendSound
  cases hs <;> (try simp only [setPc]) <;> intro k p hw <;>
    first
    | exact hwk k p hw
    | grind

set_option maxHeartbeats 2000000 in
theorem inv5_origU (tbl) (hd : Distinct tbl) (s s' : State) (l : Label) (ha : AdmissibleP tbl l) (h1 : Inv1 tbl s)
    (hi : Inv5 tbl s) (hs : Step s l s') :
    ∀ p, located s' p → ∀ j, (tbl j).kind ≠ .send → p.seq = (tbl j).seq → p = answerOf tbl j := by
  have hou := hi.origU
  have hst := h1.static
  cases hs <;> (try simp only [setPc]) <;> intro p hl j hk hq <;>
    first
    | exact hou p hl j hk hq
    | grind [upd, updI, located, Pc.result?, AdmissibleP, Admissible, answerOf, Distinct]

set_option maxHeartbeats 2000000 in
theorem inv5_why (tbl) (s s' : State) (l : Label) (h1 : Inv1 tbl s) (hi : Inv5 tbl s) (hs : Step s l s') :
    ∀ i r, (s'.callers i).pc.result? = some r →
      (r = .err .closed → s'.connDone = true) ∧ (r = .err .ctx → (s'.callers i).ownDone = true) ∧
      (r = .sent → (tbl i).kind = .send) ∧ (r = .err .invalidSeq → (tbl i).seq ≤ 0) ∧
      (r = .err .write → s'.writeBroken = true) := by
  have hwy := hi.why
  have hst := h1.static
  cases hs <;> (try simp only [setPc]) <;> intro j r hr <;>
    first
    | exact hwy j r hr
    | grind [upd, updI, Pc.result?]

/-! ## invariant 6: the answer to a call exists exactly once from the moment the peer sends it -/

def watchHolds (s : State) (P : InPdu) : Nat :=
  match s.watch with
  | .looking p => if p = P then 1 else 0
  | .delivering _ p => if p = P then 1 else 0
  | _ => 0

/-- in how many places the PDU `P` destined for call `j` is: still unread, in Watch's hands, in the call's
response slot, returned by the call, or logged as having found no waiter -/
def cnt (s : State) (j : Nat) (P : InPdu) : Nat :=
  s.inbound.count (.ok P) + watchHolds s P + (if (s.callers j).box = some P then 1 else 0) +
    (if (s.callers j).pc.result? = some (.resp P) then 1 else 0) + s.missLog.count P

def Inv6 (tbl : Nat → Caller) (s : State) : Prop :=
  ∀ j, (tbl j).kind ≠ .send → cnt s j (answerOf tbl j) = if (s.callers j).answered = true then 1 else 0

set_option maxHeartbeats 4000000 in
theorem inv6_step (tbl) (hd : Distinct tbl) (s s' : State) (l : Label) (ha : AdmissibleP tbl l) (h1 : Inv1 tbl s)
    (h5 : Inv5 tbl s) (hi : Inv6 tbl s) (hs : Step s l s') : Inv6 tbl s' := by
  have hst := h1.static
  have hws := h1.watchSeq
  have hwk := h5.watchKind
  intro j hk
  have hj := hi j hk
  unfold cnt watchHolds at hj ⊢
  cases hs <;> (try simp only [setPc]) <;>
    first
    | exact hj
    | grind [upd, updI, Pc.result?, AdmissibleP, Admissible, answerOf, Distinct]

theorem located_init (tbl) (hf : Fresh tbl) (p : InPdu) : ¬ located (init tbl) p := by
  intro hl
  unfold located at hl
  simp only [init] at hl
  rcases hl with h | h | ⟨j, h⟩ | h | ⟨j, h⟩ | ⟨j, h⟩ | h | h
  · simp at h
  · simp at h
  · simp at h
  · simp at h
  · have := (hf j).2.1; simp [this] at h
  · have := (hf j).1; simp [this, Pc.result?] at h
  · simp at h
  · simp at h

theorem inv5_init (tbl) (hf : Fresh tbl) : Inv5 tbl (init tbl) := by
  constructor
  · intro k p h; simp [init] at h
  · intro p hl; exact absurd hl (located_init tbl hf p)
  · intro i r h; have := (hf i).1; simp [init, this, Pc.result?] at h

theorem inv6_init (tbl) (hf : Fresh tbl) : Inv6 tbl (init tbl) := by
  intro j _
  have h1 := (hf j).1
  have h2 := (hf j).2.1
  have h3 := (hf j).2.2
  simp [cnt, watchHolds, init, h1, h2, h3, Pc.result?]

theorem inv56 (tbl) (hd : Distinct tbl) (hf : Fresh tbl) (s : State) (h : ReachP tbl s) : Inv5 tbl s ∧ Inv6 tbl s := by
  induction h with
  | init => exact ⟨inv5_init tbl hf, inv6_init tbl hf⟩
  | @step s s' l hr ha hs ih =>
    have h1 := inv1 tbl hd hf s hr.reach
    have hS := step_sound s s' l hs
    exact ⟨⟨inv5_watchKind tbl s s' l h1 ih.1 hS, inv5_origU tbl hd s s' l ha h1 ih.1 hS, inv5_why tbl s s' l h1 ih.1 hS⟩,
      inv6_step tbl hd s s' l ha h1 ih.1 ih.2 hS⟩

/-! ## quiescent states: no goroutine step is enabled -/

def Quiescent (s : State) : Prop := ∀ l : Label, l.internal = true → step s l = none

/-- where a call can be when nothing moves: not started, returned, or waiting with an empty slot and both contexts live -/
theorem quiescent_pc (s : State) (hq : Quiescent s) (i : Nat) :
    (s.callers i).pc = .idle ∨ (∃ r, (s.callers i).pc = .done r) ∨
    ((s.callers i).pc = .waiting ∧ (s.callers i).box = none ∧ s.connDone = false ∧ (s.callers i).ownDone = false) := by
  cases hpc : (s.callers i).pc with
  | idle => exact Or.inl rfl
  | done r => exact Or.inr (Or.inl ⟨r, rfl⟩)
  | registered => have := hq (.check i) rfl; simp [step, hpc] at this
  | checked => have := hq (.write i) rfl; simp only [step, hpc, ↓reduceIte] at this; split at this <;> simp at this
  | wrote => have := hq (.writeRet i) rfl; simp [step, hpc] at this
  | leaving r => have := hq (.finish i) rfl; simp [step, hpc] at this
  | closing r => have := hq (.closeTransport i) rfl; simp [step, hpc] at this
  | cancelling r => have := hq (.closeCancel i) rfl; simp [step, hpc] at this
  | waiting =>
    refine Or.inr (Or.inr ⟨rfl, ?_, ?_, ?_⟩)
    · cases hb : (s.callers i).box with
      | none => rfl
      | some p => have := hq (.takeResp i) rfl; simp [step, hpc, hb] at this
    · cases hc : s.connDone with
      | false => rfl
      | true => have := hq (.seeConnDone i) rfl; simp [step, hpc, hc] at this
    · cases hc : (s.callers i).ownDone with
      | false => rfl
      | true => have := hq (.seeOwnDone i) rfl; simp [step, hpc, hc] at this

/-- where Watch can be when nothing moves -/
theorem quiescent_watch (s : State) (hq : Quiescent s) :
    s.watch = .returned ∨ (s.watch = .reading ∧ s.inbound = [] ∧ s.readSide = .open) ∨
    (∃ k p q, s.watch = .delivering k p ∧ (s.callers k).box = some q) ∨
    (∃ p, s.watch = .offering p ∧ s.draining = false ∧ s.connDone = false) := by
  cases hw : s.watch with
  | returned => exact Or.inl rfl
  | poll => have := hq .wPoll rfl; simp [step, hw] at this
  | looking p => have := hq .wLookup rfl; simp [step, hw] at this
  | nacking q => have := hq .wNack rfl; simp [step, hw] at this
  | exiting => have := hq .wExit rfl; simp [step, hw] at this
  | reading =>
    have := hq .wRead rfl
    simp only [step, hw, ↓reduceIte] at this
    cases hin : s.inbound with
    | cons f rest => simp [hin] at this
    | nil =>
      simp only [hin] at this
      cases hr : s.readSide with
      | «open» => exact Or.inr (Or.inl ⟨rfl, rfl, rfl⟩)
      | eof => simp [hr] at this
      | err => simp [hr] at this
  | delivering k p =>
    cases hb : (s.callers k).box with
    | none => have := hq .wDeliver rfl; simp [step, hw, hb] at this
    | some q => exact Or.inr (Or.inr (Or.inl ⟨k, p, q, rfl, hb⟩))
  | offering p =>
    have h1 := hq .wOffer rfl
    have h2 := hq .wOfferCancel rfl
    simp only [step, hw] at h1 h2
    cases hc : s.connDone with
    | true => simp [hc] at h2
    | false =>
      cases hd : s.draining with
      | false => exact Or.inr (Or.inr (Or.inr ⟨p, rfl, rfl, rfl⟩))
      | true =>
        cases hqc : s.queueClosed <;> simp [hqc, hd] at h1

/-- Watch is never stuck handing a response to a call whose slot is still full: that would be two copies of one answer -/
theorem no_double_delivery (tbl) (hd : Distinct tbl) (hf : Fresh tbl) (s : State) (hr : ReachP tbl s)
    (k : Nat) (p q : InPdu) (hw : s.watch = .delivering k p) (hb : (s.callers k).box = some q) : False := by
  have h1 := inv1 tbl hd hf s hr.reach
  obtain ⟨h5, h6⟩ := inv56 tbl hd hf s hr
  have hk := h5.watchKind k p hw
  have hp : p = answerOf tbl k := h5.origU p (Or.inr (Or.inr (Or.inl ⟨k, hw⟩))) k hk (h1.watchSeq k p hw)
  have hq : q = answerOf tbl k := h5.origU q (Or.inr (Or.inr (Or.inr (Or.inr (Or.inl ⟨k, hb⟩))))) k hk (h1.boxSeq k q hb)
  have hc := h6 k hk
  subst hp
  rw [hq] at hb
  have : 2 ≤ cnt s k (answerOf tbl k) := by
    unfold cnt watchHolds
    simp only [hw, hb, ↓reduceIte]
    omega
  split at hc <;> omega

/-! ## the progress theorems -/

/-- **An answered Submit has returned its own response** in every state where nothing moves any more, as long as
neither context is done and the application is draining. -/
theorem answered_returns (tbl) (hd : Distinct tbl) (hf : Fresh tbl) (s : State) (hr : ReachP tbl s) (hq : Quiescent s)
    (i : Nat) (hkind : (tbl i).kind = .submit) (hans : (s.callers i).answered = true)
    (hconn : s.connDone = false) (hown : (s.callers i).ownDone = false) (hdrain : s.draining = true) :
    (s.callers i).pc = .done (.resp (answerOf tbl i)) := by
  obtain ⟨h1, h2, h3, h4⟩ := inv_all tbl hd hf s hr.reach
  obtain ⟨h5, h6⟩ := inv56 tbl hd hf s hr
  have hk : (tbl i).kind ≠ .send := by rw [hkind]; simp
  have hpw : (s.callers i).pc.pastWrite = true := (h2.wireSeq i _ (h2.answeredWire i hans)).2
  have hc := h6 i hk
  simp only [hans, ↓reduceIte] at hc
  -- nothing of the answer is still with Watch or unread
  have hwatch : s.inbound.count (.ok (answerOf tbl i)) = 0 ∧ watchHolds s (answerOf tbl i) = 0 := by
    rcases quiescent_watch s hq with hw | ⟨hw, hin, _⟩ | ⟨k, p, q, hw, hb⟩ | ⟨p, _, hdr, _⟩
    · have := (h3.watchDone hw).1; rw [hconn] at this; cases this
    · simp [hin, watchHolds, hw]
    · exact absurd hb (fun hb => no_double_delivery tbl hd hf s hr k p q hw hb)
    · rw [hdrain] at hdr; cases hdr
  rcases quiescent_pc s hq i with hpc | ⟨r, hpc⟩ | ⟨hpc, hbox, _, _⟩
  · rw [hpc] at hpw; simp [Pc.pastWrite] at hpw
  · cases r with
    | resp p =>
      have hseq := h1.resultSeq i p (by simp [hpc, Pc.result?])
      have hp : p = answerOf tbl i :=
        h5.origU p (Or.inr (Or.inr (Or.inr (Or.inr (Or.inr (Or.inl ⟨i, by simp [hpc, Pc.result?]⟩)))))) i hk hseq
      rw [hpc, hp]
    | sent =>
      have := (h5.why i .sent (by simp [hpc, Pc.result?])).2.2.1 rfl
      rw [hkind] at this; cases this
    | err e =>
      have hw := h5.why i (.err e) (by simp [hpc, Pc.result?])
      cases e with
      | closed => have := hw.1 rfl; rw [hconn] at this; cases this
      | ctx => have := hw.2.1 rfl; rw [hown] at this; cases this
      | invalidSeq => rw [hpc] at hpw; simp [Pc.pastWrite, Result.afterWrite] at hpw
      | write => rw [hpc] at hpw; simp [Pc.pastWrite, Result.afterWrite] at hpw
  · -- still waiting with an empty slot: then the answer must have been handed to the application, which never happens
    -- to a call that is still registered
    unfold cnt at hc
    simp only [hwatch.1, hwatch.2, hbox, hpc, Pc.result?] at hc
    have hmem : answerOf tbl i ∈ s.missLog := by
      apply List.count_pos_iff.mp
      simp at hc
      omega
    have := h3.noLeak (answerOf tbl i) i hmem rfl hk
    rw [hpc] at this; simp [Pc.departed] at this

/-- **Before the answer comes, a started Submit is waiting with its request at the peer** (so the peer can answer:
the step `peerAnswer i` is enabled), in every state where nothing moves any more. -/
theorem unanswered_waits (tbl) (hd : Distinct tbl) (hf : Fresh tbl) (s : State) (hr : ReachP tbl s) (hq : Quiescent s)
    (i : Nat) (hkind : (tbl i).kind = .submit) (hstarted : (s.callers i).pc ≠ .idle) (hpos : 0 < (tbl i).seq)
    (hans : (s.callers i).answered = false)
    (hconn : s.connDone = false) (hown : (s.callers i).ownDone = false) (hwb : s.writeBroken = false) :
    (s.callers i).pc = .waiting ∧ (step s (.peerAnswer i)).isSome = true := by
  obtain ⟨h1, h2, h3, h4⟩ := inv_all tbl hd hf s hr.reach
  obtain ⟨h5, h6⟩ := inv56 tbl hd hf s hr
  have hk : (tbl i).kind ≠ .send := by rw [hkind]; simp
  rcases quiescent_pc s hq i with hpc | ⟨r, hpc⟩ | ⟨hpc, _, _, _⟩
  · exact absurd hpc hstarted
  · exfalso
    cases r with
    | resp p =>
      have hloc : located s p := Or.inr (Or.inr (Or.inr (Or.inr (Or.inr (Or.inl ⟨i, by simp [hpc, Pc.result?]⟩)))))
      have hseq := h1.resultSeq i p (by simp [hpc, Pc.result?])
      have hp : p = answerOf tbl i := h5.origU p hloc i hk hseq
      have := (h2.origin p i hloc (by rw [hp]; rfl)).2
      rw [hans] at this; cases this
    | sent =>
      have := (h5.why i .sent (by simp [hpc, Pc.result?])).2.2.1 rfl
      rw [hkind] at this; cases this
    | err e =>
      have hw := h5.why i (.err e) (by simp [hpc, Pc.result?])
      cases e with
      | closed => have := hw.1 rfl; rw [hconn] at this; cases this
      | ctx => have := hw.2.1 rfl; rw [hown] at this; cases this
      | invalidSeq => have := hw.2.2.2.1 rfl; omega
      | write => have := hw.2.2.2.2 rfl; rw [hwb] at this; cases this
  · refine ⟨hpc, ?_⟩
    have hwire := h2.pastWriteWire i (by simp [hpc, Pc.pastWrite])
    have hseq := (h1.static i).2.1
    simp [step, hseq, hwire, hans]

/-- **After teardown every started call has returned** and Watch has returned or is parked in Read on a transport
that is still open with nothing to read, in every state where nothing moves any more. -/
theorem teardown_quiescent (tbl) (hd : Distinct tbl) (hf : Fresh tbl) (s : State) (hr : ReachP tbl s) (hq : Quiescent s)
    (hconn : s.connDone = true) :
    (∀ i, (s.callers i).pc = .idle ∨ ∃ r, (s.callers i).pc = .done r) ∧
    (s.watch = .returned ∨ (s.watch = .reading ∧ s.inbound = [] ∧ s.readSide = .open)) := by
  constructor
  · intro i
    rcases quiescent_pc s hq i with hpc | hpc | ⟨_, _, hc, _⟩
    · exact Or.inl hpc
    · exact Or.inr hpc
    · rw [hconn] at hc; cases hc
  · rcases quiescent_watch s hq with hw | hw | ⟨k, p, q, hw, hb⟩ | ⟨p, _, _, hc⟩
    · exact Or.inl hw
    · exact Or.inr hw
    · exact absurd hb (fun hb => no_double_delivery tbl hd hf s hr k p q hw hb)
    · rw [hconn] at hc; cases hc

/-- goroutine labels are admissible in every environment -/
theorem internal_admissibleP (tbl) (l : Label) (hl : l.internal = true) : AdmissibleP tbl l := by
  cases l <;> simp [Label.internal] at hl <;> exact ⟨trivial, trivial⟩

/-- **No livelock, quantitatively.**  From a reachable state with at most `n` calls started, ANY sequence of goroutine
steps has at most `mu n s` elements: the goroutines come to rest between environment events. -/
theorem internal_run_bound (tbl) (hd : Distinct tbl) (hf : Fresh tbl) (n : Nat) :
    ∀ (ls : List Label) (s s' : State), ReachP tbl s → Bounded n s → (∀ l ∈ ls, l.internal = true) →
      run s ls = some s' → ls.length + mu n s' ≤ mu n s ∧ ReachP tbl s' ∧ Bounded n s' := by
  intro ls
  induction ls with
  | nil =>
    intro s s' hr hb _ hrun
    simp only [run, Option.some.injEq] at hrun
    subst hrun
    exact ⟨by simp, hr, hb⟩
  | cons l ls ih =>
    intro s s' hr hb hall hrun
    simp only [run] at hrun
    cases hst : step s l with
    | none => simp [hst] at hrun
    | some s1 =>
      simp only [hst] at hrun
      have hl : l.internal = true := hall l (by simp)
      have hS := step_sound s s1 l hst
      obtain ⟨_, _, h3, _⟩ := inv_all tbl hd hf s hr.reach
      have hdec := mu_decreases n s s1 l h3.qClosed hb hl hS
      have hr1 : ReachP tbl s1 := ReachP.step l hr (internal_admissibleP tbl l hl) hst
      have hb1 := bounded_step n s s1 l hb hl hS
      obtain ⟨hlen, hr', hb'⟩ := ih s1 s' hr1 hb1 (fun x hx => hall x (by simp [hx])) hrun
      exact ⟨by simp only [List.length_cons]; omega, hr', hb'⟩

/-- reachability along a run of admissible labels -/
theorem reachP_run (tbl) : ∀ (ls : List Label) (s s' : State), ReachP tbl s → (∀ l ∈ ls, AdmissibleP tbl l) →
    run s ls = some s' → ReachP tbl s' := by
  intro ls
  induction ls with
  | nil => intro s s' hr _ h; simp [run] at h; subst h; exact hr
  | cons l ls ih =>
    intro s s' hr ha h
    simp only [run] at h
    cases hs : step s l with
    | none => simp [hs] at h
    | some s1 =>
      simp only [hs] at h
      exact ih s1 s' (ReachP.step l hr (ha l (by simp)) hs) (fun x hx => ha x (by simp [hx])) h

/-- a state at rest: Watch parked in Read on an open idle transport, every call not started or returned -/
theorem quiescent_of_rest (s : State) (hw : s.watch = .reading) (hin : s.inbound = []) (hr : s.readSide = .open)
    (hpc : ∀ j, (s.callers j).pc = .idle ∨ ∃ r, (s.callers j).pc = .done r) : Quiescent s := by
  intro l hl
  cases l with
  | check i | write i | writeRet i | takeResp i | seeConnDone i | seeOwnDone i | finish i | closeTransport i | closeCancel i =>
    rcases hpc i with h | ⟨r, h⟩ <;> simp [step, h]
  | wPoll | wRead | wLookup | wDeliver | wOffer | wOfferCancel | wNack | wExit => simp [step, hw, hin, hr]
  | _ => simp [Label.internal] at hl

/-- a Send call is never in Submit's final select -/
def InvSend (tbl : Nat → Caller) (s : State) : Prop := ∀ i, (tbl i).kind = .send → (s.callers i).pc ≠ .waiting

set_option maxHeartbeats 1000000 in
theorem invSend_step (tbl) (s s' : State) (l : Label) (h1 : Inv1 tbl s) (hi : InvSend tbl s) (hs : Step s l s') :
    InvSend tbl s' := by
  have hst := h1.static
  intro j hk
  have hj := hi j hk
  cases hs <;> (try simp only [setPc]) <;>
    first
    | exact hj
    | grind [upd, updI]

theorem invSend (tbl) (hd : Distinct tbl) (hf : Fresh tbl) (s : State) (h : Reach tbl s) : InvSend tbl s := by
  induction h with
  | init => intro i _; have := (hf i).1; simp [init, this]
  | @step s s' l hr ha hs ih => exact invSend_step tbl s s' l (inv1 tbl hd hf s hr) ih (step_sound s s' l hs)

/-- a Send call never stays blocked: at rest it has returned (or was never started) -/
theorem send_returns_at_rest (tbl) (hd : Distinct tbl) (hf : Fresh tbl) (s : State) (hr : Reach tbl s) (hq : Quiescent s)
    (i : Nat) (hk : (tbl i).kind = .send) : (s.callers i).pc = .idle ∨ ∃ r, (s.callers i).pc = .done r := by
  rcases quiescent_pc s hq i with h | h | ⟨h, _, _, _⟩
  · exact Or.inl h
  · exact Or.inr h
  · exact absurd h (invSend tbl hd hf s hr i hk)

/-- a state at rest after teardown: Watch returned, every call not started or returned -/
theorem quiescent_of_returned (s : State) (hw : s.watch = .returned)
    (hpc : ∀ j, (s.callers j).pc = .idle ∨ ∃ r, (s.callers j).pc = .done r) : Quiescent s := by
  intro l hl
  cases l with
  | check i | write i | writeRet i | takeResp i | seeConnDone i | seeOwnDone i | finish i | closeTransport i | closeCancel i =>
    rcases hpc i with h | ⟨r, h⟩ <;> simp [step, h]
  | wPoll | wRead | wLookup | wDeliver | wOffer | wOfferCancel | wNack | wExit => simp [step, hw]
  | _ => simp [Label.internal] at hl

/-- the C05 environment as a state predicate: connection live, transport open, nothing fatal queued, application draining, no
Close call anywhere -/
def Calm (s : State) : Prop :=
  s.connDone = false ∧ s.readSide = .open ∧ InFrame.fatal ∉ s.inbound ∧ s.watch ≠ .exiting ∧ s.watch ≠ .returned ∧
  s.draining = true ∧ ∀ j, (s.callers j).kind ≠ .close ∧ (∀ r, (s.callers j).pc ≠ .closing r) ∧ (∀ r, (s.callers j).pc ≠ .cancelling r)

set_option maxHeartbeats 4000000 in
theorem calm_step (s s' : State) (l : Label) (hc : Calm s) (hl : l.internal = true) (hs : Step s l s') : Calm s' := by
  obtain ⟨h1, h2, h3, h4, h5, h6, h7⟩ := hc
  cases hs <;> first
    | (simp [Label.internal] at hl; done)
    | (refine ⟨?_, ?_, ?_, ?_, ?_, ?_, ?_⟩ <;> (try simp only [setPc]) <;> grind [upd, updI])

set_option maxHeartbeats 2000000 in
theorem flags_step (s s' : State) (l : Label) (i : Nat) (hl : l.internal = true) (hs : Step s l s') :
    (s'.callers i).answered = (s.callers i).answered ∧ (s'.callers i).ownDone = (s.callers i).ownDone := by
  cases hs <;> first
    | (simp [Label.internal] at hl; done)
    | (constructor <;> (try simp only [setPc]) <;> grind [upd, updI])

/-- **Completion is always within reach, by goroutine steps alone.**  From every reachable calm state in which the peer has
sent the answer to Submit call `i` and `i`'s context is live, some finite sequence of goroutine steps — no further event from the
peer, the application or a timer — ends with `i` having returned exactly its own response.  (With `internal_run_bound`: every
sequence of goroutine steps is finite, and by `answered_returns` every maximal one ends there.) -/
theorem completion_reachable (tbl) (hd : Distinct tbl) (hf : Fresh tbl) (n : Nat) (i : Nat) (hkind : (tbl i).kind = .submit) :
    ∀ (m : Nat) (s : State), mu n s = m → ReachP tbl s → Bounded n s → Calm s → (s.callers i).answered = true →
      (s.callers i).ownDone = false →
      ∃ ls s', (∀ l ∈ ls, l.internal = true) ∧ run s ls = some s' ∧ (s'.callers i).pc = .done (.resp (answerOf tbl i)) := by
  intro m
  induction m using Nat.strongRecOn with
  | _ m ih =>
    intro s hm hr hb hc hans hown
    by_cases hq : Quiescent s
    · exact ⟨[], s, by simp, rfl, answered_returns tbl hd hf s hr hq i hkind hans hc.1 hown hc.2.2.2.2.2.1⟩
    · -- some goroutine step is enabled: take it
      unfold Quiescent at hq
      have : ∃ l : Label, l.internal = true ∧ step s l ≠ none := by
        apply Classical.byContradiction
        intro hne
        apply hq
        intro l hl
        apply Classical.byContradiction
        intro hs
        exact hne ⟨l, hl, hs⟩
      obtain ⟨l, hl, hstep⟩ := this
      cases hs1 : step s l with
      | none => exact absurd hs1 hstep
      | some s1 =>
        have hS := step_sound s s1 l hs1
        obtain ⟨_, _, h3, _⟩ := inv_all tbl hd hf s hr.reach
        have hdec := mu_decreases n s s1 l h3.qClosed hb hl hS
        have hr1 : ReachP tbl s1 := ReachP.step l hr (internal_admissibleP tbl l hl) hs1
        have hb1 := bounded_step n s s1 l hb hl hS
        have hc1 := calm_step s s1 l hc hl hS
        obtain ⟨ha, ho⟩ := flags_step s s1 l i hl hS
        obtain ⟨ls, s', hall, hrun, hdone⟩ :=
          ih (mu n s1) (by omega) s1 rfl hr1 hb1 hc1 (by rw [ha]; exact hans) (by rw [ho]; exact hown)
        refine ⟨l :: ls, s', ?_, ?_, hdone⟩
        · intro x hx
          simp only [List.mem_cons] at hx
          rcases hx with rfl | hx
          · exact hl
          · exact hall x hx
        · simp only [run, hs1]
          exact hrun

end Smpp.Conn
