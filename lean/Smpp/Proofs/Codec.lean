/-
Per-field-kind round-trip lemmas: decoding the octets an encoder produced,
followed by any rest, returns the value and that rest.
-/
import Smpp.Model.Pdu
import Smpp.Proofs.Bytes
import Smpp.Proofs.KMap

namespace Smpp.Pdu
open Smpp

def NulFree (s : Bytes) : Prop := ∀ b ∈ s, b ≠ 0

instance (s : Bytes) : Decidable (NulFree s) := by unfold NulFree; infer_instance

/-! ### esm_class / registered_delivery: all 256 cases by kernel evaluation -/

theorem esm_rt_fin : ∀ (m : Fin 4) (t : Fin 16) (u r : Bool),
    decEsm (encEsm ⟨UInt8.ofNat m.val, UInt8.ofNat t.val, u, r⟩)
      = ⟨UInt8.ofNat m.val, UInt8.ofNat t.val, u, r⟩ := by decide

theorem esm_roundtrip (e : Esm) (hm : e.mode.toNat < 4) (ht : e.type.toNat < 16) :
    decEsm (encEsm e) = e := by
  have h := esm_rt_fin ⟨e.mode.toNat, hm⟩ ⟨e.type.toNat, ht⟩ e.udhi e.reply
  simpa using h

theorem esm_wr_fin : ∀ c : Fin 256, encEsm (decEsm (UInt8.ofNat c.val)) = UInt8.ofNat c.val := by
  decide +kernel

theorem esm_write_read (c : UInt8) : encEsm (decEsm c) = c := by
  have h := esm_wr_fin ⟨c.toNat, c.toNat_lt⟩
  simpa using h

theorem esm_dec_range_fin : ∀ c : Fin 256,
    (decEsm (UInt8.ofNat c.val)).mode.toNat < 4 ∧ (decEsm (UInt8.ofNat c.val)).type.toNat < 16 := by
  decide +kernel

theorem esm_dec_range (c : UInt8) : (decEsm c).mode.toNat < 4 ∧ (decEsm c).type.toNat < 16 := by
  have h := esm_dec_range_fin ⟨c.toNat, c.toNat_lt⟩
  simpa using h

theorem regdlv_rt_fin : ∀ (a b : Fin 4) (i : Bool) (r : Fin 8),
    decRegDlv (encRegDlv ⟨UInt8.ofNat a.val, UInt8.ofNat b.val, i, UInt8.ofNat r.val⟩)
      = ⟨UInt8.ofNat a.val, UInt8.ofNat b.val, i, UInt8.ofNat r.val⟩ := by decide

theorem regdlv_roundtrip (g : RegDlv) (h1 : g.mc.toNat < 4) (h2 : g.sme.toNat < 4) (h3 : g.reserved.toNat < 8) :
    decRegDlv (encRegDlv g) = g := by
  have h := regdlv_rt_fin ⟨g.mc.toNat, h1⟩ ⟨g.sme.toNat, h2⟩ g.inter ⟨g.reserved.toNat, h3⟩
  simpa using h

theorem regdlv_wr_fin : ∀ c : Fin 256, encRegDlv (decRegDlv (UInt8.ofNat c.val)) = UInt8.ofNat c.val := by
  decide +kernel

theorem regdlv_write_read (c : UInt8) : encRegDlv (decRegDlv c) = c := by
  have h := regdlv_wr_fin ⟨c.toNat, c.toNat_lt⟩
  simpa using h

theorem regdlv_dec_range_fin : ∀ c : Fin 256,
    (decRegDlv (UInt8.ofNat c.val)).mc.toNat < 4 ∧ (decRegDlv (UInt8.ofNat c.val)).sme.toNat < 4 ∧
      (decRegDlv (UInt8.ofNat c.val)).reserved.toNat < 8 := by
  decide +kernel

theorem regdlv_dec_range (c : UInt8) :
    (decRegDlv c).mc.toNat < 4 ∧ (decRegDlv c).sme.toNat < 4 ∧ (decRegDlv c).reserved.toNat < 8 := by
  have h := regdlv_dec_range_fin ⟨c.toNat, c.toNat_lt⟩
  simpa using h

theorem b2u_eq_one (b : Bool) : (b2u b == 1) = b := by cases b <;> rfl

/-! ### address -/

theorem decAddr_enc (a : Addr) (r : Bytes) (h : NulFree a.no) :
    decAddr (encAddr a ++ r) = some (a, r) := by
  simp [encAddr, encCStr, decAddr, readCStr_append a.no r h]

theorem readCStr_enc (s r : Bytes) (h : NulFree s) : readCStr (encCStr s ++ r) = some (s, r) := by
  simp [encCStr, readCStr_append s r h]

/-! ### destination list -/

theorem decDestsLoop_dls (D : List Bytes) (d0 : Dests) (r : Bytes) (h : ∀ s ∈ D, NulFree s) :
    decDestsLoop D.length d0 (D.flatMap (fun s => 2 :: encCStr s) ++ r)
      = some ({ d0 with dls := d0.dls ++ D }, r) := by
  induction D generalizing d0 with
  | nil => simp [decDestsLoop]
  | cons s D ih =>
    have hs : NulFree s := h s (by simp)
    have hD : ∀ t ∈ D, NulFree t := fun t ht => h t (by simp [ht])
    simp only [List.length_cons, List.flatMap_cons, List.cons_append, List.append_assoc, decDestsLoop]
    rw [readCStr_enc s _ hs]
    simp only
    rw [ih _ hD]
    simp

theorem decDestsLoop_addrs (A : List Addr) (n : Nat) (d0 : Dests) (r : Bytes)
    (h : ∀ a ∈ A, NulFree a.no) :
    decDestsLoop (A.length + n) d0 (A.flatMap (fun a => 1 :: encAddr a) ++ r)
      = decDestsLoop n { d0 with addrs := d0.addrs ++ A } r := by
  induction A generalizing d0 with
  | nil => simp
  | cons a A ih =>
    have ha : NulFree a.no := h a (by simp)
    have hA : ∀ t ∈ A, NulFree t.no := fun t ht => h t (by simp [ht])
    have e : (a :: A).length + n = (A.length + n) + 1 := by simp; omega
    rw [e]
    simp only [List.flatMap_cons, List.cons_append, List.append_assoc, decDestsLoop]
    rw [decAddr_enc a _ ha]
    simp only
    rw [ih _ hA]
    simp

def DestsWF (d : Dests) : Prop := (∀ a ∈ d.addrs, NulFree a.no) ∧ (∀ s ∈ d.dls, NulFree s)

theorem decDests_enc (d : Dests) (b r : Bytes) (hwf : DestsWF d) (he : encDests d = .ok b) :
    decDests (b ++ r) = some (d, r) := by
  by_cases hn : d.addrs.length + d.dls.length > 255
  · simp [encDests, hn] at he
  · unfold encDests at he
    simp only [hn, ↓reduceIte, Except.ok.injEq] at he
    subst he
    have hle : d.addrs.length + d.dls.length ≤ 255 := by omega
    simp only [List.cons_append, List.append_assoc, decDests, u8_ofNat_toNat hle]
    rw [decDestsLoop_addrs d.addrs d.dls.length ⟨[], []⟩ _ hwf.1]
    rw [decDestsLoop_dls d.dls _ r hwf.2]
    simp

/-! ### unsuccessful-delivery records -/

theorem readU32_be32 (n : UInt32) (r : Bytes) : readU32 (be32 n ++ r) = some (n, r) := by
  simp only [be32, readU32, List.cons_append, List.nil_append]
  rw [rd32_be32]

theorem decUnsuccLoop_enc (l acc : List Unsucc) (r : Bytes) (h : ∀ u ∈ l, NulFree u.addr.no) :
    decUnsuccLoop l.length acc (l.flatMap (fun u => encAddr u.addr ++ be32 u.status) ++ r)
      = some (acc ++ l, r) := by
  induction l generalizing acc with
  | nil => simp [decUnsuccLoop]
  | cons u l ih =>
    have hu : NulFree u.addr.no := h u (by simp)
    have hl : ∀ t ∈ l, NulFree t.addr.no := fun t ht => h t (by simp [ht])
    simp only [List.length_cons, List.flatMap_cons, List.append_assoc, decUnsuccLoop]
    rw [decAddr_enc u.addr _ hu]
    simp only
    rw [readU32_be32]
    simp only
    rw [ih _ hl]
    simp

theorem decUnsucc_enc (l : List Unsucc) (b r : Bytes) (hwf : ∀ u ∈ l, NulFree u.addr.no)
    (he : encUnsucc l = .ok b) : decUnsucc (b ++ r) = some (l, r) := by
  by_cases hn : l.length > 255
  · simp [encUnsucc, hn] at he
  · unfold encUnsucc at he
    simp only [hn, ↓reduceIte, Except.ok.injEq] at he
    subst he
    have hle : l.length ≤ 255 := by omega
    simp only [List.cons_append, decUnsucc, u8_ofNat_toNat hle]
    rw [decUnsuccLoop_enc l [] r hwf]
    simp

end Smpp.Pdu
