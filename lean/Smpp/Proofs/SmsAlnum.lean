/-
GSM 03.40 §9.1.2.5 alphanumeric addresses: the specification's septet packing (zero fill bits, `Spec.Gsm0340.packSeptets`)
coincides with the library's packing (`Gsm7.pack`) whenever the library adds no CR filler, and the length arithmetic of the
address field for the septet counts outside the known deviation class (C19).
-/
import Smpp.Proofs.Gsm7Text
import Smpp.Spec.Gsm0340
import Smpp.Model.Sms
import Smpp.Generated.Gsm7Facts

namespace Smpp.Sms
open Smpp Smpp.Gsm7 Smpp.Spec.Gsm0340 Smpp.Generated

theorem bitsLE_range (w : Nat) : ∀ x : Nat, bitsLE w x = (List.range w).map fun i => x / 2 ^ i % 2 == 1 := by
  induction w with
  | zero => intro x; rfl
  | succ w ih =>
    intro x
    rw [bitsLE, ih, List.range_succ_eq_map]
    simp only [List.map_cons, List.map_map, Nat.pow_zero, Nat.div_one]
    congr 1
    apply List.map_congr_left
    intro i _
    simp only [Function.comp]
    rw [Nat.pow_succ, Nat.mul_comm, Nat.div_div_eq_div_mul]

theorem septetBits_eq (x : Nat) : septetBits x = bitsLE 7 x := (bitsLE_range 7 x).symm

theorem zipIdx_sum (o : List Bool) : ∀ k : Nat,
    ((o.zipIdx k).map fun (x, i) => if x then 2 ^ i else 0).sum = 2 ^ k * ofBitsLE o := by
  induction o with
  | nil => intro k; simp [ofBitsLE]
  | cons b r ih =>
    intro k
    simp only [List.zipIdx_cons, List.map_cons, List.sum_cons, ih (k + 1), ofBitsLE]
    cases b
    · simp only [Bool.false_eq_true, ↓reduceIte, Nat.pow_succ, Nat.zero_add, Nat.mul_assoc]
    · simp only [↓reduceIte, Nat.pow_succ, Nat.mul_add, Nat.mul_one, Nat.mul_assoc]

theorem ofBitsLE_append_false (l : List Bool) (n : Nat) : ofBitsLE (l ++ List.replicate n false) = ofBitsLE l := by
  induction l with
  | nil =>
    induction n with
    | zero => rfl
    | succ n ih => simp only [List.nil_append] at ih; simp [List.replicate_succ, ofBitsLE, ih]
  | cons b r ih => simp [ofBitsLE, ih]

theorem bitsToOctets_cons (l : List Bool) (h : l ≠ []) :
    bitsToOctets l = UInt8.ofNat (ofBitsLE (l.take 8)) :: bitsToOctets (l.drop 8) := by
  cases l with
  | nil => exact absurd rfl h
  | cons b r =>
    rw [bitsToOctets]
    have := zipIdx_sum ((b :: r).take 8) 0
    simp only [Nat.pow_zero, Nat.one_mul] at this
    simp only [this, List.drop_succ_cons]

theorem chunks_cons (k : Nat) (a b : List Bool) (h : a.length = k + 1) : chunks k (a ++ b) = a :: chunks k b := by
  rw [chunks]
  have hle : k + 1 ≤ (a ++ b).length := by simp [h]
  simp only [hle, ↓reduceDIte]
  rw [List.take_append_of_le_length (by omega), List.drop_append_of_le_length (by omega)]
  simp [← h]

theorem chunks_nil (k : Nat) : chunks k [] = [] := by rw [chunks]; simp

theorem bitsToOctets_eq : ∀ (n : Nat) (l : List Bool), l.length = n →
    bitsToOctets l = (chunks 7 (l ++ List.replicate ((8 - l.length % 8) % 8) false)).map (fun c => UInt8.ofNat (ofBitsLE c)) := by
  intro n
  induction n using Nat.strongRecOn with
  | _ n ih =>
    intro l hl
    by_cases hne : l = []
    · subst hne; simp [bitsToOctets, chunks_nil]
    · rw [bitsToOctets_cons l hne]
      have hpos : 0 < l.length := List.length_pos_iff.mpr hne
      by_cases h8 : 8 ≤ l.length
      · have hrec := ih (l.drop 8).length (by simp only [List.length_drop]; omega) (l.drop 8) rfl
        have hlen : (l.drop 8).length % 8 = l.length % 8 := by simp only [List.length_drop]; omega
        rw [hrec, hlen]
        have hsplit : l ++ List.replicate ((8 - l.length % 8) % 8) false
            = l.take 8 ++ (l.drop 8 ++ List.replicate ((8 - l.length % 8) % 8) false) := by
          rw [← List.append_assoc, List.take_append_drop]
        rw [hsplit, chunks_cons 7 (l.take 8) _ (by simp; omega)]
        simp
      · have hlt : l.length < 8 := by omega
        have htake : l.take 8 = l := List.take_of_length_le (by omega)
        have hdrop : l.drop 8 = [] := List.drop_eq_nil_of_le (by omega)
        have hpad : (8 - l.length % 8) % 8 = 8 - l.length := by
          rw [Nat.mod_eq_of_lt hlt]; omega
        rw [htake, hdrop, hpad]
        have := chunks_cons 7 (l ++ List.replicate (8 - l.length) false) [] (by simp; omega)
        simp only [List.append_nil] at this
        rw [this, chunks_nil]
        simp [bitsToOctets, ofBitsLE_append_false]

/-- the specification's packing (zero fill bits) is the library's packing whenever the library adds no CR filler -/
theorem packSeptets_eq_pack (s : List Nat) (h : s.length % 8 ≠ 7) : packSeptets s = pack s := by
  unfold packSeptets pack
  have hb : s.flatMap septetBits = s.flatMap (bitsLE 7) := by
    congr 1; funext x; exact septetBits_eq x
  rw [hb, bitsToOctets_eq _ _ rfl]
  simp only [h, ↓reduceIte]

/-- an alphanumeric address of the property's domain outside the known deviation class: a text of the GSM default alphabet
whose septet count (escape pairs count two) is 1, 2, 3, 8, 9, 10 or 11 -/
structure AlnumAddr (t s : List Nat) : Prop where
  septets : toSeptets gsmReverse gsmEscapes t = some s
  len : s.length ∈ [1, 2, 3, 8, 9, 10, 11]

theorem alnum_encode_pack (t s : List Nat) (h : AlnumAddr t s) :
    encode gsmReverse gsmEscapes t = some (pack s) ∧ (pack s).length = (7 * s.length + 7) / 8 ∧ pack s ≠ [] ∧ t ≠ [] := by
  have hne : t ≠ [] := by
    intro h0; subst h0
    have := h.septets
    simp [toSeptets] at this
    subst this
    have := h.len
    simp at this
  have hl := pack_length s
  refine ⟨?_, hl, ?_, hne⟩
  · unfold encode
    have : t.isEmpty = false := by cases t <;> simp_all
    simp only [this, Bool.false_eq_true, ↓reduceIte, h.septets, Option.map_some]
  · intro h0
    rw [h0] at hl
    have := h.len
    simp only [List.length_nil] at hl
    simp only [List.mem_cons, List.not_mem_nil, or_false] at this
    omega

theorem alnum_halflen : ∀ n ∈ [1, 2, 3, 8, 9, 10, 11],
    ((UInt8.ofNat ((7 * n + 3) / 4) + 1) / 2).toNat = (7 * n + 7) / 8 ∧ UInt8.ofNat ((7 * n + 3) / 4) ≠ 0 := by decide

end Smpp.Sms
