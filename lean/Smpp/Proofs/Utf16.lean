/-
UTF-16 big-endian: decoding the encoding of any text of scalar values returns the text.
-/
import Smpp.Model.Coding
import Smpp.Proofs.Bytes

namespace Smpp.Coding
open Smpp

theorem unit_bytes (u : Nat) (hu : u < 65536) :
    (UInt8.ofNat (u / 256)).toNat * 256 + (UInt8.ofNat (u % 256)).toNat = u := by
  rw [u8_ofNat_toNat (by omega), u8_ofNat_toNat (by omega)]
  omega

/-- one BMP code unit that is not a surrogate -/
theorem decUcs2_bmp (u : Nat) (rest : List UInt8) (hu : u < 65536) (hns : u < 55296 ∨ 57344 ≤ u) :
    decUcs2 (UInt8.ofNat (u / 256) :: UInt8.ofNat (u % 256) :: rest) = u :: decUcs2 rest := by
  rw [decUcs2.eq_def]
  simp only [unit_bytes u hu]
  have c1 : (decide (55296 ≤ u) && decide (u < 57344)) = false := by
    simp only [Bool.and_eq_false_iff, decide_eq_false_iff_not]; omega
  simp only [c1, Bool.false_eq_true, ↓reduceIte]

/-- a high surrogate followed by a low surrogate -/
theorem decUcs2_pair (hi lo : Nat) (rest : List UInt8) (hhi : 55296 ≤ hi ∧ hi < 56320)
    (hlo : 56320 ≤ lo ∧ lo < 57344) :
    decUcs2 (UInt8.ofNat (hi / 256) :: UInt8.ofNat (hi % 256) :: UInt8.ofNat (lo / 256) :: UInt8.ofNat (lo % 256) :: rest)
      = (65536 + (hi - 55296) * 1024 + (lo - 56320)) :: decUcs2 rest := by
  rw [decUcs2.eq_def]
  simp only [unit_bytes hi (by omega), unit_bytes lo (by omega)]
  have c1 : (decide (55296 ≤ hi) && decide (hi < 57344)) = true := by
    simp only [Bool.and_eq_true, decide_eq_true_eq]; omega
  have c2 : (decide (56320 ≤ lo) && decide (lo < 57344)) = true := by
    simp only [Bool.and_eq_true, decide_eq_true_eq]; omega
  simp only [c1, c2, ↓reduceIte, if_pos hhi.2]

theorem decUcs2_utf16be (r : Nat) (rest : List UInt8) (hs : isScalar r = true) :
    decUcs2 (utf16be r ++ rest) = r :: decUcs2 rest := by
  simp only [isScalar, Bool.or_eq_true, Bool.and_eq_true, decide_eq_true_eq] at hs
  unfold utf16be
  by_cases hb : r < 65536
  · simp only [hb, ↓reduceIte, List.cons_append, List.nil_append]
    have hns : r < 55296 ∨ 57344 ≤ r := by
      rcases hs with h | ⟨h1, _⟩
      · exact Or.inl h
      · exact Or.inr h1
    exact decUcs2_bmp r rest hb hns
  · rw [if_neg hb]
    have hr : r < 1114112 := by
      rcases hs with h | ⟨_, h2⟩
      · omega
      · exact h2
    have h1 : 55296 ≤ hiSur r ∧ hiSur r < 56320 := by unfold hiSur; omega
    have h2 : 56320 ≤ loSur r ∧ loSur r < 57344 := by unfold loSur; omega
    have := decUcs2_pair (hiSur r) (loSur r) rest h1 h2
    simp only [List.cons_append, List.nil_append]
    rw [this]
    have e : 65536 + (hiSur r - 55296) * 1024 + (loSur r - 56320) = r := by
      unfold hiSur loSur; omega
    rw [e]

theorem decUcs2_encUcs2 (t : List Nat) (hs : t.all isScalar = true) : decUcs2 (encUcs2 t) = t := by
  induction t with
  | nil => simp [encUcs2, decUcs2]
  | cons r t ih =>
    simp only [List.all_cons, Bool.and_eq_true] at hs
    simp only [encUcs2, List.flatMap_cons] at ih ⊢
    rw [decUcs2_utf16be r _ hs.1, ih hs.2]

theorem utf16be_length (r : Nat) : (utf16be r).length = if r < 65536 then 2 else 4 := by
  unfold utf16be; split <;> rfl

end Smpp.Coding
