/-
Panic-freedom of the sms model: helper lemmas for C18.
-/
import Smpp.Model.Sms

namespace Smpp.Sms
open Smpp Smpp.Time

/-! ## semi-octets -/

theorem decodeSemi_length_le (bs : Bytes) : (decodeSemi bs).length ≤ bs.length := by
  induction bs with
  | nil => simp [decodeSemi]
  | cons b r ih =>
    simp only [decodeSemi]
    split
    · simp
    · simp; omega

theorem decodeSemi_bound (bs : Bytes) : ∀ x ∈ decodeSemi bs, x ≤ 164 := by
  induction bs with
  | nil => simp [decodeSemi]
  | cons b r ih =>
    intro x hx
    simp only [decodeSemi] at hx
    have hb : b.toNat < 256 := b.toNat_lt
    split at hx
    · simp at hx; omega
    · simp only [List.mem_cons] at hx
      rcases hx with h | h
      · omega
      · exact ih x h

theorem rdN_length {n : Nat} {bs d r : Bytes} (h : rdN n bs = .ok (d, r)) : d.length = n := by
  unfold rdN at h
  split at h
  · simp at h; obtain ⟨rfl, _⟩ := h; simp [*]
  · split at h
    · cases h
    · simp at h; obtain ⟨rfl, _⟩ := h
      simp [List.length_take]; omega

theorem idx_ok {α} (site : String) (l : List α) (i : Nat) (h : i < l.length) : ∃ a, idx site l i = .ok a := by
  unfold idx
  rw [List.getElem?_eq_getElem h]
  exact ⟨_, rfl⟩

/-! ## readers never panic -/

theorem not_panic {α} {r : R α} (h : r.isPanic = false) (s : String) : r ≠ .panic s := by
  intro h'; rw [h'] at h; cases h

theorem rdByte_np (bs : Bytes) : (rdByte bs).isPanic = false := by
  cases bs <;> rfl

theorem rdN_np (n : Nat) (bs : Bytes) : (rdN n bs).isPanic = false := by
  unfold rdN
  split
  · rfl
  · split <;> rfl

theorem discard_np (n : Nat) (bs : Bytes) : (discard n bs).isPanic = false := by
  unfold discard; split <;> rfl

theorem decodeNo_np (rev escs ton data) : (decodeNo rev escs ton data).isPanic = false := by
  unfold decodeNo; split
  · rfl
  · split <;> rfl

theorem readAddr_np (rev escs bs) : (readAddr rev escs bs).isPanic = false := by
  unfold readAddr
  cases h1 : rdByte bs with
  | panic s => exact absurd h1 (not_panic (rdByte_np bs) s)
  | err e => rfl
  | ok p =>
    obtain ⟨len, bs1⟩ := p
    simp only
    split
    · rfl
    · cases h2 : rdByte bs1 with
      | panic s => exact absurd h2 (not_panic (rdByte_np bs1) s)
      | err e => rfl
      | ok q =>
        obtain ⟨kind, bs2⟩ := q
        simp only
        cases h3 : rdN ((len + 1) / 2).toNat bs2 with
        | panic s => exact absurd h3 (not_panic (rdN_np ((len + 1) / 2).toNat bs2) s)
        | err e => rfl
        | ok t =>
          obtain ⟨data, bs3⟩ := t
          simp only
          cases h4 : decodeNo rev escs ((kind >>> (4 : UInt8)) &&& (0x07 : UInt8)) data with
          | panic s => exact absurd h4 (not_panic (decodeNo_np rev escs ((kind >>> (4 : UInt8)) &&& (0x07 : UInt8)) data) s)
          | err e => rfl
          | ok no => rfl

theorem readSCAddr_np (rev escs bs) : (readSCAddr rev escs bs).isPanic = false := by
  unfold readSCAddr
  cases h1 : rdByte bs with
  | panic s => exact absurd h1 (not_panic (rdByte_np bs) s)
  | err e => rfl
  | ok p =>
    obtain ⟨len, bs1⟩ := p
    simp only
    split
    · rfl
    · cases h2 : rdByte bs1 with
      | panic s => exact absurd h2 (not_panic (rdByte_np bs1) s)
      | err e => rfl
      | ok q =>
        obtain ⟨kind, bs2⟩ := q
        simp only
        cases h3 : rdN (len.toNat - 1) bs2 with
        | panic s => exact absurd h3 (not_panic (rdN_np (len.toNat - 1) bs2) s)
        | err e => rfl
        | ok t =>
          obtain ⟨data, bs3⟩ := t
          simp only
          cases h4 : decodeNo rev escs ((kind >>> (4 : UInt8)) &&& (0x07 : UInt8)) data with
          | panic s => exact absurd h4 (not_panic (decodeNo_np rev escs ((kind >>> (4 : UInt8)) &&& (0x07 : UInt8)) data) s)
          | err e => rfl
          | ok no => rfl

/-- Time.ReadFrom: the seven indexings are guarded by the length test on the decoded pairs -/
theorem readTime_np (bs : Bytes) : (readTime bs).isPanic = false := by
  unfold readTime
  cases h1 : rdN 7 bs with
  | panic s => exact absurd h1 (not_panic (rdN_np 7 bs) s)
  | err e => rfl
  | ok p =>
    obtain ⟨data, r⟩ := p
    have hl := rdN_length h1
    simp only
    split
    · rfl
    · next hne =>
      have hlen : (decodeSemi data).length = 7 := by
        have : ¬ (decodeSemi data).length ≠ data.length := hne
        omega
      obtain ⟨a0, h0⟩ := idx_ok "time.go blocks[0]" (decodeSemi data) 0 (by omega)
      obtain ⟨a1, h1'⟩ := idx_ok "time.go blocks[1]" (decodeSemi data) 1 (by omega)
      obtain ⟨a2, h2⟩ := idx_ok "time.go blocks[2]" (decodeSemi data) 2 (by omega)
      obtain ⟨a3, h3⟩ := idx_ok "time.go blocks[3]" (decodeSemi data) 3 (by omega)
      obtain ⟨a4, h4⟩ := idx_ok "time.go blocks[4]" (decodeSemi data) 4 (by omega)
      obtain ⟨a5, h5⟩ := idx_ok "time.go blocks[5]" (decodeSemi data) 5 (by omega)
      obtain ⟨a6, h6⟩ := idx_ok "time.go blocks[6]" (decodeSemi data) 6 (by omega)
      simp only [h0, h1', h2, h3, h4, h5, h6]
      rfl

theorem readRel_np (bs : Bytes) : (readRel bs).isPanic = false := by
  unfold readRel
  cases h1 : rdN 1 bs with
  | panic s => exact absurd h1 (not_panic (rdN_np 1 bs) s)
  | err e => rfl
  | ok p => rfl

/-- what the writer needs of an enhanced validity period: the hh:mm:ss form stays below 1000 hours -/
def EnhOK (secs : Nat) (ind : UInt8) : Prop := ind.toNat % 8 = 3 → secs < 3600000

theorem readEnh_np (bs : Bytes) : (readEnh bs).isPanic = false := by
  unfold readEnh
  cases h1 : rdByte bs with
  | panic s => exact absurd h1 (not_panic (rdByte_np bs) s)
  | err e => rfl
  | ok p =>
    obtain ⟨ind, bs1⟩ := p
    simp only
    split
    · cases h2 : readRel bs1 with
      | panic s => exact absurd h2 (not_panic (readRel_np bs1) s)
      | err e => rfl
      | ok q =>
        simp only
        cases h3 : discard 5 q.2 with
        | panic s => exact absurd h3 (not_panic (discard_np 5 q.2) s)
        | err e => rfl
        | ok r => rfl
    · split
      · cases h2 : rdByte bs1 with
        | panic s => exact absurd h2 (not_panic (rdByte_np bs1) s)
        | err e => rfl
        | ok q =>
          simp only
          cases h3 : discard 5 q.2 with
          | panic s => exact absurd h3 (not_panic (discard_np 5 q.2) s)
          | err e => rfl
          | ok r => rfl
      · split
        · -- hh:mm:ss
          cases h2 : rdN 3 bs1 with
          | panic s => exact absurd h2 (not_panic (rdN_np 3 bs1) s)
          | err e =>
            simp only
            -- data = [0,0,0]
            simp [decodeSemi, idx]
            rfl
          | ok q =>
            obtain ⟨data, r⟩ := q
            have hl := rdN_length h2
            simp only
            split
            · rfl
            · next hne =>
              have hlen : (decodeSemi data).length = 3 := by
                have : ¬ (decodeSemi data).length ≠ data.length := hne
                omega
              obtain ⟨a0, h0⟩ := idx_ok "time.go semi[0]" (decodeSemi data) 0 (by omega)
              obtain ⟨a1, h1'⟩ := idx_ok "time.go semi[1]" (decodeSemi data) 1 (by omega)
              obtain ⟨a2, h2'⟩ := idx_ok "time.go semi[2]" (decodeSemi data) 2 (by omega)
              simp only [h0, h1', h2']
              cases h3 : discard 3 r with
              | panic s => exact absurd h3 (not_panic (discard_np 3 r) s)
              | err e => rfl
              | ok r' => rfl
        · cases h3 : discard 6 bs1 with
          | panic s => exact absurd h3 (not_panic (discard_np 6 bs1) s)
          | err e => rfl
          | ok r => rfl

end Smpp.Sms

namespace Smpp.Sms
open Smpp Smpp.Time

/-! ## the values Unmarshal produces are fit for Marshal -/

def FValOK : FVal → Prop
  | .vp (.enh d i) => EnhOK d i
  | _ => True

theorem decodeSemi3_sum (data : Bytes) (h m s : Nat)
    (h0 : idx "time.go semi[0]" (decodeSemi data) 0 = .ok h)
    (h1 : idx "time.go semi[1]" (decodeSemi data) 1 = .ok m)
    (h2 : idx "time.go semi[2]" (decodeSemi data) 2 = .ok s) : h * 3600 + m * 60 + s < 3600000 := by
  have mem : ∀ (site : String) (i x : Nat), idx site (decodeSemi data) i = .ok x → x ≤ 164 := by
    intro site i x hx
    unfold idx at hx
    split at hx
    · next a ha =>
      cases hx
      exact decodeSemi_bound data _ (List.mem_of_getElem? ha)
    · cases hx
  have := mem _ _ _ h0; have := mem _ _ _ h1; have := mem _ _ _ h2
  omega

theorem readEnh_ok (bs : Bytes) (d : Nat) (i : UInt8) (r : Bytes) (h : readEnh bs = .ok ((d, i), r)) : EnhOK d i := by
  unfold readEnh at h
  intro h3
  cases h1 : rdByte bs with
  | panic s => simp [h1] at h
  | err e => simp [h1] at h
  | ok p =>
    obtain ⟨ind, bs1⟩ := p
    simp only [h1] at h
    split at h
    · -- fmt = 1
      next hf =>
      cases h2 : readRel bs1 with
      | panic s => simp [h2] at h
      | err e => simp [h2] at h
      | ok q =>
        simp only [h2] at h
        cases h4 : discard 5 q.2 with
        | panic s => simp [h4] at h
        | err e => simp [h4] at h
        | ok r' => simp only [h4, Res.ok.injEq, Prod.mk.injEq] at h; obtain ⟨⟨_, rfl⟩, _⟩ := h; omega
    · split at h
      · next hf1 hf =>
        cases h2 : rdByte bs1 with
        | panic s => simp [h2] at h
        | err e => simp [h2] at h
        | ok q =>
          simp only [h2] at h
          cases h4 : discard 5 q.2 with
          | panic s => simp [h4] at h
          | err e => simp [h4] at h
          | ok r' => simp only [h4, Res.ok.injEq, Prod.mk.injEq] at h; obtain ⟨⟨_, rfl⟩, _⟩ := h; omega
      · split at h
        · -- hh:mm:ss
          cases h2 : rdN 3 bs1 with
          | panic s => exact absurd h2 (not_panic (rdN_np _ _) s)
          | err e => simp [h2, decodeSemi, idx] at h
          | ok q =>
            obtain ⟨data, r0⟩ := q
            have hl := rdN_length h2
            simp only [h2] at h
            split at h
            · cases h
            · next hne =>
              have hlen : (decodeSemi data).length = 3 := by
                have : ¬ (decodeSemi data).length ≠ data.length := hne
                omega
              obtain ⟨a0, h0⟩ := idx_ok "time.go semi[0]" (decodeSemi data) 0 (by omega)
              obtain ⟨a1, h1'⟩ := idx_ok "time.go semi[1]" (decodeSemi data) 1 (by omega)
              obtain ⟨a2, h2'⟩ := idx_ok "time.go semi[2]" (decodeSemi data) 2 (by omega)
              simp only [h0, h1', h2'] at h
              cases h4 : discard 3 r0 with
              | panic s => simp [h4] at h
              | err e => simp [h4] at h
              | ok r' =>
                simp only [h4, Res.ok.injEq, Prod.mk.injEq] at h
                obtain ⟨⟨rfl, _⟩, _⟩ := h
                exact decodeSemi3_sum data a0 a1 a2 h0 h1' h2'
        · next hf1 hf2 hf3 =>
          cases h4 : discard 6 bs1 with
          | panic s => simp [h4] at h
          | err e => simp [h4] at h
          | ok r' => simp only [h4, Res.ok.injEq, Prod.mk.injEq] at h; obtain ⟨⟨_, rfl⟩, _⟩ := h; omega

/-! ## one field, then the walk -/

theorem stepField_np (rev escs fl f st bs) : (stepField rev escs fl f st bs).isPanic = false := by
  unfold stepField
  split
  · cases h : rdByte bs with
    | panic s => exact absurd h (not_panic (rdByte_np bs) s)
    | err e => rfl
    | ok p => rfl
  · cases h : rdByte bs with
    | panic s => exact absurd h (not_panic (rdByte_np bs) s)
    | err e => rfl
    | ok p => rfl
  · cases h : rdByte bs with
    | panic s => exact absurd h (not_panic (rdByte_np bs) s)
    | err e => rfl
    | ok p =>
      simp only
      cases h2 : rdN p.1.toNat p.2 with
      | panic s => exact absurd h2 (not_panic (rdN_np _ _) s)
      | err e => rfl
      | ok q => rfl
  · cases h : readSCAddr rev escs bs with
    | panic s => exact absurd h (not_panic (readSCAddr_np rev escs bs) s)
    | err e => rfl
    | ok p => rfl
  · cases h : readAddr rev escs bs with
    | panic s => exact absurd h (not_panic (readAddr_np rev escs bs) s)
    | err e => rfl
    | ok p => rfl
  · cases h : readTime bs with
    | panic s => exact absurd h (not_panic (readTime_np bs) s)
    | err e => rfl
    | ok p => rfl
  · split
    · cases h : readEnh bs with
      | panic s => exact absurd h (not_panic (readEnh_np bs) s)
      | err e => rfl
      | ok p => rfl
    · split
      · cases h : readRel bs with
        | panic s => exact absurd h (not_panic (readRel_np bs) s)
        | err e => rfl
        | ok p => rfl
      · split
        · cases h : readTime bs with
          | panic s => exact absurd h (not_panic (readTime_np bs) s)
          | err e => rfl
          | ok p => rfl
        · rfl
  · rfl

theorem stepField_ok (rev escs fl f st bs v r st') (h : stepField rev escs fl f st bs = .ok (v, r, st')) : FValOK v := by
  unfold stepField at h
  split at h
  all_goals try (split at h <;> first | (cases h; trivial) | (cases h))
  · -- bytes
    split at h
    · next hb =>
      split at h <;> first | (cases h; trivial) | (cases h)
    · cases h
    · cases h
  · -- iface
    split at h
    · cases h2 : readEnh bs with
      | panic s => simp [h2] at h
      | err e => simp [h2] at h
      | ok p =>
        obtain ⟨⟨d, i⟩, r0⟩ := p
        simp only [h2, Res.ok.injEq, Prod.mk.injEq] at h
        obtain ⟨rfl, _, _⟩ := h
        exact readEnh_ok bs d i r0 h2
    · split at h
      · split at h <;> first | (cases h; trivial) | (cases h)
      · split at h
        · split at h <;> first | (cases h; trivial) | (cases h)
        · cases h; trivial
  · cases h; trivial

theorem skippedVal_ok (fl f) : FValOK (skippedVal fl f) := by
  unfold skippedVal
  cases hk : f.ukind <;> simp [zeroOf, FValOK]

theorem unmarshalFields_spec (rev escs fl) : ∀ (fs : List TField) (st : WalkState) (bs : Bytes),
    (unmarshalFields rev escs fl fs st bs).isPanic = false ∧
    ∀ vs, unmarshalFields rev escs fl fs st bs = .ok vs → ∀ v ∈ vs, FValOK v := by
  intro fs
  induction fs with
  | nil => intro st bs; simp [unmarshalFields, Res.isPanic]
  | cons f fs ih =>
    intro st bs
    unfold unmarshalFields
    split
    · obtain ⟨hnp, hok⟩ := ih st bs
      cases h : unmarshalFields rev escs fl fs st bs with
      | panic s => exact absurd h (not_panic hnp s)
      | err e => simp [Res.isPanic]
      | ok vs =>
        refine ⟨rfl, ?_⟩
        intro vs' hvs v hv
        simp only [Res.ok.injEq] at hvs
        subst hvs
        rcases List.mem_cons.mp hv with rfl | hv
        · exact skippedVal_ok fl f
        · exact hok vs h v hv
    · cases h : stepField rev escs fl f st bs with
      | panic s => exact absurd h (not_panic (stepField_np rev escs fl f st bs) s)
      | err e => simp [Res.isPanic]
      | ok p =>
        obtain ⟨v0, r0, st0⟩ := p
        simp only
        obtain ⟨hnp, hok⟩ := ih st0 r0
        cases h2 : unmarshalFields rev escs fl fs st0 r0 with
        | panic s => exact absurd h2 (not_panic hnp s)
        | err e => simp [Res.isPanic]
        | ok vs =>
          refine ⟨rfl, ?_⟩
          intro vs' hvs v hv
          simp only [Res.ok.injEq] at hvs
          subst hvs
          rcases List.mem_cons.mp hv with rfl | hv
          · exact stepField_ok rev escs fl f st bs v r0 st0 h
          · exact hok vs h2 v hv

/-- getType: the two indexings follow a successful Peek(length+3) -/
theorem getType_np (bs : Bytes) : (getType bs).isPanic = false := by
  unfold getType
  cases bs with
  | nil => rfl
  | cons l r =>
    simp only
    split
    · rfl
    · next hlen =>
      obtain ⟨a, ha⟩ := idx_ok "marshal.go peek[length+1]" (l :: r) (l.toNat + 1) (by omega)
      obtain ⟨b, hb⟩ := idx_ok "marshal.go peek[length+2]" (l :: r) (l.toNat + 2) (by omega)
      simp only [ha, hb]
      rfl

/-! ## Marshal -/

theorem packDigits_length (l : List UInt8) : (packDigits l).length = (l.length + 1) / 2 := by
  fun_induction packDigits l with
  | case1 a b r ih => simp [ih]; omega
  | case2 a => simp
  | case3 => simp

theorem decDigits_length (n : Nat) (h : n < 1000) : (decDigits n).length ≤ 3 ∧ (n < 10 → (decDigits n).length = 1) := by
  unfold decDigits
  by_cases h1 : n < 10
  · simp [h1]
  · by_cases h2 : n < 100
    · simp [h1, h2]
    · simp [h1, h2, h]

theorem chunk_digits (c : Int) (h0 : 0 ≤ c) (h1 : c < 1000) :
    ((if c < 10 then [(0 : UInt8)] else []) ++ itoaDigits c).length ≤ 3 := by
  unfold itoaDigits
  have hn : ¬ c < 0 := by omega
  simp only [hn, ↓reduceIte, List.length_append]
  have hb := decDigits_length c.toNat (by omega)
  split
  · have : c.toNat < 10 := by omega
    simp [hb.2 this]
  · simp; exact hb.1

theorem writeEnh_np (d : Nat) (i : UInt8) (h : EnhOK d i) : (writeEnh d i).isPanic = false := by
  unfold writeEnh
  simp only
  have key : ∀ body : Bytes, body.length ≤ 6 →
      (match mkZeros "time.go make([]byte, 7-buf.Len())" (7 - ((i :: body).length : Int)) with
        | .ok z => (.ok ((i :: body) ++ z) : R Bytes)
        | .err e => .err e
        | .panic s => .panic s).isPanic = false := by
    intro body hb
    unfold mkZeros
    have : ¬ (7 - ((i :: body).length : Int) < 0) := by simp; omega
    simp only [this, ↓reduceIte]
    rfl
  apply key
  split
  · simp
  · split
    · simp
    · split
      · next h3 =>
        have hd := h h3
        unfold encodeSemi
        rw [packDigits_length]
        simp only [toDigits, List.append_nil, List.length_append]
        have c1 := chunk_digits ((d / 3600 : Nat) : Int) (by omega) (by omega)
        have c2 := chunk_digits (((d / 60 : Nat) : Int) - ((d / 3600 : Nat) : Int) * 60) (by omega) (by omega)
        have c3 := chunk_digits ((d : Int) - ((d / 60 : Nat) : Int) * 60) (by omega) (by omega)
        simp only [List.length_append] at c1 c2 c3
        omega
      · simp

theorem marshalField_np (env vpf f v) (h : FValOK v) : (marshalField env vpf f v).isPanic = false := by
  unfold marshalField
  split <;> try rfl
  exact writeEnh_np _ _ h

theorem marshalFields_np (env vpf) : ∀ (fs : List TField) (vs : List FVal), (∀ v ∈ vs, FValOK v) →
    (marshalFields env vpf fs vs).isPanic = false := by
  intro fs
  induction fs with
  | nil => intro vs _; simp [marshalFields, Res.isPanic]
  | cons f fs ih =>
    intro vs hvs
    cases vs with
    | nil => simp [marshalFields, Res.isPanic]
    | cons v vs =>
      unfold marshalFields
      cases h : marshalField env vpf f v with
      | panic s => exact absurd h (not_panic (marshalField_np env vpf f v (hvs v (by simp))) s)
      | err e => rfl
      | ok b =>
        simp only
        cases h2 : marshalFields env vpf fs vs with
        | panic s => exact absurd h2 (not_panic (ih vs (fun v hv => hvs v (by simp [hv]))) s)
        | err e => rfl
        | ok r => rfl

end Smpp.Sms
