/-
Lemmas about the canonical (key-sorted) association list that models a Go map.
-/
import Smpp.Model.Pdu

namespace Smpp.Pdu

/-- strictly ascending keys -/
def KSorted (m : KMap) : Prop := m.Pairwise (fun a b => a.1 < b.1)

instance (m : KMap) : Decidable (KSorted m) := by unfold KSorted; infer_instance

theorem KMap.insert_of_all_lt (m : KMap) (k : Nat) (v : Bytes) (h : ∀ x ∈ m, x.1 < k) :
    m.insert k v = m ++ [(k, v)] := by
  induction m with
  | nil => rfl
  | cons a m ih =>
    have ha : a.1 < k := h a (by simp)
    have hm : ∀ x ∈ m, x.1 < k := fun x hx => h x (by simp [hx])
    obtain ⟨k', v'⟩ := a
    simp only [KMap.insert]
    have h1 : ¬ k < k' := by simp at ha; omega
    have h2 : ¬ k = k' := by simp at ha; omega
    simp [h1, h2, ih hm]

theorem KMap.foldl_insert_sorted (l acc : KMap) (h : KSorted (acc ++ l)) :
    l.foldl (fun m kv => m.insert kv.1 kv.2) acc = acc ++ l := by
  induction l generalizing acc with
  | nil => simp
  | cons a l ih =>
    simp only [List.foldl_cons]
    have hlt : ∀ x ∈ acc, x.1 < a.1 := by
      intro x hx
      unfold KSorted at h
      rw [List.pairwise_append] at h
      exact h.2.2 x hx a (by simp)
    rw [KMap.insert_of_all_lt acc a.1 a.2 hlt]
    have : acc ++ [(a.1, a.2)] ++ l = acc ++ a :: l := by simp
    rw [ih (acc ++ [(a.1, a.2)]) (by rw [this]; exact h), this]

theorem KMap.ofList_sorted (l : KMap) (h : KSorted l) : KMap.ofList l = l := by
  unfold KMap.ofList
  simpa using KMap.foldl_insert_sorted l [] (by simpa using h)

theorem KMap.mem_insert {m : KMap} {k : Nat} {v : Bytes} {x : Nat × Bytes}
    (hx : x ∈ m.insert k v) : x = (k, v) ∨ x ∈ m := by
  induction m with
  | nil => simp [KMap.insert] at hx; exact Or.inl hx
  | cons a m ih =>
    obtain ⟨k', v'⟩ := a
    simp only [KMap.insert] at hx
    split at hx
    · simp at hx; rcases hx with h | h | h <;> simp [h]
    · split at hx
      · simp at hx; rcases hx with h | h <;> simp [h]
      · simp at hx
        rcases hx with h | h
        · simp [h]
        · rcases ih h with h' | h' <;> simp [h']

theorem KMap.insert_sorted (m : KMap) (k : Nat) (v : Bytes) (h : KSorted m) :
    KSorted (m.insert k v) := by
  induction m with
  | nil => simp [KMap.insert, KSorted]
  | cons a m ih =>
    obtain ⟨k', v'⟩ := a
    unfold KSorted at h
    rw [List.pairwise_cons] at h
    simp only [KMap.insert]
    split
    · next hlt =>
      unfold KSorted
      rw [List.pairwise_cons]
      refine ⟨?_, List.pairwise_cons.mpr h⟩
      intro x hx
      simp at hx
      rcases hx with rfl | hx
      · exact hlt
      · have := h.1 x hx; simp at this ⊢; omega
    · split
      · next _ heq =>
        subst heq
        unfold KSorted
        rw [List.pairwise_cons]
        exact ⟨fun x hx => by simpa using h.1 x hx, h.2⟩
      · next hnlt hne =>
        unfold KSorted
        rw [List.pairwise_cons]
        refine ⟨?_, ih h.2⟩
        intro x hx
        rcases KMap.mem_insert hx with rfl | hx
        · simp; omega
        · exact h.1 x hx

theorem KMap.foldl_insert_sorted' (l : List (Nat × Bytes)) (acc : KMap) (h : KSorted acc) :
    KSorted (l.foldl (fun m kv => m.insert kv.1 kv.2) acc) := by
  induction l generalizing acc with
  | nil => simpa
  | cons a l ih => exact ih _ (KMap.insert_sorted acc a.1 a.2 h)

/-- keys of an inserted map stay below a bound -/
theorem KMap.insert_keys_lt {m : KMap} {k : Nat} {v : Bytes} {B : Nat}
    (hm : ∀ x ∈ m, x.1 < B) (hk : k < B) : ∀ x ∈ m.insert k v, x.1 < B := by
  intro x hx
  rcases KMap.mem_insert hx with rfl | hx
  · exact hk
  · exact hm x hx

end Smpp.Pdu
