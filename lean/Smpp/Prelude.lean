/-
Prelude: octets, big-endian integers, exact-read primitives over octet lists,
the chunked-stream model of io.Reader, and the result type that makes Go's
panics explicit.  Core Lean only (the driver links against this).
-/
namespace Smpp

abbrev Bytes := List UInt8

/-- Result of a Go operation: a value, a returned error, or a panic. -/
inductive Res (ε α : Type) where
  | ok (a : α)
  | err (e : ε)
  | panic (site : String)
  deriving Repr, DecidableEq

namespace Res
def isPanic {ε α} : Res ε α → Bool
  | .panic _ => true
  | _ => false
def isOk {ε α} : Res ε α → Bool
  | .ok _ => true
  | _ => false
end Res

/-! ### big-endian integers (binary.BigEndian), written with Nat arithmetic so that `omega` decides them -/

def be16 (n : UInt16) : Bytes := [UInt8.ofNat (n.toNat / 256), UInt8.ofNat n.toNat]
def rd16 (a b : UInt8) : UInt16 := UInt16.ofNat (a.toNat * 256 + b.toNat)

def be32 (n : UInt32) : Bytes :=
  [UInt8.ofNat (n.toNat / 16777216), UInt8.ofNat (n.toNat / 65536),
   UInt8.ofNat (n.toNat / 256), UInt8.ofNat n.toNat]
def rd32 (a b c d : UInt8) : UInt32 :=
  UInt32.ofNat (a.toNat * 16777216 + b.toNat * 65536 + c.toNat * 256 + d.toNat)

/-! ### exact reads from an octet list (io.ReadFull / ReadByte / ReadString on a fully buffered frame) -/

/-- `io.ReadFull` of `n` octets: fails when fewer remain. -/
def takeN (n : Nat) (bs : Bytes) : Option (Bytes × Bytes) :=
  if n ≤ bs.length then some (bs.take n, bs.drop n) else none

def readByte : Bytes → Option (UInt8 × Bytes)
  | [] => none
  | b :: r => some (b, r)

/-- `bufio.Reader.ReadString(0)` minus the terminator; fails when no NUL remains. -/
def readCStr : Bytes → Option (Bytes × Bytes)
  | [] => none
  | b :: r =>
    if b = 0 then some ([], r)
    else match readCStr r with
      | some (s, r') => some (b :: s, r')
      | none => none

def readU32 : Bytes → Option (UInt32 × Bytes)
  | a :: b :: c :: d :: r => some (rd32 a b c d, r)
  | _ => none

/-! ### the fragmentation quantifier: an io.Reader is a list of chunks -/

/-- What successive `Read` calls will hand out; a `Read(p)` returns at most the
head chunk (and at most `len p` octets of it).  Empty chunks model `(0, nil)` reads. -/
abbrev Stream := List Bytes

/-- One `Read(p)` with `len p = k > 0`. Returns the octets and the remaining stream;
`none` is `io.EOF`. -/
def read1 (k : Nat) : Stream → Option (Bytes × Stream)
  | [] => none
  | c :: s => if c.length ≤ k then some (c, s) else some (c.take k, c.drop k :: s)

/-- `io.ReadFull(r, buf[:n])`: keep calling `Read` until `n` octets arrived or the
stream ended.  Returns what was obtained and the remaining stream. -/
def readFull : Nat → Stream → Bytes × Stream
  | _, [] => ([], [])
  | n, c :: s =>
    if n = 0 then ([], c :: s)
    else if c.length ≤ n then
      let r := readFull (n - c.length) s
      (c ++ r.1, r.2)
    else (c.take n, c.drop n :: s)

/-! ### hex and token helpers for the line protocol (driver only) -/

def hexDigit (n : Nat) : Char :=
  if n < 10 then Char.ofNat (48 + n) else Char.ofNat (87 + n)

def toHex (bs : Bytes) : String :=
  if bs.isEmpty then "-"
  else String.ofList (bs.flatMap fun b => [hexDigit (b.toNat / 16), hexDigit (b.toNat % 16)])

def hexVal (c : Char) : Option Nat :=
  if '0' ≤ c ∧ c ≤ '9' then some (c.toNat - 48)
  else if 'a' ≤ c ∧ c ≤ 'f' then some (c.toNat - 87)
  else if 'A' ≤ c ∧ c ≤ 'F' then some (c.toNat - 55)
  else none

def hexPairs : List Char → Option Bytes
  | [] => some []
  | a :: b :: r => do
    let x ← hexVal a
    let y ← hexVal b
    let t ← hexPairs r
    pure (UInt8.ofNat (x * 16 + y) :: t)
  | _ => none

def fromHex (s : String) : Option Bytes :=
  if s = "-" then some [] else hexPairs s.toList

end Smpp
