/-
Executable model of pdu/udh.go `ConcatenatedHeader`, pdu/message_multipart.go
`CombineMultipartDeliverSM`, and pdu/message_state.go `MessageState.String`, with every
index expression an explicit partial operation (`Option`-returning `[i]?`, mapped to a
panic outcome) so that "never panics" is a theorem and not an artefact of totalisation.
-/
import Smpp.Model.Pdu

namespace Smpp.Combiner
open Smpp Smpp.Pdu

/-- outcome of an operation that may panic -/
inductive P (α : Type) where
  | ok (a : α)
  | panic (site : String)
  deriving Repr, DecidableEq

def P.isPanic {α} : P α → Bool
  | .panic _ => true
  | .ok _ => false

/-- `data[i]`: panics when out of range -/
def idx (site : String) (data : Bytes) (i : Nat) : P UInt8 :=
  match data[i]? with
  | some b => .ok b
  | none => .panic site

structure ConcatHeader where
  reference : Nat
  total : Nat
  seq : Nat
  deriving DecidableEq, Repr

def kmapFind (m : KMap) (k : Nat) : Option Bytes := (m.find? (·.1 == k)).map (·.2)

/-- UserDataHeader.ConcatenatedHeader: element 0x00 (8-bit reference) if it has at least 3 octets,
else element 0x08 (16-bit reference) if it has at least 4, else nil. -/
def concatHeader (udh : Option KMap) : P (Option ConcatHeader) :=
  match udh with
  | none => .ok none
  | some m =>
    match (kmapFind m 0).filter (fun d => d.length ≥ 3) with
    | some d =>
      match idx "udh.go data[0]" d 0, idx "udh.go data[1]" d 1, idx "udh.go data[2]" d 2 with
      | .ok a, .ok b, .ok c => .ok (some ⟨a.toNat, b.toNat, c.toNat⟩)
      | .panic s, _, _ => .panic s
      | _, .panic s, _ => .panic s
      | _, _, .panic s => .panic s
    | none =>
      match (kmapFind m 8).filter (fun d => d.length ≥ 4) with
      | some d =>
        match idx "udh.go data[0:2]" d 0, idx "udh.go data[0:2]" d 1, idx "udh.go data[2]" d 2, idx "udh.go data[3]" d 3 with
        | .ok a, .ok b, .ok c, .ok e => .ok (some ⟨a.toNat * 256 + b.toNat, c.toNat, e.toNat⟩)
        | .panic s, _, _, _ => .panic s
        | _, .panic s, _, _ => .panic s
        | _, _, .panic s, _ => .panic s
        | _, _, _, .panic s => .panic s
      | none => .ok none

/-- what the combiner looks at in a deliver_sm; `tag` identifies the PDU (its position in the history) -/
structure Seg where
  src : Addr
  dst : Addr
  udh : Option KMap
  tag : Nat
  deriving DecidableEq, Repr

structure Key where
  src : Addr
  dst : Addr
  reference : Nat
  deriving DecidableEq, Repr

/-- the registry: Go map from key to the slot array (nil = empty slot) -/
abbrev Registry := List (Key × List (Option Seg))

def regFind (r : Registry) (k : Key) : Option (List (Option Seg)) := (r.find? (·.1 == k)).map (·.2)
def regErase (r : Registry) (k : Key) : Registry := r.filter (fun e => !(e.1 == k))
def regSet (r : Registry) (k : Key) (slots : List (Option Seg)) : Registry := (k, slots) :: regErase r k

/-- `registry[id][Sequence-1] = p` with `Sequence-1` computed in a byte: panics when out of range -/
def setSlot (slots : List (Option Seg)) (seq : Nat) (p : Seg) : P (List (Option Seg)) :=
  let i := (seq + 255) % 256
  if i < slots.length then .ok (slots.set i (some p)) else .panic "message_multipart.go registry[id][Sequence-1]"

/-- isDone: `total--` for each non-nil slot (in a byte), done when it reaches 0 -/
def isDone (slots : List (Option Seg)) (total : Nat) : Bool :=
  (total + 256 * slots.length - (slots.filter Option.isSome).length) % 256 == 0

/-- one call of the returned closure: new registry and the deliveries made (0 or 1) -/
def step (r : Registry) (p : Seg) : P (Registry × List (List Seg)) :=
  match concatHeader p.udh with
  | .panic s => .panic s
  | .ok none => .ok (r, [[p]])
  | .ok (some h) =>
    if h.seq = 0 || h.seq > h.total then .ok (r, [])
    else
      let k : Key := ⟨p.src, p.dst, h.reference⟩
      let slots := (regFind r k).getD (List.replicate h.total none)
      let r1 := regSet r k slots        -- `registry[id] = make(...)` when absent (re-inserting is harmless)
      if slots.length ≠ h.total then .ok (r1, [])
      else
        match setSlot slots h.seq p with
        | .panic s => .panic s
        | .ok slots' =>
          if isDone slots' h.total then .ok (regErase r k, [slots'.filterMap id])
          else .ok (regSet r k slots', [])

def run : Registry → List Seg → P (Registry × List (List Seg))
  | r, [] => .ok (r, [])
  | r, p :: ps =>
    match step r p with
    | .panic s => .panic s
    | .ok (r', d) =>
      match run r' ps with
      | .panic s => .panic s
      | .ok (r'', ds) => .ok (r'', d ++ ds)

/-! ## Address.String -/

/-- `Address.String`: "+" is prepended to an international ISDN number that lacks it; `p.No[0]`
sits behind the guard `len(p.No) > 0` -/
def addressString (a : Addr) : P Bytes :=
  if a.ton = 1 && a.npi = 1 && a.no.length > 0 then
    match idx "address.go p.No[0]" a.no 0 with
    | .ok c => if c != 43 then .ok (43 :: a.no) else .ok a.no
    | .panic s => .panic s
  else .ok a.no

/-! ## MessageState.String -/

/-- `messageStateMap[m]` behind the guard `int(m) >= len(messageStateMap)` -/
def messageStateString (names : List String) (m : Nat) : P String :=
  if m ≥ names.length then .ok (toString m)
  else
    match names[m]? with
    | some s => .ok s.toUpper
    | none => .panic "message_state.go messageStateMap[m]"

end Smpp.Combiner
