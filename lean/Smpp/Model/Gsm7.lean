/-
Executable model of coding/gsm7bit (encoder.go, decoder.go, table.go's init) over
the REGENERATED tables.  Texts are lists of Unicode scalar values (what Go's
`range` over the input string yields); octets are UInt8.
-/
import Smpp.Prelude

namespace Smpp.Gsm7

def esc : Nat := 0x1B
def cr : Nat := 0x0D

/-- table.go init, first loop: `for index, r := range reverseLookup[:0x80] { if index != esc {
forwardLookup[r] = index } }` — a later position overwrites an earlier one. -/
def forwardOf (rev : List Nat) (r : Nat) : Option Nat :=
  (((rev.take 128).zipIdx).filter (fun p => p.2 != esc && p.1 == r)).getLast?.map (·.2)

/-- `forwardEscapes[r]` -/
def escapeOf (escs : List (Nat × Nat)) (r : Nat) : Option Nat := (escs.find? (·.1 == r)).map (·.2)

/-- table.go init, second loop: `reverseEscapes[b] = r` -/
def unescapeOf (escs : List (Nat × Nat)) (b : Nat) : Option Nat := (escs.find? (·.2 == b)).map (·.1)

/-- toSeptets -/
def toSeptets (rev : List Nat) (escs : List (Nat × Nat)) : List Nat → Option (List Nat)
  | [] => some []
  | r :: t =>
    match forwardOf rev r with
    | some v => (toSeptets rev escs t).map (v :: ·)
    | none =>
      match escapeOf escs r with
      | some v => (toSeptets rev escs t).map (fun s => esc :: v :: s)
      | none => none

/-- the low `w` bits of `x`, least significant first -/
def bitsLE : Nat → Nat → List Bool
  | 0, _ => []
  | w + 1, x => (x % 2 == 1) :: bitsLE w (x / 2)

def ofBitsLE : List Bool → Nat
  | [] => 0
  | b :: r => (if b then 1 else 0) + 2 * ofBitsLE r

/-- full chunks of `k + 1` elements; an incomplete tail is dropped -/
def chunks (k : Nat) (l : List Bool) : List (List Bool) :=
  if h : k + 1 ≤ l.length then l.take (k + 1) :: chunks k (l.drop (k + 1)) else []
termination_by l.length
decreasing_by simp; omega

/-- packSeptets: the septets as one little-endian bit stream, a CR filler septet when exactly
seven bits would be spare, zero bits up to the octet boundary. -/
def pack (septets : List Nat) : List UInt8 :=
  let bits := septets.flatMap (bitsLE 7)
  let bits := if septets.length % 8 = 7 then bits ++ bitsLE 7 cr else bits
  let pad := (8 - bits.length % 8) % 8
  (chunks 7 (bits ++ List.replicate pad false)).map (fun c => UInt8.ofNat (ofBitsLE c))

/-- unpackSeptets -/
def unpack (octets : List UInt8) : List Nat :=
  (chunks 6 (octets.flatMap (fun o => bitsLE 8 o.toNat))).map ofBitsLE

/-- `Packed.NewEncoder().Bytes`: `none` = ErrInvalidCharacter -/
def encode (rev : List Nat) (escs : List (Nat × Nat)) (text : List Nat) : Option (List UInt8) :=
  if text.isEmpty then some [] else (toSeptets rev escs text).map pack

/-- the decoder's loop over septets -/
def decodeSeptets (rev : List Nat) (escs : List (Nat × Nat)) : List Nat → Option (List Nat)
  | [] => some []
  | s :: t =>
    if s != esc then (decodeSeptets rev escs t).map (rev.getD s 0 :: ·)
    else
      match t with
      | [] => none
      | e :: t' =>
        match unescapeOf escs e with
        | some r => (decodeSeptets rev escs t').map (r :: ·)
        | none => none

/-- `Packed.NewDecoder().Bytes`: `none` = ErrInvalidByte -/
def decode (rev : List Nat) (escs : List (Nat × Nat)) (octets : List UInt8) : Option (List Nat) :=
  if octets.isEmpty then some []
  else
    let septets := unpack octets
    match decodeSeptets rev escs septets with
    | none => none
    | some runes =>
      if septets.length % 8 = 0 && septets.getLast? == some cr then some runes.dropLast else some runes

/-- unicode.Is(DefaultAlphabet, r) for the generated R16 ranges -/
def inRanges (ranges : List (Nat × Nat × Nat)) (r : Nat) : Bool :=
  ranges.any fun (lo, hi, stride) => lo ≤ r && r ≤ hi && (stride != 0 && (r - lo) % stride == 0)

/-- the encoder's repertoire -/
def accepts (rev : List Nat) (escs : List (Nat × Nat)) (r : Nat) : Bool :=
  (forwardOf rev r).isSome || (escapeOf escs r).isSome

end Smpp.Gsm7
