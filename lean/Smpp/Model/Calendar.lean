/-
The proleptic Gregorian calendar as Go's time.Date / accessors compute with it
(day numbers relative to 1970-01-01; the well-known civil-from-days algorithms).
Kept in its own file so that the exhaustive calendar proof is re-checked only when
this changes.
-/
namespace Smpp.Time

/-- days from 1970-01-01 to y-m-d (m in 1..12; d any integer) -/
def daysFromCivil (y : Int) (m : Int) (d : Int) : Int :=
  let y' := if m ≤ 2 then y - 1 else y
  let era := y' / 400            -- Int division rounds toward −∞ for positive divisors (Int.div = fdiv on `/`)
  let yoe := y' - era * 400
  let mp := (m + 9) % 12
  let doy := (153 * mp + 2) / 5 + d - 1
  let doe := yoe * 365 + yoe / 4 - yoe / 100 + doy
  era * 146097 + doe - 719468

/-- inverse: (year, month, day) of a day number -/
def civilFromDays (z0 : Int) : Int × Int × Int :=
  let z := z0 + 719468
  let era := z / 146097
  let doe := z - era * 146097
  let yoe := (doe - doe / 1460 + doe / 36524 - doe / 146096) / 365
  let y := yoe + era * 400
  let doy := doe - (365 * yoe + yoe / 4 - yoe / 100)
  let mp := (5 * doy + 2) / 153
  let d := doy - (153 * mp + 2) / 5 + 1
  let m := if mp < 10 then mp + 3 else mp - 9
  (if m ≤ 2 then y + 1 else y, m, d)


def isLeap (y : Nat) : Bool := (y % 4 == 0 && y % 100 != 0) || y % 400 == 0

/-- days in month, written from the calendar rules -/
def daysInMonth (y m : Nat) : Nat :=
  if m == 2 then (if isLeap y then 29 else 28)
  else if m == 4 || m == 6 || m == 9 || m == 11 then 30 else 31

end Smpp.Time
