/-
Executable model of pdu/time.go (SMPP absolute time and relative period strings),
pdu/interface_version.go, and of the parts of Go's `time`, `strconv` and `fmt`
they lean on (trusted, validated by the correspondence run):

* `time.Date` normalises its arguments through day numbers and is read back with
  the accessors in the same fixed zone  → `GoDate.norm`;
* `strconv.ParseInt(s, 10, 16)` on one- and two-character strings, errors
  ignored (value 0 on a syntax error)  → `parseInt`;
* `fmt`'s `%02d` / `%d` on signed integers  → `fmt02` / `fmtD`.
-/
import Smpp.Prelude
import Smpp.Model.Calendar

namespace Smpp.Time

/-! ## strconv / fmt -/

def isDigit (c : UInt8) : Bool := 48 ≤ c.toNat && c.toNat ≤ 57

def digitsVal : List UInt8 → Nat → Option Nat
  | [], acc => some acc
  | c :: r, acc => if isDigit c then digitsVal r (acc * 10 + (c.toNat - 48)) else none

/-- `v, _ := strconv.ParseInt(s, 10, 16)` for the short slices time.go takes: optional sign,
then at least one digit, nothing else; 0 on a syntax error. -/
def parseInt (s : List UInt8) : Int :=
  match s with
  | [] => 0
  | c :: r =>
    if c = 43 then (match r with | [] => 0 | _ => (match digitsVal r 0 with | some n => (n : Int) | none => 0))
    else if c = 45 then (match r with | [] => 0 | _ => (match digitsVal r 0 with | some n => -(n : Int) | none => 0))
    else match digitsVal (c :: r) 0 with
      | some n => (n : Int)
      | none => 0

def natDigits (n : Nat) : List UInt8 := (Nat.toDigits 10 n).map fun c => UInt8.ofNat c.toNat

/-- fmt `%d` -/
def fmtD (i : Int) : List UInt8 :=
  if i < 0 then 45 :: natDigits i.natAbs else natDigits i.toNat

/-- fmt `%02d`: zero padding to width 2, the sign counts towards the width -/
def fmt02 (i : Int) : List UInt8 :=
  if i < 0 then 45 :: natDigits i.natAbs
  else if i < 10 then 48 :: natDigits i.toNat else natDigits i.toNat

/-- a time.Time read through its accessors in its own fixed zone -/
structure GoDate where
  year : Int
  month : Int
  day : Int
  hour : Int
  min : Int
  sec : Int
  nsec : Int
  /-- zone offset east of UTC, seconds -/
  offset : Int
  deriving DecidableEq, Repr

/-- `time.Date(y, mo, d, h, mi, s, ns, time.FixedZone("", off))` followed by the accessors. -/
def GoDate.norm (g : GoDate) : GoDate :=
  let m0 := g.month - 1
  let y := g.year + m0 / 12
  let m := m0 % 12 + 1
  let sec0 := g.sec + g.nsec / 1000000000
  let ns := g.nsec % 1000000000
  let total := daysFromCivil y m 1 * 86400 + (g.day - 1) * 86400 + g.hour * 3600 + g.min * 60 + sec0
  let days := total / 86400
  let rem := total % 86400
  let (yy, mm, dd) := civilFromDays days
  ⟨yy, mm, dd, rem / 3600, rem % 3600 / 60, rem % 60, ns, g.offset⟩

/-- the zero time.Time (year 1, UTC) -/
def GoDate.zero : GoDate := ⟨1, 1, 1, 0, 0, 0, 0, 0⟩

/-- `Time.IsZero`: the instant is January 1, year 1, 00:00:00 UTC -/
def GoDate.isZero (g : GoDate) : Bool :=
  daysFromCivil g.year g.month g.day * 86400 + g.hour * 3600 + g.min * 60 + g.sec - g.offset
    == daysFromCivil 1 1 1 * 86400 && g.nsec == 0

/-! ## pdu/time.go -/

/-- `fromTimeString`: eight integers and the final symbol; all zero / 0 when the length is not 16 -/
def fromTimeString (s : List UInt8) : List Int × UInt8 :=
  match s with
  | [a0, a1, b0, b1, c0, c1, d0, d1, e0, e1, f0, f1, t, n0, n1, sym] =>
    let nn := parseInt [n0, n1]
    ([parseInt [a0, a1], parseInt [b0, b1], parseInt [c0, c1], parseInt [d0, d1], parseInt [e0, e1],
      parseInt [f0, f1], parseInt [t], if sym = 45 then -nn else nn], sym)
  | _ => ([0, 0, 0, 0, 0, 0, 0, 0], 0)

/-- `Time.From` -/
def timeFrom (s : List UInt8) : Option GoDate :=
  if s.isEmpty then some GoDate.zero
  else
    match fromTimeString s with
    | ([yy, mo, dd, hh, mi, ss, t, nn], sym) =>
      if sym = 43 || sym = 45 then
        some (GoDate.norm ⟨2000 + yy, mo, dd, hh, mi, ss, t * 100000000, nn * 900⟩)
      else none
    | _ => none

/-- `Time.String` -/
def timeString (g : GoDate) : List UInt8 :=
  if g.isZero then []
  else
    let off := if g.offset < 0 then -g.offset else g.offset
    let sym : UInt8 := if g.offset < 0 then 45 else 43
    fmt02 (g.year - 2000) ++ fmt02 g.month ++ fmt02 g.day ++ fmt02 g.hour ++ fmt02 g.min ++ fmt02 g.sec ++
      fmtD (g.nsec / 100000000) ++ fmt02 ((off.toNat / 900 : Nat) : Int) ++ [sym]

def durBases : List Int :=
  [8760 * 3600000000000, 720 * 3600000000000, 24 * 3600000000000, 3600000000000, 60000000000, 1000000000,
   100000000, 0]

/-- `Duration.From`, nanoseconds -/
def durFrom (s : List UInt8) : Option Int :=
  if s.isEmpty then some 0
  else
    let (parts, sym) := fromTimeString s
    if sym = 82 then some ((List.zipWith (· * ·) durBases parts).sum) else none

/-- `Duration.String` (the period is at least one second here, so Go's truncating int64
division and Nat division coincide) -/
def durString (d : Int) : List UInt8 :=
  if d < 1000000000 then []
  else
    let n := d.toNat
    let y := n / (8760 * 3600000000000)
    let r1 := n % (8760 * 3600000000000)
    let mo := r1 / (720 * 3600000000000)
    let r2 := r1 % (720 * 3600000000000)
    let dd := r2 / (24 * 3600000000000)
    let r3 := r2 % (24 * 3600000000000)
    let hh := r3 / 3600000000000
    let r4 := r3 % 3600000000000
    let mi := r4 / 60000000000
    let r5 := r4 % 60000000000
    let ss := r5 / 1000000000
    let r6 := r5 % 1000000000
    fmt02 (y : Nat) ++ fmt02 (mo : Nat) ++ fmt02 (dd : Nat) ++ fmt02 (hh : Nat) ++ fmt02 (mi : Nat) ++ fmt02 (ss : Nat) ++
      fmtD ((r6 / 100000000 : Nat) : Int) ++ [48, 48, 82]

/-! ## pdu/interface_version.go -/

/-- `InterfaceVersion.String`: "%d.%d" of the two nibbles -/
def versionString (v : UInt8) : List UInt8 :=
  natDigits (v.toNat / 16) ++ [46] ++ natDigits (v.toNat % 16)

/-- `UnmarshalJSON` after the JSON string is unquoted: Sscanf "%d.%d" into two uint8 -/
def versionParse (s : List UInt8) : Option UInt8 :=
  let major := s.takeWhile isDigit
  match s.dropWhile isDigit with
  | 46 :: r =>
    let minor := r.takeWhile isDigit
    if major.isEmpty || minor.isEmpty then none
    else
      match digitsVal major 0, digitsVal minor 0 with
      | some a, some b => if a < 256 && b < 256 then some (UInt8.ofNat ((a % 16) * 16 + b % 16)) else none
      | _, _ => none
  | _ => none

end Smpp.Time
