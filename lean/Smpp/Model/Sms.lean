/-
Executable model of package sms (GSM 03.40 TPDUs): Unmarshal / Marshal with their reflection
walks over REGENERATED struct layouts, getType, the flag octets, TP addresses, SC address,
time stamp, the three validity-period formats, user data; and of coding/semioctet.

Input model: `sms.Unmarshal` wraps its reader in a 4096-octet bufio.Reader.  One TPDU consumes
fewer than 1000 octets (two addresses of at most 130 octets, user data of at most 256, fixed
fields), so every read is served from the first fill; the remaining input is a flat octet list:
  ReadByte  — EOF on empty
  Read(p)   — len p = 0: (0, nil); empty input: EOF; else min(len p, available) octets, the rest of p stays zero
  Peek(n)   — error unless n octets are available (n ≤ 258 here)
  Discard(n)— error unless n octets are available
Nested bufio.NewReader(buf) returns buf itself (size ≥ 4096).

Every index expression of the Go code is an explicit partial primitive (`idx`) returning `panic`.
-/
import Smpp.Prelude
import Smpp.Model.Time
import Smpp.Model.Gsm7

namespace Smpp.Sms
open Smpp Smpp.Time

inductive Err where
  | eof | unknownType | filler | gsm | digits
  deriving DecidableEq, Repr

abbrev R := Res Err

def idx {α} (site : String) (l : List α) (i : Nat) : R α :=
  match l[i]? with
  | some a => .ok a
  | none => .panic site

/-! ## reader primitives -/

def rdByte : Bytes → R (UInt8 × Bytes)
  | [] => .err .eof
  | b :: r => .ok (b, r)

/-- `buf.Read(make([]byte, n))` -/
def rdN (n : Nat) (bs : Bytes) : R (Bytes × Bytes) :=
  if n = 0 then .ok ([], bs)
  else if bs.isEmpty then .err .eof
  else .ok (bs.take n ++ List.replicate (n - bs.length) 0, bs.drop n)

def discard (n : Nat) (bs : Bytes) : R Bytes :=
  if n ≤ bs.length then .ok (bs.drop n) else .err .eof

/-! ## coding/semioctet -/

/-- DecodeSemi: stops at the first octet whose high nibble is the 0xF filler -/
def decodeSemi : Bytes → List Nat
  | [] => []
  | b :: r =>
    let half := b.toNat / 16
    let lo := b.toNat % 16
    if half = 15 then [lo] else (lo * 10 + half) :: decodeSemi r

/-- DecodeSemiAddress: '0' + nibble, the high nibble unless it is the filler -/
def decodeSemiAddress : Bytes → List Nat
  | [] => []
  | b :: r =>
    let lo := b.toNat % 16
    let hi := b.toNat / 16
    if hi = 15 then (48 + lo) :: decodeSemiAddress r else (48 + lo) :: (48 + hi) :: decodeSemiAddress r

/-- decimal digits of a natural number (strconv.Itoa), most significant first; the three short
cases are spelled out so that digit counts of bounded values are decided by case analysis -/
def decDigits (n : Nat) : List UInt8 :=
  if n < 10 then [UInt8.ofNat n]
  else if n < 100 then [UInt8.ofNat (n / 10), UInt8.ofNat (n % 10)]
  else if n < 1000 then [UInt8.ofNat (n / 100), UInt8.ofNat (n / 10 % 10), UInt8.ofNat (n % 10)]
  else (Nat.toDigits 10 n).map (fun ch => UInt8.ofNat (ch.toNat - 48))

/-- strconv.Itoa as octets minus '0' in byte arithmetic (the minus sign becomes 253) -/
def itoaDigits (c : Int) : List UInt8 :=
  if c < 0 then 253 :: decDigits c.natAbs else decDigits c.toNat

/-- toDigits -/
def toDigits : List Int → List UInt8
  | [] => []
  | c :: r => (if c < 10 then [0] else []) ++ itoaDigits c ++ toDigits r

/-- the pairing loop of EncodeSemi: `digits[i+1]<<4 | digits[i]`, a last odd digit with filler -/
def packDigits : List UInt8 → Bytes
  | a :: b :: r => ((b <<< (4 : UInt8)) ||| a) :: packDigits r
  | [a] => [(0xF0 : UInt8) ||| a]
  | [] => []

def encodeSemi (chunks : List Int) : Bytes := packDigits (toDigits chunks)

/-- EncodeSemiAddress: every rune must be a decimal digit -/
def encodeSemiAddress (no : List Nat) : Option Bytes :=
  if no.all (fun r => 48 ≤ r && r ≤ 57) then some (packDigits (no.map fun r => UInt8.ofNat (r - 48))) else none

/-! ## values -/

/-- sms.Address / sms.SCAddress; `no` as runes (digits are '0'+nibble code points) -/
structure Addr where
  npi : UInt8
  ton : UInt8
  no : List Nat
  deriving DecidableEq, Repr

def Addr.zero : Addr := ⟨0, 0, []⟩

inductive VP where
  | none
  /-- EnhancedDuration{Duration (seconds), Indicator} -/
  | enh (secs : Nat) (ind : UInt8)
  /-- Duration (seconds) -/
  | rel (secs : Nat)
  | abs (t : GoDate)
  deriving DecidableEq, Repr

/-- how one flag-struct field is packed: MessageType and byte take two bits, bool one -/
inductive FlagKind where
  | mtype | two | one
  deriving DecidableEq, Repr

inductive FVal where
  | byte (b : UInt8)
  /-- a flags struct: one number per field (MessageType: kind<<1|dir; byte: 0..3; bool: 0/1) -/
  | flags (v : List Nat)
  | addr (a : Addr)
  | time (t : GoDate)
  | bytes (b : Bytes)
  | vp (v : VP)
  | skip
  deriving DecidableEq, Repr

/-- how the two type switches of marshal.go treat a field -/
inductive FKind where
  | byte
  | flags (ty : String)
  | bytes
  | scaddr | addr | time
  | iface
  | skip
  deriving DecidableEq, Repr

structure TField where
  name : String
  tp : String
  dir : String
  /-- dispatch in unmarshal -/
  ukind : FKind
  /-- dispatch in Marshal -/
  mkind : FKind
  deriving DecidableEq, Repr

structure TLayout where
  name : String
  fields : List TField
  deriving DecidableEq, Repr

/-! ## flag octets (unmarshalFlags / marshalFlags) -/

def unmarshalFlags (c : UInt8) : List FlagKind → Nat → List Nat
  | [], _ => []
  | .mtype :: r, bits => ((c.toNat >>> bits) % 4 * 2) :: unmarshalFlags c r (bits + 2)   -- Set(b&3, Direction()) on a zero value
  | .two :: r, bits => ((c.toNat >>> bits) % 4) :: unmarshalFlags c r (bits + 2)
  | .one :: r, bits => ((c.toNat >>> bits) % 2) :: unmarshalFlags c r (bits + 1)

/-- setDirection: MessageType.Set(Type(), dir) on the first field of a flags struct that has one -/
def setDirection (dir : Nat) : List FlagKind → List Nat → List Nat
  | .mtype :: _, v :: r => ((v / 2 % 4 * 2 + dir) % 8) :: r
  | _, v => v

def marshalFlags : List FlagKind → List Nat → Nat → Nat
  | .mtype :: ks, v :: vs, bits => ((v / 2 % 4) <<< bits) % 256 ||| marshalFlags ks vs (bits + 2)
  | .two :: ks, v :: vs, bits => ((v % 4) <<< bits) % 256 ||| marshalFlags ks vs (bits + 2)
  | .one :: ks, v :: vs, bits => (if v % 2 = 1 then (1 <<< bits) % 256 else 0) ||| marshalFlags ks vs (bits + 1)
  | _, _, _ => 0

/-! ## addresses -/

/-- the shared tail of Address.ReadFrom / SCAddress.ReadFrom after the data octets were read -/
def decodeNo (rev : List Nat) (escs : List (Nat × Nat)) (ton : UInt8) (data : Bytes) : R (List Nat) :=
  if ton ≠ 5 then .ok (decodeSemiAddress data)
  else
    match Smpp.Gsm7.decode rev escs data with
    | some t => .ok t
    | none => .err .gsm

/-- Address.ReadFrom (TP-OA / TP-DA / TP-RA): length counts semi-octets; `(length+1)/2` in a byte -/
def readAddr (rev : List Nat) (escs : List (Nat × Nat)) (bs : Bytes) : R (Addr × Bytes) :=
  match rdByte bs with
  | .err e => .err e
  | .panic s => .panic s
  | .ok (len, bs) =>
    if len = 0 then .ok (Addr.zero, bs)
    else
      match rdByte bs with
      | .err e => .err e
      | .panic s => .panic s
      | .ok (kind, bs) =>
        let npi : UInt8 := kind &&& (0x0F : UInt8)
        let ton : UInt8 := (kind >>> (4 : UInt8)) &&& (0x07 : UInt8)
        let n := ((len + 1) / 2).toNat
        match rdN n bs with
        | .err e => .err e
        | .panic s => .panic s
        | .ok (data, bs) =>
          match decodeNo rev escs ton data with
          | .err e => .err e
          | .panic s => .panic s
          | .ok no => .ok (⟨npi, ton, no⟩, bs)

/-- SCAddress.ReadFrom: length counts the octets that follow (type + digits) -/
def readSCAddr (rev : List Nat) (escs : List (Nat × Nat)) (bs : Bytes) : R (Addr × Bytes) :=
  match rdByte bs with
  | .err e => .err e
  | .panic s => .panic s
  | .ok (len, bs) =>
    if len = 0 then .ok (Addr.zero, bs)
    else
      match rdByte bs with
      | .err e => .err e
      | .panic s => .panic s
      | .ok (kind, bs) =>
        let npi : UInt8 := kind &&& (0x0F : UInt8)
        let ton : UInt8 := (kind >>> (4 : UInt8)) &&& (0x07 : UInt8)
        match rdN (len.toNat - 1) bs with
        | .err e => .err e
        | .panic s => .panic s
        | .ok (data, bs) =>
          match decodeNo rev escs ton data with
          | .err e => .err e
          | .panic s => .panic s
          | .ok no => .ok (⟨npi, ton, no⟩, bs)

/-- UTF-8 length of a scalar value (len(p.No) is a byte length) -/
def utf8Len (r : Nat) : Nat := if r < 0x80 then 1 else if r < 0x800 then 2 else if r < 0x10000 then 3 else 4

/-- Address.MarshalBinary: [digit/text octet count, type, data…]; an encoding error leaves no data octets -/
def addrBinary (rev : List Nat) (escs : List (Nat × Nat)) (a : Addr) : Bytes :=
  let kind : UInt8 := (a.npi &&& (0x0F : UInt8)) ||| ((a.ton &&& (0x07 : UInt8)) <<< (4 : UInt8)) ||| (0x80 : UInt8)
  let data : Bytes :=
    if a.ton ≠ 5 then (encodeSemiAddress a.no).getD []
    else (Smpp.Gsm7.encode rev escs a.no).getD []
  UInt8.ofNat data.length :: kind :: data

/-- Address.WriteTo -/
def writeAddr (rev : List Nat) (escs : List (Nat × Nat)) (a : Addr) : Bytes :=
  if a.no.isEmpty then [0]
  else
    match addrBinary rev escs a with
    | l :: rest => (if a.ton ≠ 5 then UInt8.ofNat ((a.no.map utf8Len).sum) else l * 2) :: rest
    | [] => []

/-- SCAddress.WriteTo -/
def writeSCAddr (rev : List Nat) (escs : List (Nat × Nat)) (a : Addr) : Bytes :=
  if a.no.isEmpty then [0]
  else
    match addrBinary rev escs a with
    | l :: rest => (l + 1) :: rest
    | [] => []

/-! ## time stamp and validity periods -/

/-- Time.ReadFrom -/
def readTime (bs : Bytes) : R (GoDate × Bytes) :=
  match rdN 7 bs with
  | .err e => .err e
  | .panic s => .panic s
  | .ok (data, bs) =>
    let blocks := decodeSemi data
    if blocks.length ≠ data.length then .err .filler
    else
      match idx "time.go blocks[0]" blocks 0, idx "time.go blocks[1]" blocks 1, idx "time.go blocks[2]" blocks 2,
            idx "time.go blocks[3]" blocks 3, idx "time.go blocks[4]" blocks 4, idx "time.go blocks[5]" blocks 5,
            idx "time.go blocks[6]" blocks 6 with
      | .ok y, .ok mo, .ok d, .ok h, .ok mi, .ok s, .ok z =>
        .ok (GoDate.norm ⟨2000 + y, mo, d, h, mi, s, 0, (z : Int) * 900⟩, bs)
      | .panic s, _, _, _, _, _, _ => .panic s
      | _, .panic s, _, _, _, _, _ => .panic s
      | _, _, .panic s, _, _, _, _ => .panic s
      | _, _, _, .panic s, _, _, _ => .panic s
      | _, _, _, _, .panic s, _, _ => .panic s
      | _, _, _, _, _, .panic s, _ => .panic s
      | _, _, _, _, _, _, .panic s => .panic s
      | _, _, _, _, _, _, _ => .err .filler

/-- Time.WriteTo; `offset/900` is Go's truncating division -/
def writeTime (g : GoDate) : Bytes :=
  encodeSemi [g.year - 2000, g.month, g.day, g.hour, g.min, g.sec, Int.tdiv g.offset 900]

/-- Duration.ReadFrom, seconds -/
def relToSecs (n : Nat) : Nat :=
  if n ≤ 143 then 5 * 60 * (n + 1)
  else if n ≤ 167 then (n - 143) * 30 * 60 + 12 * 3600
  else if n ≤ 196 then (n - 166) * 24 * 3600
  else (n - 192) * 7 * 24 * 3600

def readRel (bs : Bytes) : R (Nat × Bytes) :=
  match rdN 1 bs with
  | .err e => .err e
  | .panic s => .panic s
  | .ok (data, bs) => .ok (relToSecs (data.headD 0).toNat, bs)

/-- Duration.WriteTo on a whole number of seconds -/
def secsToRel (d : Nat) : UInt8 :=
  let minutes := d / 60
  let hours := d / 3600
  let days := hours / 24
  let weeks := days / 7
  if minutes ≤ 5 then 0
  else if d ≤ 12 * 3600 then UInt8.ofNat (minutes / 5 - 1)
  else if hours ≤ 24 then UInt8.ofNat ((d - 12 * 3600) / 1800 + 143)
  else if days ≤ 31 then UInt8.ofNat (hours / 24 + 166)
  else if weeks ≤ 62 then UInt8.ofNat (weeks + 192)
  else 255

/-- EnhancedDuration.ReadFrom -/
def readEnh (bs : Bytes) : R ((Nat × UInt8) × Bytes) :=
  match rdByte bs with
  | .err e => .err e
  | .panic s => .panic s
  | .ok (ind, bs) =>
    let fmt := ind.toNat % 8
    if fmt = 1 then
      match readRel bs with
      | .err e => .err e
      | .panic s => .panic s
      | .ok (d, bs) => (match discard 5 bs with | .ok bs => .ok ((d, ind), bs) | .err e => .err e | .panic s => .panic s)
    else if fmt = 2 then
      match rdByte bs with
      | .err e => .err e
      | .panic s => .panic s
      | .ok (s, bs) => (match discard 5 bs with | .ok bs => .ok ((s.toNat, ind), bs) | .err e => .err e | .panic s => .panic s)
    else if fmt = 3 then
      -- `_, err = buf.Read(data)`; the decoded pairs are inspected even after a read error (data is then all zero)
      let (data, bs', rerr) : Bytes × Bytes × Option Err :=
        match rdN 3 bs with
        | .ok (d, r) => (d, r, none)
        | .err e => ([0, 0, 0], bs, some e)
        | .panic _ => ([0, 0, 0], bs, none)
      let semi := decodeSemi data
      if semi.length ≠ data.length then .err (rerr.getD .filler)
      else
        match idx "time.go semi[0]" semi 0, idx "time.go semi[1]" semi 1, idx "time.go semi[2]" semi 2 with
        | .ok h, .ok m, .ok s =>
          (match rerr with
           | some e => .err e
           | none => (match discard 3 bs' with | .ok bs => .ok ((h * 3600 + m * 60 + s, ind), bs) | .err e => .err e | .panic s => .panic s))
        | .panic s, _, _ => .panic s
        | _, .panic s, _ => .panic s
        | _, _, .panic s => .panic s
        | _, _, _ => .err .filler
    else
      match discard 6 bs with
      | .ok bs => .ok ((0, ind), bs)
      | .err e => .err e
      | .panic s => .panic s

/-- `make([]byte, n)` with a computed length: a negative length panics -/
def mkZeros (site : String) (n : Int) : R Bytes :=
  if n < 0 then .panic site else .ok (List.replicate n.toNat 0)

/-- EnhancedDuration.WriteTo: indicator, the value, zero padding to seven octets
(`buf.Write(make([]byte, 7-buf.Len()))`) -/
def writeEnh (secs : Nat) (ind : UInt8) : R Bytes :=
  let fmt := ind.toNat % 8
  let body : Bytes :=
    if fmt = 1 then [secsToRel secs]
    else if fmt = 2 then [UInt8.ofNat secs]
    else if fmt = 3 then
      let hh := secs / 3600
      let mm := secs / 60
      encodeSemi [(hh : Int), (mm : Int) - hh * 60, (secs : Int) - mm * 60]
    else []
  let b := ind :: body
  match mkZeros "time.go make([]byte, 7-buf.Len())" (7 - (b.length : Int)) with
  | .ok z => .ok (b ++ z)
  | .err e => .err e
  | .panic s => .panic s

/-! ## the reflection walks -/

def flagKinds (flagLayouts : List (String × List FlagKind)) (ty : String) : List FlagKind :=
  ((flagLayouts.find? (·.1 == ty)).map (·.2)).getD []

/-- ParameterIndicator.Has over the decoded bools [PID, DCS, UD] -/
def piHas (pi : List Nat) (tp : String) : Bool :=
  if tp == "PID" then pi.getD 0 0 == 1
  else if tp == "DCS" then pi.getD 1 0 == 1
  else if tp == "UD" then pi.getD 2 0 == 1
  else false

structure WalkState where
  vpf : Nat := 0
  pi : Option (List Nat) := none

/-- zero value of a field skipped by the parameter indicator -/
def zeroOf : FKind → FVal
  | .byte => .byte 0
  | .flags _ => .flags []
  | .bytes => .bytes []
  | .scaddr => .addr Addr.zero
  | .addr => .addr Addr.zero
  | .time => .time GoDate.zero
  | .iface => .vp .none
  | .skip => .skip

/-- pad a flags value list to its layout (zero value of the struct) -/
def zeroFlags (ks : List FlagKind) : List Nat := ks.map fun _ => 0

/-- one iteration of the loop of `unmarshal` on a field that is not skipped -/
def stepField (rev : List Nat) (escs : List (Nat × Nat)) (fl : List (String × List FlagKind))
    (f : TField) (st : WalkState) (bs : Bytes) : R (FVal × Bytes × WalkState) :=
  match f.ukind with
  | .byte => (match rdByte bs with | .ok (b, r) => .ok (.byte b, r, st) | .err e => .err e | .panic s => .panic s)
  | .flags ty =>
    (match rdByte bs with
     | .ok (b, r) =>
       let ks := flagKinds fl ty
       let v := unmarshalFlags b ks 0
       let v := if f.dir == "MT" then setDirection 0 ks v else if f.dir == "MO" then setDirection 1 ks v else v
       let st := if ty == "SubmitFlags" then { st with vpf := v.getD 2 0 }
                 else if ty == "ParameterIndicator" then { st with pi := some v } else st
       .ok (.flags v, r, st)
     | .err e => .err e
     | .panic s => .panic s)
  | .bytes =>
    (match rdByte bs with
     | .ok (l, r) => (match rdN l.toNat r with | .ok (d, r) => .ok (.bytes d, r, st) | .err e => .err e | .panic s => .panic s)
     | .err e => .err e
     | .panic s => .panic s)
  | .scaddr => (match readSCAddr rev escs bs with | .ok (a, r) => .ok (.addr a, r, st) | .err e => .err e | .panic s => .panic s)
  | .addr => (match readAddr rev escs bs with | .ok (a, r) => .ok (.addr a, r, st) | .err e => .err e | .panic s => .panic s)
  | .time => (match readTime bs with | .ok (t, r) => .ok (.time t, r, st) | .err e => .err e | .panic s => .panic s)
  | .iface =>
    if f.tp == "VP" && st.vpf = 1 then
      (match readEnh bs with | .ok ((d, i), r) => .ok (.vp (.enh d i), r, st) | .err e => .err e | .panic s => .panic s)
    else if f.tp == "VP" && st.vpf = 2 then
      (match readRel bs with | .ok (d, r) => .ok (.vp (.rel d), r, st) | .err e => .err e | .panic s => .panic s)
    else if f.tp == "VP" && st.vpf = 3 then
      (match readTime bs with | .ok (t, r) => .ok (.vp (.abs t), r, st) | .err e => .err e | .panic s => .panic s)
    else .ok (.vp .none, bs, st)
  | .skip => .ok (.skip, bs, st)

/-- the zero value left in a field the parameter indicator skips -/
def skippedVal (fl : List (String × List FlagKind)) (f : TField) : FVal :=
  match f.ukind with
  | .flags ty => FVal.flags (zeroFlags (flagKinds fl ty))
  | k => zeroOf k

/-- the loop of `unmarshal` -/
def unmarshalFields (rev : List Nat) (escs : List (Nat × Nat)) (fl : List (String × List FlagKind)) :
    List TField → WalkState → Bytes → R (List FVal)
  | [], _, _ => .ok []
  | f :: fs, st, bs =>
    if st.pi.isSome && !(piHas (st.pi.getD []) f.tp) then
      match unmarshalFields rev escs fl fs st bs with
      | .ok vs => .ok (skippedVal fl f :: vs)
      | .err e => .err e
      | .panic s => .panic s
    else
      match stepField rev escs fl f st bs with
      | .err e => .err e
      | .panic s => .panic s
      | .ok (v, bs, st) =>
        match unmarshalFields rev escs fl fs st bs with
        | .ok vs => .ok (v :: vs)
        | .err e => .err e
        | .panic s => .panic s

/-- getType: (kind, failure) -/
def getType (bs : Bytes) : R (Nat × Bool) :=
  match bs with
  | [] => .err .eof
  | l :: _ =>
    let length := l.toNat
    if bs.length < length + 3 then .err .eof
    else
      match idx "marshal.go peek[length+1]" bs (length + 1), idx "marshal.go peek[length+2]" bs (length + 2) with
      | .ok a, .ok b => .ok ((a.toNat % 4 * 2 + (if length = 0 then 1 else 0)) % 8, b.toNat > 127)
      | .panic s, _ => .panic s
      | _, .panic s => .panic s
      | _, _ => .err .eof

/-- the switch of Unmarshal: type name of the structure allocated -/
def typeName (kind : Nat) (failure : Bool) : Option String :=
  if kind = 0 then some "Deliver"
  else if kind = 1 && failure then some "DeliverReportError"
  else if kind = 1 then some "DeliverReport"
  else if kind = 3 then some "Submit"
  else if kind = 2 && failure then some "SubmitReportError"
  else if kind = 2 then some "SubmitReport"
  else if kind = 4 then some "StatusReport"
  else if kind = 5 then some "Command"
  else none

structure Tpdu where
  name : String
  vals : List FVal
  deriving DecidableEq, Repr

structure Env where
  rev : List Nat
  escs : List (Nat × Nat)
  layouts : List TLayout
  flagLayouts : List (String × List FlagKind)

/-- sms.Unmarshal -/
def unmarshal (env : Env) (bs : Bytes) : R Tpdu :=
  match getType bs with
  | .err e => .err e
  | .panic s => .panic s
  | .ok (kind, failure) =>
    match typeName kind failure with
    | none => .err .unknownType
    | some n =>
      match env.layouts.find? (·.name == n) with
      | none => .err .unknownType
      | some L =>
        match unmarshalFields env.rev env.escs env.flagLayouts L.fields {} bs with
        | .ok vs => .ok ⟨n, vs⟩
        | .err e => .err e
        | .panic s => .panic s

/-- the first loop of Marshal: the validity-period format the VP's dynamic type dictates -/
def vpfOf : List FVal → Nat
  | [] => 0
  | .vp (.enh _ _) :: _ => 1
  | .vp (.rel _) :: _ => 2
  | .vp (.abs _) :: _ => 3
  | _ :: r => vpfOf r

/-- one field of Marshal's second loop -/
def marshalField (env : Env) (vpf : Nat) (f : TField) (v : FVal) : R Bytes :=
  match f.mkind, v with
  | .byte, .byte b => .ok [b]
  | .bytes, .bytes d => .ok (UInt8.ofNat d.length :: (d.reverse.dropWhile (· == 0)).reverse)
  | .flags ty, .flags vals =>
    let ks := flagKinds env.flagLayouts ty
    let vals := if ty == "SubmitFlags" then vals.set 2 vpf else vals
    .ok [UInt8.ofNat (marshalFlags ks vals 0)]
  | .scaddr, .addr a => .ok (writeSCAddr env.rev env.escs a)
  | .addr, .addr a => .ok (writeAddr env.rev env.escs a)
  | .time, .time t => .ok (writeTime t)
  | .iface, .vp (.enh d i) => writeEnh d i
  | .iface, .vp (.rel d) => .ok [secsToRel d]
  | .iface, .vp (.abs t) => .ok (writeTime t)
  | _, _ => .ok []

def marshalFields (env : Env) (vpf : Nat) : List TField → List FVal → R Bytes
  | f :: fs, v :: vs =>
    match marshalField env vpf f v with
    | .ok b =>
      (match marshalFields env vpf fs vs with
       | .ok r => .ok (b ++ r)
       | .err e => .err e
       | .panic s => .panic s)
    | .err e => .err e
    | .panic s => .panic s
  | _, _ => .ok []

/-- sms.Marshal of a structure Unmarshal returned -/
def marshal (env : Env) (p : Tpdu) : R Bytes :=
  match env.layouts.find? (·.name == p.name) with
  | none => .err .unknownType
  | some L => marshalFields env (vpfOf p.vals) L.fields p.vals

end Smpp.Sms
