/-
Small-step model of conn.go (package smpp): Submit / Send / Close callers, the Watch loop, the
pending-request table, the receive queue, the connection context, the transport as the peer sees it.

One label = one atomic shared-state step (the pending-table operations are atomic because conn.go
performs each of them inside `mu.Lock() … mu.Unlock()`; that fact is regenerated from the source and
checked in Properties/C06).  The transport `Write` of one frame is one label because Marshal issues a
single Write carrying the whole frame (C12) and net.Conn serialises Write calls.

`step s l = none` means label `l` is not enabled in `s` (the goroutine is blocked or elsewhere).
Environment labels (peer, application, timers, transport faults) are marked `env`.
-/
import Smpp.Prelude

namespace Smpp.Conn

/-- where an inbound PDU comes from: the peer's answer to caller i's request, or the k-th PDU the peer originated -/
inductive Origin where
  | ans (i : Nat)
  | peer (k : Nat)
  deriving DecidableEq, Repr

structure InPdu where
  seq : Int
  origin : Origin
  deriving DecidableEq, Repr

/-- what ReadPDU yields for the next inbound frame -/
inductive InFrame where
  /-- decodes -/
  | ok (p : InPdu)
  /-- framing and command_id intact, body undecodable: ReadPDU returns the partial PDU and an error -/
  | bad (seq : Int) (k : Nat)
  /-- framing lost (bad length, unknown id): error with nil PDU -/
  | fatal
  deriving DecidableEq, Repr

/-- a whole frame on the wire -/
inductive OutFrame where
  | req (i : Nat) (seq : Int)
  | nack (seq : Int)
  deriving DecidableEq, Repr

inductive Err where
  | invalidSeq | closed | ctx | write
  deriving DecidableEq, Repr

inductive Result where
  | resp (p : InPdu)
  | sent
  | err (e : Err)
  deriving DecidableEq, Repr

inductive Kind where
  | submit | send | close
  deriving DecidableEq, Repr

inductive Pc where
  | idle
  /-- Submit: sequence stamped and callback registered; Send: entered -/
  | registered
  /-- Send's sequence test passed -/
  | checked
  /-- the frame's octets are at the peer, Write has not returned -/
  | wrote
  /-- Submit: in the final select -/
  | waiting
  /-- result decided, deferred unregister not yet run -/
  | leaving (r : Result)
  /-- Close: Submit(Unbind) returned r, transport not yet closed / context not yet cancelled -/
  | closing (r : Result)
  | cancelling (r : Result)
  | done (r : Result)
  deriving DecidableEq, Repr

structure Caller where
  kind : Kind
  seq : Int
  /-- the call of the same goroutine that must have returned before this one starts -/
  after : Option Nat
  pc : Pc := .idle
  /-- the call's own context -/
  ownDone : Bool := false
  /-- `returns`, a channel of capacity one -/
  box : Option InPdu := none
  answered : Bool := false
  deriving Repr

inductive WatchPc where
  | poll
  | reading
  | looking (p : InPdu)
  | delivering (i : Nat) (p : InPdu)
  | offering (p : InPdu)
  | nacking (seq : Int)
  | exiting
  | returned
  deriving DecidableEq, Repr

/-- the keep-alive goroutine (EnquireLink): send a keep-alive, on failure stop the ticker and Close, then wait for the
connection context or the next tick -/
inductive KaPc where
  | off
  /-- about to send the next keep-alive -/
  | idle
  /-- inside Submit(enquire_link) as call i -/
  | submitting (i : Nat)
  /-- the keep-alive failed: ticker stopped, about to call Close -/
  | failed
  /-- inside Close as call j -/
  | closing (j : Nat)
  /-- `select { case <-c.ctx.Done(): return; case <-ticker.C: }` -/
  | select
  | returned
  deriving DecidableEq, Repr

inductive Transport where
  | open | eof | err
  deriving DecidableEq, Repr

structure State where
  callers : Nat → Caller
  pending : Int → Option Nat
  /-- frames the peer has received, in order -/
  wire : List OutFrame := []
  /-- frames readable by Watch, in arrival order -/
  inbound : List InFrame := []
  /-- history: every frame Watch has taken from the transport -/
  readLog : List InFrame := []
  /-- history: PDUs Watch found no waiter for, in the order it looked them up -/
  missLog : List InPdu := []
  watch : WatchPc := .poll
  queueClosed : Bool := false
  /-- what the application received from PDU(), in order -/
  delivered : List InPdu := []
  /-- the application is ready to receive from PDU() -/
  draining : Bool := true
  connDone : Bool := false
  readSide : Transport := .open
  /-- parent.Close() was called / writes fail -/
  writeBroken : Bool := false
  panicked : Bool := false
  ka : KaPc := .off
  tickerStopped : Bool := false

inductive Label where
  -- caller i
  | start (i : Nat) | check (i : Nat) | write (i : Nat) | writeRet (i : Nat)
  | takeResp (i : Nat) | seeConnDone (i : Nat) | seeOwnDone (i : Nat) | finish (i : Nat)
  | closeTransport (i : Nat) | closeCancel (i : Nat)
  -- Watch
  | wPoll | wRead | wLookup | wDeliver | wOffer | wOfferCancel | wNack | wExit
  -- keep-alive goroutine
  | kaStart | kaSend (i : Nat) | kaSubmitDone | kaClose (j : Nat) | kaCloseDone | kaExit
  -- environment
  | kaTick
  | peerAnswer (i : Nat) | peerUnsol (seq : Int) (k : Nat) | peerBad (seq : Int) (k : Nat) | peerFatal
  | transportEOF | transportErr | cancelParent | deadline (i : Nat) | setDrain (b : Bool) | breakWrites
  deriving DecidableEq, Repr

def Label.isEnv : Label → Bool
  | .peerAnswer _ | .peerUnsol _ _ | .peerBad _ _ | .peerFatal | .transportEOF | .transportErr
  | .cancelParent | .deadline _ | .setDrain _ | .breakWrites | .kaTick => true
  | _ => false

def upd {α} (f : Nat → α) (i : Nat) (v : α) : Nat → α := fun j => if j = i then v else f j

def updI {α} (f : Int → α) (i : Int) (v : α) : Int → α := fun j => if j = i then v else f j

def setPc (s : State) (i : Nat) (pc : Pc) : State :=
  { s with callers := upd s.callers i { s.callers i with pc := pc } }

/-- has the call returned -/
def Pc.isDone : Pc → Bool
  | .done _ => true
  | _ => false

def predDone (s : State) (i : Nat) : Bool :=
  match (s.callers i).after with
  | none => true
  | some j => (s.callers j).pc.isDone

def step (s : State) : Label → Option State
  | .start i =>
    let c := s.callers i
    if c.pc = .idle ∧ predDone s i then
      let s := setPc s i .registered
      some (if c.kind = .send then s else { s with pending := updI s.pending c.seq (some i) })
    else none
  | .check i =>
    let c := s.callers i
    if c.pc = .registered then
      some (setPc s i (if c.seq ≤ 0 then .leaving (.err .invalidSeq) else .checked))
    else none
  | .write i =>
    let c := s.callers i
    if c.pc = .checked then
      if s.writeBroken then some (setPc s i (.leaving (.err .write)))
      else some { setPc s i .wrote with wire := s.wire ++ [.req i c.seq] }
    else none
  | .writeRet i =>
    let c := s.callers i
    if c.pc = .wrote then some (setPc s i (if c.kind = .send then .leaving .sent else .waiting)) else none
  | .takeResp i =>
    let c := s.callers i
    match c.pc, c.box with
    | .waiting, some p => some { s with callers := upd s.callers i { c with pc := .leaving (.resp p), box := none } }
    | _, _ => none
  | .seeConnDone i =>
    if (s.callers i).pc = .waiting ∧ s.connDone then some (setPc s i (.leaving (.err .closed))) else none
  | .seeOwnDone i =>
    if (s.callers i).pc = .waiting ∧ (s.callers i).ownDone then some (setPc s i (.leaving (.err .ctx))) else none
  | .finish i =>
    let c := s.callers i
    match c.pc with
    | .leaving r =>
      let s' := setPc s i (if c.kind = .close then .closing r else .done r)
      some (if c.kind = .send then s' else { s' with pending := updI s'.pending c.seq none })
    | _ => none
  | .closeTransport i =>
    match (s.callers i).pc with
    | .closing r =>
      let s' := setPc s i (.cancelling r)
      -- `if _, err = c.Submit(ctx, new(Unbind)); err == nil { err = c.parent.Close() }`
      some (match r with
        | .resp _ => { s' with writeBroken := true, readSide := if s.readSide = .open then .err else s.readSide }
        | _ => s')
    | _ => none
  | .closeCancel i =>
    match (s.callers i).pc with
    | .cancelling r => some { setPc s i (.done r) with connDone := true }
    | _ => none
  | .wPoll =>
    if s.watch = .poll then some { s with watch := if s.connDone then .exiting else .reading } else none
  | .wRead =>
    if s.watch = .reading then
      match s.inbound with
      | f :: rest =>
        let s' := { s with inbound := rest, readLog := s.readLog ++ [f] }
        some (match f with
          | .ok p => { s' with watch := .looking p }
          | .bad seq _ => { s' with watch := .nacking seq }
          | .fatal => { s' with watch := .exiting })
      | [] => if s.readSide = .open then none else some { s with watch := .exiting }
    else none
  | .wLookup =>
    match s.watch with
    | .looking p =>
      some (match s.pending p.seq with
        | some i => { s with watch := .delivering i p }
        | none => { s with watch := .offering p, missLog := s.missLog ++ [p] })
    | _ => none
  | .wDeliver =>
    match s.watch with
    | .delivering i p =>
      if (s.callers i).box = none then
        some { s with callers := upd s.callers i { s.callers i with box := some p }, watch := .poll }
      else none
    | _ => none
  | .wOffer =>
    match s.watch with
    | .offering p =>
      if s.queueClosed then some { s with panicked := true }
      else if s.draining then some { s with delivered := s.delivered ++ [p], watch := .poll }
      else none
    | _ => none
  | .wOfferCancel =>
    match s.watch with
    | .offering _ => if s.connDone then some { s with watch := .exiting } else none
    | _ => none
  | .wNack =>
    match s.watch with
    | .nacking seq =>
      some (if seq ≤ 0 ∨ s.writeBroken then { s with watch := .poll }
            else { s with watch := .poll, wire := s.wire ++ [.nack seq] })
    | _ => none
  | .wExit =>
    if s.watch = .exiting then
      some (if s.queueClosed then { s with panicked := true, watch := .returned, connDone := true }
            else { s with queueClosed := true, watch := .returned, connDone := true })
    else none
  | .kaStart => if s.ka = .off then some { s with ka := .idle } else none
  | .kaSend i =>
    -- the keep-alive is call i of the table: a Submit that has not started yet
    if s.ka = .idle ∧ (s.callers i).pc = .idle ∧ (s.callers i).kind = .submit then some { s with ka := .submitting i } else none
  | .kaSubmitDone =>
    match s.ka with
    | .submitting i =>
      (match (s.callers i).pc with
       | .done (.resp _) => some { s with ka := .select }
       | .done _ => some { s with ka := .failed, tickerStopped := true }
       | _ => none)
    | _ => none
  | .kaClose j =>
    if s.ka = .failed ∧ (s.callers j).pc = .idle ∧ (s.callers j).kind = .close then some { s with ka := .closing j } else none
  | .kaCloseDone =>
    match s.ka with
    | .closing j => if (s.callers j).pc.isDone then some { s with ka := .select } else none
    | _ => none
  | .kaExit => if s.ka = .select ∧ s.connDone then some { s with ka := .returned } else none
  | .kaTick => if s.ka = .select ∧ s.tickerStopped = false then some { s with ka := .idle } else none
  | .peerAnswer i =>
    let c := s.callers i
    if (OutFrame.req i c.seq) ∈ s.wire ∧ c.answered = false then
      some { s with callers := upd s.callers i { c with answered := true }, inbound := s.inbound ++ [.ok ⟨c.seq, .ans i⟩] }
    else none
  | .peerUnsol seq k => some { s with inbound := s.inbound ++ [.ok ⟨seq, .peer k⟩] }
  | .peerBad seq k => some { s with inbound := s.inbound ++ [.bad seq k] }
  | .peerFatal => some { s with inbound := s.inbound ++ [.fatal] }
  | .transportEOF => some { s with readSide := if s.readSide = .open then .eof else s.readSide }
  | .transportErr => some { s with readSide := if s.readSide = .open then .err else s.readSide }
  | .cancelParent => some { s with connDone := true }
  | .deadline i => some { s with callers := upd s.callers i { s.callers i with ownDone := true } }
  | .setDrain b => some { s with draining := b }
  | .breakWrites => some { s with writeBroken := true }

def run (s : State) : List Label → Option State
  | [] => some s
  | l :: ls => match step s l with
    | some s' => run s' ls
    | none => none

/-- initial state for a table of calls -/
def init (callers : Nat → Caller) : State := { callers := callers, pending := fun _ => none }

end Smpp.Conn
