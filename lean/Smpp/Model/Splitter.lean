/-
Executable model of coding/splitter.go (the four width closures, Len, the greedy Split),
pdu/udh_element.go (ConcatenatedHeader.Len / Set) and pdu/message_multipart.go
ComposeMultipartShortMessage.  Texts are lists of scalar values.
-/
import Smpp.Model.Pdu

namespace Smpp.Splitter
open Smpp Smpp.Pdu

/-- the ten GSM 03.38 extension characters the 7-bit splitter counts as two septets -/
def gsmExt : List Nat := [0x0C, 0x5B, 0x5C, 0x5D, 0x5E, 0x7B, 0x7C, 0x7D, 0x7E, 0x20AC]

/-- splitterMap[c] applied to a rune: bits the splitter budgets for it (`none`: no splitter) -/
def width (c : Nat) (r : Nat) : Option Nat :=
  if c = 0 then some (if gsmExt.contains r then 14 else 7)
  else if c = 1 || c = 3 || c = 6 || c = 7 then some 8
  else if c = 5 || c = 10 || c = 13 || c = 14 then some (if r < 0x7F then 8 else 16)
  else if c = 8 then some (if r ≤ 0xD7FF || (0xE000 ≤ r && r ≤ 0xFFFF) then 16 else 32)
  else none

def bits (w : Nat → Nat) (t : List Nat) : Nat := (t.map w).sum

/-- Splitter.Len: bits rounded up to octets -/
def len (w : Nat → Nat) (t : List Nat) : Nat := (bits w t + 7) / 8

/-- Splitter.Split's loop.  `cur` is the open segment (reversed), `n` its bit count.  When the next
rune does not fit, the open segment is closed and the rune is re-scanned into a fresh one (Go's
`i--`); the model assumes every single rune fits an empty segment (`w r ≤ limit`), otherwise the
Go loop does not terminate — limits here are 133/134 octets against widths of at most 32 bits. -/
def splitAux (w : Nat → Nat) (limit : Nat) : List Nat → List Nat → Nat → List (List Nat)
  | [], cur, n => if n > 0 then [cur.reverse] else []
  | r :: t, cur, n =>
    if n + w r > limit then cur.reverse :: splitAux w limit t [r] (w r)
    else splitAux w limit t (r :: cur) (n + w r)

/-- Splitter.Split(input, limitOctets) -/
def split (w : Nat → Nat) (limitOctets : Nat) (t : List Nat) : List (List Nat) :=
  splitAux w (limitOctets * 8) t [] 0

/-- ConcatenatedHeader.Len -/
def concatLen (reference : Nat) : Nat := if reference ≤ 0xFF then 5 else 6

/-- ConcatenatedHeader.Set: the information element for (reference, total, sequence) -/
def concatUdh (reference total seq : Nat) : KMap :=
  if reference / 256 % 256 = 0 then [(0, [UInt8.ofNat reference, UInt8.ofNat total, UInt8.ofNat seq])]
  else [(8, [UInt8.ofNat (reference / 256), UInt8.ofNat reference, UInt8.ofNat total, UInt8.ofNat seq])]

inductive ComposeErr where
  | unknownCoding | encoder | tooMany
  deriving DecidableEq, Repr

structure Part where
  udh : Option KMap
  /-- the text of this part (its encoding is the payload) -/
  text : List Nat
  deriving DecidableEq, Repr

/-- ComposeMultipartShortMessage, up to the encoding of each part's text (`accepts` = the encoder
takes the text).  `reference` is a uint16. -/
def compose (c : Nat) (accepts : List Nat → Bool) (reference : Nat) (t : List Nat) : Except ComposeErr (List Part) :=
  match width c 0 with
  | none => .error .unknownCoding
  | some _ =>
    let w := fun r => (width c r).getD 0
    if len w t ≤ 140 then
      if accepts t then .ok [⟨none, t⟩] else .error .encoder
    else
      let segs := split w (140 - 1 - concatLen reference) t
      if segs.length > 0xFE then .error .tooMany
      else if segs.all accepts then
        .ok (segs.zipIdx.map fun (s, i) => ⟨some (concatUdh reference segs.length (i + 1)), s⟩)
      else .error .encoder

end Smpp.Splitter
