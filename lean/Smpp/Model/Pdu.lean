/-
Executable model of package pdu's codec: marshal.go, pdu.go, header.go,
message.go, udh.go, tag.go, address.go, esm_class.go, registered_delivery.go,
internal.go — as the code exists in /repo (after the `fix:` commits listed in
known_findings.json).  The struct layouts are NOT written here: they are
regenerated from the source into `Smpp.Generated.Layouts` on every run and the
model folds over them exactly as the reflection walk does.
-/
import Smpp.Prelude

namespace Smpp.Pdu
open Smpp

/-! ## layouts (the shape of the regenerated facts) -/

/-- How marshal.go dispatches on a struct field: Go kind first, then the interface
the addressed field satisfies.  `skipped` is a field neither walk touches. -/
inductive Kind where
  | cstr | u8 | bool | header | esm | regdlv | addr | dests | unsucc | tags | sm
  | skipped (goKind : String)
  deriving DecidableEq, Repr

structure Field where
  name : String
  kind : Kind
  deriving DecidableEq, Repr

structure Layout where
  name : String
  /-- command_id parsed from the `id` tag of field 0 -/
  id : Nat
  fields : List Field
  /-- `Prepare`'s type switch `pdu.(*ReplaceSM)` -/
  isReplace : Bool
  deriving DecidableEq, Repr

/-! ## values -/

structure Header where
  len : UInt32
  id : UInt32
  status : UInt32
  /-- int32 in Go; kept as its two's-complement bit pattern -/
  seq : UInt32
  deriving DecidableEq, Repr

def Header.seqPos (h : Header) : Bool := 0 < h.seq.toNat && h.seq.toNat < 2147483648

structure Addr where
  ton : UInt8
  npi : UInt8
  no : Bytes
  deriving DecidableEq, Repr

structure Esm where
  mode : UInt8
  type : UInt8
  udhi : Bool
  reply : Bool
  deriving DecidableEq, Repr

structure RegDlv where
  mc : UInt8
  sme : UInt8
  inter : Bool
  reserved : UInt8
  deriving DecidableEq, Repr

structure Dests where
  addrs : List Addr
  dls : List Bytes
  deriving DecidableEq, Repr

structure Unsucc where
  addr : Addr
  status : UInt32
  deriving DecidableEq, Repr

/-- A Go map with octet-string values: key-sorted, duplicate-free association list
(canonical, so `=` is map equality). -/
abbrev KMap := List (Nat × Bytes)

def KMap.insert (k : Nat) (v : Bytes) : KMap → KMap
  | [] => [(k, v)]
  | (k', v') :: r =>
    if k < k' then (k, v) :: (k', v') :: r
    else if k = k' then (k, v) :: r
    else (k', v') :: KMap.insert k v r

def KMap.ofList (l : List (Nat × Bytes)) : KMap := l.foldl (fun m kv => m.insert kv.1 kv.2) []

structure ShortMsg where
  defId : UInt8
  dc : UInt8
  /-- `none` = nil map (no UDH); `some []` = empty non-nil map (UDHL = 0) -/
  udh : Option KMap
  msg : Bytes
  deriving DecidableEq, Repr

inductive FVal where
  | cstr (s : Bytes)
  | u8 (b : UInt8)
  | bool (b : Bool)
  | header (h : Header)
  | esm (e : Esm)
  | regdlv (r : RegDlv)
  | addr (a : Addr)
  | dests (d : Dests)
  | unsucc (l : List Unsucc)
  | tags (t : KMap)
  | sm (m : ShortMsg)
  | skipped (n : Nat)
  deriving DecidableEq, Repr

def zeroVal : Kind → FVal
  | .cstr => .cstr []
  | .u8 => .u8 0
  | .bool => .bool false
  | .header => .header ⟨0, 0, 0, 0⟩
  | .esm => .esm ⟨0, 0, false, false⟩
  | .regdlv => .regdlv ⟨0, 0, false, 0⟩
  | .addr => .addr ⟨0, 0, []⟩
  | .dests => .dests ⟨[], []⟩
  | .unsucc => .unsucc []
  | .tags => .tags []
  | .sm => .sm ⟨0, 0, none, []⟩
  | .skipped _ => .skipped 0

/-- Does a value have the shape its field kind demands? -/
def FVal.hasKind : FVal → Kind → Bool
  | .cstr _, .cstr | .u8 _, .u8 | .bool _, .bool | .header _, .header | .esm _, .esm
  | .regdlv _, .regdlv | .addr _, .addr | .dests _, .dests | .unsucc _, .unsucc
  | .tags _, .tags | .sm _, .sm | .skipped _, .skipped _ => true
  | _, _ => false

def Typed : List Field → List FVal → Bool
  | [], [] => true
  | f :: fs, v :: vs => v.hasKind f.kind && Typed fs vs
  | _, _ => false

/-! ## errors -/

inductive Err where
  | eof | ueof
  | status (n : Nat)          -- a pdu.CommandStatus used as error
  | unmarshalFailed | invalidSeq | itemTooMany | dataTooLarge | smTooLarge
  deriving DecidableEq, Repr

/-! ## scalar codecs -/

def b2u (b : Bool) : UInt8 := if b then 1 else 0

/-- ESMClass.ReadByte -/
def encEsm (e : Esm) : UInt8 :=
  (e.mode &&& (3 : UInt8)) ||| ((e.type &&& (15 : UInt8)) <<< (2 : UInt8)) |||
    (b2u e.udhi <<< (6 : UInt8)) ||| (b2u e.reply <<< (7 : UInt8))

/-- ESMClass.WriteByte -/
def decEsm (c : UInt8) : Esm :=
  { mode := c &&& (3 : UInt8), type := (c >>> (2 : UInt8)) &&& (15 : UInt8),
    udhi := (c >>> (6 : UInt8)) &&& (1 : UInt8) == (1 : UInt8),
    reply := (c >>> (7 : UInt8)) &&& (1 : UInt8) == (1 : UInt8) }

/-- RegisteredDelivery.ReadByte -/
def encRegDlv (r : RegDlv) : UInt8 :=
  (r.mc &&& (3 : UInt8)) ||| ((r.sme &&& (3 : UInt8)) <<< (2 : UInt8)) |||
    (b2u r.inter <<< (4 : UInt8)) ||| ((r.reserved &&& (7 : UInt8)) <<< (5 : UInt8))

/-- RegisteredDelivery.WriteByte -/
def decRegDlv (c : UInt8) : RegDlv :=
  { mc := c &&& (3 : UInt8), sme := (c >>> (2 : UInt8)) &&& (3 : UInt8),
    inter := (c >>> (4 : UInt8)) &&& (1 : UInt8) == (1 : UInt8), reserved := (c >>> (5 : UInt8)) &&& (7 : UInt8) }

/-! ## encoders (WriteTo / Marshal side) -/

def encCStr (s : Bytes) : Bytes := s ++ [0]

def encHeader (h : Header) : Bytes := be32 h.len ++ be32 h.id ++ be32 h.status ++ be32 h.seq

def encAddr (a : Addr) : Bytes := a.ton :: a.npi :: encCStr a.no

/-- DestinationAddresses.WriteTo -/
def encDests (d : Dests) : Except Err Bytes :=
  let n := d.addrs.length + d.dls.length
  if n > 255 then .error (.status 0x33)
  else .ok (UInt8.ofNat n :: (d.addrs.flatMap (fun a => 1 :: encAddr a) ++ d.dls.flatMap (fun s => 2 :: encCStr s)))

/-- UnsuccessfulRecords.WriteTo -/
def encUnsucc (l : List Unsucc) : Except Err Bytes :=
  if l.length > 255 then .error .itemTooMany
  else .ok (UInt8.ofNat l.length :: l.flatMap (fun u => encAddr u.addr ++ be32 u.status))

/-- One TLV as Tags.WriteTo emits it (empty values are skipped by the caller). -/
def encTlv (kv : Nat × Bytes) : Bytes :=
  be16 (UInt16.ofNat kv.1) ++ be16 (UInt16.ofNat kv.2.length) ++ kv.2

/-- Tags.WriteTo over the key-sorted entries. -/
def encTagsSorted : KMap → Except Err Bytes
  | [] => .ok []
  | (k, v) :: r =>
    if v.length = 0 then encTagsSorted r
    else if v.length < 0xFFFF then
      match encTagsSorted r with
      | .ok b => .ok (encTlv (k, v) ++ b)
      | .error e => .error e
    else .error (.status 0xC2)

def keyLe (a b : Nat × Bytes) : Bool := a.1 ≤ b.1

/-- Tags.WriteTo with an explicit map iteration order `iter` (any permutation of the
entries): the keys are collected in that order and then sorted. -/
def encTagsIter (iter : List (Nat × Bytes)) : Except Err Bytes :=
  encTagsSorted (iter.mergeSort keyLe)

def encUdhEl (kv : Nat × Bytes) : Bytes := UInt8.ofNat kv.1 :: UInt8.ofNat kv.2.length :: kv.2

/-- UserDataHeader.WriteTo over the key-sorted entries (nil map writes nothing). -/
def encUdh : Option KMap → Except Err Bytes
  | none => .ok []
  | some els =>
    if els.any (fun kv => kv.2.length > 255) then .error .dataTooLarge
    else
      let body := els.flatMap encUdhEl
      if body.length > 255 then .error .dataTooLarge
      else .ok (UInt8.ofNat body.length :: body)

/-- UserDataHeader.WriteTo with an explicit map iteration order (keys collected, then sorted). -/
def encUdhIter (iter : Option (List (Nat × Bytes))) : Except Err Bytes :=
  encUdh (iter.map (fun l => l.mergeSort keyLe))

def noCoding : UInt8 := 0xBF

/-- ShortMessage.WriteTo -/
def encSm (m : ShortMsg) : Except Err Bytes :=
  if m.msg.length > 140 then .error .smTooLarge
  else match encUdh m.udh with
    | .error e => .error e
    | .ok u =>
      let body := u ++ m.msg
      if body.length > 255 then .error .smTooLarge
      else .ok ((if m.dc != noCoding then [m.dc] else []) ++ [m.defId, UInt8.ofNat body.length] ++ body)

/-- ShortMessage.Prepare -/
def prepare (isReplace udhi : Bool) (m : ShortMsg) : ShortMsg :=
  if isReplace then { m with dc := noCoding }
  else if m.udh.isNone && udhi then { m with udh := some [] }
  else m

/-- The value of the field named `ESMClass` (reflect FieldByName), if it is an ESMClass. -/
def udhiOf : List Field → List FVal → Bool
  | f :: fs, v :: vs =>
    if f.name = "ESMClass" then
      match v with
      | .esm e => e.udhi
      | _ => false
    else udhiOf fs vs
  | _, _ => false

/-- Encode one non-header field. -/
def encField (isReplace udhi : Bool) : FVal → Except Err (Bytes × FVal)
  | .cstr s => .ok (encCStr s, .cstr s)
  | .u8 b => .ok ([b], .u8 b)
  | .bool b => .ok ([b2u b], .bool b)
  | .header h => .ok ([], .header h)      -- handled by the caller
  | .esm e => .ok ([encEsm e], .esm e)
  | .regdlv r => .ok ([encRegDlv r], .regdlv r)
  | .addr a => .ok (encAddr a, .addr a)
  | .dests d => (encDests d).map (·, .dests d)
  | .unsucc l => (encUnsucc l).map (·, .unsucc l)
  | .tags t => (encTagsSorted t).map (·, .tags t)
  | .sm m =>
    let m' := prepare isReplace udhi m
    (encSm m').map (·, .sm m')
  | .skipped n => .ok ([], .skipped n)

/-- The body of Marshal's loop after the header: returns octets and the (Prepare-mutated) values. -/
def encFields (isReplace udhi : Bool) : List FVal → Except Err (Bytes × List FVal)
  | [] => .ok ([], [])
  | v :: vs =>
    match encField isReplace udhi v with
    | .error e => .error e
    | .ok (b, v') =>
      match encFields isReplace udhi vs with
      | .error e => .error e
      | .ok (bs, vs') => .ok (b ++ bs, v' :: vs')

def setLen (n : Nat) : Bytes → Bytes
  | _ :: _ :: _ :: _ :: r => be32 (UInt32.ofNat n) ++ r
  | b => b

structure MarshalOut where
  /-- octets of the single Write issued to the destination (success) or the error -/
  res : Res Err Bytes
  /-- the caller's struct after Marshal (header command_id set, ShortMessage prepared) -/
  after : List FVal
  deriving Repr, DecidableEq

/-- pdu.Marshal.  Only layouts whose field 0 is the tagged Header are modelled
(an expectation lemma over the generated layouts shows there are no others). -/
def marshal (L : Layout) (v : List FVal) : MarshalOut :=
  match v with
  | .header h :: rest =>
    let h' : Header := { h with id := UInt32.ofNat L.id }
    if !h.seqPos then ⟨.err .invalidSeq, .header h' :: rest⟩
    else if h.status != 0 then
      let buf := encHeader h'
      ⟨.ok (setLen buf.length buf), .header h' :: rest⟩
    else
      match encFields L.isReplace (udhiOf L.fields v) rest with
      | .error e => ⟨.err e, .header h' :: rest⟩
      | .ok (body, rest') =>
        let buf := encHeader h' ++ body
        -- the length patch `data[0:4]` needs 4 octets: always there, the header was written
        if buf.length < 4 then ⟨.panic "marshal.go data[0:4]", .header h' :: rest'⟩
        else ⟨.ok (setLen buf.length buf), .header h' :: rest'⟩
  | _ => ⟨.err .invalidSeq, v⟩

/-! ## decoders (ReadFrom / unmarshal side): every read is exact, so they are functions of the frame octets -/

def decAddr (bs : Bytes) : Option (Addr × Bytes) :=
  match bs with
  | ton :: npi :: r =>
    match readCStr r with
    | some (no, r') => some (⟨ton, npi, no⟩, r')
    | none => none
  | _ => none

/-- The count-driven loop of DestinationAddresses.ReadFrom. -/
def decDestsLoop : Nat → Dests → Bytes → Option (Dests × Bytes)
  | 0, d, bs => some (d, bs)
  | n + 1, d, bs =>
    match bs with
    | 1 :: r =>
      match decAddr r with
      | some (a, r') => decDestsLoop n { d with addrs := d.addrs ++ [a] } r'
      | none => none
    | 2 :: r =>
      match readCStr r with
      | some (s, r') => decDestsLoop n { d with dls := d.dls ++ [s] } r'
      | none => none
    | _ => none

def decDests (bs : Bytes) : Option (Dests × Bytes) :=
  match bs with
  | [] => none
  | c :: r => decDestsLoop c.toNat ⟨[], []⟩ r

def decUnsuccLoop : Nat → List Unsucc → Bytes → Option (List Unsucc × Bytes)
  | 0, acc, bs => some (acc, bs)
  | n + 1, acc, bs =>
    match decAddr bs with
    | some (a, r) =>
      match readU32 r with
      | some (st, r') => decUnsuccLoop n (acc ++ [⟨a, st⟩]) r'
      | none => none
    | none => none

def decUnsucc (bs : Bytes) : Option (List Unsucc × Bytes) :=
  match bs with
  | [] => none
  | c :: r => decUnsuccLoop c.toNat [] r

/-- Tags.ReadFrom: reads to the end of the frame.  `binary.Read` of the 4-octet
tag/length pair returns io.EOF on an empty rest (clean end) and ErrUnexpectedEOF on
1..3 octets; `io.ReadFull` of a non-empty value returns io.EOF when nothing is left
(also taken as a clean end, the TLV is dropped) and ErrUnexpectedEOF when it is cut. -/
def decTags (acc : KMap) (bs : Bytes) : Option KMap :=
  match bs with
  | [] => some acc
  | t1 :: t2 :: l1 :: l2 :: r =>
    let len := (rd16 l1 l2).toNat
    if len = 0 then decTags (acc.insert (rd16 t1 t2).toNat []) r
    else if r.length = 0 then some acc
    else if r.length < len then none
    else decTags (acc.insert (rd16 t1 t2).toNat (r.take len)) (r.drop len)
  | _ => none
termination_by bs.length
decreasing_by all_goals simp_wf <;> omega

/-- The element loop of UserDataHeader.ReadFrom (`i` counts consumed octets). -/
def decUdhLoop (total i : Nat) (acc : KMap) (bs : Bytes) : Option (KMap × Bytes) :=
  if i < total then
    match bs with
    | id :: l :: r =>
      match takeN l.toNat r with
      | some (d, r') => decUdhLoop total (i + 2 + l.toNat) (acc.insert id.toNat d) r'
      | none => none
    | _ => none
  else some (acc, bs)
termination_by total - i
decreasing_by omega

def udhLen : Option KMap → Nat
  | none => 0
  | some els => 1 + (els.map (fun kv => 2 + kv.2.length)).sum

/-- ShortMessage.ReadFrom after Prepare. -/
def decSm (isReplace udhi : Bool) (bs : Bytes) : Option (ShortMsg × Bytes) :=
  let dcr : Option (UInt8 × Bytes) :=
    if isReplace then some (noCoding, bs) else readByte bs
  match dcr with
  | none => none
  | some (dc, r0) =>
    match r0 with
    | defId :: len :: r1 =>
      let parseUdh := !isReplace && udhi
      let ur : Option (Option KMap × Bytes) :=
        if parseUdh then
          match r1 with
          | [] => none
          | total :: r2 =>
            match decUdhLoop total.toNat 0 [] r2 with
            | some (els, r3) => some (some els, r3)   -- an empty result leaves Prepare's empty map in place
            | none => none
        else some (none, r1)
      match ur with
      | none => none
      | some (udh, r4) =>
        let msgLen := (len.toNat + 256 - udhLen udh % 256) % 256
        match takeN msgLen r4 with
        | some (msg, r5) => some (⟨defId, dc, udh, msg⟩, r5)
        | none => none
    | _ => none

def decHeader (bs : Bytes) : Option (Header × Bytes) :=
  match bs with
  | a0 :: a1 :: a2 :: a3 :: b0 :: b1 :: b2 :: b3 :: c0 :: c1 :: c2 :: c3 :: d0 :: d1 :: d2 :: d3 :: r =>
    some (⟨rd32 a0 a1 a2 a3, rd32 b0 b1 b2 b3, rd32 c0 c1 c2 c3, rd32 d0 d1 d2 d3⟩, r)
  | _ => none

/-- `readHeaderFrom` inside unmarshal: the 16 octets and the 16..0x10000 bounds test. -/
def decHeaderChecked (bs : Bytes) : Option (Header × Bytes) :=
  match decHeader bs with
  | some (h, r) => if h.len.toNat < 16 || h.len.toNat > 0x10000 then none else some (h, r)
  | none => none

/-- One arm of unmarshal's switch.  `none` = any error (unmarshal maps them all to
ErrUnmarshalPDUFailed).  Tags consume the whole rest. -/
def decField (isReplace udhi : Bool) : Kind → Bytes → Option (FVal × Bytes)
  | .cstr, bs => (readCStr bs).map fun (s, r) => (.cstr s, r)
  | .u8, bs => (readByte bs).map fun (b, r) => (.u8 b, r)
  | .bool, bs => (readByte bs).map fun (b, r) => (.bool (b == 1), r)
  | .header, bs => (decHeaderChecked bs).map fun (h, r) => (.header h, r)
  | .esm, bs => (readByte bs).map fun (b, r) => (.esm (decEsm b), r)
  | .regdlv, bs => (readByte bs).map fun (b, r) => (.regdlv (decRegDlv b), r)
  | .addr, bs => (decAddr bs).map fun (a, r) => (.addr a, r)
  | .dests, bs => (decDests bs).map fun (d, r) => (.dests d, r)
  | .unsucc, bs => (decUnsucc bs).map fun (l, r) => (.unsucc l, r)
  | .tags, bs => (decTags [] bs).map fun t => (.tags t, [])
  | .sm, bs => (decSm isReplace udhi bs).map fun (m, r) => (.sm m, r)
  | .skipped _, bs => some (.skipped 0, bs)

/-- What the field named ESMClass holds after field `f` was decoded to `v`. -/
def udhiNext (u : Bool) (f : Field) (v : FVal) : Bool :=
  if f.name = "ESMClass" then (match v with | .esm e => e.udhi | _ => u) else u

/-- unmarshal's loop.  `udhi` is the value the field named ESMClass holds so far.
Only the `*Header` arm returns early (non-zero command_status: the remaining fields keep
their zero values). -/
def decFields (isReplace : Bool) : Bool → List Field → Bytes → Option (List FVal)
  | _, [], _ => some []
  | udhi, f :: fs, bs =>
    if f.kind = .header then
      match decHeaderChecked bs with
      | none => none
      | some (h, r) =>
        if h.status != 0 then some (.header h :: fs.map (fun g => zeroVal g.kind))
        else
          match decFields isReplace udhi fs r with
          | some vs => some (.header h :: vs)
          | none => none
    else
      match decField isReplace udhi f.kind bs with
      | none => none
      | some (v, r) =>
        match decFields isReplace (udhiNext udhi f v) fs r with
        | some vs => some (v :: vs)
        | none => none

def unmarshal (L : Layout) (bs : Bytes) : Option (List FVal) := decFields L.isReplace false L.fields bs

/-! ## ReadPDU over a chunked stream -/

inductive ReadOut where
  /-- success: layout name and decoded values -/
  | ok (name : String) (v : List FVal)
  /-- error with a nil pdu -/
  | errNil (e : Err)
  /-- error with a non-nil, partly filled pdu of the named type (only its sequence number is used, by Watch) -/
  | errPdu (e : Err) (name : String) (seq : UInt32)
  deriving Repr, DecidableEq

structure ReadResult where
  out : ReadOut
  /-- octets taken from the reader -/
  consumed : Nat
  rest : Stream
  /-- sizes of the `make([]byte, n)` calls driven by wire data, in order (allocation log) -/
  allocs : List Nat
  deriving Repr

def lookupLayout (layouts : List Layout) (id : Nat) : Option Layout :=
  layouts.find? (fun L => L.id == id)

def readPDU (layouts : List Layout) (s : Stream) : ReadResult :=
  let h := readFull 16 s
  if h.1.length = 0 then ⟨.errNil .eof, 0, h.2, []⟩
  else if h.1.length < 16 then ⟨.errNil .ueof, h.1.length, h.2, []⟩
  else
    match decHeader h.1 with
    | none => ⟨.errNil .ueof, h.1.length, h.2, []⟩   -- unreachable: 16 octets are there
    | some (hdr, _) =>
      let len := hdr.len.toNat
      if len < 16 || len > 0x10000 then ⟨.errNil (.status 2), 16, h.2, []⟩
      else
        let b := readFull (len - 16) h.2
        if b.1.length < len - 16 then ⟨.errNil (.status 2), 16 + b.1.length, b.2, [len - 16]⟩
        else
          match lookupLayout layouts hdr.id.toNat with
          | none => ⟨.errNil (.status 3), len, b.2, [len - 16]⟩
          | some L =>
            match unmarshal L (h.1 ++ b.1) with
            | some v => ⟨.ok L.name v, len, b.2, [len - 16]⟩
            | none => ⟨.errPdu .unmarshalFailed L.name hdr.seq, len, b.2, [len - 16]⟩

/-- Repeated ReadPDU until the first error (what Watch does), with fuel for totality. -/
def readAll (layouts : List Layout) : Nat → Stream → List ReadOut
  | 0, _ => []
  | fuel + 1, s =>
    let r := readPDU layouts s
    match r.out with
    | .ok n v => .ok n v :: readAll layouts fuel r.rest
    | o => [o]

end Smpp.Pdu
