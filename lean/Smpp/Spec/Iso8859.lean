/-
INDEPENDENT transcriptions of ISO/IEC 8859-1, 8859-5 and 8859-8 (octet → scalar value), written
from the standards' code tables; C0/C1 control positions map to the ISO 6429 controls of the
same number.  `none` = position not assigned by the standard.
-/
namespace Smpp.Spec.Iso8859

def latin1 (b : Nat) : Option Nat := if b < 256 then some b else none

/-- ISO/IEC 8859-5:1999 (Latin/Cyrillic) -/
def cyrillic (b : Nat) : Option Nat :=
  if b ≤ 0xA0 then some b
  else if b ≤ 0xAC then some (0x0401 + (b - 0xA1))
  else if b = 0xAD then some 0x00AD
  else if b ≤ 0xAF then some (0x040E + (b - 0xAE))
  else if b ≤ 0xEF then some (0x0410 + (b - 0xB0))
  else if b = 0xF0 then some 0x2116
  else if b ≤ 0xFC then some (0x0451 + (b - 0xF1))
  else if b = 0xFD then some 0x00A7
  else if b ≤ 0xFF then some (0x045E + (b - 0xFE))
  else none

/-- ISO/IEC 8859-8:1999 (Latin/Hebrew) -/
def hebrew (b : Nat) : Option Nat :=
  if b ≤ 0xA0 then some b
  else if b = 0xA1 then none
  else if b ≤ 0xA9 then some b
  else if b = 0xAA then some 0x00D7
  else if b ≤ 0xB9 then some b
  else if b = 0xBA then some 0x00F7
  else if b ≤ 0xBE then some b
  else if b ≤ 0xDE then none
  else if b = 0xDF then some 0x2017
  else if b ≤ 0xFA then some (0x05D0 + (b - 0xE0))
  else if b ≤ 0xFC then none
  else if b = 0xFD then some 0x200E
  else if b = 0xFE then some 0x200F
  else none

/-- is the scalar value a C1 control (U+0080..U+009F)?  DESIGN.md §9.4: whether the Cyrillic and
Hebrew parts carry them is left unspecified. -/
def isC1 (r : Nat) : Bool := 0x80 ≤ r && r ≤ 0x9F

end Smpp.Spec.Iso8859
