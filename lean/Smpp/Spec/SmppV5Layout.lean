/-
INDEPENDENT specification of the SMPP v5 PDU layouts, transcribed from
docs/SMPP_v5.pdf §4.1–4.6 (tables 4-1 … 4-47), §4.7.12 (esm_class), §4.7.21
(registered_delivery) — see DESIGN.md Appendix D.  Nothing here is derived from
packet.go: the table names, for each operation, the mandatory parameters in the
specification's order, each with the Go field that is supposed to carry it.

Only the value carrier types (`FVal` etc.) are shared with the model; the
encoders below are written from the specification text with plain arithmetic.
-/
import Smpp.Model.Pdu

namespace Smpp.Spec
open Smpp Smpp.Pdu

/-- A mandatory parameter (or parameter group) of an operation. -/
structure Param where
  /-- parameter name(s) in the specification -/
  spec : String
  /-- the Go struct field expected to carry it -/
  goField : String
  kind : Kind
  deriving DecidableEq, Repr

structure Op where
  name : String
  id : Nat
  params : List Param
  /-- does the specification allow optional TLVs after the mandatory parameters? -/
  tlvs : Bool
  deriving DecidableEq, Repr

def pAddr (spec go : String) : Param := ⟨spec, go, .addr⟩
def pC (spec go : String) : Param := ⟨spec, go, .cstr⟩
def p1 (spec go : String) : Param := ⟨spec, go, .u8⟩

def bindParams : List Param :=
  [pC "system_id" "SystemID", pC "password" "Password", pC "system_type" "SystemType",
   p1 "interface_version" "Version", pAddr "addr_ton, addr_npi, address_range" "AddressRange"]

def submitLike (dest : Param) : List Param :=
  [pC "service_type" "ServiceType", pAddr "source_addr_ton, source_addr_npi, source_addr" "SourceAddr", dest,
   ⟨"esm_class", "ESMClass", .esm⟩, p1 "protocol_id" "ProtocolID", p1 "priority_flag" "PriorityFlag",
   pC "schedule_delivery_time" "ScheduleDeliveryTime", pC "validity_period" "ValidityPeriod",
   ⟨"registered_delivery", "RegisteredDelivery", .regdlv⟩,
   ⟨"replace_if_present_flag", "ReplaceIfPresent", .bool⟩,
   ⟨"data_coding, sm_default_msg_id, sm_length, short_message", "Message", .sm⟩]

def respMsgId : List Param := [pC "message_id" "MessageID"]

/-- SMPP v5 §4.1–4.6. -/
def smppV5 : List Op := [
  ⟨"bind_receiver", 0x00000001, bindParams, false⟩,
  ⟨"bind_transmitter", 0x00000002, bindParams, false⟩,
  ⟨"bind_transceiver", 0x00000009, bindParams, false⟩,
  ⟨"bind_receiver_resp", 0x80000001, [pC "system_id" "SystemID"], true⟩,
  ⟨"bind_transmitter_resp", 0x80000002, [pC "system_id" "SystemID"], true⟩,
  ⟨"bind_transceiver_resp", 0x80000009, [pC "system_id" "SystemID"], true⟩,
  ⟨"outbind", 0x0000000B, [pC "system_id" "SystemID", pC "password" "Password"], false⟩,
  ⟨"unbind", 0x00000006, [], false⟩,
  ⟨"unbind_resp", 0x80000006, [], false⟩,
  ⟨"enquire_link", 0x00000015, [], false⟩,
  ⟨"enquire_link_resp", 0x80000015, [], false⟩,
  ⟨"alert_notification", 0x00000102,
    [pAddr "source_addr_ton, source_addr_npi, source_addr" "SourceAddr",
     pAddr "esme_addr_ton, esme_addr_npi, esme_addr" "ESMEAddr"], true⟩,
  ⟨"generic_nack", 0x80000000, [], false⟩,
  ⟨"submit_sm", 0x00000004, submitLike (pAddr "dest_addr_ton, dest_addr_npi, destination_addr" "DestAddr"), true⟩,
  ⟨"submit_sm_resp", 0x80000004, respMsgId, true⟩,
  ⟨"data_sm", 0x00000103,
    [pC "service_type" "ServiceType", pAddr "source_addr_ton, source_addr_npi, source_addr" "SourceAddr",
     pAddr "dest_addr_ton, dest_addr_npi, destination_addr" "DestAddr", ⟨"esm_class", "ESMClass", .esm⟩,
     ⟨"registered_delivery", "RegisteredDelivery", .regdlv⟩, p1 "data_coding" "DataCoding"], true⟩,
  ⟨"data_sm_resp", 0x80000103, respMsgId, true⟩,
  ⟨"submit_multi", 0x00000021,
    submitLike ⟨"number_of_dests, dest_address(es)", "DestAddrList", .dests⟩, true⟩,
  ⟨"submit_multi_resp", 0x80000021,
    [pC "message_id" "MessageID", ⟨"no_unsuccess, unsuccess_sme(s)", "UnsuccessfulSMEs", .unsucc⟩], true⟩,
  ⟨"deliver_sm", 0x00000005, submitLike (pAddr "dest_addr_ton, dest_addr_npi, destination_addr" "DestAddr"), true⟩,
  ⟨"deliver_sm_resp", 0x80000005, respMsgId, true⟩,
  ⟨"broadcast_sm", 0x00000112,
    [pC "service_type" "ServiceType", pAddr "source_addr_ton, source_addr_npi, source_addr" "SourceAddr",
     pC "message_id" "MessageID", p1 "priority_flag" "PriorityFlag",
     pC "schedule_delivery_time" "ScheduleDeliveryTime", pC "validity_period" "ValidityPeriod",
     ⟨"replace_if_present_flag", "ReplaceIfPresent", .bool⟩, p1 "data_coding" "DataCoding",
     p1 "sm_default_msg_id" "DefaultMessageID"], true⟩,
  ⟨"broadcast_sm_resp", 0x80000112, respMsgId, true⟩,
  ⟨"cancel_sm", 0x00000008,
    [pC "service_type" "ServiceType", pC "message_id" "MessageID",
     pAddr "source_addr_ton, source_addr_npi, source_addr" "SourceAddr",
     pAddr "dest_addr_ton, dest_addr_npi, destination_addr" "DestAddr"], false⟩,
  ⟨"cancel_sm_resp", 0x80000008, [], false⟩,
  ⟨"query_sm", 0x00000003,
    [pC "message_id" "MessageID", pAddr "source_addr_ton, source_addr_npi, source_addr" "SourceAddr"], false⟩,
  ⟨"query_sm_resp", 0x80000003,
    [pC "message_id" "MessageID", pC "final_date" "FinalDate", p1 "message_state" "MessageState",
     p1 "error_code" "ErrorCode"], false⟩,
  ⟨"replace_sm", 0x00000007,
    [pC "message_id" "MessageID", pAddr "source_addr_ton, source_addr_npi, source_addr" "SourceAddr",
     pC "schedule_delivery_time" "ScheduleDeliveryTime", pC "validity_period" "ValidityPeriod",
     ⟨"registered_delivery", "RegisteredDelivery", .regdlv⟩,
     ⟨"sm_default_msg_id, sm_length, short_message", "Message", .sm⟩], true⟩,
  ⟨"replace_sm_resp", 0x80000007, [], false⟩,
  ⟨"query_broadcast_sm", 0x00000111,
    [pC "message_id" "MessageID", pAddr "source_addr_ton, source_addr_npi, source_addr" "SourceAddr"], true⟩,
  ⟨"query_broadcast_sm_resp", 0x80000111, respMsgId, true⟩,
  ⟨"cancel_broadcast_sm", 0x00000113,
    [pC "service_type" "ServiceType", pC "message_id" "MessageID",
     pAddr "source_addr_ton, source_addr_npi, source_addr" "SourceAddr"], true⟩,
  ⟨"cancel_broadcast_sm_resp", 0x80000113, [], false⟩]

def specOf (id : Nat) : Option Op := smppV5.find? (·.id == id)

/-! ## encoders written from the specification -/

/-- 4-octet unsigned integer, most significant octet first (§3.1). -/
def int4 (n : Nat) : Bytes :=
  [UInt8.ofNat (n / 16777216 % 256), UInt8.ofNat (n / 65536 % 256), UInt8.ofNat (n / 256 % 256), UInt8.ofNat (n % 256)]

def int2 (n : Nat) : Bytes := [UInt8.ofNat (n / 256 % 256), UInt8.ofNat (n % 256)]

/-- C-octet string: the octets followed by NUL (§3.1). -/
def cOctet (s : Bytes) : Bytes := s ++ [0]

/-- esm_class (§4.7.12): messaging mode bits 1-0, message type bits 5-2, UDHI bit 6, reply path bit 7. -/
def esmClass (e : Esm) : UInt8 :=
  UInt8.ofNat (e.mode.toNat % 4 + 4 * (e.type.toNat % 16) + (if e.udhi then 64 else 0) + (if e.reply then 128 else 0))

/-- registered_delivery (§4.7.21): MC receipt bits 1-0, SME ack bits 3-2, intermediate bit 4, reserved 7-5. -/
def registeredDelivery (r : RegDlv) : UInt8 :=
  UInt8.ofNat (r.mc.toNat % 4 + 4 * (r.sme.toNat % 4) + (if r.inter then 16 else 0) + 32 * (r.reserved.toNat % 8))

def address (a : Addr) : Bytes := [a.ton, a.npi] ++ cOctet a.no

/-- TLV (§4.8.1): tag, length, value. -/
def tlv (tag : Nat) (v : Bytes) : Bytes := int2 tag ++ int2 v.length ++ v

/-- The sm_length / short_message pair with an optional UDH in front of the text
(GSM 03.40 §9.2.3.24: UDHL, then IEI / IEIDL / IED per element). -/
def shortMessage (withDataCoding : Bool) (m : ShortMsg) : Bytes :=
  let udh : Bytes := match m.udh with
    | none => []
    | some els =>
      let body := els.flatMap fun kv => [UInt8.ofNat kv.1, UInt8.ofNat kv.2.length] ++ kv.2
      UInt8.ofNat body.length :: body
  (if withDataCoding then [m.dc] else []) ++ [m.defId, UInt8.ofNat (udh.length + m.msg.length)] ++ udh ++ m.msg

def param (isReplace : Bool) : FVal → Bytes
  | .cstr s => cOctet s
  | .u8 b => [b]
  | .bool b => [if b then 1 else 0]
  | .header _ => []
  | .esm e => [esmClass e]
  | .regdlv r => [registeredDelivery r]
  | .addr a => address a
  | .dests d =>
    UInt8.ofNat (d.addrs.length + d.dls.length) ::
      (d.addrs.flatMap (fun a => 1 :: address a) ++ d.dls.flatMap (fun s => 2 :: cOctet s))
  | .unsucc l => UInt8.ofNat l.length :: l.flatMap (fun u => address u.addr ++ int4 u.status.toNat)
  | .tags t => t.flatMap fun kv => if kv.2.length = 0 then [] else tlv kv.1 kv.2
  | .sm m => shortMessage (!isReplace) m
  | .skipped _ => []

/-- The frame the specification prescribes: header (command_length, command_id, command_status,
sequence_number), then the parameters. -/
def frame (op : Op) (isReplace : Bool) (status seq : Nat) (vals : List FVal) : Bytes :=
  let body := vals.flatMap (param isReplace)
  int4 (16 + body.length) ++ int4 op.id ++ int4 status ++ int4 seq ++ body

/-- Can the one-octet / two-octet fields of the layout state this value? -/
def expressible : FVal → Bool
  | .dests d => d.addrs.length + d.dls.length ≤ 255
  | .unsucc l => l.length ≤ 255
  | .tags t => t.all fun kv => kv.2.length ≤ 65535
  | .sm m =>
    let udhBody := match m.udh with
      | none => 0
      | some els => (els.map fun kv => 2 + kv.2.length).sum
    (match m.udh with | none => true | some els => els.all (fun kv => kv.2.length ≤ 255) && udhBody ≤ 255) &&
    (match m.udh with | none => 0 | some _ => 1 + udhBody) + m.msg.length ≤ 255
  | _ => true

end Smpp.Spec
