/-
INDEPENDENT layout model of the SMS-DELIVER and SMS-SUBMIT TPDUs, written from GSM 03.40
§9.1.2.3–9.1.2.5 (semi-octet and alphanumeric representation, address fields), §9.2.2.1 / §9.2.2.2
(field order), §9.2.3.11 (service-centre time stamp), §9.2.3.12 (validity period) — not from the Go
code.  Shares no definition with Smpp/Model/Sms.lean except the octet type and GSM 03.38 packing of
Spec/Gsm0338 (7 bits per character, LSB first).
-/
import Smpp.Prelude

namespace Smpp.Spec.Gsm0340
open Smpp

/-- semi-octet representation (§9.1.2.3): digit pairs, first digit in bits 3..0; odd count filled with 1111 -/
def semiOctets : List Nat → Bytes
  | a :: b :: r => UInt8.ofNat (b * 16 + a) :: semiOctets r
  | [a] => [UInt8.ofNat (15 * 16 + a)]
  | [] => []

/-- type-of-address octet (§9.1.2.5): 1 | TON(3) | NPI(4) -/
def toa (ton npi : Nat) : UInt8 := UInt8.ofNat (128 + ton % 8 * 16 + npi % 16)

/-- bits of a septet, least significant first -/
def septetBits (s : Nat) : List Bool := (List.range 7).map fun i => s / 2 ^ i % 2 == 1

def bitsToOctets : List Bool → Bytes
  | [] => []
  | b :: r =>
    let o := (b :: r).take 8
    let v := (o.zipIdx.map fun (x, i) => if x then 2 ^ i else 0).sum
    UInt8.ofNat v :: bitsToOctets (r.drop 7)
termination_by l => l.length
decreasing_by simp; omega

/-- GSM 03.38 §6.1.2.1 packing of septets into octets, zero fill bits -/
def packSeptets (septets : List Nat) : Bytes := bitsToOctets (septets.flatMap septetBits)

inductive AddrValue where
  /-- decimal digits (each 0..9) -/
  | digits (ds : List Nat)
  /-- alphanumeric: GSM default-alphabet septets (§9.1.2.5 TON 101) -/
  | alpha (septets : List Nat)
  deriving DecidableEq, Repr

structure Address where
  ton : Nat
  npi : Nat
  value : AddrValue
  deriving DecidableEq, Repr

/-- TP-OA / TP-DA (§9.1.2.5): Address-Length = number of useful semi-octets, Type-of-Address, Address-Value -/
def addressField (a : Address) : Bytes :=
  match a.value with
  | .digits ds => UInt8.ofNat ds.length :: toa a.ton a.npi :: semiOctets ds
  | .alpha ss => UInt8.ofNat ((7 * ss.length + 3) / 4) :: toa 5 a.npi :: packSeptets ss

/-- RP SC address as it precedes the TPDU (GSM 04.11 §8.2.5.2): length in octets incl. the type octet -/
def scAddressField (a : Option Address) : Bytes :=
  match a with
  | none => [0]
  | some a =>
    match a.value with
    | .digits ds => UInt8.ofNat (1 + (ds.length + 1) / 2) :: toa a.ton a.npi :: semiOctets ds
    | .alpha ss => UInt8.ofNat (1 + (7 * ss.length + 7) / 8) :: toa 5 a.npi :: packSeptets ss

structure TimeStamp where
  year : Nat   -- 0..99
  month : Nat
  day : Nat
  hour : Nat
  minute : Nat
  second : Nat
  /-- time zone in quarters of an hour, signed -/
  zone : Int
  deriving DecidableEq, Repr

/-- one two-digit value in semi-octet order (tens digit in bits 3..0) -/
def bcdSwapped (v : Nat) : UInt8 := UInt8.ofNat (v % 10 * 16 + v / 10)

/-- TP-SCTS (§9.2.3.11); bit 3 of the seventh octet is the sign of the zone -/
def timeStampField (t : TimeStamp) : Bytes :=
  [bcdSwapped t.year, bcdSwapped t.month, bcdSwapped t.day, bcdSwapped t.hour, bcdSwapped t.minute,
   bcdSwapped t.second,
   UInt8.ofNat ((bcdSwapped t.zone.natAbs).toNat + (if t.zone < 0 then 8 else 0))]

/-- TP-VP relative (§9.2.3.12.1), in minutes -/
def relativeMinutes (n : Nat) : Nat :=
  if n ≤ 143 then (n + 1) * 5
  else if n ≤ 167 then 12 * 60 + (n - 143) * 30
  else if n ≤ 196 then (n - 166) * 24 * 60
  else (n - 192) * 7 * 24 * 60

inductive Validity where
  | absent
  | relative (n : Nat)
  /-- seven octets: functionality indicator, value, zero padding (§9.2.3.12.3) -/
  | enhanced (octets : Bytes)
  | absolute (t : TimeStamp)
  deriving DecidableEq, Repr

def Validity.format : Validity → Nat
  | .absent => 0 | .enhanced _ => 1 | .relative _ => 2 | .absolute _ => 3

def validityField : Validity → Bytes
  | .absent => []
  | .relative n => [UInt8.ofNat n]
  | .enhanced o => o
  | .absolute t => timeStampField t

structure Deliver where
  sc : Address
  /-- first octet: MTI = 00 in bits 1..0, the other six bits free -/
  firstOctet : Nat
  oa : Address
  pid : Nat
  dcs : Nat
  scts : TimeStamp
  /-- TP-UDL as transmitted (septets for the default alphabet, octets otherwise) -/
  udl : Nat
  ud : Bytes
  deriving DecidableEq, Repr

/-- SMS-DELIVER preceded by its SC address (§9.2.2.1) -/
def deliver (d : Deliver) : Bytes :=
  scAddressField (some d.sc) ++ [UInt8.ofNat (d.firstOctet / 4 * 4)] ++ addressField d.oa ++
    [UInt8.ofNat d.pid, UInt8.ofNat d.dcs] ++ timeStampField d.scts ++ [UInt8.ofNat d.udl] ++ d.ud

structure Submit where
  /-- first octet: MTI = 01, VPF (bits 4..3) is taken from `vp` -/
  firstOctet : Nat
  mr : Nat
  da : Address
  pid : Nat
  dcs : Nat
  vp : Validity
  udl : Nat
  ud : Bytes
  deriving DecidableEq, Repr

def submitFirstOctet (s : Submit) : Nat :=
  s.firstOctet / 32 * 32 + s.vp.format * 8 + s.firstOctet / 4 % 2 * 4 + 1

/-- SMS-SUBMIT without SC address (§9.2.2.2) -/
def submit (s : Submit) : Bytes :=
  scAddressField none ++ [UInt8.ofNat (submitFirstOctet s), UInt8.ofNat s.mr] ++ addressField s.da ++
    [UInt8.ofNat s.pid, UInt8.ofNat s.dcs] ++ validityField s.vp ++ [UInt8.ofNat s.udl] ++ s.ud

end Smpp.Spec.Gsm0340
