import Smpp.Model.Coding
import Smpp.Generated.CodingFacts
import Driver.Gsm7Ops

namespace Driver
open Smpp Smpp.Coding Smpp.Generated

def vIv : Nat → List (Nat × Nat)
  | 0 => validate_0 | 1 => validate_1 | 3 => validate_3 | 5 => validate_5 | 6 => validate_6
  | 7 => validate_7 | 8 => validate_8 | 14 => validate_14 | _ => []
def aIv : Nat → List (Nat × Nat)
  | 0 => accept_0 | 1 => accept_1 | 3 => accept_3 | 5 => accept_5 | 6 => accept_6
  | 7 => accept_7 | 8 => accept_8 | 10 => accept_10 | 13 => accept_13 | 14 => accept_14 | _ => []
def tbl : Nat → List (Nat × Nat)
  | 1 => table_1 | 3 => table_3 | 6 => table_6 | 7 => table_7 | _ => []

/-- membership with binary search over an array of sorted disjoint intervals (driver speed only) -/
def inArr (a : Array (Nat × Nat)) (r : Nat) : Bool := Id.run do
  let mut lo := 0
  let mut hi := a.size
  while lo < hi do
    let mid := (lo + hi) / 2
    let p := a[mid]!
    if r < p.1 then hi := mid
    else if r > p.2 then lo := mid + 1
    else return true
  return false

def vArr : Nat → Array (Nat × Nat) := fun c => (vIv c).toArray
def aArr : Nat → Array (Nat × Nat) := fun c => (aIv c).toArray

def codingOp (op : String) (args : List String) : Option String :=
  match op, args with
  | "best", [rs] => do
    let t ← parseRunes rs
    let varrs := priority.map fun c => (c, vArr c)
    let best := ((varrs.find? fun (_, a) => t.all (inArr a)).map (·.1)).getD ucs2
    let safe := if t.all (inArr (vArr 0)) then 0 else ucs2
    let acc := t.all (inArr (aArr best))
    some s!"{best} {safe} {if acc then 1 else 0}"
  | "enc", [c, rs] => do
    let dc ← c.toNat?
    let t ← parseRunes rs
    if dc == 8 then some s!"ok {toHex (encUcs2 t)}"
    else
      match encTable (tbl dc) t with
      | some b => some s!"ok {toHex b}"
      | none => some "err"
  | "dec", [c, h] => do
    let dc ← c.toNat?
    let b ← fromHex h
    if dc == 8 then some s!"ok {showRunes (decUcs2 b)}" else none
  | "avail", [c] => do
    let dc ← c.toNat?
    let p ← codingAvailability.find? (·.1 == dc)
    some s!"{p.2.1} {p.2.2}"
  | _, _ => none

end Driver
