import Smpp.Model.Gsm7
import Smpp.Generated.Gsm7Facts

namespace Driver
open Smpp Smpp.Gsm7 Smpp.Generated

def parseRunes (s : String) : Option (List Nat) :=
  if s == "-" then some [] else (s.splitOn ",").mapM (·.toNat?)

def showRunes (l : List Nat) : String := if l.isEmpty then "-" else ",".intercalate (l.map toString)

def gsmOp (op : String) (args : List String) : Option String :=
  match op, args with
  | "gsm7enc", [rs] => do
    let t ← parseRunes rs
    match encode gsmReverse gsmEscapes t with
    | some b => some s!"ok {toHex b}"
    | none => some "err"
  | "gsm7dec", [h] => do
    let b ← fromHex h
    match decode gsmReverse gsmEscapes b with
    | some t => some s!"ok {showRunes t}"
    | none => some "err"
  | "gsm7rt", [rs] => do
    let t ← parseRunes rs
    match encode gsmReverse gsmEscapes t with
    | none => some "err"
    | some b =>
      match decode gsmReverse gsmEscapes b with
      | some t' => some s!"ok {toHex b} -> ok {showRunes t'}"
      | none => some s!"ok {toHex b} -> err"
  | "gsm7accepts", [r] => do
    let n ← r.toNat?
    some s!"{if accepts gsmReverse gsmEscapes n then 1 else 0} {if inRanges gsmAlphabetRanges n then 1 else 0}"
  | "gsm7repertoire", [] =>
    -- every scalar the encoder accepts / the detector accepts, as two sorted lists
    let cand := (gsmReverse ++ gsmEscapes.map (·.1) ++ gsmAlphabetRanges.flatMap (fun (lo, hi, _) => (List.range (hi - lo + 1)).map (· + lo)))
    let acc := (cand.filter (accepts gsmReverse gsmEscapes)).eraseDups.mergeSort (· ≤ ·)
    let det := (cand.filter (inRanges gsmAlphabetRanges)).eraseDups.mergeSort (· ≤ ·)
    some s!"{showRunes acc} | {showRunes det}"
  | _, _ => none

end Driver
