import Smpp.Model.Splitter
import Smpp.Model.Gsm7
import Smpp.Model.Coding
import Driver.CodingOps

namespace Driver
open Smpp Smpp.Pdu Smpp.Splitter Smpp.Coding Smpp.Generated

/-- the encoder's acceptance of a text, per coding, over the regenerated repertoires -/
def acceptsText (c : Nat) (t : List Nat) : Bool :=
  if c == 0 then t.all (Smpp.Gsm7.accepts gsmReverse gsmEscapes)
  else
    let a := aArr c
    t.all (inArr a)

/-- payload of a part: octets for the codings the model encodes, rune count for the third-party multi-octet codecs -/
def showPayload (c : Nat) (t : List Nat) : String :=
  if c == 0 then
    match Smpp.Gsm7.encode gsmReverse gsmEscapes t with
    | some b => toHex b
    | none => "?"
  else if c == 8 then toHex (encUcs2 t)
  else if c == 1 || c == 3 || c == 6 || c == 7 then
    match encTable (tbl c) t with
    | some b => toHex b
    | none => "?"
  else s!"#{t.length}"

def showUdh : Option KMap → String
  | none => "-"
  | some m => if m.isEmpty then "{}" else "+".intercalate (m.map fun kv => s!"{kv.1}:{toHex kv.2}")

def splitOp (op : String) (args : List String) : Option String :=
  match op, args with
  | "compose", [cs, refs, rs] => do
    let c ← cs.toNat?
    let ref ← refs.toNat?
    let t ← parseRunes rs
    match compose c (acceptsText c) ref t with
    | .error .unknownCoding => some "err unknown"
    | .error .encoder => some "err encoder"
    | .error .tooMany => some "err toomany"
    | .ok parts =>
      some s!"ok {parts.length} {";".intercalate (parts.map fun p => showUdh p.udh ++ "/" ++ showPayload c p.text)}"
  | "split", [cs, lims, rs] => do
    let c ← cs.toNat?
    let lim ← lims.toNat?
    let t ← parseRunes rs
    match width c 0 with
    | none => some "none"
    | some _ =>
      let w := fun r => (width c r).getD 0
      let segs := split w lim t
      some s!"{len w t} {if segs.isEmpty then "-" else ",".intercalate (segs.map fun s => toString s.length)}"
  | _, _ => none

end Driver
