import Smpp.Model.Pdu
import Smpp.Model.Time

namespace Driver
open Smpp Smpp.Pdu Smpp.Time

def showDate (g : GoDate) : String :=
  s!"{g.year} {g.month} {g.day} {g.hour} {g.min} {g.sec} {g.nsec} {g.offset}"

def bytesToString (b : Bytes) : String := String.ofList (b.map fun c => Char.ofNat c.toNat)

def scalarOp (op : String) (args : List String) : Option String :=
  match op, args with
  | "esm", [c] => do
    let n ← c.toNat?
    let e := decEsm (UInt8.ofNat n)
    some s!"{e.mode.toNat} {e.type.toNat} {if e.udhi then 1 else 0} {if e.reply then 1 else 0} -> {(encEsm e).toNat}"
  | "regdlv", [c] => do
    let n ← c.toNat?
    let e := decRegDlv (UInt8.ofNat n)
    some s!"{e.mc.toNat} {e.sme.toNat} {if e.inter then 1 else 0} {e.reserved.toNat} -> {(encRegDlv e).toNat}"
  | "ifver", [c] => do
    let n ← c.toNat?
    let s := versionString (UInt8.ofNat n)
    match versionParse s with
    | some v => some s!"\"{bytesToString s}\" -> {v.toNat}"
    | none => some s!"\"{bytesToString s}\" -> err"
  | "ifverparse", [h] => do
    let s ← fromHex h
    match versionParse s with
    | some v => some s!"ok {v.toNat}"
    | none => some "err"
  | "timefrom", [h] => do
    let s ← fromHex h
    match timeFrom s with
    | some g => some s!"ok {showDate g} | {toHex (timeString g)}"
    | none => some "err"
  | "timefmt", [y, mo, d, hh, mi, ss, ns, off] => do
    let g : GoDate := ⟨← y.toInt?, ← mo.toInt?, ← d.toInt?, ← hh.toInt?, ← mi.toInt?, ← ss.toInt?, ← ns.toInt?, ← off.toInt?⟩
    some (toHex (timeString g.norm))
  | "durfrom", [h] => do
    let s ← fromHex h
    match durFrom s with
    | some d => some s!"ok {d} | {toHex (durString d)}"
    | none => some "err"
  | "durfmt", [n] => do
    let d ← n.toInt?
    some (toHex (durString d))
  | _, _ => none

end Driver
