import Smpp.Model.Combiner
import Smpp.Generated.PduFacts
import Smpp.Generated.Layouts

namespace Driver
open Smpp Smpp.Pdu Smpp.Combiner

def parseAddr (s : String) : Option Addr :=
  match s.splitOn "." with
  | [t, n, no] => do pure ⟨UInt8.ofNat (← t.toNat?), UInt8.ofNat (← n.toNat?), ← fromHex no⟩
  | _ => none

def parseUdh (s : String) : Option (Option KMap) :=
  if s == "~" then some none
  else if s == "0" then some (some [])
  else do
    let els ← (s.splitOn "+").mapM fun e =>
      match e.splitOn ":" with
      | [k, v] => do pure ((← k.toNat?), (← fromHex v))
      | _ => none
    pure (some (KMap.ofList els))

def parseSeg (i : Nat) (s : String) : Option Seg :=
  match s.splitOn "/" with
  | [a, b, u] => do pure ⟨← parseAddr a, ← parseAddr b, ← parseUdh u, i⟩
  | _ => none

def showDeliveries (ds : List (List Seg)) : String :=
  if ds.isEmpty then "-" else String.join (ds.map fun d => "[" ++ ",".intercalate (d.map fun s => toString s.tag) ++ "]")

def combinerOp (op : String) (args : List String) : Option String :=
  match op, args with
  | "combine", [h] => do
    let segs ← ((h.splitOn ";").zipIdx).mapM fun (s, i) => parseSeg i s
    match run [] segs with
    | .ok (_, ds) => some (showDeliveries ds)
    | .panic _ => some "panic"
  | "concat", [u] => do
    let udh ← parseUdh u
    match concatHeader udh with
    | .ok none => some "nil"
    | .ok (some h) => some s!"{h.reference} {h.total} {h.seq}"
    | .panic _ => some "panic"
  | "addrstr", [a] => do
    let ad ← parseAddr a
    match addressString ad with
    | .ok s => some (toHex s)
    | .panic _ => some "panic"
  | "msgstate", [n] => do
    let m ← n.toNat?
    match messageStateString Smpp.Generated.messageStateNames m with
    | .ok s => some s
    | .panic _ => some "panic"
  | "accessors", [h] => do
    let bs ← fromHex h
    let r := readPDU Smpp.Generated.pduLayouts [bs]
    match r.out with
    | .ok n v =>
      let hdr := v.head?
      let (seq, st) := match hdr with
        | some (.header x) => (x.seq, x.status)
        | _ => (0, 0)
      let seqS := if seq.toNat < 2147483648 then toString seq.toNat else "-" ++ toString (4294967296 - seq.toNat)
      let ch := match v.findSome? (fun x => match x with | .sm m => some m.udh | _ => none) with
        | some udh =>
          match concatHeader udh with
          | .ok (some c) => s!"{c.reference},{c.total},{c.seq}"
          | .ok none => "nil"
          | .panic _ => "panic"
        | none => "nil"
      let resp := match Smpp.Generated.respPairs.findSome? (fun p =>
          match p.splitOn " -> " with
          | [a, rest] => if a == n then (rest.splitOn " : ").head? else none
          | _ => none) with
        | some t => t
        | none => "nil"
      some s!"ok {seqS} {st.toNat} ch={ch} resp={resp}"
    | _ => some "skip"
  | _, _ => none

end Driver
