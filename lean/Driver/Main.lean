/-
Line-protocol driver: one operation per input line, one canonical result line
per operation.  Imports only core-Lean model files, so it links as a lean_exe.
-/
import Driver.PduOps
import Driver.ScalarOps
import Driver.Gsm7Ops
import Driver.CombinerOps
import Driver.CodingOps
import Driver.SplitOps
import Driver.SmsOps
import Driver.ConnOps

open Driver

def step (line : String) : String :=
  match (line.trimAscii.toString.splitOn " ").filter (· ≠ "") with
  | [] => "bad-op"
  | op :: args =>
    match pduOp op args with
    | some r => r
    | none =>
      match scalarOp op args with
      | some r => r
      | none =>
        match gsmOp op args with
        | some r => r
        | none =>
          match combinerOp op args with
          | some r => r
          | none =>
            match codingOp op args with
            | some r => r
            | none =>
              match splitOp op args with
              | some r => r
              | none =>
                match smsOp op args with
                | some r => r
                | none =>
                  match smsSpecOp op args with
                  | some r => r
                  | none =>
                    match connOp op args with
                    | some r => r
                    | none => "bad-op"

partial def loop (h : IO.FS.Stream) (out : IO.FS.Stream) : IO Unit := do
  let line ← h.getLine
  if line.isEmpty then return ()
  out.putStrLn (step line)
  loop h out

def main : IO Unit := do
  let out ← IO.getStdout
  loop (← IO.getStdin) out
  out.flush
