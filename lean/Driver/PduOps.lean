/-
Line-protocol operations over the PDU model.  Token grammar: see
harness/internal/canon/canon.go (the Go side prints the same tokens by
reflection over the real structs).
-/
import Smpp.Model.Pdu
import Smpp.Generated.Layouts
import Smpp.Spec.SmppV5Layout

namespace Driver
open Smpp Smpp.Pdu

abbrev P (α : Type) := List String → Option (α × List String)

def pTok : P String
  | [] => none
  | t :: r => some (t, r)

def pNat : P Nat
  | [] => none
  | t :: r => t.toNat?.map (·, r)

def pU8 : P UInt8 := fun ts => (pNat ts).map fun (n, r) => (UInt8.ofNat n, r)
def pU32 : P UInt32 := fun ts => (pNat ts).map fun (n, r) => (UInt32.ofNat n, r)

def pI32 : P UInt32
  | [] => none
  | t :: r =>
    match t.toInt? with
    | some i => some (UInt32.ofNat (i % 4294967296).toNat, r)
    | none => none

def pBool : P Bool
  | [] => none
  | t :: r => some (t == "1", r)

def pHex : P Bytes
  | [] => none
  | t :: r => (fromHex t).map (·, r)

def pRepeat {α} (p : P α) : Nat → P (List α)
  | 0, ts => some ([], ts)
  | n + 1, ts => do
    let (a, r) ← p ts
    let (as, r') ← pRepeat p n r
    pure (a :: as, r')

def pAddr : P Addr := fun ts => do
  let (ton, r) ← pU8 ts
  let (npi, r) ← pU8 r
  let (no, r) ← pHex r
  pure (⟨ton, npi, no⟩, r)

def pKV : P (Nat × Bytes) := fun ts => do
  let (k, r) ← pNat ts
  let (v, r) ← pHex r
  pure ((k, v), r)

def pMap : P KMap := fun ts => do
  let (n, r) ← pNat ts
  let (l, r) ← pRepeat pKV n r
  pure (KMap.ofList l, r)

def pVal : Kind → P FVal
  | .cstr, ts => (pHex ts).map fun (s, r) => (.cstr s, r)
  | .u8, ts => (pU8 ts).map fun (b, r) => (.u8 b, r)
  | .bool, ts => (pBool ts).map fun (b, r) => (.bool b, r)
  | .header, ts => do
    let (len, r) ← pU32 ts
    let (id, r) ← pU32 r
    let (st, r) ← pU32 r
    let (seq, r) ← pI32 r
    pure (.header ⟨len, id, st, seq⟩, r)
  | .esm, ts => do
    let (m, r) ← pU8 ts
    let (t, r) ← pU8 r
    let (u, r) ← pBool r
    let (p, r) ← pBool r
    pure (.esm ⟨m, t, u, p⟩, r)
  | .regdlv, ts => do
    let (a, r) ← pU8 ts
    let (b, r) ← pU8 r
    let (c, r) ← pBool r
    let (d, r) ← pU8 r
    pure (.regdlv ⟨a, b, c, d⟩, r)
  | .addr, ts => (pAddr ts).map fun (a, r) => (.addr a, r)
  | .dests, ts => do
    let (n, r) ← pNat ts
    let (as, r) ← pRepeat pAddr n r
    let (m, r) ← pNat r
    let (ds, r) ← pRepeat pHex m r
    pure (.dests ⟨as, ds⟩, r)
  | .unsucc, ts => do
    let (n, r) ← pNat ts
    let (l, r) ← pRepeat (fun ts => do
      let (a, r) ← pAddr ts
      let (s, r) ← pU32 r
      pure (⟨a, s⟩, r)) n r
    pure (.unsucc l, r)
  | .tags, ts => (pMap ts).map fun (m, r) => (.tags m, r)
  | .sm, ts => do
    let (d, r) ← pU8 ts
    let (c, r) ← pU8 r
    let (t, _) ← pTok r
    let (udh, r) ← (if t == "~" then some (none, r.tail) else (pMap r).map fun (m, r) => (some m, r))
    let (msg, r) ← pHex r
    pure (.sm ⟨d, c, udh, msg⟩, r)
  | .skipped _, ts => (pNat ts).map fun (n, r) => (.skipped n, r)

def pVals : List Field → P (List FVal)
  | [], ts => some ([], ts)
  | f :: fs, ts => do
    let (v, r) ← pVal f.kind ts
    let (vs, r) ← pVals fs r
    pure (v :: vs, r)

def showI32 (n : UInt32) : String :=
  if n.toNat < 2147483648 then toString n.toNat else "-" ++ toString (4294967296 - n.toNat)

def showBool (b : Bool) : String := if b then "1" else "0"

def showAddr (a : Addr) : List String := [toString a.ton.toNat, toString a.npi.toNat, toHex a.no]

def showMap (m : KMap) : List String :=
  toString m.length :: m.flatMap fun kv => [toString kv.1, toHex kv.2]

def showVal : FVal → List String
  | .cstr s => [toHex s]
  | .u8 b => [toString b.toNat]
  | .bool b => [showBool b]
  | .header h => [toString h.len.toNat, toString h.id.toNat, toString h.status.toNat, showI32 h.seq]
  | .esm e => [toString e.mode.toNat, toString e.type.toNat, showBool e.udhi, showBool e.reply]
  | .regdlv r => [toString r.mc.toNat, toString r.sme.toNat, showBool r.inter, toString r.reserved.toNat]
  | .addr a => showAddr a
  | .dests d => toString d.addrs.length :: d.addrs.flatMap showAddr ++ toString d.dls.length :: d.dls.map toHex
  | .unsucc l => toString l.length :: l.flatMap fun u => showAddr u.addr ++ [toString u.status.toNat]
  | .tags t => showMap t
  | .sm m =>
    [toString m.defId.toNat, toString m.dc.toNat] ++
      (match m.udh with | none => ["~"] | some u => showMap u) ++ [toHex m.msg]
  | .skipped n => [toString n]

def showVals (vs : List FVal) : String := " ".intercalate (vs.flatMap showVal)

def showErr : Err → String
  | .eof => "eof"
  | .ueof => "ueof"
  | .status n => s!"st{n}"
  | .unmarshalFailed => "unmarshal"
  | .invalidSeq => "invalidseq"
  | .itemTooMany => "itemtoomany"
  | .dataTooLarge => "datatoolarge"
  | .smTooLarge => "smtoolarge"

def layoutByName (n : String) : Option Layout := Smpp.Generated.pduLayouts.find? (·.name == n)

/-- chunk specs: `w` whole, `u<n>` uniform, `s<k>` split at k, `l<a>,<b>,…` sizes used cyclically -/
def chunkSizes (spec : String) (total : Nat) : List Nat :=
  let body := (spec.drop 1).toString
  match spec.toList.head? with
  | some 'u' => let n := max 1 (body.toNat?.getD 1); List.replicate (total / n + 1) n
  | some 's' => let k := body.toNat?.getD 0; [k, total]
  | some 'l' =>
    let sizes := (body.splitOn ",").filterMap (·.toNat?) |>.filter (· > 0)
    if sizes.isEmpty then [total] else
      (List.range (total + 1)).map fun i => sizes[i % sizes.length]!
  | _ => [total]

def chunk (sizes : List Nat) (bs : Bytes) : Stream :=
  match sizes with
  | [] => if bs.isEmpty then [] else [bs]
  | n :: ns => if bs.isEmpty then [] else if n = 0 then chunk ns bs else bs.take n :: chunk ns (bs.drop n)

def mkStream (spec : String) (bs : Bytes) : Stream := chunk (chunkSizes spec bs.length) bs

def showRead (r : ReadResult) : String :=
  match r.out with
  | .ok n v => s!"ok {r.consumed} {n} {showVals v}"
  | .errNil e => s!"err {showErr e} {r.consumed} nil"
  | .errPdu e n seq => s!"err {showErr e} {r.consumed} {n} {showI32 seq}"

def pduOp (op : String) (args : List String) : Option String :=
  match op, args with
  | "marshal", ty :: toks => do
    let L ← layoutByName ty
    let (v, rest) ← pVals L.fields toks
    if !rest.isEmpty then none else
    let o := marshal L v
    match o.res with
    | .ok b => some s!"ok {toHex b} | {showVals o.after}"
    | .err e => some s!"err {showErr e}"
    | .panic _ => some "panic"
  | "readpdu", [spec, hex] => do
    let bs ← fromHex hex
    some (showRead (readPDU Smpp.Generated.pduLayouts (mkStream spec bs)))
  | "stream", spec :: hex :: _ => do
    let bs ← fromHex hex
    let s := mkStream spec bs
    let rec go (fuel : Nat) (s : Stream) (acc : List String) : List String :=
      match fuel with
      | 0 => acc.reverse
      | f + 1 =>
        let r := readPDU Smpp.Generated.pduLayouts s
        match r.out with
        | .ok _ _ => go f r.rest (showRead r :: acc)
        | _ => (showRead r :: acc).reverse
    some (" ; ".intercalate (go 64 s []))
  | "rt", spec :: ty :: toks => do
    let L ← layoutByName ty
    let (v, rest) ← pVals L.fields toks
    if !rest.isEmpty then none else
    let o := marshal L v
    match o.res with
    | .ok b => some s!"ok {toHex b} => {showRead (readPDU Smpp.Generated.pduLayouts (mkStream spec b))}"
    | .err e => some s!"err {showErr e}"
    | .panic _ => some "panic"
  | "det", ty :: toks => do
    let L ← layoutByName ty
    let (v, rest) ← pVals L.fields toks
    if !rest.isEmpty then none else
    match (marshal L v).res with
    | .ok b => some s!"ok {toHex b}"
    | .err e => some s!"err {showErr e}"
    | .panic _ => some "panic"
  | "reenc", [hex] => do
    let bs ← fromHex hex
    let r := readPDU Smpp.Generated.pduLayouts [bs]
    match r.out with
    | .errNil e => some s!"skip read:{showErr e}"
    | .errPdu e _ _ => some s!"skip read:{showErr e}"
    | .ok n v =>
      let L ← layoutByName n
      let nocoding := !L.isReplace && v.any fun x => match x with | .sm m => m.dc == noCoding | _ => false
      if nocoding then some "skip nocoding" else
      match (marshal L v).res with
      | .ok b => some s!"ok {toHex b}"
      | .err e => some s!"skip marshal:{showErr e}"
      | .panic _ => some "panic"
  | "spec", ty :: toks => do
    -- the frame the INDEPENDENT specification table prescribes (Spec/SmppV5Layout.lean)
    let L ← layoutByName ty
    let (v, rest) ← pVals L.fields toks
    if !rest.isEmpty then none else
    match v, Smpp.Spec.specOf L.id with
    | .header h :: vals, some op =>
      -- outside the property's domain: the library caps short_message at 140 octets (MaxShortMessageLength)
      let over140 := vals.any fun x => match x with | .sm m => m.msg.length > 140 | _ => false
      if !(vals.all Smpp.Spec.expressible) || !h.seqPos || over140 then some "not-carried" else
      -- the parameters in the SPECIFICATION's order, each taken from the Go field that is to carry it (by name), then the
      -- optional parameters; a field the Go codec skips is still a parameter of the specification (1-octet integer)
      let named := (L.fields.drop 1).zip vals
      let enc := fun (x : FVal) => match x with
        | .skipped n => [UInt8.ofNat n]
        | y => Smpp.Spec.param L.isReplace y
      match op.params.mapM (fun p => (named.find? (fun fv => fv.1.name == p.goField)).map (·.2)) with
      | none => some "spec-parameter-without-field"
      | some mand =>
      let tl := (named.filter (fun fv => fv.1.kind == .tags)).map (·.2)
      let body := (mand ++ tl).flatMap enc
      if 16 + body.length > 65536 then some "not-carried" else
      some s!"ok {toHex (Smpp.Spec.int4 (16 + body.length) ++ Smpp.Spec.int4 op.id ++ Smpp.Spec.int4 h.status.toNat ++ Smpp.Spec.int4 h.seq.toNat ++ body)}"
    | _, _ => some "no-spec"
  | _, _ => none

end Driver
