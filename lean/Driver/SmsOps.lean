import Smpp.Model.Sms
import Smpp.Generated.SmsFacts
import Smpp.Generated.Gsm7Facts
import Driver.Gsm7Ops

namespace Driver
open Smpp Smpp.Sms Smpp.Time Smpp.Generated

def smsEnv : Env := ⟨gsmReverse, gsmEscapes, tpduLayouts, flagLayouts⟩

def showSmsDate (g : GoDate) : String :=
  s!"{g.year}.{g.month}.{g.day}.{g.hour}.{g.min}.{g.sec}.{g.offset}"

def showFVal : FVal → String
  | .byte b => toString b.toNat
  | .flags v => "f" ++ ".".intercalate (v.map toString)
  | .addr a => s!"a{a.npi.toNat}.{a.ton.toNat}.{showRunes a.no}"
  | .time t => "t" ++ showSmsDate t
  | .bytes b => "x" ++ toHex b
  | .vp .none => "vnone"
  | .vp (.enh d i) => s!"venh:{d}:{i.toNat}"
  | .vp (.rel d) => s!"vrel:{d}"
  | .vp (.abs t) => "vabs:" ++ showSmsDate t
  | .skip => "_"

def smsOp (op : String) (args : List String) : Option String :=
  match op, args with
  | "sms", [h] => do
    let b ← fromHex h
    match unmarshal smsEnv b with
    | .err _ => some "err"
    | .panic _ => some "panic"
    | .ok p =>
      let m := match marshal smsEnv p with
        | .ok o => "ok " ++ toHex o
        | .err _ => "err"
        | .panic _ => "panic"
      some s!"ok {p.name} {" ".intercalate (p.vals.map showFVal)} -> {m}"
  | _, _ => none

end Driver
