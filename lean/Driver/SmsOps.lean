import Smpp.Model.Sms
import Smpp.Spec.Gsm0340
import Smpp.Generated.SmsFacts
import Smpp.Generated.Gsm7Facts
import Driver.Gsm7Ops

namespace Driver
open Smpp Smpp.Sms Smpp.Time Smpp.Generated

def smsEnv : Env := ⟨gsmReverse, gsmEscapes, tpduLayouts, flagLayouts⟩

def showSmsDate (g : GoDate) : String :=
  s!"{g.year}.{g.month}.{g.day}.{g.hour}.{g.min}.{g.sec}.{g.offset}"

def showFVal : FVal → String
  | .byte b => toString b.toNat
  | .flags v => "f" ++ ".".intercalate (v.map toString)
  | .addr a => s!"a{a.npi.toNat}.{a.ton.toNat}.{showRunes a.no}"
  | .time t => "t" ++ showSmsDate t
  | .bytes b => "x" ++ toHex b
  | .vp .none => "vnone"
  | .vp (.enh d i) => s!"venh:{d}:{i.toNat}"
  | .vp (.rel d) => s!"vrel:{d}"
  | .vp (.abs t) => "vabs:" ++ showSmsDate t
  | .skip => "_"

def smsOp (op : String) (args : List String) : Option String :=
  match op, args with
  | "sms", [h] => do
    let b ← fromHex h
    match unmarshal smsEnv b with
    | .err _ => some "err"
    | .panic _ => some "panic"
    | .ok p =>
      let m := match marshal smsEnv p with
        | .ok o => "ok " ++ toHex o
        | .err _ => "err"
        | .panic _ => "panic"
      some s!"ok {p.name} {" ".intercalate (p.vals.map showFVal)} -> {m}"
  | _, _ => none

end Driver

namespace Driver
open Smpp Smpp.Sms Smpp.Generated
def parseDigits (s : String) : Option (List Nat) :=
  if s == "-" then some [] else s.toList.mapM fun c => if '0' ≤ c ∧ c ≤ '9' then some (c.toNat - 48) else none

def parseInt? (s : String) : Option Int :=
  if s.startsWith "-" then (s.drop 1).toString.toNat?.map fun n => -(n : Int) else s.toNat?.map fun n => (n : Int)

def parseSpecAddr (ton npi kind val : String) : Option Spec.Gsm0340.Address := do
  let t ← ton.toNat?
  let n ← npi.toNat?
  if kind == "n" then
    let ds ← parseDigits val
    pure ⟨t, n, .digits ds⟩
  else if kind == "a" then
    let ss ← parseRunes val
    pure ⟨t, n, .alpha ss⟩
  else none

def parseSpecTime (s : String) : Option Spec.Gsm0340.TimeStamp :=
  match s.splitOn "." with
  | [y, mo, d, h, mi, sec, q] => do
    pure ⟨← y.toNat?, ← mo.toNat?, ← d.toNat?, ← h.toNat?, ← mi.toNat?, ← sec.toNat?, ← parseInt? q⟩
  | _ => none

def parseSpecVp (s : String) : Option Spec.Gsm0340.Validity :=
  if s == "none" then some .absent
  else if s.startsWith "r" then (s.drop 1).toString.toNat?.map .relative
  else if s.startsWith "e" then (fromHex (s.drop 1).toString).map .enhanced
  else if s.startsWith "a" then (parseSpecTime (s.drop 1).toString).map .absolute
  else none

def smsOnBytes (b : Bytes) : String :=
  match unmarshal smsEnv b with
  | .err _ => "err"
  | .panic _ => "panic"
  | .ok p =>
    let m := match marshal smsEnv p with
      | .ok o => "ok " ++ toHex o
      | .err _ => "err"
      | .panic _ => "panic"
    s!"ok {p.name} {" ".intercalate (p.vals.map showFVal)} -> {m}"

def smsSpecOp (op : String) (args : List String) : Option String :=
  match op, args with
  | "smsd", [scton, scnpi, scd, fo, oaton, oanpi, oakind, oaval, pid, dcs, ts, udl, ud] => do
    let sc ← parseSpecAddr scton scnpi "n" scd
    let oa ← parseSpecAddr oaton oanpi oakind oaval
    let t ← parseSpecTime ts
    let u ← fromHex ud
    let b := Spec.Gsm0340.deliver ⟨sc, ← fo.toNat?, oa, ← pid.toNat?, ← dcs.toNat?, t, ← udl.toNat?, u⟩
    some s!"{toHex b} | {smsOnBytes b}"
  | "smss", [fo, mr, daton, danpi, dakind, daval, pid, dcs, vp, udl, ud] => do
    let da ← parseSpecAddr daton danpi dakind daval
    let v ← parseSpecVp vp
    let u ← fromHex ud
    let b := Spec.Gsm0340.submit ⟨← fo.toNat?, ← mr.toNat?, da, ← pid.toNat?, ← dcs.toNat?, v, ← udl.toNat?, u⟩
    some s!"{toHex b} | {smsOnBytes b}"
  | _, _ => none

end Driver
