import Smpp.Model.Conn
import Driver.SmsOps
import Driver.PduOps
import Smpp.Generated.Layouts

namespace Driver
open Smpp Smpp.Conn

/-- run the goroutines' own steps (never environment steps, never the transport-controlled Write labels) until
nothing is enabled: the real goroutines run as soon as they can -/
def quiesce (n : Nat) (s : State) : Nat → State
  | 0 => s
  | fuel + 1 =>
    let watchLabels : List Label := [.wPoll, .wRead, .wLookup, .wDeliver, .wOffer, .wOfferCancel, .wNack, .wExit]
    let callerLabels : List Label := (List.range n).flatMap fun i =>
      [.takeResp i, .seeConnDone i, .seeOwnDone i, .finish i, .closeTransport i, .closeCancel i]
    -- Watch polls the context before reading: with nothing to read it parks in `reading`; never fire wPoll→exiting
    -- out of order with the callers: Go's Watch is blocked in Read while idle, so wPoll happens only after a read
    match (watchLabels ++ callerLabels).findSome? fun l =>
        if l == .wOfferCancel && s.draining && !s.queueClosed then none else step s l with
    | some s' => quiesce n s' fuel
    | none => s

def showPdu (p : InPdu) : String :=
  match p.origin with
  | .ans i => s!"{p.seq}a{i}"
  | .peer k => s!"{p.seq}p{k}"

def showResult : Result → String
  | .resp p => "resp:" ++ showPdu p
  | .sent => "sent"
  | .err .invalidSeq => "err:invalidseq"
  | .err .closed => "err:closed"
  | .err .ctx => "err:ctx"
  | .err .write => "err:write"

def showPc : Pc → String
  | .done r => showResult r
  | .idle => "idle"
  | _ => "blocked"

def showOut : OutFrame → String
  | .req i seq => s!"r{i}:{seq}"
  | .nack seq => s!"n:{seq}"

def showWatch : WatchPc → String
  | .returned => "returned"
  | _ => "running"

def parseCaller (t : String) : Option Caller :=
  match t.splitOn ":" with
  | [k, seq, after] => do
    let kind ← if k == "s" then some Kind.submit else if k == "n" then some Kind.send else if k == "c" then some Kind.close else none
    let sq ← parseInt? seq
    let af ← if after == "-" then some none else after.toNat?.map some
    pure { kind := kind, seq := sq, after := af }
  | _ => none

def dropPrefix (s p : String) : Option String :=
  if s.startsWith p then some (s.drop p.length).toString else none

def connEvent (n : Nat) (s : State) (ev : String) : Option State :=
  let q := fun s => quiesce n s 400
  let app := fun (ls : List Label) => (ls.foldl (fun (st : Option State) l => st.bind fun x => some ((step x l).getD x)) (some s)).map q
  if ev == "settle" then some (q s)
  else if ev == "fatal" then app [.peerFatal]
  else if ev == "cancel" then app [.cancelParent]
  else if ev == "eof" then app [.transportEOF]
  else if ev == "rerr" then app [.transportErr]
  else if ev == "rtmo" then app [.transportErr]   -- a read timeout ends the transport like any other read error
  else if ev == "brk" then app [.breakWrites]
  else if ev == "drain0" then app [.setDrain false]
  else if ev == "drain1" then app [.setDrain true]
  else if let some r := dropPrefix ev "sub" then r.toNat?.bind fun i => app [.start i, .check i, .write i]
  else if let some r := dropPrefix ev "wret" then r.toNat?.bind fun i => app [.writeRet i]
  else if let some r := dropPrefix ev "ans" then r.toNat?.bind fun i => app [.peerAnswer i]
  else if let some r := dropPrefix ev "nak" then r.toNat?.bind fun i => app [.peerAnswer i]   -- generic_nack is an answer too
  else if let some r := dropPrefix ev "dl" then r.toNat?.bind fun i => app [.deadline i]
  else if let some r := dropPrefix ev "unsol:" then
    match r.splitOn ":" with
    | [a, b] => do app [.peerUnsol (← parseInt? a) (← b.toNat?)]
    | _ => none
  else if let some r := dropPrefix ev "raw:" then
    -- a frame given octet by octet: classified by the byte-level model of ReadPDU (C03 / C04)
    match (r.splitOn ":").take 2 with
    | [k, hex] => do
      let kk ← k.toNat?
      let bs ← fromHex hex
      let toI := fun (u : UInt32) => if u.toNat < 2147483648 then (u.toNat : Int) else (u.toNat : Int) - 4294967296
      match (Smpp.Pdu.readPDU Smpp.Generated.pduLayouts [bs]).out with
      | .ok _ (.header h :: _) => app [.peerUnsol (toI h.seq) kk]
      | .ok _ _ => app [.peerFatal]
      | .errPdu _ _ seq => app [.peerBad (toI seq) kk]
      | .errNil _ => app [.peerFatal]
    | _ => none
  else if let some r := dropPrefix ev "bad:" then
    match r.splitOn ":" with
    | [a, b] => do app [.peerBad (← parseInt? a) (← b.toNat?)]
    | _ => none
  else none

def connOp (op : String) (args : List String) : Option String :=
  match op, args with
  | "conn", spec0 :: events => do
    -- an optional `f<k>;` prefix (fragmentation of the inbound stream) does not concern the model: frames are atomic (C03)
    let spec := match spec0.splitOn ";" with
      | [_, rest] => rest
      | _ => spec0
    let cs ← (spec.splitOn ",").mapM parseCaller
    let n := cs.length
    let tbl : Nat → Caller := fun i => cs.getD i { kind := .send, seq := 0, after := none }
    let s0 := init tbl
    -- Watch starts at once and parks in Read
    let s0 := quiesce n s0 50
    let s ← events.foldlM (fun s ev => connEvent n s ev) s0
    let done0 := s.connDone
    let s ← connEvent n s "drain1"   -- finally the application drains and everything settles
    -- Close's own context is a child of the connection context: err:ctx and err:closed are the same outcome for it
    let showC := fun i =>
      let c := s.callers i
      if c.kind == .close && c.pc == .done (.err .ctx) then "err:closed" else showPc c.pc
    let callers := " ".intercalate ((List.range n).map showC)
    let wire := if s.wire.isEmpty then "-" else ",".intercalate (s.wire.map showOut)
    let del := if s.delivered.isEmpty then "-" else ",".intercalate (s.delivered.map showPdu)
    some s!"callers={callers} wire={wire} delivered={del} watch={showWatch s.watch} done0={done0} done={s.connDone} qclosed={s.queueClosed} panic={s.panicked}"
  | _, _ => none

end Driver
