module verifharness

go 1.16

require github.com/M2MGateway/go-smpp v0.0.0

replace github.com/M2MGateway/go-smpp => /repo
