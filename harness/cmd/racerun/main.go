// racerun executes the usage the README prescribes — one goroutine in Watch, a keep-alive goroutine in EnquireLink,
// several goroutines calling Submit and Send, one consumer of PDU() answering with Resp(), a final Close — against
// an asynchronous peer over loopback TCP.  It is built with -race by ./check C06; the race detector's reports are the
// search for a failing execution (they support, they do not replace, the lockset theorem of Properties/C06.lean).
//
//	racerun <scenario> <submitters> <rounds> <seed>
//	scenario: normal | peerdrop | kafail | badresp
package main

import (
	"context"
	"fmt"
	"math/rand"
	"net"
	"os"
	"strconv"
	"sync"
	"sync/atomic"
	"time"

	smpp "github.com/M2MGateway/go-smpp"
	"github.com/M2MGateway/go-smpp/pdu"
)

func peer(l net.Listener, scenario string, seed int64, done chan struct{}) {
	defer close(done)
	c, err := l.Accept()
	if err != nil {
		return
	}
	defer c.Close()
	rng := rand.New(rand.NewSource(seed))
	var rmu sync.Mutex
	intn := func(n int) int { rmu.Lock(); defer rmu.Unlock(); return rng.Intn(n) }
	var wmu sync.Mutex
	send := func(p interface{}) {
		wmu.Lock()
		defer wmu.Unlock()
		_, _ = pdu.Marshal(c, p)
	}
	var seq int32 = 1 << 20
	stop := make(chan struct{})
	var wg sync.WaitGroup
	// unsolicited traffic
	wg.Add(1)
	go func() {
		defer wg.Done()
		for {
			select {
			case <-stop:
				return
			case <-time.After(time.Duration(intn(3)+1) * time.Millisecond):
				send(&pdu.DeliverSM{Header: pdu.Header{Sequence: atomic.AddInt32(&seq, 1)}, ServiceType: "u"})
			}
		}
	}()
	n := 0
	for {
		_ = c.SetReadDeadline(time.Now().Add(3 * time.Second))
		p, err := pdu.ReadPDU(c)
		if err != nil {
			break
		}
		n++
		if scenario == "peerdrop" && n > 40 {
			break // hang up with requests in flight
		}
		if scenario == "kafail" && n > 30 {
			continue // stop answering: the keep-alive and the unbind go unanswered
		}
		if scenario == "badresp" && n%3 == 0 {
			if _, isSubmit := p.(*pdu.SubmitSM); isSubmit {
				// a response whose body cannot be decoded (message_id without its terminator)
				h := make([]byte, 18)
				h[3] = 18
				h[4], h[7] = 0x80, 0x04
				sq := pdu.ReadSequence(p)
				h[12], h[13], h[14], h[15] = byte(sq>>24), byte(sq>>16), byte(sq>>8), byte(sq)
				h[16], h[17] = 'a', 'b'
				wmu.Lock()
				_, _ = c.Write(h)
				wmu.Unlock()
				continue
			}
		}
		if r, ok := p.(pdu.Responsable); ok {
			resp := r.Resp()
			wg.Add(1)
			go func(d time.Duration) { // answer asynchronously
				defer wg.Done()
				time.Sleep(d)
				send(resp)
			}(time.Duration(intn(800)) * time.Microsecond)
			if _, isUnbind := p.(*pdu.Unbind); isUnbind {
				time.Sleep(5 * time.Millisecond)
				break
			}
		}
	}
	close(stop)
	wg.Wait()
}

func main() {
	if len(os.Args) != 5 {
		fmt.Fprintln(os.Stderr, "usage: racerun <normal|peerdrop|kafail> <submitters> <rounds> <seed>")
		os.Exit(2)
	}
	scenario := os.Args[1]
	k, _ := strconv.Atoi(os.Args[2])
	rounds, _ := strconv.Atoi(os.Args[3])
	seed, _ := strconv.ParseInt(os.Args[4], 10, 64)
	l, err := net.Listen("tcp", "127.0.0.1:0")
	if err != nil {
		fmt.Println("skip: no loopback:", err)
		return
	}
	peerDone := make(chan struct{})
	go peer(l, scenario, seed, peerDone)
	parent, err := net.Dial("tcp", l.Addr().String())
	if err != nil {
		fmt.Println("skip: dial:", err)
		return
	}
	conn := smpp.NewConn(context.Background(), parent)
	conn.ReadTimeout = 2 * time.Second
	if scenario == "normal" {
		conn.ReadTimeout = 300 * time.Millisecond // shorter than one keep-alive round (the README invites setting it)
	}
	conn.WriteTimeout = 2 * time.Second
	var seqCtr int32
	if scenario == "normal" || scenario == "kafail" {
		conn.NextSequence = func() int32 { return atomic.AddInt32(&seqCtr, 1) }
	} // the other scenarios keep the allocator NewConn installs, as the README usage does
	var wg sync.WaitGroup
	wg.Add(1)
	go func() { defer wg.Done(); conn.Watch() }()
	kaTick, kaTimeout := 3*time.Millisecond, 500*time.Millisecond
	if scenario == "kafail" {
		kaTimeout = 40 * time.Millisecond
	}
	wg.Add(1)
	go func() { defer wg.Done(); conn.EnquireLink(kaTick, kaTimeout) }()
	// consumer: the README's event loop
	wg.Add(1)
	go func() {
		defer wg.Done()
		for p := range conn.PDU() {
			if r, ok := p.(pdu.Responsable); ok {
				_ = conn.Send(r.Resp())
			}
		}
	}()
	var okN, errN int32
	var sw sync.WaitGroup
	for g := 0; g < k; g++ {
		sw.Add(1)
		go func(g int) {
			defer sw.Done()
			for i := 0; i < rounds; i++ {
				to := 300 * time.Millisecond
				if scenario == "badresp" {
					to = 20 * time.Millisecond
				}
				ctx, cancel := context.WithTimeout(context.Background(), to)
				_, err := conn.Submit(ctx, &pdu.SubmitSM{ServiceType: "x"})
				cancel()
				if err != nil {
					atomic.AddInt32(&errN, 1)
					if err == smpp.ErrConnectionClosed {
						return
					}
				} else {
					atomic.AddInt32(&okN, 1)
				}
			}
		}(g)
	}
	if scenario == "kafail" {
		time.Sleep(120 * time.Millisecond) // the keep-alive gives up on its own about now; the application closes too
	} else {
		sw.Wait()
	}
	_ = conn.Close()
	sw.Wait()
	select {
	case <-conn.Done():
	case <-time.After(3 * time.Second):
		fmt.Println("note: Done() not closed 3 s after Close")
	}
	_ = parent.Close()
	wg.Wait()
	<-peerDone
	fmt.Printf("racerun %s submitters=%d rounds=%d ok=%d err=%d\n", scenario, k, rounds, okN, errN)
}
