package main

// C07 — multipart composition.  Ops:
//
//	compose <dc> <ref> <runes>   pdu.ComposeMultipartShortMessage on the real code, canonical parts + oracle
//	split <dc> <limit> <runes>   coding.Splitter Len / Split (segment lengths in runes)

import (
	"fmt"
	"sort"
	"strings"
	"sync"

	"verifharness/internal/canon"
	"verifharness/internal/gen"

	"github.com/M2MGateway/go-smpp/coding"
	"github.com/M2MGateway/go-smpp/pdu"
)

func init() {
	ops["compose"] = opCompose
	ops["split"] = opSplit
	gens["C07"] = genC07
}

var modelEncodes = map[int]bool{0: true, 1: true, 3: true, 6: true, 7: true, 8: true}

func showUdhCanon(u pdu.UserDataHeader) string {
	if u == nil {
		return "-"
	}
	if len(u) == 0 {
		return "{}"
	}
	keys := make([]int, 0, len(u))
	for k := range u {
		keys = append(keys, int(k))
	}
	sort.Ints(keys)
	parts := make([]string, len(keys))
	for i, k := range keys {
		parts[i] = fmt.Sprintf("%d:%s", k, canon.Hex(u[byte(k)]))
	}
	return strings.Join(parts, "+")
}

func udhOctets(u pdu.UserDataHeader) int {
	if u == nil {
		return 0
	}
	n := 1
	for _, v := range u {
		n += 2 + len(v)
	}
	return n
}

// fixedWidth: DESIGN.md §9.7 — the four single-octet charsets, UCS-2 texts within the BMP, GSM 7-bit without extension characters
func fixedWidth(c int, rs []rune) bool {
	switch c {
	case 1, 3, 6, 7:
		return true
	case 8:
		for _, r := range rs {
			if r > 0xFFFF {
				return false
			}
		}
		return true
	case 0:
		for _, r := range rs {
			switch r {
			case '\f', '[', '\\', ']', '^', '{', '|', '}', '~', '€':
				return false
			}
		}
		return true
	}
	return false
}

func opCompose(args []string) string {
	if len(args) != 3 {
		return "bad-op"
	}
	c := atoi(args[0])
	ref := atoi(args[1])
	rs, ok := parseRunes(args[2])
	if !ok || ref < 0 || ref > 0xFFFF {
		return "bad-op"
	}
	text := string(rs)
	dc := coding.DataCoding(c)
	parts, err := pdu.ComposeMultipartShortMessage(text, dc, uint16(ref))
	if err != nil {
		switch err {
		case pdu.ErrUnknownDataCoding:
			return "err unknown"
		case pdu.ErrMultipartTooMuch:
			return "err toomany"
		}
		return "err encoder"
	}
	marker := ""
	fail := func(s string) {
		if marker == "" {
			marker = " !! C07:" + s
		}
	}
	n := len(parts)
	shown := make([]string, n)
	var joined strings.Builder
	decoded := make([]string, n)
	for i, p := range parts {
		body, okd := decodeWith(dc, p.Message)
		decoded[i] = body
		if !okd {
			fail(fmt.Sprintf("payload-undecodable coding=%d part=%d", c, i+1))
		}
		if modelEncodes[c] {
			shown[i] = showUdhCanon(p.UDHeader) + "/" + canon.Hex(p.Message)
		} else {
			shown[i] = showUdhCanon(p.UDHeader) + fmt.Sprintf("/#%d", len([]rune(body)))
		}
		joined.WriteString(body)
		// every part fits
		if sz := udhOctets(p.UDHeader) + len(p.Message); sz > 140 {
			three, escs := 0, 0
			if c == 13 {
				for _, r := range body {
					if b, ok := encodeWith(dc, string(r)); ok && len(b) == 3 {
						three++
					}
				}
			}
			for _, b := range p.Message {
				if b == 0x1B {
					escs++
				}
			}
			class := "none"
			if c == 13 && sz-140 <= three {
				class = "euc-jp-3octet" // every octet beyond 140 is the third octet of a JIS X 0212 character
			} else if c == 10 && sz-140 <= 3*escs {
				class = "iso2022jp-escapes" // every octet beyond 140 belongs to an escape sequence
			}
			fail(fmt.Sprintf("part-too-large coding=%d part=%d/%d octets=%d threeoctet=%d escapes=%d known-class=%s", c, i+1, n, sz, three, escs, class))
		}
		if p.DataCoding != dc {
			fail("part-data-coding")
		}
		// labels
		if n == 1 {
			if p.UDHeader != nil {
				fail("single-part-with-header")
			}
		} else {
			h := p.UDHeader.ConcatenatedHeader()
			if len(p.UDHeader) != 1 || h == nil || int(h.Reference) != ref || int(h.TotalParts) != n || int(h.Sequence) != i+1 {
				fail(fmt.Sprintf("label part=%d/%d ref=%d", i+1, n, ref))
			}
		}
	}
	if n > 254 {
		fail(fmt.Sprintf("more-than-254-parts n=%d", n))
	}
	if n == 0 && len(rs) > 0 {
		fail("no-parts")
	}
	// nothing lost: joining the decoded payloads reproduces the text (GSM 7-bit: per part modulo the trailing-CR rule)
	if joined.String() != text {
		same := false
		if c == 0 {
			// walk the text: each decoded part must be a prefix of what remains, optionally followed by one CR the decoder stripped
			rest := text
			same = true
			for i := range parts {
				d := decoded[i]
				if strings.HasPrefix(rest, d) {
					rest = rest[len(d):]
					// a stripped trailing CR (C08 ambiguous case) may remain at the part boundary
					if i+1 < len(parts) && !strings.HasPrefix(rest, decoded[i+1]) && strings.HasPrefix(rest, "\r") {
						rest = rest[1:]
					} else if i+1 == len(parts) && rest == "\r" {
						rest = ""
					}
				} else {
					same = false
					break
				}
			}
			if rest != "" {
				same = false
			}
		}
		if !same {
			fail(fmt.Sprintf("reassembly-differs coding=%d", c))
		}
	}
	// maximality for fixed-width alphabets: no part but the last could have held the next character
	if n > 1 && fixedWidth(c, rs) {
		pos := 0
		for i := 0; i < n-1; i++ {
			k := len([]rune(decoded[i]))
			if c == 0 && pos+k < len(rs) && rs[pos+k] == '\r' && !strings.HasPrefix(string(rs[pos+k:]), decoded[i+1]) {
				k++ // the decoder stripped this part's trailing CR (C08's ambiguous case): the part itself holds it
			}
			if pos+k >= len(rs) {
				break
			}
			cand := string(rs[pos:pos+k]) + string(rs[pos+k])
			if b, ok := encodeWith(dc, cand); ok && udhOctets(parts[i].UDHeader)+len(b) <= 140 {
				fail(fmt.Sprintf("not-maximal coding=%d part=%d/%d ref=%d", c, i+1, n, ref))
				break
			}
			pos += k
		}
	}
	return fmt.Sprintf("ok %d %s", n, strings.Join(shown, ";")) + marker
}

func opSplit(args []string) string {
	if len(args) != 3 {
		return "bad-op"
	}
	c, lim := atoi(args[0]), atoi(args[1])
	rs, ok := parseRunes(args[2])
	if !ok || lim < 4 {
		return "bad-op"
	}
	sp := coding.DataCoding(c).Splitter()
	if sp == nil {
		return "none"
	}
	text := string(rs)
	segs := sp.Split(text, lim)
	ls := make([]string, len(segs))
	var j strings.Builder
	marker := ""
	for i, s := range segs {
		ls[i] = fmt.Sprint(len([]rune(s)))
		j.WriteString(s)
		if s == "" {
			marker = " !! C07:empty-segment"
		}
		if sp.Len(s) > lim {
			marker = " !! C07:segment-over-limit"
		}
	}
	if j.String() != text {
		marker = " !! C07:split-loses-text"
	}
	l := "-"
	if len(ls) > 0 {
		l = strings.Join(ls, ",")
	}
	return fmt.Sprintf("%d %s", sp.Len(text), l) + marker
}

// ------------------------------------------------------------------ generator

type repertoire struct {
	byLen map[int][]rune // encoded octets (septets for GSM 7-bit) -> accepted scalars
}

var (
	repMu  sync.Mutex
	repMap = map[int]*repertoire{}
)

// repertoireOf enumerates the scalars the REAL encoder of c accepts, grouped by encoded size.
func repertoireOf(c int) *repertoire {
	repMu.Lock()
	defer repMu.Unlock()
	if r, ok := repMap[c]; ok {
		return r
	}
	rep := &repertoire{byLen: map[int][]rune{}}
	dc := coding.DataCoding(c)
	limit := rune(0x2FFFF)
	for r := rune(1); r <= limit; r++ {
		if r >= 0xD800 && r <= 0xDFFF {
			continue
		}
		if c == 10 && (r == 0x1B || r == 0x0E || r == 0x0F) {
			continue
		}
		b, ok := encodeWith(dc, string(r))
		if !ok {
			continue
		}
		n := len(b)
		if c == 0 {
			n = 1
			switch r {
			case '\f', '[', '\\', ']', '^', '{', '|', '}', '~', '€':
				n = 2
			}
		}
		if c == 10 && r >= 0x80 {
			n = 2 // plus escapes
			if r >= 0xFF61 && r <= 0xFF9F {
				n = 3 // katakana mode
			}
		}
		if len(rep.byLen[n]) < 4000 || r%37 == 0 {
			rep.byLen[n] = append(rep.byLen[n], r)
		}
	}
	repMap[c] = rep
	return rep
}

func (rep *repertoire) pick(r *gen.Rng, n int) (rune, bool) {
	l := rep.byLen[n]
	if len(l) == 0 {
		return 0, false
	}
	return l[r.Intn(len(l))], true
}

func (rep *repertoire) sizes() []int {
	var s []int
	for k := range rep.byLen {
		s = append(s, k)
	}
	sort.Ints(s)
	return s
}

var composeCodings = []int{0, 1, 3, 6, 7, 8, 5, 10, 13, 14}

func genC07(r *gen.Rng, tier string, emit func(string)) {
	refs := []int{0, 1, 254, 255, 256, 65535}
	pickRef := func() int {
		if r.Chance(20) {
			return r.Intn(65536)
		}
		return refs[r.Intn(len(refs))]
	}
	emit("compose 3 0 -")
	emit("compose 2 0 65")
	emit("compose 4 0 65")
	// the same text composed again and again under different codings (same and different reference widths): a composition
	// must not depend on what was composed before it
	for _, n := range []int{200, 450} {
		t := showRunes(repeatRune('a', n))
		for _, ref := range []int{7, 300} {
			for _, c := range []int{0, 3, 0, 8, 1, 0, 6, 3} {
				emit(fmt.Sprintf("compose %d %d %s", c, ref, t))
			}
		}
	}
	for _, c := range composeCodings {
		rep := repertoireOf(c)
		sizes := rep.sizes()
		narrow := sizes[0]
		// (1) homogeneous narrow texts around every boundary, all interesting references
		for _, ref := range refs {
			for _, n := range []int{139, 140, 141, 152, 153, 154, 159, 160, 161, 266, 267, 268, 269, 304, 305, 306, 307, 308} {
				if c == 8 || c == 5 || c == 10 || c == 13 || c == 14 {
					if r.Chance(50) {
						n /= 2
					}
				}
				ch, _ := rep.pick(r, narrow)
				if !r.Chance(scale(tier, 25, 100)) {
					continue
				}
				emit(fmt.Sprintf("compose %d %d %s", c, ref, showRunes(repeatRune(ch, n))))
			}
		}
		// (2) one wide character at every offset around the segment boundary
		for _, wsz := range sizes[1:] {
			for off := 120; off <= 140; off++ {
				if !r.Chance(scale(tier, 40, 100)) {
					continue
				}
				nch, _ := rep.pick(r, narrow)
				wch, _ := rep.pick(r, wsz)
				t := repeatRune(nch, 300)
				if c == 8 || narrow == 2 {
					t = repeatRune(nch, 150)
					t[off/2] = wch
				} else {
					t[off] = wch
					if off+153 < len(t) && r.Bool() {
						t[off+153] = wch
					}
				}
				emit(fmt.Sprintf("compose %d %d %s", c, pickRef(), showRunes(t)))
			}
		}
		// (3) random mixes
		n := scale(tier, 60, 1500)
		for i := 0; i < n; i++ {
			ln := r.Pick(0, 1, 2, 70, 130, 140, 141, 160, 200, 300, 500, 800)
			ln = r.Range(ln/2, ln)
			widePct := r.Pick(0, 5, 20, 50, 100)
			t := make([]rune, 0, ln)
			for k := 0; k < ln; k++ {
				sz := narrow
				if len(sizes) > 1 && r.Chance(widePct) {
					sz = sizes[1+r.Intn(len(sizes)-1)]
				}
				ch, _ := rep.pick(r, sz)
				t = append(t, ch)
			}
			if c == 0 && r.Chance(30) && len(t) > 0 {
				// CR at a segment end / text end (C08's ambiguous case)
				t[len(t)-1] = '\r'
				if len(t) > 153 {
					t[152] = '\r'
				}
			}
			emit(fmt.Sprintf("compose %d %d %s", c, pickRef(), showRunes(t)))
			if r.Chance(20) {
				emit(fmt.Sprintf("split %d %d %s", c, r.Pick(4, 5, 7, 8, 16, 133, 134, 140), showRunes(t)))
			}
		}
		// (4) the 254-part ceiling
		per := map[int]int{0: 153, 1: 134, 3: 134, 6: 134, 7: 134, 8: 67, 5: 134, 10: 134, 13: 134, 14: 134}[c]
		for _, ref := range []int{7, 300} {
			p := per
			if ref > 255 {
				switch c {
				case 0:
					p = 152
				case 8:
					p = 66
				default:
					p = 133
				}
			}
			for _, d := range []int{-1, 0, 1, 2 * p} {
				if tier != "thorough" && c != 0 && c != 3 && c != 8 && d != 1 {
					continue
				}
				ch, _ := rep.pick(r, narrow)
				emit(fmt.Sprintf("compose %d %d %s", c, ref, showRunes(repeatRune(ch, 254*p+d))))
			}
		}
	}
}

func repeatRune(ch rune, n int) []rune {
	t := make([]rune, n)
	for i := range t {
		t[i] = ch
	}
	return t
}
