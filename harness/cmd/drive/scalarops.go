package main

import (
	"encoding/json"
	"fmt"
	"strconv"
	"strings"
	"time"

	"verifharness/internal/canon"
	"verifharness/internal/gen"

	"github.com/M2MGateway/go-smpp/pdu"
)

func init() {
	ops["esm"] = opEsm
	ops["regdlv"] = opRegDlv
	ops["octetpairs"] = opOctetPairs
	ops["ifver"] = opIfVer
	ops["ifverparse"] = opIfVerParse
	ops["timefrom"] = opTimeFrom
	ops["timefmt"] = opTimeFmt
	ops["durfrom"] = opDurFrom
	ops["durfmt"] = opDurFmt
	gens["C20"] = genC20
}

func b01(b bool) int {
	if b {
		return 1
	}
	return 0
}

func atoi(s string) int { n, _ := strconv.Atoi(s); return n }

func opEsm(args []string) string {
	if len(args) != 1 {
		return "bad-op"
	}
	c := byte(atoi(args[0]))
	var e pdu.ESMClass
	_ = e.WriteByte(c)
	back, _ := e.ReadByte()
	s := fmt.Sprintf("%d %d %d %d -> %d", e.MessageMode, e.MessageType, b01(e.UDHIndicator), b01(e.ReplyPath), back)
	if back != c {
		s += " !! C20:esm-not-identity"
	} else if e.MessageMode != c&3 || e.MessageType != (c/4)%16 || b01(e.UDHIndicator) != int(c/64)%2 || b01(e.ReplyPath) != int(c/128) {
		s += " !! C20:esm-bit-positions"
	}
	return s
}

// opOctetPairs: `octetpairs` — decoding must not depend on what the value held before (a reused packet struct, a variable
// hoisted out of a loop): for all 65536 ordered pairs (previous, current) of esm_class / registered_delivery octets, decoding
// `current` over a value that already holds `previous` gives what decoding `current` into a fresh value gives.
func opOctetPairs(args []string) string {
	for a := 0; a < 256; a++ {
		for b := 0; b < 256; b++ {
			var e, fresh pdu.ESMClass
			_ = e.WriteByte(byte(a))
			_ = e.WriteByte(byte(b))
			_ = fresh.WriteByte(byte(b))
			if e != fresh {
				return fmt.Sprintf("esm previous=%d current=%d !! C20:esm-decode-depends-on-previous-value previous=%d current=%d", a, b, a, b)
			}
			var g, gf pdu.RegisteredDelivery
			_ = g.WriteByte(byte(a))
			_ = g.WriteByte(byte(b))
			_ = gf.WriteByte(byte(b))
			if g != gf {
				return fmt.Sprintf("regdlv previous=%d current=%d !! C20:regdlv-decode-depends-on-previous-value previous=%d current=%d", a, b, a, b)
			}
			if a%17 == 0 {
				var iv, ivf pdu.InterfaceVersion
				_ = iv.UnmarshalJSON([]byte(fmt.Sprintf("%q", pdu.InterfaceVersion(a).String())))
				_ = iv.UnmarshalJSON([]byte(fmt.Sprintf("%q", pdu.InterfaceVersion(b).String())))
				_ = ivf.UnmarshalJSON([]byte(fmt.Sprintf("%q", pdu.InterfaceVersion(b).String())))
				if iv != ivf {
					return fmt.Sprintf("ifver previous=%d current=%d !! C20:ifver-decode-depends-on-previous-value previous=%d current=%d", a, b, a, b)
				}
			}
		}
	}
	return "ok pairs=65536"
}

func opRegDlv(args []string) string {
	if len(args) != 1 {
		return "bad-op"
	}
	c := byte(atoi(args[0]))
	var e pdu.RegisteredDelivery
	_ = e.WriteByte(c)
	back, _ := e.ReadByte()
	s := fmt.Sprintf("%d %d %d %d -> %d", e.MCDeliveryReceipt, e.SMEOriginatedAcknowledgment, b01(e.IntermediateNotification), e.Reserved, back)
	if back != c {
		s += " !! C20:regdlv-not-identity"
	} else if e.MCDeliveryReceipt != c%4 || e.SMEOriginatedAcknowledgment != (c/4)%4 || b01(e.IntermediateNotification) != int(c/16)%2 || e.Reserved != c/32 {
		s += " !! C20:regdlv-bit-positions"
	}
	return s
}

func opIfVer(args []string) string {
	if len(args) != 1 {
		return "bad-op"
	}
	v := pdu.InterfaceVersion(atoi(args[0]))
	data, err := json.Marshal(v)
	if err != nil {
		return "err marshal"
	}
	var back pdu.InterfaceVersion
	s := string(data)
	if err := json.Unmarshal(data, &back); err != nil {
		return s + " -> err !! C20:ifver-unparseable"
	}
	s += fmt.Sprintf(" -> %d", back)
	if back != v {
		s += " !! C20:ifver-not-identity"
	}
	return s
}

func opIfVerParse(args []string) string {
	if len(args) != 1 {
		return "bad-op"
	}
	raw, err := canon.UnHex(args[0])
	if err != nil {
		return "bad-op"
	}
	var v pdu.InterfaceVersion
	if err := v.UnmarshalJSON([]byte(`"` + string(raw) + `"`)); err != nil {
		return "err"
	}
	return fmt.Sprintf("ok %d", v)
}

func showTime(t time.Time) string {
	_, off := t.Zone()
	return fmt.Sprintf("%d %d %d %d %d %d %d %d", t.Year(), int(t.Month()), t.Day(), t.Hour(), t.Minute(), t.Second(), t.Nanosecond(), off)
}

func isDigits(s string) bool {
	for _, c := range s {
		if c < '0' || c > '9' {
			return false
		}
	}
	return true
}

func daysIn(y, m int) int {
	return time.Date(y, time.Month(m)+1, 0, 0, 0, 0, 0, time.UTC).Day()
}

// validAbs: DESIGN.md §9.3 — 16 characters, 15 digits, valid calendar date and time, nn <= 48,
// nn = 00 => '+'.
func validAbs(s string) bool {
	if len(s) != 16 || !isDigits(s[:15]) || (s[15] != '+' && s[15] != '-') {
		return false
	}
	f := func(i int) int { return atoi(s[i : i+2]) }
	y, mo, d, h, mi, sec, nn := 2000+f(0), f(2), f(4), f(6), f(8), f(10), f(13)
	if mo < 1 || mo > 12 || d < 1 || d > daysIn(y, mo) || h > 23 || mi > 59 || sec > 59 || nn > 48 {
		return false
	}
	return !(nn == 0 && s[15] == '-')
}

func opTimeFrom(args []string) string {
	if len(args) != 1 {
		return "bad-op"
	}
	raw, err := canon.UnHex(args[0])
	if err != nil {
		return "bad-op"
	}
	var t pdu.Time
	if err := t.From(string(raw)); err != nil {
		if validAbs(string(raw)) {
			return "err !! C20:valid-string-rejected"
		}
		return "err"
	}
	out := t.String()
	s := "ok " + showTime(t.Time) + " | " + canon.Hex([]byte(out))
	if validAbs(string(raw)) && out != string(raw) {
		s += " !! C20:parse-format"
	}
	return s
}

func opTimeFmt(args []string) string {
	if len(args) != 8 {
		return "bad-op"
	}
	a := make([]int, 8)
	for i := range a {
		a[i] = atoi(args[i])
	}
	t := time.Date(a[0], time.Month(a[1]), a[2], a[3], a[4], a[5], a[6], time.FixedZone("", a[7]))
	out := pdu.Time{Time: t}.String()
	s := canon.Hex([]byte(out))
	_, off := t.Zone()
	inDomain := t.Year() >= 2000 && t.Year() <= 2099 && t.Nanosecond()%1e8 == 0 && off%900 == 0 && off >= -48*900 && off <= 48*900
	if inDomain {
		var back pdu.Time
		if err := back.From(out); err != nil {
			return s + " !! C20:format-unparseable"
		}
		_, boff := back.Zone()
		if !back.Equal(t) || boff != off {
			return s + " !! C20:format-parse"
		}
	}
	return s
}

func opDurFrom(args []string) string {
	if len(args) != 1 {
		return "bad-op"
	}
	raw, err := canon.UnHex(args[0])
	if err != nil {
		return "bad-op"
	}
	var d pdu.Duration
	if err := d.From(string(raw)); err != nil {
		return "err"
	}
	return fmt.Sprintf("ok %d | %s", int64(d.Duration), canon.Hex([]byte(d.String())))
}

func opDurFmt(args []string) string {
	if len(args) != 1 {
		return "bad-op"
	}
	n, _ := strconv.ParseInt(args[0], 10, 64)
	d := pdu.Duration{Duration: time.Duration(n)}
	out := d.String()
	s := canon.Hex([]byte(out))
	if n >= 1e9 && n < 100*8760*3600*1e9 && n%1e8 == 0 {
		var back pdu.Duration
		if err := back.From(out); err != nil {
			return s + " !! C20:duration-unparseable"
		}
		if int64(back.Duration) != n {
			return s + " !! C20:duration-format-parse"
		}
	}
	return s
}

func genC20(r *gen.Rng, tier string, emit func(string)) {
	for c := 0; c < 256; c++ {
		if c == 0 {
			emit("octetpairs")
		}
		emit(fmt.Sprintf("esm %d", c))
		emit(fmt.Sprintf("regdlv %d", c))
		emit(fmt.Sprintf("ifver %d", c))
	}
	for _, s := range []string{"3.4", "5.0", "15.15", "16.1", "1.16", "255.255", "256.1", "3", "3.", ".4", "3.4.5", "03.04", "", "a.b", "3,4"} {
		emit("ifverparse " + canon.Hex([]byte(s)))
	}
	// full product of boundary values named in the property
	years := []int{0, 99}
	months := []int{1, 12}
	days := []int{1, 28, 29, 30, 31}
	hours := []int{0, 23}
	mins := []int{0, 59}
	tenths := []int{0, 9}
	offs := []int{0, 1, 48}
	for _, y := range years {
		for _, mo := range months {
			for _, d := range days {
				for _, h := range hours {
					for _, mi := range mins {
						for _, sec := range mins {
							for _, t := range tenths {
								for _, o := range offs {
									for _, sym := range []string{"+", "-"} {
										str := fmt.Sprintf("%02d%02d%02d%02d%02d%02d%d%02d%s", y, mo, d, h, mi, sec, t, o, sym)
										emit("timefrom " + canon.Hex([]byte(str)))
										sign := 1
										if sym == "-" {
											sign = -1
										}
										emit(fmt.Sprintf("timefmt %d %d %d %d %d %d %d %d", 2000+y, mo, d, h, mi, sec, t*1e8, sign*o*900))
									}
								}
							}
						}
					}
				}
			}
		}
	}
	n := scale(tier, 3000, 100000)
	for i := 0; i < n; i++ {
		switch c := r.Intn(100); {
		case c < 30:
			// random valid string
			y, mo := r.Intn(100), r.Range(1, 12)
			d := r.Range(1, daysIn(2000+y, mo))
			str := fmt.Sprintf("%02d%02d%02d%02d%02d%02d%d%02d%s", y, mo, d, r.Intn(24), r.Intn(60), r.Intn(60), r.Intn(10), r.Intn(49), []string{"+", "-"}[r.Intn(2)])
			emit("timefrom " + canon.Hex([]byte(str)))
		case c < 45:
			// malformed / out-of-calendar strings
			b := []byte(fmt.Sprintf("%02d%02d%02d%02d%02d%02d%d%02d%s", r.Intn(100), r.Intn(20), r.Intn(40), r.Intn(30), r.Intn(70), r.Intn(70), r.Intn(10), r.Intn(100), []string{"+", "-", "R", "x"}[r.Intn(4)]))
			if r.Chance(40) {
				b[r.Intn(len(b))] = []byte("+-a 9_.")[r.Intn(7)]
			}
			if r.Chance(10) {
				b = b[:r.Intn(len(b))]
			}
			emit("timefrom " + canon.Hex(b))
			emit("durfrom " + canon.Hex(b))
		case c < 70:
			y := r.Range(1990, 2110)
			if r.Chance(70) {
				y = r.Range(2000, 2099)
			}
			off := r.Range(-50, 50) * 900
			if r.Chance(10) {
				off = r.Range(-50000, 50000)
			}
			ns := r.Intn(10) * 1e8
			if r.Chance(10) {
				ns = r.Intn(1e9)
			}
			emit(fmt.Sprintf("timefmt %d %d %d %d %d %d %d %d", y, r.Range(0, 14), r.Range(0, 33), r.Range(-1, 25), r.Range(-1, 61), r.Range(-1, 61), ns, off))
		case c < 85:
			var ns int64
			switch r.Intn(4) {
			case 0:
				ns = int64(r.Intn(100*8760*36000)) * 1e8
			case 1:
				units := []int64{1e9, 60e9, 3600e9, 24 * 3600e9, 720 * 3600e9, 8760 * 3600e9}
				ns = units[r.Intn(len(units))]*int64(r.Range(1, 100)) + int64(r.Pick(-1e8, 0, 1e8))
			case 2:
				ns = int64(r.U64() % (200 * 8760 * 3600e9))
			default:
				ns = int64(r.Pick(0, 1, 999999999, 1e9, 1e9+1e8, -5e9))
			}
			emit(fmt.Sprintf("durfmt %d", ns))
		default:
			str := fmt.Sprintf("%02d%02d%02d%02d%02d%02d%d00R", r.Intn(100), r.Intn(100), r.Intn(100), r.Intn(100), r.Intn(100), r.Intn(100), r.Intn(10))
			if r.Chance(10) {
				str = strings.Replace(str, "R", "+", 1)
			}
			emit("durfrom " + canon.Hex([]byte(str)))
		}
	}
}
