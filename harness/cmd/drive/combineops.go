package main

import (
	"bytes"
	"fmt"
	"reflect"
	"sort"
	"strconv"
	"strings"

	"verifharness/internal/canon"
	"verifharness/internal/gen"

	"github.com/M2MGateway/go-smpp/coding"
	"github.com/M2MGateway/go-smpp/pdu"
)

func init() {
	ops["combine"] = opCombine
	ops["concat"] = opConcat
	ops["msgstate"] = opMsgState
	ops["accessors"] = opAccessors
	ops["addrstr"] = opAddrStr
	gens["C10"] = genC10
	gens["C11"] = genC11
}

func parseAddrTok(s string) (pdu.Address, bool) {
	f := strings.Split(s, ".")
	if len(f) != 3 {
		return pdu.Address{}, false
	}
	no, err := canon.UnHex(f[2])
	if err != nil {
		return pdu.Address{}, false
	}
	return pdu.Address{TON: byte(atoi(f[0])), NPI: byte(atoi(f[1])), No: string(no)}, true
}

func parseUdhTok(s string) (pdu.UserDataHeader, bool) {
	if s == "~" {
		return nil, true
	}
	h := pdu.UserDataHeader{}
	if s == "0" {
		return h, true
	}
	for _, e := range strings.Split(s, "+") {
		kv := strings.Split(e, ":")
		if len(kv) != 2 {
			return nil, false
		}
		v, err := canon.UnHex(kv[1])
		if err != nil {
			return nil, false
		}
		h[byte(atoi(kv[0]))] = v
	}
	return h, true
}

type segInfo struct {
	src, dst          string
	ref, total, seq   int
	concatenated, bad bool
}

// specHeader: independent reading of the concatenation element (GSM 03.40 9.2.3.24.1 / .8)
func specHeader(h pdu.UserDataHeader) (ref, total, seq int, ok bool) {
	if d, has := h[0]; has && len(d) >= 3 {
		return int(d[0]), int(d[1]), int(d[2]), true
	}
	if d, has := h[8]; has && len(d) >= 4 {
		return int(d[0])<<8 | int(d[1]), int(d[2]), int(d[3]), true
	}
	return 0, 0, 0, false
}

// opCombine: C10/C11.  The history is fed to the real combiner; the oracle replays it against an
// independent tuple-keyed specification (deliver when the slot set of the first-seen total is full).
func opCombine(args []string) string {
	if len(args) != 1 {
		return "bad-op"
	}
	var segs []*pdu.DeliverSM
	for _, s := range strings.Split(args[0], ";") {
		f := strings.Split(s, "/")
		if len(f) != 3 {
			return "bad-op"
		}
		a, ok1 := parseAddrTok(f[0])
		b, ok2 := parseAddrTok(f[1])
		u, ok3 := parseUdhTok(f[2])
		if !ok1 || !ok2 || !ok3 {
			return "bad-op"
		}
		segs = append(segs, &pdu.DeliverSM{SourceAddr: a, DestAddr: b, Message: pdu.ShortMessage{UDHeader: u}})
	}
	index := map[*pdu.DeliverSM]int{}
	for i, s := range segs {
		index[s] = i
	}
	var got [][]int
	perCall := make([]int, len(segs))
	call := 0
	add := pdu.CombineMultipartDeliverSM(func(l []*pdu.DeliverSM) {
		d := make([]int, len(l))
		for i, p := range l {
			if p == nil {
				d[i] = -1
			} else {
				d[i] = index[p]
			}
		}
		got = append(got, d)
		perCall[call]++
	})
	for i, s := range segs {
		call = i
		add(s)
	}
	// ---- independent specification
	type key struct {
		src, dst pdu.Address
		ref      int
	}
	type state struct {
		total int
		slots map[int]int
	}
	reg := map[key]*state{}
	var want [][]int
	for i, s := range segs {
		ref, total, seq, ok := specHeader(s.Message.UDHeader)
		if !ok {
			want = append(want, []int{i})
			continue
		}
		if seq == 0 || seq > total {
			continue
		}
		k := key{s.SourceAddr, s.DestAddr, ref}
		st := reg[k]
		if st == nil {
			st = &state{total: total, slots: map[int]int{}}
			reg[k] = st
		}
		if st.total != total {
			continue
		}
		st.slots[seq] = i
		if len(st.slots) == st.total {
			d := make([]int, 0, total)
			for q := 1; q <= total; q++ {
				d = append(d, st.slots[q])
			}
			want = append(want, d)
			delete(reg, k)
		}
	}
	show := func(ds [][]int) string {
		if len(ds) == 0 {
			return "-"
		}
		var b strings.Builder
		for _, d := range ds {
			parts := make([]string, len(d))
			for i, x := range d {
				parts[i] = strconv.Itoa(x)
			}
			b.WriteString("[" + strings.Join(parts, ",") + "]")
		}
		return b.String()
	}
	s := show(got)
	if s != show(want) {
		return s + " !! C10:deliveries-differ-from-spec want=" + show(want)
	}
	// clause: never mixed, never partial, in sequence order
	for _, d := range got {
		if len(d) == 1 {
			if _, _, _, ok := specHeader(segs[d[0]].Message.UDHeader); !ok {
				continue
			}
		}
		for q, i := range d {
			if i < 0 {
				return s + " !! C10:partial-delivery"
			}
			ref, total, seq, _ := specHeader(segs[i].Message.UDHeader)
			r0, _, _, _ := specHeader(segs[d[0]].Message.UDHeader)
			if segs[i].SourceAddr != segs[d[0]].SourceAddr || segs[i].DestAddr != segs[d[0]].DestAddr || ref != r0 {
				return s + " !! C10:mixed-delivery"
			}
			if total != len(d) || seq != q+1 {
				return s + " !! C10:order-or-total"
			}
		}
	}
	return s
}

func opConcat(args []string) string {
	if len(args) != 1 {
		return "bad-op"
	}
	u, ok := parseUdhTok(args[0])
	if !ok {
		return "bad-op"
	}
	h := u.ConcatenatedHeader()
	if h == nil {
		return "nil"
	}
	return fmt.Sprintf("%d %d %d", h.Reference, h.TotalParts, h.Sequence)
}

func opMsgState(args []string) string {
	if len(args) != 1 {
		return "bad-op"
	}
	return pdu.MessageState(atoi(args[0])).String()
}

// opAccessors: C11.  Every read-only operation on a PDU that ReadPDU returned.
func opAccessors(args []string) string {
	if len(args) != 1 {
		return "bad-op"
	}
	data, err := canon.UnHex(args[0])
	if err != nil {
		return "bad-op"
	}
	p, rerr := pdu.ReadPDU(bytes.NewReader(data))
	if rerr != nil || p == nil {
		return "skip"
	}
	// fmt recovers panics of String methods and prints "%!v(PANIC=String method: ...)": look for it
	if txt := fmt.Sprint(p) + fmt.Sprintf("%+v %s", p, p); strings.Contains(txt, "PANIC=") {
		return "x !! C11:string-method-panicked-under-fmt"
	}
	v := reflect.ValueOf(p).Elem()
	ch := "nil"
	for i := 0; i < v.NumField(); i++ {
		f := v.Field(i).Addr().Interface()
		if s, ok := f.(fmt.Stringer); ok {
			_ = s.String()
		}
		if strings.Contains(fmt.Sprint(v.Field(i).Interface()), "PANIC=") {
			return "x !! C11:string-method-panicked-under-fmt"
		}
		if recs, ok := f.(*pdu.UnsuccessfulRecords); ok {
			for _, rec := range *recs {
				_ = rec.String()
			}
		}
		if d, ok := f.(*pdu.DestinationAddresses); ok {
			for _, a := range d.Addresses {
				_ = a.String()
			}
		}
		if m, ok := f.(*pdu.ShortMessage); ok {
			_, _ = m.Parse()
			if h := m.UDHeader.ConcatenatedHeader(); h != nil {
				ch = fmt.Sprintf("%d,%d,%d", h.Reference, h.TotalParts, h.Sequence)
				_ = h.Len()
			}
			_ = m.UDHeader.Len()
		}
	}
	resp := "nil"
	if r, ok := p.(pdu.Responsable); ok {
		q := r.Resp()
		resp = typeName(q)
		if pdu.ReadSequence(q) != pdu.ReadSequence(p) {
			return "x !! C11:resp-sequence"
		}
	}
	if d, ok := p.(*pdu.DeliverSM); ok {
		add := pdu.CombineMultipartDeliverSM(func([]*pdu.DeliverSM) {})
		add(d)
		add(d)
	}
	return fmt.Sprintf("ok %d %d ch=%s resp=%s", pdu.ReadSequence(p), pdu.ReadCommandStatus(p), ch, resp)
}

func opAddrStr(args []string) string {
	if len(args) != 1 {
		return "bad-op"
	}
	a, ok := parseAddrTok(args[0])
	if !ok {
		return "bad-op"
	}
	return canon.Hex([]byte(a.String()))
}

// ---------------------------------------------------------------- generators

func addrTok(a pdu.Address) string {
	return fmt.Sprintf("%d.%d.%s", a.TON, a.NPI, canon.Hex([]byte(a.No)))
}

func udhTok(h pdu.UserDataHeader) string {
	if h == nil {
		return "~"
	}
	if len(h) == 0 {
		return "0"
	}
	keys := make([]int, 0, len(h))
	for k := range h {
		keys = append(keys, int(k))
	}
	sort.Ints(keys)
	parts := make([]string, len(keys))
	for i, k := range keys {
		parts[i] = fmt.Sprintf("%d:%s", k, canon.Hex(h[byte(k)]))
	}
	return strings.Join(parts, "+")
}

func concatUdh(ref, total, seq int, wide bool) pdu.UserDataHeader {
	if wide {
		return pdu.UserDataHeader{8: {byte(ref >> 8), byte(ref), byte(total), byte(seq)}}
	}
	return pdu.UserDataHeader{0: {byte(ref), byte(total), byte(seq)}}
}

// adversarial address pool: digit strings that are prefixes of one another, TON/NPI digits that
// can be confused with address digits
var advAddrs = []pdu.Address{
	mkAddr(1, 1, "12"), mkAddr(1, 1, "1"), mkAddr(1, 1, "123"), mkAddr(1, 11, "2"), mkAddr(11, 1, "2"), mkAddr(1, 1, ""), mkAddr(0, 0, "12"), mkAddr(1, 2, "3"), mkAddr(1, 23, ""),
	mkAddr(3, 1, "456"), mkAddr(23, 1, "456"), mkAddr(1, 1, "1 1"), mkAddr(2, 3, "1"),
}

func mkAddr(t, n int, no string) pdu.Address { return pdu.Address{TON: byte(t), NPI: byte(n), No: no} }

type msg struct {
	src, dst pdu.Address
	ref, n   int
	wide     bool
}

func genC10(r *gen.Rng, tier string, emit func(string)) {
	seg := func(m msg, seq int) string {
		return addrTok(m.src) + "/" + addrTok(m.dst) + "/" + udhTok(concatUdh(m.ref, m.n, seq, m.wide))
	}
	// exhaustive: all interleavings x permutations of two messages with N <= 3 (quick: N <= 2)
	maxN := scale(tier, 2, 3)
	for n1 := 1; n1 <= maxN; n1++ {
		for n2 := 1; n2 <= maxN; n2++ {
			m1 := msg{advAddrs[0], advAddrs[9], 7, n1, false}
			m2 := msg{advAddrs[1], advAddrs[10], 7, n2, false}
			var items []string
			for s := 1; s <= n1; s++ {
				items = append(items, seg(m1, s))
			}
			for s := 1; s <= n2; s++ {
				items = append(items, seg(m2, s))
			}
			permute(items, func(p []string) { emit("combine " + strings.Join(p, ";")) })
		}
	}
	// long messages: totals around every power of two up to the 255 the one-octet total allows, in order, reversed,
	// shuffled, with one segment missing, and the same key reused right after completion
	for _, total := range []int{31, 32, 33, 63, 64, 65, 66, 127, 128, 129, 200, 254, 255} {
		for variant := 0; variant < scale(tier, 3, 6); variant++ {
			m := msg{advAddrs[r.Intn(len(advAddrs))], advAddrs[r.Intn(len(advAddrs))], r.Pick(0, 7, 255, 256, 65535), total, r.Bool()}
			if !m.wide {
				m.ref &= 0xFF
			}
			var items []string
			for sq := 1; sq <= total; sq++ {
				items = append(items, seg(m, sq))
			}
			switch variant % 3 {
			case 1:
				for a, b := 0, len(items)-1; a < b; a, b = a+1, b-1 {
					items[a], items[b] = items[b], items[a]
				}
			case 2:
				for j := len(items) - 1; j > 0; j-- {
					q := r.Intn(j + 1)
					items[j], items[q] = items[q], items[j]
				}
			}
			if variant >= 3 {
				items = append(items[:total/2], items[total/2+1:]...) // one segment never arrives
			}
			// the same key again, two segments
			m2 := m
			m2.n = 2
			items = append(items, seg(m2, 1), seg(m2, 2))
			emit("combine " + strings.Join(items, ";"))
		}
	}
	n := scale(tier, 2500, 50000)
	for i := 0; i < n; i++ {
		k := r.Range(1, 4)
		var ms []msg
		for j := 0; j < k; j++ {
			m := msg{advAddrs[r.Intn(len(advAddrs))], advAddrs[r.Intn(len(advAddrs))], r.Pick(0, 1, 7, 23, 255, 256, 65535, r.Intn(65536)), r.Pick(1, 2, 2, 3, 3, 4, 5, 9), r.Bool()}
			if !m.wide {
				m.ref &= 0xFF
			}
			if j > 0 && r.Chance(30) { // same reference on different addresses / same addresses different ref
				m.ref, m.wide = ms[0].ref, ms[0].wide
			}
			if j > 0 && r.Chance(20) {
				m.src, m.dst = ms[0].src, ms[0].dst
			}
			ms = append(ms, m)
		}
		var items []string
		for _, m := range ms {
			for s := 1; s <= m.n; s++ {
				if r.Chance(8) {
					continue // a missing segment: must never be delivered
				}
				items = append(items, seg(m, s))
				if r.Chance(10) {
					items = append(items, seg(m, s)) // duplicate
				}
			}
		}
		for j := r.Intn(3); j > 0; j-- { // non-concatenated messages
			items = append(items, addrTok(advAddrs[r.Intn(len(advAddrs))])+"/"+addrTok(advAddrs[r.Intn(len(advAddrs))])+"/"+r.PickUdhPlain())
		}
		if len(items) == 0 {
			continue
		}
		for j := len(items) - 1; j > 0; j-- {
			q := r.Intn(j + 1)
			items[j], items[q] = items[q], items[j]
		}
		emit("combine " + strings.Join(items, ";"))
	}
}

func permute(a []string, f func([]string)) {
	var rec func(int)
	rec = func(k int) {
		if k == len(a) {
			f(a)
			return
		}
		for i := k; i < len(a); i++ {
			a[k], a[i] = a[i], a[k]
			rec(k + 1)
			a[k], a[i] = a[i], a[k]
		}
	}
	rec(0)
}

func genC11(r *gen.Rng, tier string, emit func(string)) {
	// Parse on GSM 7-bit user data: the escape septet followed by EVERY second septet, and every septet alone, under the data
	// codings that resolve to the GSM 7-bit codec (a decoder table lookup must not index past its table)
	for _, dc := range []byte{0x00, 0xF1, 0xD0} {
		for sq := 0; sq < 128; sq++ {
			for _, septets := range [][]int{{0x1B, sq}, {sq}, {0x41, 0x1B, sq, 0x42}} {
				msg := make([]byte, (7*len(septets)+7)/8)
				for i, v := range septets {
					for b := 0; b < 7; b++ {
						if v>>uint(b)&1 == 1 {
							msg[(7*i+b)/8] |= 1 << uint((7*i+b)%8)
						}
					}
				}
				p := &pdu.DeliverSM{Header: pdu.Header{Sequence: 1}, Message: pdu.ShortMessage{DataCoding: coding.DataCoding(dc), Message: msg}}
				var buf bytes.Buffer
				if _, err := pdu.Marshal(&buf, p); err == nil {
					emit("accessors " + canon.Hex(buf.Bytes()))
				}
			}
		}
	}
	for m := 0; m < 256; m++ {
		emit(fmt.Sprintf("msgstate %d", m))
	}
	// concatenation elements of every length 0..6, both ids, and both present
	for l := 0; l <= 6; l++ {
		d := canon.Hex(bytes.Repeat([]byte{3}, l))
		emit("concat 0:" + d)
		emit("concat 8:" + d)
		for l2 := 0; l2 <= 6; l2++ {
			emit("concat 0:" + d + "+8:" + canon.Hex(bytes.Repeat([]byte{2}, l2)))
		}
		emit("concat 5:" + d)
	}
	emit("concat ~")
	emit("concat 0")
	// every (total, sequence) pair as a single-segment history and after a well-formed first segment
	a := "1.1.3132/1.1.3334/"
	step := scale(tier, 5, 1)
	for total := 0; total < 256; total += step {
		for seq := 0; seq < 256; seq += step {
			emit("combine " + a + udhTok(concatUdh(9, total, seq, false)))
			emit("combine " + a + udhTok(concatUdh(9, 3, 1, false)) + ";" + a + udhTok(concatUdh(9, total, seq, false)))
		}
	}
	for _, t := range []int{0, 1, 2, 3, 254, 255} {
		for _, q := range []int{0, 1, 2, 3, 4, 254, 255} {
			emit("combine " + a + udhTok(concatUdh(9, t, q, true)) + ";" + a + udhTok(concatUdh(9, 255, 255, true)) + ";" + a + udhTok(concatUdh(9, t, q, false)))
		}
	}
	// histories mixing totals under one key (exhaustive for length <= 3 over a small alphabet)
	alpha := []string{}
	for _, t := range []int{0, 1, 2, 3} {
		for _, q := range []int{0, 1, 2, 3, 4} {
			alpha = append(alpha, a+udhTok(concatUdh(9, t, q, false)))
		}
	}
	for _, x := range alpha {
		for _, y := range alpha {
			emit("combine " + x + ";" + y)
			if tier == "thorough" {
				for _, z := range alpha {
					emit("combine " + x + ";" + y + ";" + z)
				}
			}
		}
	}
	// Address.String on every (ton, npi) in 0..3 x 0..3 with empty / '+'-prefixed / plain numbers
	for ton := 0; ton < 4; ton++ {
		for npi := 0; npi < 4; npi++ {
			// every number over the alphabet {'+','0','4'} of up to 4 characters (dialling prefixes, lone signs, ...)
			short := []string{""}
			for lvl, prev := 0, []string{""}; lvl < 4; lvl++ {
				var next []string
				for _, s := range prev {
					for _, ch := range []string{"+", "0", "4"} {
						next = append(next, s+ch)
					}
				}
				short = append(short, next...)
				prev = next
			}
			for _, no := range short {
				emit(fmt.Sprintf("addrstr %d.%d.%s", ton, npi, canon.Hex([]byte(no))))
			}
			for _, no := range []string{"", "+", "+49", "49", "0", "00", "000", "0049", "+0", "+00"} {
				// and inside PDUs of the address-bearing types
				a := pdu.Address{TON: byte(ton), NPI: byte(npi), No: no}
				for _, p := range []interface{}{
					&pdu.DeliverSM{Header: pdu.Header{Sequence: 3}, SourceAddr: a, DestAddr: a},
					&pdu.SubmitMulti{Header: pdu.Header{Sequence: 3}, SourceAddr: a, DestAddrList: pdu.DestinationAddresses{Addresses: []pdu.Address{a, a}}},
					&pdu.SubmitMultiResp{Header: pdu.Header{Sequence: 3}, UnsuccessfulSMEs: pdu.UnsuccessfulRecords{{DestAddr: a, ErrorStatusCode: 9}}},
					&pdu.AlertNotification{Header: pdu.Header{Sequence: 3}, SourceAddr: a, ESMEAddr: a},
					&pdu.BindTransceiver{Header: pdu.Header{Sequence: 3}, AddressRange: a},
				} {
					if f, cls, _, _ := doMarshal(p); cls == "nil" {
						emit("accessors " + canon.Hex(f))
					}
				}
			}
		}
	}
	// PDUs decoded from valid and mutated frames of every type
	n := scale(tier, 3000, 60000)
	for i := 0; i < n; i++ {
		f, _ := validFrame(r, gen.Unconstrained)
		if len(f) > 6000 {
			continue
		}
		if r.Chance(60) {
			f = mutate(r, f, true)
		}
		emit("accessors " + canon.Hex(f))
	}
	// deliver_sm / query_sm_resp frames with every message_state / UDH shapes
	for m := 0; m < 256; m++ {
		frame := append([]byte{0, 0, 0, 0, 0x80, 0, 0, 3, 0, 0, 0, 0, 0, 0, 0, 5, 0, 0}, byte(m))
		putBE32(frame, uint32(len(frame)))
		emit("accessors " + canon.Hex(frame))
	}
}
