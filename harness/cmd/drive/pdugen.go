package main

import (
	"bytes"
	"fmt"
	"reflect"
	"strings"

	"verifharness/internal/canon"
	"verifharness/internal/gen"

	"github.com/M2MGateway/go-smpp/pdu"
)

func init() {
	gens["C01"] = genC01
	gens["C02"] = genC02
	gens["C03"] = genC03
	gens["C04"] = genC04
	gens["C12"] = genC12
	gens["C13"] = genC13
}

func pickChunk(r *gen.Rng, total int) string {
	switch c := r.Intn(100); {
	case c < 25:
		return "w"
	case c < 40:
		return "u1"
	case c < 55:
		return fmt.Sprintf("u%d", r.Pick(2, 3, 5, 7, 15, 16, 17, 32, 100, 4095, 4096, 4097))
	case c < 80:
		return fmt.Sprintf("s%d", r.Intn(total+1))
	default:
		n := r.Range(1, 5)
		parts := make([]string, n)
		for i := range parts {
			parts[i] = fmt.Sprint(r.Pick(1, 2, 3, 4, 8, 15, 16, 17, 100, 1000, 4096, r.Range(1, 64)))
		}
		return "l" + strings.Join(parts, ",")
	}
}

func randType(r *gen.Rng) reflect.Type {
	ts := canon.Types()
	return ts[r.Intn(len(ts))]
}

func pduLine(p interface{}) string { return typeName(p) + " " + toks(p) }

// C01: representable values of every type, several chunkings, some with non-zero status.
func genC01(r *gen.Rng, tier string, emit func(string)) {
	// state carried between calls: a Marshal into a destination that fails part-way, then ordinary round trips
	for i := 0; i < scale(tier, 12, 120); i++ {
		big := &pdu.BindTransceiver{Header: pdu.Header{Sequence: int32(r.Range(1, 1000))}, SystemID: string(r.NulFree(r.Pick(8, 40, 300))), Password: "p"}
		emit(fmt.Sprintf("wfail %d %s", r.Pick(0, 1, 4, 16, 17, 30), pduLine(big)))
		emit("rt w " + pduLine(&pdu.EnquireLink{Header: pdu.Header{Sequence: int32(r.Range(1, 1000))}}))
		emit("rt w " + pduLine(r.PDU(randType(r), gen.Representable)))
	}
	for _, p := range boundaryPDUs() {
		emit("rt " + pickChunk(r, 64) + " " + pduLine(p))
	}
	n := scale(tier, 3000, 60000)
	ts := canon.Types()
	for i := 0; i < n; i++ {
		t := ts[i%len(ts)]
		if i >= 4*len(ts) {
			t = randType(r)
		}
		p := r.PDU(t, gen.Representable)
		if r.Chance(8) {
			h := reflect.ValueOf(p).Elem().Field(0).Addr().Interface().(*pdu.Header)
			h.CommandStatus = pdu.CommandStatus(r.Pick(1, 2, 0xFF, 0x400, 0xFFFFFFFF))
		}
		emit("rt " + pickChunk(r, 64) + " " + pduLine(p))
	}
}

func validFrame(r *gen.Rng, d gen.Domain) ([]byte, interface{}) {
	for {
		p := r.PDU(randType(r), d)
		frame, cls, _, _ := doMarshal(p)
		if cls == "nil" {
			return frame, p
		}
	}
}

// C03: streams of valid PDUs under fragmentation, and every kind of truncation.
func genC03(r *gen.Rng, tier string, emit func(string)) {
	n := scale(tier, 1500, 30000)
	for i := 0; i < n; i++ {
		k := r.Pick(1, 1, 2, 3, 5, 8)
		var all []byte
		var ends []int
		for j := 0; j < k; j++ {
			f, _ := validFrame(r, gen.Representable)
			if len(f) > 3000 && k > 1 {
				j--
				continue
			}
			if len(f) > 16 && r.Intn(100) < 15 {
				// a foreign encoder's negative response that still carries a body: command_length governs
				f = append([]byte{}, f...)
				putBE32(f[8:12], uint32(r.Pick(1, 0x45, 0xFF, 0x400)))
			}
			all = append(all, f...)
			ends = append(ends, len(all))
		}
		switch c := r.Intn(100); {
		case c < 55:
			emit(fmt.Sprintf("stream %s %s n%d", pickChunk(r, len(all)), canon.Hex(all), k))
		case c < 85:
			// cut inside a PDU
			cut := r.Intn(len(all))
			done := 0
			for _, e := range ends {
				if e <= cut {
					done++
				}
			}
			isBoundary := cut == 0
			for _, e := range ends {
				if e == cut {
					isBoundary = true
				}
			}
			if isBoundary {
				emit(fmt.Sprintf("stream %s %s n%d", pickChunk(r, cut), canon.Hex(all[:cut]), done))
			} else {
				emit(fmt.Sprintf("stream %s %s t%d", pickChunk(r, cut), canon.Hex(all[:cut]), done))
			}
		default:
			// first frame gets an unknown command id or an undecodable body; the next must still be framed right
			f, _ := validFrame(r, gen.Representable)
			g := append([]byte{}, f...)
			if r.Bool() {
				g[4], g[5], g[6], g[7] = 0x7F, 0x01, 0x02, 0x03
			} else if len(g) > 16 {
				for x := 16; x < len(g); x++ {
					g[x] = 0xFF
				}
			}
			g = append(g, all...)
			emit(fmt.Sprintf("stream %s %s x", pickChunk(r, len(g)), canon.Hex(g)))
			emit(fmt.Sprintf("readpdu %s %s", pickChunk(r, len(g)), canon.Hex(g)))
		}
	}
	genC03Conn(r, tier, emit)
	// exhaustive: every single split point and every uniform size 1..32 of a few short streams
	for j := 0; j < scale(tier, 3, 20); j++ {
		var all []byte
		for len(all) < 60 {
			f, _ := validFrame(r, gen.Representable)
			if len(f) < 120 {
				if len(f) > 16 && r.Intn(100) < 25 {
					f = append([]byte{}, f...)
					putBE32(f[8:12], 0x45)
				}
				all = append(all, f...)
			}
		}
		cnt := countFrames(all)
		for k := 0; k <= len(all); k++ {
			emit(fmt.Sprintf("stream s%d %s n%d", k, canon.Hex(all), cnt))
		}
		for u := 1; u <= 32; u++ {
			emit(fmt.Sprintf("stream u%d %s n%d", u, canon.Hex(all), cnt))
		}
		for cut := 1; cut < len(all); cut++ {
			pre := all[:cut]
			full := 0
			pos := 0
			for pos+16 <= len(pre) {
				l := int(be32(pre[pos:]))
				if pos+l > len(pre) {
					break
				}
				pos += l
				full++
			}
			if pos == len(pre) {
				emit(fmt.Sprintf("stream u1 %s n%d", canon.Hex(pre), full))
			} else {
				emit(fmt.Sprintf("stream u1 %s t%d", canon.Hex(pre), full))
			}
		}
	}
}

// genC03Conn: the consumer the property names — Watch — on streams where several frames are readable at once (the peer
// pipelines, the application was slow): every frame must still be seen, after a generic_nack too, whatever the read sizes.
func genC03Conn(r *gen.Rng, tier string, emit func(string)) {
	for _, pre := range []string{"", "f1;", "f7;", "f40;"} {
		emit("conn " + pre + "s:5:- drain0 unsol:100:1 unsol:101:2 unsol:102:3 drain1")
		emit("conn " + pre + "s:5:- drain0 unsol:100:1 bad:101:2 unsol:102:3 bad:103:4 unsol:104:5 drain1")
		emit("conn " + pre + "s:5:- sub0 wret0 drain0 unsol:100:1 ans0 unsol:102:2 drain1")
	}
	for i := 0; i < scale(tier, 12, 60); i++ {
		// a negative response that still carries a body, between two ordinary PDUs, all readable at once
		f, _ := validFrame(r, gen.Representable)
		if len(f) <= 16 || len(f) > 200 {
			i--
			continue
		}
		f = append([]byte{}, f...)
		putBE32(f[8:12], uint32(r.Pick(1, 0x45, 0x400)))
		putBE32(f[12:16], uint32(200+i))
		pre := []string{"", "f1;", "f16;"}[r.Intn(3)]
		emit(fmt.Sprintf("conn %ss:5:- drain0 unsol:100:1 raw:2:%s:ok unsol:102:3 drain1", pre, canon.Hex(f)))
	}
}

func countFrames(all []byte) int {
	n, pos := 0, 0
	for pos+16 <= len(all) {
		pos += int(be32(all[pos:]))
		n++
	}
	return n
}

func putBE32(b []byte, v uint32) {
	b[0], b[1], b[2], b[3] = byte(v>>24), byte(v>>16), byte(v>>8), byte(v)
}

// mutate damages a valid frame; when fixLen the header keeps stating the real length.
func mutate(r *gen.Rng, f []byte, fixLen bool) []byte {
	g := append([]byte{}, f...)
	for k := r.Range(1, 4); k > 0; k-- {
		switch c := r.Intn(100); {
		case c < 30 && len(g) > 16:
			g[r.Range(16, len(g)-1)] = r.Byte()
		case c < 40 && len(g) > 16:
			i := r.Range(16, len(g)-1)
			g[i] ^= 1 << uint(r.Intn(8))
		case c < 55 && len(g) > 16:
			g = g[:r.Range(16, len(g))]
		case c < 65:
			g = append(g, r.Bytes(r.Pick(1, 2, 3, 4, 5, 8, 20))...)
		case c < 75 && len(g) > 20:
			// duplicate a slice of the body (duplicated TLVs / elements)
			i := r.Range(16, len(g)-2)
			j := r.Range(i+1, len(g))
			if j-i > 600 {
				j = i + 600
			}
			g = append(g[:j:j], append(append([]byte{}, g[i:j]...), g[j:]...)...)
		case c < 85 && len(g) > 17:
			i := r.Range(16, len(g)-1)
			g[i] = byte(r.Pick(0, 1, 2, 3, 255, 254, 127, 128))
		case c < 90:
			putBE32(g[4:], uint32(r.Pick(0, 0x7FFFFFFF, 0x80000010, int(be32(g[4:]))^0x80000000, 0x21, 0x80000021, 4, 5, 7)))
		case c < 95:
			putBE32(g[8:], uint32(r.Pick(0, 1, 0xFF)))
		default:
			putBE32(g[12:], uint32(r.Pick(0, 1, 0x7FFFFFFF, 0x80000000, 0xFFFFFFFF)))
		}
	}
	if fixLen && len(g) <= 65536 {
		putBE32(g, uint32(len(g)))
	}
	return g
}

// C04: arbitrary octets, structured headers with arbitrary bodies, mutated valid frames.
func genC04(r *gen.Rng, tier string, emit func(string)) {
	// memory across calls: a run of refused maximum-size frames (unknown command_id, command_length 65536), then valid ones
	for i := 0; i < scale(tier, 14, 40); i++ {
		f := make([]byte, 65536)
		putBE32(f, 65536)
		putBE32(f[4:], uint32(r.Pick(0x0000BEEF, 0x7FFFFFFF, 0x12)))
		putBE32(f[12:], uint32(i+1))
		emit("readpdu w " + canon.Hex(f))
	}
	for i := 0; i < 3; i++ {
		f, _ := validFrame(r, gen.Representable)
		emit("readpdu w " + canon.Hex(f))
	}
	n := scale(tier, 4000, 150000)
	ts := canon.Types()
	ids := make([]uint32, len(ts))
	for i, t := range ts {
		var id uint32
		fmt.Sscanf(t.Field(0).Tag.Get("id"), "%x", &id)
		ids[i] = id
	}
	for i := 0; i < n; i++ {
		var data []byte
		switch c := r.Intn(100); {
		case c < 10:
			data = r.Bytes(r.Pick(0, 1, 3, 4, 15, 16, 17, 31, 32, 64, 200))
		case c < 20:
			// header with a length field at the edges
			data = r.Bytes(r.Pick(16, 16, 20, 40))
			putBE32(data, uint32(r.Pick(0, 1, 15, 16, 17, 65535, 65536, 65537, 0x7FFFFFFF, 0x80000000, 0xFFFFFFFF, len(data))))
			if r.Bool() {
				putBE32(data[4:], ids[r.Intn(len(ids))])
			}
		case c < 50:
			// valid header of a registered id + arbitrary body
			bl := r.Pick(0, 1, 2, 5, 10, 30, 60, 200, r.Intn(600))
			data = make([]byte, 16, 16+bl)
			putBE32(data[4:], ids[r.Intn(len(ids))])
			if r.Chance(10) {
				putBE32(data[8:], uint32(r.Pick(1, 0xFF)))
			}
			putBE32(data[12:], uint32(r.Pick(1, 7, 0x7FFFFFFF, 0, 0x80000000)))
			body := r.Bytes(bl)
			if r.Chance(50) {
				// mostly-NUL-terminated structure so that decoding gets past the strings
				for x := range body {
					if r.Chance(25) {
						body[x] = 0
					} else if r.Chance(25) {
						body[x] = byte(r.Pick(1, 2, 3, 4, 5, 8))
					}
				}
			}
			data = append(data, body...)
			putBE32(data, uint32(len(data)))
			if r.Chance(15) {
				putBE32(data, uint32(len(data)+r.Pick(-1, 1, 5, 100)))
			}
		default:
			f, _ := validFrame(r, gen.Unconstrained)
			if len(f) > 6000 {
				f, _ = validFrame(r, gen.Representable)
			}
			data = mutate(r, f, r.Chance(80))
		}
		if len(data) > 20000 {
			continue
		}
		emit(fmt.Sprintf("readpdu %s %s", pickChunk(r, len(data)), canon.Hex(data)))
	}
}

// C12: unconstrained values.
func genC12(r *gen.Rng, tier string, emit func(string)) {
	for _, p := range boundaryPDUs() {
		emit("marshal " + pduLine(p))
	}
	// the user data header around its 255-octet limit: two elements whose lengths put the second one's identifier,
	// length octet or data exactly on the boundary (total 244..262), for each PDU type with a short message
	for a := 244; a <= 256; a++ {
		for b := 0; b <= 6; b++ {
			h := pdu.UserDataHeader{0x24: make([]byte, a), 0x25: make([]byte, b)}
			for k, p := range []interface{}{
				&pdu.SubmitSM{Header: pdu.Header{Sequence: 9}, ESMClass: pdu.ESMClass{UDHIndicator: true}, Message: pdu.ShortMessage{UDHeader: h}},
				&pdu.DeliverSM{Header: pdu.Header{Sequence: 9}, ESMClass: pdu.ESMClass{UDHIndicator: true}, Message: pdu.ShortMessage{UDHeader: h, Message: []byte{1}}},
				&pdu.SubmitMulti{Header: pdu.Header{Sequence: 9}, ESMClass: pdu.ESMClass{UDHIndicator: true}, Message: pdu.ShortMessage{UDHeader: h}},
				&pdu.ReplaceSM{Header: pdu.Header{Sequence: 9}, Message: pdu.ShortMessage{UDHeader: h}},
			} {
				if k == 0 || (a+b)%3 == k%3 {
					emit("marshal " + pduLine(p))
				}
			}
		}
	}
	n := scale(tier, 3000, 60000)
	ts := canon.Types()
	for i := 0; i < n; i++ {
		t := ts[i%len(ts)]
		p := r.PDU(t, gen.Unconstrained)
		emit("marshal " + pduLine(p))
	}
	// all-or-nothing across calls: a value Marshal must refuse AFTER it has begun to encode (positive sequence number,
	// status 0, then an oversize message / TLV / header element / destination list) followed at once by a small valid PDU
	for i := 0; i < scale(tier, 60, 600); i++ {
		var bad interface{}
		seq := int32(r.Range(1, 1<<30))
		switch r.Intn(4) {
		case 0:
			bad = &pdu.SubmitSM{Header: pdu.Header{Sequence: seq}, ServiceType: "abc", Message: pdu.ShortMessage{Message: r.Bytes(r.Range(141, 300))}}
		case 1:
			bad = &pdu.DataSM{Header: pdu.Header{Sequence: seq}, ServiceType: "abc", Tags: pdu.Tags{0x0424: make([]byte, 0x10000)}}
		case 2:
			bad = &pdu.DeliverSM{Header: pdu.Header{Sequence: seq}, ESMClass: pdu.ESMClass{UDHIndicator: true},
				Message: pdu.ShortMessage{UDHeader: pdu.UserDataHeader{0x24: r.Bytes(256)}}}
		default:
			m := &pdu.SubmitMulti{Header: pdu.Header{Sequence: seq}, ServiceType: "abc"}
			for k := 0; k < 256; k++ {
				m.DestAddrList.DistributionList = append(m.DestAddrList.DistributionList, "d")
			}
			bad = m
		}
		emit("marshal " + pduLine(bad))
		emit("marshal " + pduLine(&pdu.EnquireLink{Header: pdu.Header{Sequence: int32(r.Range(1, 1000))}}))
	}
}

// foreignAddressFrames: frames laid out by hand from SMPP v5 §4.5.1 (query_sm) and §4.1.3.1 (alert_notification), NOT by the
// library's Marshal: another implementation's spelling of addresses (dialling prefixes, a leading '+', every TON/NPI of
// real traffic) must survive decode -> Marshal -> decode.
func foreignAddressFrames(emit func(string)) {
	cstr := func(s string) []byte { return append([]byte(s), 0) }
	frame := func(id uint32, body []byte) []byte {
		f := make([]byte, 16, 16+len(body))
		putBE32(f, uint32(16+len(body)))
		putBE32(f[4:], id)
		putBE32(f[12:], 7)
		return append(f, body...)
	}
	for _, ton := range []byte{0, 1, 2, 5} {
		for _, npi := range []byte{0, 1, 8} {
			for _, no := range []string{"", "+", "+4917012345", "004917012345", "4917012345", "0", "+0", "++1"} {
				q := append(cstr("msg-1"), ton, npi)
				q = append(q, cstr(no)...)
				emit("reenc " + canon.Hex(frame(0x00000003, q)))
				a := append([]byte{ton, npi}, cstr(no)...)
				a = append(a, ton, npi)
				a = append(a, cstr(no)...)
				emit("reenc " + canon.Hex(frame(0x00000102, a)))
			}
		}
	}
}

// C13: re-encoding of accepted (also non-canonical) frames; determinism over map order.
func genC13(r *gen.Rng, tier string, emit func(string)) {
	foreignAddressFrames(emit)
	n := scale(tier, 3000, 60000)
	for i := 0; i < n; i++ {
		switch c := r.Intn(100); {
		case c < 25:
			f, _ := validFrame(r, gen.Unconstrained)
			if len(f) > 8000 {
				continue
			}
			emit("reenc " + canon.Hex(f))
		case c < 75:
			f, _ := validFrame(r, gen.Unconstrained)
			if len(f) > 8000 {
				continue
			}
			emit("reenc " + canon.Hex(mutate(r, f, true)))
		default:
			p := r.PDU(randType(r), gen.Representable)
			// enlarge the maps: 2..50 entries
			v := reflect.ValueOf(p).Elem()
			for k := 0; k < v.NumField(); k++ {
				if t, ok := v.Field(k).Addr().Interface().(*pdu.Tags); ok {
					m := pdu.Tags{}
					for e := r.Range(2, 50); e > 0; e-- {
						m[uint16(r.U64())] = r.Bytes(r.Range(1, 6))
					}
					*t = m
				}
			}
			emit("det " + pduLine(p))
			// constructed values no decoder would return: user data header and UDH indicator out of step,
			// reserved data_coding, unsorted everything — marshalled repeatedly they must still give the same octets
			q := r.PDU(randType(r), gen.Unconstrained)
			line := pduLine(q) // before Marshal's Prepare touches the value
			if _, cls, _, _ := doMarshal(q); cls == "nil" && len(line) < 20000 {
				emit("det " + line)
			}
		}
	}
}

// C02: representable values (the specification frame is computed by the Lean side) plus values
// just outside what the length fields can state.
func genC02(r *gen.Rng, tier string, emit func(string)) {
	for _, p := range boundaryPDUs() {
		emit("spec " + pduLine(p))
	}
	n := scale(tier, 3000, 60000)
	ts := canon.Types()
	for i := 0; i < n; i++ {
		t := ts[i%len(ts)]
		d := gen.Representable
		if r.Chance(15) {
			d = gen.Unconstrained
		}
		p := r.PDU(t, d)
		h := reflect.ValueOf(p).Elem().Field(0).Addr().Interface().(*pdu.Header)
		h.CommandStatus = 0
		if d == gen.Unconstrained {
			if !representableBits(p) {
				continue
			}
		}
		emit("spec " + pduLine(p))
	}
}

// representableBits filters unconstrained values down to those whose only problem can be size:
// NUL-free strings, bit fields in range, UDH present iff UDHI, data_coding != 0xBF.
func representableBits(p interface{}) bool {
	v := reflect.ValueOf(p).Elem()
	udhi, hasESM := false, false
	ok := true
	var walk func(x reflect.Value)
	walk = func(x reflect.Value) {
		switch x.Kind() {
		case reflect.String:
			if strings.ContainsRune(x.String(), 0) {
				ok = false
			}
		case reflect.Struct:
			switch e := x.Interface().(type) {
			case pdu.ESMClass:
				if e.MessageMode > 3 || e.MessageType > 15 {
					ok = false
				}
			case pdu.RegisteredDelivery:
				if e.MCDeliveryReceipt > 3 || e.SMEOriginatedAcknowledgment > 3 || e.Reserved > 7 {
					ok = false
				}
			}
			for i := 0; i < x.NumField(); i++ {
				walk(x.Field(i))
			}
		case reflect.Slice:
			if x.Type().Elem().Kind() != reflect.Uint8 {
				for i := 0; i < x.Len(); i++ {
					walk(x.Index(i))
				}
			}
		}
	}
	walk(v)
	for i := 0; i < v.NumField(); i++ {
		if e, isE := v.Field(i).Interface().(pdu.ESMClass); isE && v.Type().Field(i).Name == "ESMClass" {
			udhi, hasESM = e.UDHIndicator, true
		}
	}
	for i := 0; i < v.NumField(); i++ {
		if m, isM := v.Field(i).Interface().(pdu.ShortMessage); isM {
			_, isReplace := p.(*pdu.ReplaceSM)
			want := udhi && hasESM && !isReplace
			if (m.UDHeader != nil) != want || (m.DataCoding == 0xBF && !isReplace) {
				ok = false
			}
		}
		if t, isT := v.Field(i).Interface().(pdu.Tags); isT {
			for _, val := range t {
				if len(val) == 0 {
					ok = false
				}
			}
		}
	}
	if pdu.ReadSequence(p) <= 0 {
		ok = false
	}
	return ok
}

// boundaryPDUs: a deterministic suite at the size boundaries the properties name — container
// counts around 255/256 in every split between the two destination kinds, TLV lengths around
// 65534/65535, frames of exactly 65535/65536/65537 octets, UDH element / UDH / sm_length around
// 255/256, messages of 140/141 octets.
func boundaryPDUs() []interface{} {
	var out []interface{}
	hdr := pdu.Header{Sequence: 5}
	addr := func(i int) pdu.Address { return pdu.Address{TON: 1, NPI: 1, No: fmt.Sprintf("%d", 1000+i)} }
	for _, c := range [][2]int{{0, 0}, {1, 0}, {0, 1}, {255, 0}, {0, 255}, {256, 0}, {0, 256}, {128, 127}, {128, 128}, {200, 100}, {255, 1}, {1, 255}, {254, 1}, {100, 155}, {100, 156}, {255, 255}, {300, 300}} {
		p := &pdu.SubmitMulti{Header: hdr}
		for i := 0; i < c[0]; i++ {
			p.DestAddrList.Addresses = append(p.DestAddrList.Addresses, addr(i))
		}
		for i := 0; i < c[1]; i++ {
			p.DestAddrList.DistributionList = append(p.DestAddrList.DistributionList, fmt.Sprintf("dl%d", i))
		}
		out = append(out, p)
	}
	for _, n := range []int{0, 1, 254, 255, 256, 257, 511, 512} {
		p := &pdu.SubmitMultiResp{Header: hdr, MessageID: "m"}
		for i := 0; i < n; i++ {
			p.UnsuccessfulSMEs = append(p.UnsuccessfulSMEs, pdu.UnsuccessfulRecord{DestAddr: addr(i), ErrorStatusCode: pdu.CommandStatus(i)})
		}
		out = append(out, p)
	}
	// alert_notification = 16 + 3 + 3 + 4 + L octets
	for _, l := range []int{1, 65508, 65509, 65510, 65511, 65533, 65534, 65535, 65536} {
		out = append(out, &pdu.AlertNotification{Header: hdr, Tags: pdu.Tags{0x1234: bytes.Repeat([]byte{0xAB}, l)}})
	}
	out = append(out, &pdu.DataSM{Header: hdr, Tags: pdu.Tags{1: make([]byte, 30000), 2: make([]byte, 30000), 3: make([]byte, 30000)}})
	out = append(out, &pdu.DataSM{Header: hdr, Tags: pdu.Tags{1: make([]byte, 32700), 2: make([]byte, 32780)}})
	sm := func(udh pdu.UserDataHeader, ml int) *pdu.SubmitSM {
		p := &pdu.SubmitSM{Header: hdr}
		p.ESMClass.UDHIndicator = udh != nil
		p.Message.UDHeader = udh
		p.Message.Message = bytes.Repeat([]byte{0x41}, ml)
		return p
	}
	for _, ml := range []int{0, 139, 140, 141, 255, 256} {
		out = append(out, sm(nil, ml))
	}
	for _, el := range []int{0, 1, 252, 253, 254, 255, 256} {
		out = append(out, sm(pdu.UserDataHeader{7: make([]byte, el)}, 0))
	}
	for _, c := range [][3]int{{120, 120, 10}, {120, 120, 11}, {120, 120, 140}, {125, 125, 0}, {125, 126, 0}, {126, 126, 0}, {100, 10, 140}, {100, 11, 140}, {5, 0, 140}, {0, 0, 140}} {
		out = append(out, sm(pdu.UserDataHeader{1: make([]byte, c[0]), 2: make([]byte, c[1])}, c[2]))
	}
	out = append(out, sm(pdu.UserDataHeader{}, 0), sm(pdu.UserDataHeader{}, 140))
	return out
}
