package main

// C05 / C14 / C15 / C16 — package smpp (conn.go) driven through a scripted transport.
//
//	conn [f<k>;]<callers> <event>…
//
// callers: comma separated <kind>:<seq>:<after>, kind s = Submit(EnquireLink), n = Send(DeliverSMResp), c = Close().
// events (executed in order; after each one the harness waits until the real goroutines have gone quiet):
//
//	sub<i>    start call i and wait until its frame reached the transport (the Write call is then HELD) or the call returned
//	wret<i>   let the held Write of call i return
//	ans<i>    the peer's response to call i becomes readable (only once, only after the request's octets arrived)
//	unsol:<seq>:<k>  bad:<seq>:<k>  fatal     peer-originated PDU / undecodable body / lost framing
//	dl<i>     call i's own context is cancelled        cancel   the parent context is cancelled
//	eof rerr  the transport's read side ends           brk      writes fail from now on
//	drain0 drain1   the application stops / resumes receiving from PDU()
//	settle    nothing (just wait)
//
// f<k>: the transport hands Watch at most k octets per Read (fragmentation).

import (
	"bytes"
	"context"
	"encoding/binary"
	"errors"
	"fmt"
	"io"
	"net"
	"reflect"
	"strings"
	"sync"
	"time"

	"verifharness/internal/canon"
	"verifharness/internal/gen"

	smpp "github.com/M2MGateway/go-smpp"
	"github.com/M2MGateway/go-smpp/pdu"
)

func init() {
	ops["conn"] = opConn
	ops["connburst"] = opConnBurst
	ops["connka"] = opConnKA
	ops["conndeadline"] = opConnDeadline
}

// ---------------------------------------------------------------- scripted transport

type writeRec struct {
	data []byte
}

type scriptConn struct {
	mu       sync.Mutex
	cond     *sync.Cond
	inbound  []byte
	readEnd  error // set: Read returns it once the buffer is empty
	closed   bool
	broken   bool
	frag     int
	idle     bool // Watch is blocked in Read with nothing to read
	reads    int
	endReads int // Read calls answered with readEnd
	readDL, armedDL time.Time // read deadline in force / last one armed with SetReadDeadline
	dlViolation     bool
	writes   []writeRec
	gates    map[int32]chan struct{} // held Write calls by sequence number
	arrived  map[int32]bool
	stream    []byte          // octets written and not yet re-framed (the peer's view)
	misframed bool            // the written stream lost framing
	partial   []chan struct{} // Write calls held because they left a frame unfinished
	activity int64
}

func newScriptConn(frag int) *scriptConn {
	c := &scriptConn{frag: frag, gates: map[int32]chan struct{}{}, arrived: map[int32]bool{}}
	c.cond = sync.NewCond(&c.mu)
	return c
}

// scriptTimeout is what a read deadline produces: a net.Error that calls itself temporary.
type scriptTimeout struct{}

func (scriptTimeout) Error() string   { return "scripted transport: i/o timeout" }
func (scriptTimeout) Timeout() bool   { return true }
func (scriptTimeout) Temporary() bool { return true }

func (c *scriptConn) Read(p []byte) (int, error) {
	c.mu.Lock()
	c.reads++
	if len(p) == 0 {
		c.mu.Unlock()
		return 0, nil
	}
	if len(c.inbound) == 0 && c.readEnd != nil && c.endReads > 0 {
		// a reader that keeps coming back after the transport ended gets the same answer, slowly and
		// without counting as progress (so a retry loop cannot keep the scenario "busy")
		err := c.readEnd
		c.endReads++
		c.mu.Unlock()
		time.Sleep(300 * time.Microsecond)
		return 0, err
	}
	defer c.mu.Unlock()
	for len(c.inbound) == 0 && c.readEnd == nil && !c.closed {
		if !c.readDL.Equal(c.armedDL) {
			c.dlViolation = true // about to park under a read deadline somebody else set
		}
		c.idle = true
		c.cond.Broadcast()
		c.cond.Wait()
	}
	c.idle = false
	c.activity++
	if len(c.inbound) > 0 {
		n := len(p)
		if n > len(c.inbound) {
			n = len(c.inbound)
		}
		if c.frag > 0 && n > c.frag {
			n = c.frag
		}
		copy(p, c.inbound[:n])
		c.inbound = c.inbound[n:]
		return n, nil
	}
	if c.closed {
		return 0, io.ErrClosedPipe
	}
	c.endReads++
	return 0, c.readEnd
}

func (c *scriptConn) Write(p []byte) (int, error) {
	c.mu.Lock()
	if c.broken || c.closed {
		c.activity++
		c.mu.Unlock()
		return 0, errors.New("scripted transport: write failed")
	}
	c.writes = append(c.writes, writeRec{append([]byte(nil), p...)})
	c.activity++
	// a writer parked on an unfinished frame is let go by the next Write call: somebody else got in between
	for _, g := range c.partial {
		close(g)
	}
	c.partial = nil
	// the peer's view of the connection is the octet stream, re-framed by command_length: a request has ARRIVED
	// (and can be answered) once its whole frame is in the stream at a frame boundary
	c.stream = append(c.stream, p...)
	var gate chan struct{}
	for len(c.stream) >= 16 && !c.misframed {
		l := int(binary.BigEndian.Uint32(c.stream[0:4]))
		if l < 16 || l > 65536 {
			c.misframed = true
			break
		}
		if len(c.stream) < l {
			break
		}
		id := binary.BigEndian.Uint32(c.stream[4:8])
		seq := int32(binary.BigEndian.Uint32(c.stream[12:16]))
		if id != 0x80000000 { // generic_nack from Watch is never held
			gate = make(chan struct{})
			c.gates[seq] = gate
			c.arrived[seq] = true
		}
		c.stream = c.stream[l:]
	}
	if len(c.stream) > 0 {
		// this call left a frame unfinished (never with one Write per frame): hold it until another Write comes
		gate = make(chan struct{})
		c.partial = append(c.partial, gate)
	}
	c.cond.Broadcast()
	c.mu.Unlock()
	if gate != nil {
		<-gate
	}
	return len(p), nil
}

// releaseAll lets every held Write return (end of a scenario).
func (c *scriptConn) releaseAll() {
	for s, g := range c.gates {
		close(g)
		delete(c.gates, s)
	}
	for _, g := range c.partial {
		close(g)
	}
	c.partial = nil
}

func (c *scriptConn) Close() error {
	c.mu.Lock()
	c.closed = true
	c.activity++
	c.cond.Broadcast()
	c.mu.Unlock()
	return nil
}

func (c *scriptConn) LocalAddr() net.Addr                { return nil }
func (c *scriptConn) RemoteAddr() net.Addr               { return nil }
// Deadlines are not enforced by the scripted transport (read timeouts are scripted events), but they are tracked: the read
// deadline in force while a Read is parked must be the one armed for that read with SetReadDeadline (by Watch, per ReadPDU).
func (c *scriptConn) SetDeadline(t time.Time) error {
	c.mu.Lock()
	c.readDL = t
	if c.idle {
		c.dlViolation = true // a parked Read had its deadline replaced under it
	}
	c.mu.Unlock()
	return nil
}
func (c *scriptConn) SetReadDeadline(t time.Time) error {
	c.mu.Lock()
	c.readDL, c.armedDL = t, t
	c.mu.Unlock()
	return nil
}
func (c *scriptConn) SetWriteDeadline(t time.Time) error { return nil }

func (c *scriptConn) feed(b []byte) {
	c.mu.Lock()
	c.inbound = append(c.inbound, b...)
	c.activity++
	c.cond.Broadcast()
	c.mu.Unlock()
}

// ---------------------------------------------------------------- scenario

type connCaller struct {
	kind     string
	seq      int32
	after    int
	started  bool
	returned bool
	result   string
	respSeq  int32
	ctx      context.Context
	cancel   context.CancelFunc
	answered bool
	req      pdu.Responsable // the request value of a Submit chain's first call (later calls of the goroutine re-submit it)
}

type connRun struct {
	mu        sync.Mutex
	tr        *scriptConn
	conn      *smpp.Conn
	callers   []*connCaller
	delivered []string
	qclosed   bool
	watchRet  bool
	panics    []string
	draining  bool
	drainCh   chan struct{}
	activity  int64
	parentCtx context.Context
	cancelAll context.CancelFunc
	seqCh     chan int32
	rawK      map[int32]string
}

func (r *connRun) note() {
	r.mu.Lock()
	r.activity++
	r.mu.Unlock()
}

func (r *connRun) guard(name string) {
	if e := recover(); e != nil {
		r.mu.Lock()
		r.panics = append(r.panics, name+":"+fmt.Sprint(e))
		r.activity++
		r.mu.Unlock()
	}
}

func connErrClass(err error) string {
	switch {
	case err == nil:
		return ""
	case err == pdu.ErrInvalidSequence:
		return "err:invalidseq"
	case err == smpp.ErrConnectionClosed:
		return "err:closed"
	case errors.Is(err, context.Canceled), errors.Is(err, context.DeadlineExceeded):
		return "err:ctx"
	}
	return "err:write"
}

func (r *connRun) callerOf(seq int32) int {
	for i, c := range r.callers {
		if c.seq == seq && c.kind != "n" {
			return i
		}
	}
	return -1
}

func (r *connRun) showInbound(p interface{}) string {
	seq := pdu.ReadSequence(p)
	if k, ok := r.rawK[seq]; ok {
		return fmt.Sprintf("%dp%s", seq, k)
	}
	if d, ok := p.(*pdu.DeliverSM); ok {
		return fmt.Sprintf("%dp%s", seq, d.ServiceType)
	}
	return fmt.Sprintf("%da%d", seq, r.callerOf(seq))
}

// stabilise waits until no observable activity for a few consecutive polls.
func (r *connRun) stabilise() {
	snap := func() int64 {
		r.mu.Lock()
		a := r.activity
		r.mu.Unlock()
		r.tr.mu.Lock()
		a += r.tr.activity
		r.tr.mu.Unlock()
		return a
	}
	last := snap()
	quiet := 0
	for i := 0; i < 4000 && quiet < 6; i++ {
		time.Sleep(500 * time.Microsecond)
		if s := snap(); s == last {
			quiet++
		} else {
			last, quiet = s, 0
		}
	}
}

func (r *connRun) consumer() {
	defer r.guard("consumer")
	for {
		r.mu.Lock()
		d, ch := r.draining, r.drainCh
		r.mu.Unlock()
		if !d {
			<-ch // wait for a drain toggle
			continue
		}
		select {
		case p, ok := <-r.conn.PDU():
			r.mu.Lock()
			if !ok {
				r.qclosed = true
				r.activity++
				r.mu.Unlock()
				return
			}
			r.delivered = append(r.delivered, r.showInbound(p))
			r.activity++
			r.mu.Unlock()
		case <-ch:
		}
	}
}

func (r *connRun) setDrain(b bool) {
	r.mu.Lock()
	r.draining = b
	old := r.drainCh
	r.drainCh = make(chan struct{})
	r.activity++
	r.mu.Unlock()
	close(old)
}

func (r *connRun) startCaller(i int) {
	c := r.callers[i]
	if c.started || (c.after >= 0 && !r.callers[c.after].returned) {
		return
	}
	c.started = true
	if c.kind != "n" {
		r.seqCh <- c.seq
	}
	go func() {
		defer r.guard(fmt.Sprintf("caller%d", i))
		var res string
		var rs int32
		switch c.kind {
		case "s":
			resp, err := r.conn.Submit(c.ctx, r.requestOf(i))
			if err != nil {
				res = connErrClass(err)
			} else {
				rs = pdu.ReadSequence(resp)
				r.mu.Lock()
				res = "resp:" + r.showInbound(resp)
				r.mu.Unlock()
			}
		case "n":
			err := r.conn.Send(&pdu.DeliverSMResp{Header: pdu.Header{Sequence: c.seq}})
			if err != nil {
				res = connErrClass(err)
			} else {
				res = "sent"
			}
		case "c":
			err := r.conn.Close()
			if err != nil {
				res = connErrClass(err)
				if res == "err:ctx" {
					res = "err:closed" // Close's own context is a child of the connection context: either error is legitimate
				}
			} else {
				rs = c.seq
				res = fmt.Sprintf("resp:%da%d", c.seq, i)
			}
		}
		r.mu.Lock()
		c.returned, c.result, c.respSeq = true, res, rs
		r.activity++
		r.mu.Unlock()
	}()
	// wait until the frame reached the transport or the call returned
	for k := 0; k < 4000; k++ {
		r.tr.mu.Lock()
		arrived := r.tr.arrived[c.seq] || len(r.tr.partial) > 0 // (parked on an unfinished frame: it will not get further)
		r.tr.mu.Unlock()
		r.mu.Lock()
		ret := c.returned
		r.mu.Unlock()
		if arrived || ret {
			break
		}
		time.Sleep(500 * time.Microsecond)
	}
}

// chainRoot: the first Submit of the run of consecutive Submit calls of one goroutine that call i belongs to.
func (r *connRun) chainRoot(i int) int {
	for r.callers[i].after >= 0 && r.callers[r.callers[i].after].kind == "s" && r.callers[i].kind == "s" {
		i = r.callers[i].after
	}
	return i
}

// requestOf: a goroutine that submits again re-submits the SAME request value (as a retry loop does): Submit has to stamp
// it with the next sequence number whatever it carried before.
func (r *connRun) requestOf(i int) pdu.Responsable {
	root := r.callers[r.chainRoot(i)]
	r.mu.Lock()
	defer r.mu.Unlock()
	if root.req == nil {
		root.req = callerRequest(root.seq)
	}
	return root.req
}

// callerRequest: what a Submit caller sends.  One in three carries a body (so that a frame is more than its
// header and a torn or interleaved write shows), the others are the header-only enquire_link.
func callerRequest(seq int32) pdu.Responsable {
	if seq%3 == 1 {
		return &pdu.SubmitSM{ServiceType: "x", Message: pdu.ShortMessage{Message: []byte("twenty octets of sm.")}}
	}
	return new(pdu.EnquireLink)
}

func frameOf(p interface{}) []byte {
	var b bytes.Buffer
	_, _ = pdu.Marshal(&b, p)
	return b.Bytes()
}

func opConn(args []string) (out string) {
	if len(args) < 1 {
		return "bad-op"
	}
	spec := args[0]
	frag := 0
	if strings.HasPrefix(spec, "f") && strings.Contains(spec, ";") {
		frag = atoi(spec[1:strings.Index(spec, ";")])
		spec = spec[strings.Index(spec, ";")+1:]
	}
	r := &connRun{tr: newScriptConn(frag), draining: true, drainCh: make(chan struct{}), seqCh: make(chan int32, 64), rawK: map[int32]string{}}
	for _, t := range strings.Split(spec, ",") {
		f := strings.Split(t, ":")
		if len(f) != 3 {
			return "bad-op"
		}
		after := -1
		if f[2] != "-" {
			after = atoi(f[2])
		}
		ctx, cancel := context.WithCancel(context.Background())
		r.callers = append(r.callers, &connCaller{kind: f[0], seq: int32(atoi(f[1])), after: after, ctx: ctx, cancel: cancel})
	}
	r.parentCtx, r.cancelAll = context.WithCancel(context.Background())
	r.conn = smpp.NewConn(r.parentCtx, r.tr)
	r.conn.NextSequence = func() int32 { return <-r.seqCh }
	go func() {
		defer r.guard("watch")
		r.conn.Watch()
		r.mu.Lock()
		r.watchRet = true
		r.activity++
		r.mu.Unlock()
	}()
	go r.consumer()
	r.stabilise()
	var fedUnsol []string
	var fedBad []int32
	rawBad := map[string]bool{}
	readEnded := false
	cancelSeen := false
	for _, ev := range args[1:] {
		switch {
		case ev == "settle":
		case ev == "fatal":
			h := make([]byte, 16)
			binary.BigEndian.PutUint32(h[0:], 16)
			binary.BigEndian.PutUint32(h[4:], 0x0000BEEF)
			binary.BigEndian.PutUint32(h[12:], 9999)
			r.tr.feed(h)
			readEnded = true
		case ev == "cancel":
			cancelSeen = true
			r.cancelAll()
			r.note()
		case ev == "eof":
			r.tr.mu.Lock()
			if r.tr.readEnd == nil {
				r.tr.readEnd = io.EOF
			}
			r.tr.activity++
			r.tr.cond.Broadcast()
			r.tr.mu.Unlock()
			readEnded = true
		case ev == "rerr":
			r.tr.mu.Lock()
			if r.tr.readEnd == nil {
				r.tr.readEnd = errors.New("scripted transport: read failed")
			}
			r.tr.activity++
			r.tr.cond.Broadcast()
			r.tr.mu.Unlock()
			readEnded = true
		case ev == "rtmo":
			// the read deadline fires: a net.Error with Timeout() and Temporary() true
			r.tr.mu.Lock()
			if r.tr.readEnd == nil {
				r.tr.readEnd = scriptTimeout{}
			}
			r.tr.activity++
			r.tr.cond.Broadcast()
			r.tr.mu.Unlock()
			readEnded = true
		case ev == "brk":
			r.tr.mu.Lock()
			r.tr.broken = true
			r.tr.mu.Unlock()
		case ev == "drain0":
			r.setDrain(false)
		case ev == "drain1":
			r.setDrain(true)
		case strings.HasPrefix(ev, "sub"):
			if i := atoi(ev[3:]); i >= 0 && i < len(r.callers) {
				r.startCaller(i)
			}
		case strings.HasPrefix(ev, "wret"):
			if i := atoi(ev[4:]); i >= 0 && i < len(r.callers) {
				r.tr.mu.Lock()
				g := r.tr.gates[r.callers[i].seq]
				delete(r.tr.gates, r.callers[i].seq)
				r.tr.activity++
				r.tr.mu.Unlock()
				if g != nil {
					close(g)
				}
			}
		case strings.HasPrefix(ev, "ans"):
			if i := atoi(ev[3:]); i >= 0 && i < len(r.callers) {
				c := r.callers[i]
				r.tr.mu.Lock()
				arrived := r.tr.arrived[c.seq]
				r.tr.mu.Unlock()
				if arrived && !c.answered {
					c.answered = true
					r.mu.Lock()
					if c.returned || c.kind == "n" {
						// a response to a call that already gave up matches no outstanding request: it belongs on PDU()
						fedUnsol = append(fedUnsol, fmt.Sprintf("%da%d", c.seq, i))
					}
					r.mu.Unlock()
					switch c.kind {
					case "s":
						r.tr.feed(frameOf(&pdu.EnquireLinkResp{Header: pdu.Header{Sequence: c.seq}}))
					case "c":
						r.tr.feed(frameOf(&pdu.UnbindResp{Header: pdu.Header{Sequence: c.seq}}))
					case "n":
						r.tr.feed(frameOf(&pdu.EnquireLinkResp{Header: pdu.Header{Sequence: c.seq}}))
					}
				}
			}
		case strings.HasPrefix(ev, "nak"):
			// the peer answers call i with a generic_nack carrying its sequence number (a legitimate answer)
			if i := atoi(ev[3:]); i >= 0 && i < len(r.callers) {
				c := r.callers[i]
				r.tr.mu.Lock()
				arrived := r.tr.arrived[c.seq]
				r.tr.mu.Unlock()
				if arrived && !c.answered {
					c.answered = true
					r.mu.Lock()
					if c.returned || c.kind == "n" {
						fedUnsol = append(fedUnsol, fmt.Sprintf("%da%d", c.seq, i))
					}
					r.mu.Unlock()
					r.tr.feed(frameOf(&pdu.GenericNACK{Header: pdu.Header{Sequence: c.seq, CommandStatus: 3}}))
				}
			}
		case strings.HasPrefix(ev, "dl"):
			if i := atoi(ev[2:]); i >= 0 && i < len(r.callers) {
				if r.callers[i].kind == "c" && r.callers[i].started && !r.callers[i].returned {
					// Close takes no context: its deadline is the one-second timeout it sets itself
					time.Sleep(1100 * time.Millisecond)
				}
				r.callers[i].cancel()
				r.note()
			}
		case strings.HasPrefix(ev, "unsol:"):
			f := strings.Split(ev, ":")
			if len(f) != 3 {
				return "bad-op"
			}
			r.tr.feed(frameOf(&pdu.DeliverSM{Header: pdu.Header{Sequence: int32(atoi(f[1]))}, ServiceType: f[2]}))
			fedUnsol = append(fedUnsol, f[1]+"p"+f[2])
		case strings.HasPrefix(ev, "raw:"):
			f := strings.Split(ev, ":")
			if len(f) != 3 && len(f) != 4 {
				return "bad-op"
			}
			b, err := canon.UnHex(f[2])
			if err != nil || len(b) < 16 {
				return "bad-op"
			}
			seq := int32(binary.BigEndian.Uint32(b[12:16]))
			r.mu.Lock()
			r.rawK[seq] = f[1]
			r.mu.Unlock()
			// what the property expects of this frame: stated by the script where the generator knows it by construction
			// (independent of the library), otherwise classified with the library's own ReadPDU
			expect := "?"
			if len(f) == 4 {
				expect = f[3]
			}
			if expect == "?" {
				if p, err := safeReadPDU(b); err == nil {
					expect = "ok"
				} else if p != nil {
					expect = "bad"
				} else {
					expect = "fatal"
				}
			}
			switch expect {
			case "ok":
				fedUnsol = append(fedUnsol, fmt.Sprintf("%dp%s", seq, f[1]))
			case "bad":
				fedBad = append(fedBad, seq)
				rawBad[fmt.Sprintf("%dp%s", seq, f[1])] = true
			default:
				readEnded = true
			}
			r.tr.feed(b)
		case strings.HasPrefix(ev, "bad:"):
			f := strings.Split(ev, ":")
			if len(f) != 3 {
				return "bad-op"
			}
			h := make([]byte, 17)
			binary.BigEndian.PutUint32(h[0:], 17)
			binary.BigEndian.PutUint32(h[4:], 0x00000005)
			binary.BigEndian.PutUint32(h[12:], uint32(int32(atoi(f[1]))))
			h[16] = 0x41 // service_type without its terminator
			r.tr.feed(h)
			fedBad = append(fedBad, int32(atoi(f[1])))
		default:
			return "bad-op"
		}
		r.stabilise()
	}
	// Done() as it is BEFORE the application finally drains
	done0 := false
	select {
	case <-r.conn.Done():
		done0 = true
	default:
	}
	closeReturned := false
	r.mu.Lock()
	for _, c := range r.callers {
		if c.kind == "c" && c.returned {
			closeReturned = true
		}
	}
	r.mu.Unlock()
	// final: the application drains, everything settles
	r.setDrain(true)
	r.stabilise()

	r.mu.Lock()
	defer r.mu.Unlock()
	r.tr.mu.Lock()
	defer r.tr.mu.Unlock()
	var cs []string
	for _, c := range r.callers {
		switch {
		case c.returned:
			cs = append(cs, c.result)
		case !c.started:
			cs = append(cs, "idle")
		default:
			cs = append(cs, "blocked")
		}
	}
	marker := ""
	fail := func(s string) {
		if marker == "" {
			marker = " !! " + s
		}
	}
	// wire: every Write call must carry exactly one whole frame
	var wire []string
	var stream []byte
	for _, w := range r.tr.writes {
		stream = append(stream, w.data...)
		if len(w.data) < 16 || int(binary.BigEndian.Uint32(w.data[0:4])) != len(w.data) {
			fail("C14:write-call-is-not-one-whole-frame")
			wire = append(wire, "torn")
			continue
		}
		id := binary.BigEndian.Uint32(w.data[4:8])
		seq := int32(binary.BigEndian.Uint32(w.data[12:16]))
		if id == 0x80000000 {
			wire = append(wire, fmt.Sprintf("n:%d", seq))
			if binary.BigEndian.Uint32(w.data[8:12]) == 0 {
				fail("C16:nack-with-status-zero")
			}
			continue
		}
		who := -1
		for i, c := range r.callers {
			if c.seq == seq {
				who = i
			}
		}
		wire = append(wire, fmt.Sprintf("r%d:%d", who, seq))
		// byte-identical to the Marshal encoding of the PDU that was passed
		var want []byte
		if who >= 0 {
			switch r.callers[who].kind {
			case "s":
				q := callerRequest(r.callers[r.chainRoot(who)].seq) // a fresh value of the type that call sent
				pdu.WriteSequence(q, seq)
				want = frameOf(q)
			case "n":
				want = frameOf(&pdu.DeliverSMResp{Header: pdu.Header{Sequence: seq}})
			case "c":
				want = frameOf(&pdu.Unbind{Header: pdu.Header{Sequence: seq}})
			}
		}
		if !bytes.Equal(want, w.data) {
			fail("C14:frame-differs-from-marshal-encoding")
		}
	}
	for i, c := range r.callers {
		if c.returned && c.seq > 0 && c.result == "err:invalidseq" {
			// every positive 31-bit number is a sequence number (SMPP v5 §3.2.1.4: 0x00000001..0x7FFFFFFF)
			fail(fmt.Sprintf("C05:positive-sequence-number-refused caller=%d seq=%d", i, c.seq))
		}
	}
	// C05: own response / no leak
	for i, c := range r.callers {
		if c.kind == "s" && c.returned && strings.HasPrefix(c.result, "resp:") && c.respSeq != c.seq {
			fail(fmt.Sprintf("C05:foreign-response caller=%d", i))
		}
	}
	connDone := false
	select {
	case <-r.conn.Done():
		connDone = true
	default:
	}
	for _, d := range r.delivered {
		if strings.Contains(d, "a") && !strings.Contains(d, "p") {
			var seq, who int
			fmt.Sscanf(d, "%da%d", &seq, &who)
			if who >= 0 && who < len(r.callers) {
				c := r.callers[who]
				ctxDone := c.ctx.Err() != nil
				if !(c.returned && !strings.HasPrefix(c.result, "resp:") && (ctxDone || connDone)) && c.kind != "n" {
					fail(fmt.Sprintf("C05:response-delivered-on-PDU caller=%d", who))
				}
			}
		}
	}
	for i, c := range r.callers {
		sameSeq := 0
		for _, o := range r.callers {
			if o.seq == c.seq {
				sameSeq++
			}
		}
		if _, held := r.tr.gates[c.seq]; held && c.returned && c.seq > 0 && sameSeq == 1 {
			// the call has returned to its goroutine while the transport still holds its Write: its octets may yet go out
			// behind the goroutine's next call, or after a call that reported failure
			fail(fmt.Sprintf("C14:call-returned-while-its-write-is-in-flight caller=%d", i))
		}
	}
	for i, c := range r.callers {
		if c.kind != "n" && c.started && !c.returned {
			_, held := r.tr.gates[c.seq]
			if c.answered && !held {
				fail(fmt.Sprintf("C05:submit-blocked-after-its-response caller=%d", i))
			}
			if (connDone || c.ctx.Err() != nil) && !held {
				fail(fmt.Sprintf("C15:submit-not-released caller=%d", i))
			}
		}
	}
	// C15
	if len(r.panics) > 0 {
		fail("C15:panic " + strings.ReplaceAll(r.panics[0], " ", "_"))
	}
	if closeReturned && !done0 {
		fail("C15:done-not-closed-after-close-returned")
	}
	closeStarted := false
	for _, c := range r.callers {
		if c.kind == "c" && c.started {
			closeStarted = true
		}
	}
	if r.watchRet && !readEnded && !cancelSeen && !closeStarted {
		// nothing the property lists as a terminating event happened (no EOF, read error, lost framing, cancel, Close): every
		// frame fed was decodable or answerable by generic_nack, yet the receive loop ended
		fail("C16:watch-ended-without-a-terminating-event")
	}
	if r.tr.dlViolation {
		// a Read was parked under a read deadline other than the one armed for it (SetDeadline from a write path moves the
		// READ deadline too): the read timeout no longer fires when ReadTimeout says, or fires WriteTimeout after an
		// unrelated write
		fail("C15:read-deadline-overwritten-outside-Watch")
	}
	if readEnded && (!connDone || !r.watchRet) {
		fail("C15:teardown-after-transport-end done=" + fmt.Sprint(connDone) + " watch=" + fmt.Sprint(r.watchRet))
	}
	// C16: unsolicited PDUs exactly once and in order (as far as Watch got), nack per bad frame with positive sequence
	var gotUnsol []string
	expected := map[string]bool{}
	for _, e := range fedUnsol {
		expected[e] = true
	}
	for _, d := range r.delivered {
		if strings.Contains(d, "p") || expected[d] {
			gotUnsol = append(gotUnsol, d)
		}
	}
	for _, d := range r.delivered {
		if rawBad[d] {
			fail("C16:undecodable-frame-delivered-to-application " + d)
		}
	}
	for i, g := range gotUnsol {
		if i >= len(fedUnsol) || fedUnsol[i] != g {
			fail("C16:unsolicited-order-or-duplicate")
			break
		}
	}
	if !r.watchRet && !connDone && len(gotUnsol) != len(fedUnsol) {
		fail("C16:unsolicited-not-delivered")
	}
	nacks := map[int32]int{}
	for _, w := range wire {
		if strings.HasPrefix(w, "n:") {
			nacks[int32(atoi(w[2:]))]++
		}
	}
	if !r.watchRet && !r.tr.broken {
		want := map[int32]int{}
		for _, s := range fedBad {
			if s > 0 {
				want[s]++
			}
		}
		for s, n := range want {
			if nacks[s] != n {
				fail(fmt.Sprintf("C16:nack-count seq=%d", s))
			}
		}
		for s, n := range nacks {
			if want[s] != n {
				fail(fmt.Sprintf("C16:unexpected-nack seq=%d", s))
			}
		}
	}
	watch := "running"
	if r.watchRet {
		watch = "returned"
	}
	show := func(l []string) string {
		if len(l) == 0 {
			return "-"
		}
		return strings.Join(l, ",")
	}
	// release everything still held so the goroutines can end
	r.tr.releaseAll()
	r.tr.closed = true
	r.tr.cond.Broadcast()
	go r.cancelAll()
	return fmt.Sprintf("callers=%s wire=%s delivered=%s watch=%s done0=%v done=%v qclosed=%v panic=%v",
		strings.Join(cs, " "), show(wire), show(r.delivered), watch, done0, connDone, r.qclosed, len(r.panics) > 0) + marker
}

// ---------------------------------------------------------------- generators

type genCaller struct {
	kind             string
	seq, after       int
	stage            int // 0 idle, 1 held in Write, 2 waiting, 3 returned
	answered, ownDon bool
}

type connProfile struct {
	submit, send, close int // how many calls of each kind (upper bounds)
	badSeqPct           int
	unsolPct, badPct    int
	teardownPct         int
	drainPct            int
	events              int
	frag                bool
	raw                 bool
	lateAnswer          bool
}

// genConnScenario builds one scenario line.  It tracks enough abstract state to avoid the situations in which Go's
// select may legitimately go either way (a boxed response together with a cancelled context; a ready consumer
// together with a cancelled context), so that the outcome is determined by the script.
func genConnScenario(r *gen.Rng, p connProfile) string {
	var cs []*genCaller
	used := map[int]bool{}
	newSeq := func() int {
		for {
			s := r.Pick(1, 2, 3, 1000, 65536, 0x7FFFFFFF, r.Range(1, 100000))
			if !used[s] {
				used[s] = true
				return s
			}
		}
	}
	add := func(kind string, n int) {
		for i := 0; i < n; i++ {
			c := &genCaller{kind: kind, after: -1}
			c.seq = newSeq()
			if kind != "c" && r.Chance(p.badSeqPct) {
				c.seq = r.Pick(0, -1, -2147483648)
			}
			// a later call of the same goroutine
			if len(cs) > 0 && r.Chance(35) {
				c.after = r.Intn(len(cs))
				for _, o := range cs {
					if o.after == c.after {
						c.after = -1 // one successor per call keeps threads linear
					}
				}
			}
			cs = append(cs, c)
		}
	}
	add("s", r.Range(min1(p.submit), p.submit))
	add("n", r.Range(0, p.send))
	add("c", r.Range(0, p.close))
	if len(cs) == 0 {
		add("s", 1)
	}
	var ev []string
	if p.lateAnswer && len(cs) > 0 && cs[0].kind == "s" && cs[0].seq > 0 && cs[0].after < 0 {
		// a call that gives up after its request went out: whatever arrives for its number later matches no outstanding request
		ev = append(ev, "sub0", "wret0", "dl0")
		cs[0].stage, cs[0].ownDon = 3, true
	}
	connDone, readEnded, drain, broken, watchGone := false, false, true, false, false
	offeringBlocked := false
	boxedHeld := func() bool {
		for _, c := range cs {
			if c.stage == 1 && c.answered && c.kind != "n" {
				return true
			}
		}
		return false
	}
	// a held caller whose own context is already done: if the connection context is cancelled as well before its Write
	// returns, Submit's select finds two ready cases and Go picks either
	heldOwnDone := func() bool {
		for _, c := range cs {
			if c.stage == 1 && c.ownDon && c.kind != "n" {
				return true
			}
		}
		return false
	}
	// a returning Close cancels the connection context
	closeWouldRace := func() bool { return boxedHeld() || heldOwnDone() }
	// a Close whose unbind_resp is on its way (queued behind a blocked offer, or boxed while its Write is held) will cancel
	// the context and close the transport as soon as it gets it: anything fed AFTER that answer races with the teardown
	closeAnswerPending := func() bool {
		for _, c := range cs {
			if c.kind == "c" && c.answered && c.stage < 3 {
				return true
			}
		}
		return false
	}
	unsolK := 0
	// what a returning close call does
	closeReturns := func(c *genCaller, ok bool) {
		if ok {
			readEnded = true
			watchGone = true
		}
		connDone = true
	}
	markReturnedByDone := func() {
		for _, c := range cs {
			if c.stage == 2 {
				c.stage = 3
				if c.kind == "c" {
					closeReturns(c, false)
				}
			}
		}
	}
	for step := 0; step < p.events; step++ {
		choice := r.Intn(100)
		switch {
		case choice < 30: // start a call
			var idle []int
			for i, c := range cs {
				if c.stage == 0 && (c.after < 0 || cs[c.after].stage == 3) {
					idle = append(idle, i)
				}
			}
			if len(idle) == 0 {
				continue
			}
			i := idle[r.Intn(len(idle))]
			c := cs[i]
			if c.kind == "c" && closeWouldRace() {
				continue // a returning Close cancels the connection context: not while a held caller has a boxed response
			}
			ev = append(ev, fmt.Sprintf("sub%d", i))
			if c.seq <= 0 || broken {
				c.stage = 3
				if c.kind == "c" {
					closeReturns(c, false)
					markReturnedByDone()
				}
			} else {
				c.stage = 1
			}
		case choice < 50: // a held Write returns
			var held []int
			for i, c := range cs {
				if c.stage == 1 {
					held = append(held, i)
				}
			}
			if len(held) == 0 {
				continue
			}
			i := held[r.Intn(len(held))]
			c := cs[i]
			if c.kind == "c" {
				others := false
				for j, o := range cs {
					if j != i && o.stage == 1 && (o.answered || o.ownDon) && o.kind != "n" {
						others = true
					}
				}
				if others {
					continue
				}
			}
			ev = append(ev, fmt.Sprintf("wret%d", i))
			switch {
			case c.kind == "n":
				c.stage = 3
			case c.answered && !watchGone && !offeringBlocked:
				c.stage = 3 // takes its boxed response (no context is cancelled: see the teardown guards)
				if c.kind == "c" {
					closeReturns(c, true)
					markReturnedByDone()
				}
			case connDone || c.ownDon:
				c.stage = 3
				if c.kind == "c" {
					closeReturns(c, false)
					markReturnedByDone()
				}
			default:
				c.stage = 2
			}
		case choice < 70: // the peer answers
			if closeAnswerPending() {
				continue
			}
			var cand []int
			for i, c := range cs {
				if c.stage >= 1 && !c.answered && c.seq > 0 && c.kind != "n" {
					// a held caller with a cancelled context must not also get a boxed response
					if c.stage == 1 && (connDone || c.ownDon) {
						continue
					}
					// after the connection context is done an answer to a departed caller would be offered to a ready consumer
					if connDone && drain && !watchGone {
						continue
					}
					cand = append(cand, i)
				}
			}
			if len(cand) == 0 {
				continue
			}
			i := cand[r.Intn(len(cand))]
			c := cs[i]
			if c.kind == "c" && closeWouldRace() {
				continue // Close would cancel while another caller holds a boxed response
			}
			if r.Chance(25) {
				ev = append(ev, fmt.Sprintf("nak%d", i))
			} else {
				ev = append(ev, fmt.Sprintf("ans%d", i))
			}
			c.answered = true
			if c.stage == 2 && !watchGone && !offeringBlocked {
				c.stage = 3
				if c.kind == "c" {
					closeReturns(c, true)
					markReturnedByDone()
				}
			}
		case choice < 70+p.unsolPct:
			if (connDone && drain && !watchGone) || closeAnswerPending() {
				continue
			}
			unsolK++
			ev = append(ev, fmt.Sprintf("unsol:%d:%d", newSeq(), unsolK))
			if !drain && !watchGone {
				offeringBlocked = true
				if connDone {
					watchGone, offeringBlocked = true, false
				}
			}
		case choice < 70+p.unsolPct+p.badPct && p.raw && r.Chance(50):
			// a valid frame of a random type with damaged body octets (framing and command_id intact)
			if (connDone && drain && !watchGone) || closeAnswerPending() {
				continue
			}
			frame, expect := rawMutatedFrame(r, int32(newSeq()))
			unsolK++
			if expect == "?" {
				ev = append(ev, fmt.Sprintf("raw:%d:%s", unsolK, canon.Hex(frame)))
			} else {
				ev = append(ev, fmt.Sprintf("raw:%d:%s:%s", unsolK, canon.Hex(frame), expect))
			}
			pp, err := safeReadPDU(frame)
			if expect == "bad" {
				pp, err = new(pdu.GenericNACK), fmt.Errorf("undecodable by construction")
			} else if expect == "ok" {
				err = nil
			}
			if err == nil {
				if !drain && !watchGone {
					offeringBlocked = true
					if connDone {
						watchGone, offeringBlocked = true, false
					}
				}
			} else if pp == nil {
				if !offeringBlocked {
					readEnded, watchGone, connDone = true, true, true
					markReturnedByDone()
				}
			} else if connDone && !offeringBlocked {
				watchGone = true
			}
		case choice < 70+p.unsolPct+p.badPct:
			if closeAnswerPending() {
				continue
			}
			unsolK++
			ev = append(ev, fmt.Sprintf("bad:%d:%d", r.Pick(newSeq(), newSeq(), 0, -5), unsolK))
			if connDone && !offeringBlocked {
				watchGone = true
			}
		case choice < 70+p.unsolPct+p.badPct+p.drainPct:
			if !drain && offeringBlocked && closeWouldRace() {
				continue
			}
			drain = !drain
			if drain {
				ev = append(ev, "drain1")
				if offeringBlocked {
					offeringBlocked = false
					// responses queued behind the blocked PDU now reach their waiting callers
					for _, c := range cs {
						if c.stage == 2 && c.answered {
							if c.kind == "c" && closeWouldRace() {
								// cannot happen: guarded when the answer was scripted
							}
							c.stage = 3
							if c.kind == "c" {
								closeReturns(c, true)
								markReturnedByDone()
							}
						}
					}
				}
			} else {
				ev = append(ev, "drain0")
			}
		case choice < 70+p.unsolPct+p.badPct+p.drainPct+p.teardownPct:
			if boxedHeld() {
				continue
			}
			// a held caller whose own context is already cancelled would find both contexts done when its Write returns
			if heldOwnDone() {
				continue
			}
			// callers whose response is queued behind a blocked offer would see both at drain1: keep it simple
			if offeringBlocked {
				any := false
				for _, c := range cs {
					if c.answered && c.stage <= 2 {
						any = true
					}
				}
				if any {
					continue
				}
			}
			switch r.Intn(7) {
			case 0:
				ev = append(ev, "eof")
				if !offeringBlocked {
					readEnded, watchGone, connDone = true, true, true
					markReturnedByDone()
				} else {
					readEnded = true
				}
			case 1:
				ev = append(ev, r.PickStr("rerr", "rtmo"))
				if !offeringBlocked {
					readEnded, watchGone, connDone = true, true, true
					markReturnedByDone()
				} else {
					readEnded = true
				}
			case 2:
				if (connDone && drain && !watchGone) || closeAnswerPending() {
					continue
				}
				ev = append(ev, "fatal")
				if !offeringBlocked {
					readEnded, watchGone, connDone = true, true, true
					markReturnedByDone()
				}
			case 3:
				ev = append(ev, "cancel")
				connDone = true
				if offeringBlocked {
					watchGone, offeringBlocked = true, false
				}
				markReturnedByDone()
			case 4:
				ev = append(ev, "brk")
				broken = true
			default:
				// Close has no context of its own: its deadline is the one second it allows the unbind, which the harness lets pass
				// in real time — and which then passes for EVERY Close in flight, so it is scripted only for a lone one
				closesInFlight := 0
				for _, c := range cs {
					if c.kind == "c" && c.stage >= 1 && c.stage <= 2 {
						closesInFlight++
					}
				}
				var w []int
				for i, c := range cs {
					if c.stage >= 1 && c.stage <= 2 && !c.ownDon && !(c.stage == 1 && c.answered) && !(c.answered && offeringBlocked) &&
						!(c.stage == 1 && connDone) && !(c.stage == 1 && closeAnswerPending()) && !(c.kind == "c" && !r.Chance(8)) &&
						!(c.kind == "c" && closesInFlight > 1) {
						w = append(w, i)
					}
				}
				if len(w) == 0 {
					continue
				}
				i := w[r.Intn(len(w))]
				ev = append(ev, fmt.Sprintf("dl%d", i))
				cs[i].ownDon = true
				if cs[i].stage == 2 {
					cs[i].stage = 3
					if cs[i].kind == "c" {
						closeReturns(cs[i], false)
						markReturnedByDone()
					}
				}
			}
		}
	}
	spec := make([]string, len(cs))
	for i, c := range cs {
		a := "-"
		if c.after >= 0 {
			a = fmt.Sprint(c.after)
		}
		spec[i] = fmt.Sprintf("%s:%d:%s", c.kind, c.seq, a)
	}
	pre := ""
	if p.frag {
		pre = fmt.Sprintf("f%d;", r.Pick(1, 2, 3, 7, 16, 17, 40))
	}
	_ = readEnded
	return "conn " + pre + strings.Join(spec, ",") + " " + strings.Join(ev, " ")
}

func min1(n int) int {
	if n < 1 {
		return n
	}
	return 1
}

// every interleaving of {sub, wret, ans} of two concurrent Submit calls (sub first for each): the C05 quantifier for n = 2
func connInterleavings2(emit func(string)) {
	a := []string{"sub0", "wret0", "ans0"}
	b := []string{"sub1", "wret1", "ans1"}
	orders := func(x []string) [][]string { return [][]string{{x[0], x[1], x[2]}, {x[0], x[2], x[1]}} }
	var merge func(p, q, acc []string)
	merge = func(p, q, acc []string) {
		if len(p) == 0 && len(q) == 0 {
			emit("conn s:11:-,s:12:- " + strings.Join(acc, " "))
			return
		}
		if len(p) > 0 {
			merge(p[1:], q, append(append([]string(nil), acc...), p[0]))
		}
		if len(q) > 0 {
			merge(p, q[1:], append(append([]string(nil), acc...), q[0]))
		}
	}
	for _, x := range orders(a) {
		for _, y := range orders(b) {
			merge(x, y, nil)
		}
	}
}

func init() {
	gens["C05"] = func(r *gen.Rng, tier string, emit func(string)) {
		connInterleavings2(emit)
		// the ends of the sequence-number range are ordinary numbers
		emit("conn s:2147483647:-,s:1:-,s:2147483646:- sub0 sub1 sub2 wret0 wret1 wret2 ans2 ans1 ans0")
		emit("conn n:2147483647:-,n:1:- sub0 sub1 wret0 wret1")
		// clause 3: responses built for several pipelined requests before any is sent
		emit("respbatch 41 42 2147483647")
		for i := 0; i < scale(tier, 3, 20); i++ {
			emit(fmt.Sprintf("respbatch %d %d %d %d", r.Range(1, 1000), r.Range(1, 1<<30), r.Range(1, 1000), r.Range(1, 1<<30)))
		}
		p := connProfile{submit: 5, unsolPct: 10, drainPct: 6, events: 16}
		for i := 0; i < scale(tier, 250, 1500); i++ {
			p.submit = r.Range(1, 6)
			p.events = r.Range(6, 22)
			emit(genConnScenario(r, p))
		}
	}
	gens["C14"] = func(r *gen.Rng, tier string, emit func(string)) {
		// a Submit whose context ends while its Write is still held has NOT returned (its frame may yet go out): the same
		// goroutine's next call must not start, let alone overtake it
		for _, sc := range []string{
			"conn s:5:- sub0 dl0",
			"conn s:5:-,n:7:0 sub0 dl0 sub1",
			"conn s:4:-,s:8:0 sub0 dl0 sub1",
			"conn s:5:-,n:7:0 sub0 dl0 sub1 wret0 sub1 wret1",
			"conn s:4:-,n:9:-,n:7:0 sub0 sub1 dl0 sub2 wret1 wret0 sub2 wret2",
		} {
			emit(sc)
		}
		for i := 0; i < scale(tier, 200, 1200); i++ {
			emit(genConnScenario(r, connProfile{submit: r.Range(0, 3), send: r.Range(1, 5), badSeqPct: 25, badPct: 8, teardownPct: 6, events: r.Range(6, 20)}))
		}
		for i := 0; i < scale(tier, 6, 60); i++ {
			emit(fmt.Sprintf("connburst %d %d %d", r.Range(2, 12), r.Range(5, 40), r.Intn(1<<30)))
		}
		for mask := 0; mask < 64; mask++ {
			emit(fmt.Sprintf("conndeadline %d", mask))
		}
	}
	gens["C15"] = func(r *gen.Rng, tier string, emit func(string)) {
		for _, v := range []string{"answered-cancel", "answered-eof", "unanswered", "unanswered-unbind-ok", "unanswered-undrained", "writefail"} {
			emit("connka " + v)
		}
		for i := 0; i < scale(tier, 300, 1500); i++ {
			emit(genConnScenario(r, connProfile{submit: r.Range(0, 3), send: r.Range(0, 1), close: r.Range(0, 2), unsolPct: 8, badPct: 4, drainPct: 6, teardownPct: 12, events: r.Range(4, 18)}))
		}
	}
	gens["C16"] = func(r *gen.Rng, tier string, emit func(string)) {
		// a request that failed locally (writes broken / non-positive number) or was given up leaves nothing behind: the peer
		// may use that number for its own PDUs afterwards, and each is delivered
		emit("conn s:7:- brk sub0 unsol:7:1 unsol:7:2 unsol:8:3")
		emit("conn f7;s:7:-,s:9:0 brk sub0 sub1 unsol:7:1 unsol:9:2 unsol:7:3")
		emit("conn s:7:- sub0 wret0 dl0 unsol:7:1 unsol:7:2 unsol:8:3")
		for i := 0; i < scale(tier, 300, 1500); i++ {
			emit(genConnScenario(r, connProfile{submit: r.Range(0, 3), unsolPct: 14, badPct: 14, drainPct: 4, teardownPct: 3, events: r.Range(5, 24), frag: true, raw: true, lateAnswer: r.Chance(25)}))
		}
	}
}

// ---------------------------------------------------------------- C14: deadline calls that fail

// dlConn records what is written and lets the k-th SetWriteDeadline call fail when bit k of mask is set.
type dlConn struct {
	scriptConn
	mask  int
	calls int
	out   []byte
}

func (c *dlConn) Write(p []byte) (int, error) { c.out = append(c.out, p...); return len(p), nil }
func (c *dlConn) SetWriteDeadline(t time.Time) error {
	k := c.calls
	c.calls++
	if c.mask>>uint(k)&1 == 1 {
		return errors.New("scripted transport: set deadline failed")
	}
	return nil
}
func (c *dlConn) SetDeadline(t time.Time) error { return c.SetWriteDeadline(t) }

// opConnDeadline: `conndeadline <mask>` — three Send calls in a row on a transport some of whose deadline calls fail: whatever
// the pattern, the octets on the wire are exactly the frames of the calls that returned nil, in order (a call that reports
// failure has contributed nothing, a frame on the wire belongs to a call that reported success).
func opConnDeadline(args []string) string {
	if len(args) != 1 {
		return "bad-op"
	}
	tr := &dlConn{mask: atoi(args[0])}
	tr.cond = sync.NewCond(&tr.mu)
	conn := smpp.NewConn(context.Background(), tr)
	pdus := []interface{}{
		&pdu.EnquireLink{Header: pdu.Header{Sequence: 1}},
		&pdu.SubmitSM{Header: pdu.Header{Sequence: 2}, ServiceType: "x", Message: pdu.ShortMessage{Message: []byte("hello")}},
		&pdu.DeliverSMResp{Header: pdu.Header{Sequence: 3}},
	}
	var want []byte
	res := ""
	for _, p := range pdus {
		f := frameOf(p)
		if err := conn.Send(p); err == nil {
			want = append(want, f...)
			res += "1"
		} else {
			res += "0"
		}
	}
	out := fmt.Sprintf("results=%s octets=%d", res, len(tr.out))
	if !bytes.Equal(want, tr.out) {
		return out + " !! C14:wire-differs-from-frames-of-successful-calls mask=" + args[0]
	}
	return out
}

// ---------------------------------------------------------------- C14: unscripted burst of concurrent senders

// burstConn holds each writer after its Write until another writer has written or a grace period passes.
type burstConn struct {
	mu     sync.Mutex
	cond   *sync.Cond
	writes [][]byte
	count  int
}

func (c *burstConn) Read(p []byte) (int, error) { select {} }
func (c *burstConn) Write(p []byte) (int, error) {
	c.mu.Lock()
	c.count++
	mine := c.count
	slot := len(c.writes)
	c.writes = append(c.writes, nil)
	c.cond.Broadcast()
	deadline := time.Now().Add(300 * time.Microsecond)
	for c.count == mine && time.Now().Before(deadline) {
		c.mu.Unlock()
		time.Sleep(20 * time.Microsecond)
		c.mu.Lock()
	}
	// the octets are consumed at the END of the call (io.Writer lets the callee read p until it returns)
	c.writes[slot] = append([]byte(nil), p...)
	c.mu.Unlock()
	return len(p), nil
}
func (c *burstConn) Close() error                       { return nil }
func (c *burstConn) LocalAddr() net.Addr                { return nil }
func (c *burstConn) RemoteAddr() net.Addr               { return nil }
func (c *burstConn) SetDeadline(t time.Time) error      { return nil }
func (c *burstConn) SetReadDeadline(t time.Time) error  { return nil }
func (c *burstConn) SetWriteDeadline(t time.Time) error { return nil }

// opConnBurst: `connburst <goroutines> <calls per goroutine> <seed>` — implementation only.  g goroutines call Send
// with PDUs of mixed types and sizes (some with non-positive sequence numbers); the stream the peer saw must be a
// concatenation of whole frames, each the Marshal encoding of one PDU of a successful call, once, per goroutine in order.
func opConnBurst(args []string) string {
	if len(args) != 3 {
		return "bad-op"
	}
	g, per := atoi(args[0]), atoi(args[1])
	rng := gen.New(uint64(atoi(args[2])))
	tr := &burstConn{}
	tr.cond = sync.NewCond(&tr.mu)
	conn := smpp.NewConn(context.Background(), tr)
	type call struct {
		p            interface{}
		want         []byte
		bad          bool
		marshalFails bool
	}
	plan := make([][]call, g)
	seq := int32(1)
	for i := range plan {
		for k := 0; k < per; k++ {
			var p interface{}
			s := seq
			seq++
			bad := rng.Chance(10)
			if bad {
				s = int32(rng.Pick(0, -1, -77))
			}
			unmarshalable := !bad && rng.Chance(8)
			switch rng.Intn(4) {
			case 0:
				p = &pdu.EnquireLink{Header: pdu.Header{Sequence: s}}
			case 1:
				p = &pdu.DeliverSMResp{Header: pdu.Header{Sequence: s}, MessageID: string(rng.NulFree(rng.Pick(0, 5, 64)))}
			case 2:
				p = &pdu.SubmitSM{Header: pdu.Header{Sequence: s}, ServiceType: "x", Message: pdu.ShortMessage{Message: rng.Bytes(rng.Pick(0, 1, 70, 140))},
					Tags: pdu.Tags{0x0424: rng.Bytes(rng.Pick(1, 300, 5000, 20000))}}
			default:
				p = &pdu.DataSM{Header: pdu.Header{Sequence: s}, Tags: pdu.Tags{0x0424: rng.Bytes(rng.Pick(1, 10, 4090, 4100))}}
			}
			if unmarshalable {
				// a value Marshal refuses (TLV longer than its length field): the call fails, nothing may reach the transport
				p = &pdu.DataSM{Header: pdu.Header{Sequence: s}, Tags: pdu.Tags{0x0424: make([]byte, 0x10000)}}
			}
			c := call{p: p, bad: bad || unmarshalable, marshalFails: unmarshalable}
			if !c.bad {
				c.want = frameOf(p)
			}
			plan[i] = append(plan[i], c)
		}
	}
	marker := ""
	var mmu sync.Mutex
	fail := func(s string) {
		mmu.Lock()
		if marker == "" {
			marker = " !! " + s
		}
		mmu.Unlock()
	}
	var wg sync.WaitGroup
	start := make(chan struct{})
	for i := range plan {
		wg.Add(1)
		go func(i int) {
			defer wg.Done()
			<-start
			for _, c := range plan[i] {
				err := conn.Send(c.p)
				if c.bad && !c.marshalFails && err != pdu.ErrInvalidSequence {
					fail("C14:non-positive-sequence-not-refused")
				}
				if c.marshalFails && err == nil {
					fail("C14:unmarshalable-pdu-sent")
				}
				if !c.bad && err != nil {
					fail("C14:send-failed")
				}
			}
		}(i)
	}
	close(start)
	wg.Wait()
	// every Write call one whole frame; the stream a concatenation of the expected frames, per goroutine in order
	next := make([]int, g)
	for _, w := range tr.writes {
		if len(w) < 16 || int(binary.BigEndian.Uint32(w[0:4])) != len(w) {
			fail("C14:write-call-is-not-one-whole-frame")
			break
		}
		found := false
		for i := range plan {
			for next[i] < len(plan[i]) && plan[i][next[i]].bad {
				next[i]++
			}
			if next[i] < len(plan[i]) && bytes.Equal(plan[i][next[i]].want, w) {
				next[i]++
				found = true
				break
			}
		}
		if !found {
			fail("C14:frame-not-the-next-frame-of-any-goroutine")
			break
		}
	}
	for i := range plan {
		for next[i] < len(plan[i]) && plan[i][next[i]].bad {
			next[i]++
		}
		if next[i] != len(plan[i]) && marker == "" {
			fail("C14:frame-missing")
		}
	}
	return fmt.Sprintf("burst goroutines=%d calls=%d writes=%d", g, g*per, len(tr.writes)) + marker
}

// rawMutatedFrame: a representable PDU of a random type, marshalled, then damaged in its body; the header keeps a
// known command_id, the given sequence number and the real length.
func rawMutatedFrame(r *gen.Rng, seq int32) ([]byte, string) {
	if r.Chance(30) {
		return udhFrame(r, seq), "?"
	}
	if r.Chance(15) {
		// framing and command_id intact, the body missing altogether: command_length 16 for a command with mandatory
		// fields is undecodable; for enquire_link / unbind (no body at all) it is the whole PDU
		f := make([]byte, 16)
		putBE32(f, 16)
		id := r.Pick(0x04, 0x05, 0x21, 0x103, 0x80000004, 0x80000005, 0x02, 0x09, 0x15, 0x06)
		putBE32(f[4:], uint32(id))
		putBE32(f[12:], uint32(seq))
		if id == 0x15 || id == 0x06 {
			return f, "ok"
		}
		return f, "bad"
	}
	if r.Chance(12) {
		// a valid frame whose LAST optional parameter announces more value octets than the frame holds (at least one is
		// there): the TLV is cut, the frame is undecodable
		for {
			p := r.PDU(randType(r), gen.Representable)
			v := reflect.ValueOf(p).Elem()
			has := false
			k := r.Range(2, 12)
			for i := 0; i < v.NumField(); i++ {
				if t, ok := v.Field(i).Addr().Interface().(*pdu.Tags); ok {
					*t = pdu.Tags{uint16(r.Pick(0x0204, 0x0424, 0x1400, 5)): r.Bytes(k)}
					has = true
				}
			}
			if !has {
				continue
			}
			v.FieldByName("Header").Set(reflect.ValueOf(pdu.Header{Sequence: seq}))
			f, cls, _, _ := doMarshal(p)
			if cls != "nil" || len(f) > 300 {
				continue
			}
			g := append([]byte{}, f[:len(f)-r.Range(1, k-1)]...)
			putBE32(g, uint32(len(g)))
			return g, "bad"
		}
	}
	if r.Chance(25) {
		// a valid frame WITHOUT optional parameters, cut short by 1..3 octets (command_length restated): the mandatory
		// part is incomplete whichever field the cut falls in — in particular a trailing single-octet field
		for {
			p := r.PDU(randType(r), gen.Representable)
			v := reflect.ValueOf(p).Elem()
			for k := 0; k < v.NumField(); k++ {
				if _, ok := v.Field(k).Addr().Interface().(*pdu.Tags); ok {
					v.Field(k).Set(reflect.Zero(v.Field(k).Type()))
				}
			}
			v.FieldByName("Header").Set(reflect.ValueOf(pdu.Header{Sequence: seq}))
			f, cls, _, _ := doMarshal(p)
			if cls != "nil" || len(f) <= 16 || len(f) > 300 {
				continue
			}
			cut := r.Range(1, 3)
			if cut > len(f)-16 {
				cut = len(f) - 16
			}
			g := append([]byte{}, f[:len(f)-cut]...)
			putBE32(g, uint32(len(g)))
			return g, "bad"
		}
	}
	for {
		f, _ := validFrame(r, gen.Representable)
		if len(f) > 260 {
			continue
		}
		id := be32(f[4:])
		g := mutate(r, f, true)
		if len(g) < 16 || len(g) > 400 {
			continue
		}
		putBE32(g[4:], id)
		putBE32(g[8:], 0)
		putBE32(g[12:], uint32(seq))
		putBE32(g, uint32(len(g)))
		return g, "?"
	}
}

// udhFrame: a deliver_sm / submit_sm with the UDH indicator set whose sm_length, UDHL and element lengths are chosen
// independently of one another (consistent, too short, too long): the user-data-header decoder's length arithmetic.
func udhFrame(r *gen.Rng, seq int32) []byte {
	body := []byte{0, 0, 0, 0, 0, 0, 0, byte(r.Pick(0x40, 0x40, 0x43, 0xC0)), 0, 0, 0, 0, 0, 0, byte(r.Pick(0, 0, 4, 8)), 0}
	var ud []byte
	udhl := r.Pick(0, 1, 2, 3, 5, 5, 6, 7, 10, 255)
	ud = append(ud, byte(udhl))
	for len(ud) < r.Pick(1, 3, 6, 7, 8, 12) {
		switch r.Intn(3) {
		case 0:
			ud = append(ud, 0x00, 0x03, byte(r.Intn(256)), 2, byte(r.Range(0, 3)))
		case 1:
			ud = append(ud, 0x08, 0x04, 0, byte(r.Intn(256)), 2, 1)
		default:
			ud = append(ud, byte(r.Pick(0, 8, 0x24)), byte(r.Pick(0, 1, 3, 4, 200)))
			ud = append(ud, r.Bytes(r.Intn(4))...)
		}
	}
	ud = append(ud, r.Bytes(r.Pick(0, 0, 2, 5))...)
	smLen := r.Pick(len(ud), len(ud), len(ud), 0, 1, 2, 3, len(ud)-1, len(ud)+1, 255)
	if smLen < 0 {
		smLen = 0
	}
	body = append(body, byte(smLen))
	body = append(body, ud...)
	if r.Chance(20) {
		body = append(body, 0x02, 0x04, 0x00, 0x01, 0x41) // a TLV behind the short message
	}
	f := make([]byte, 16, 16+len(body))
	putBE32(f, uint32(16+len(body)))
	putBE32(f[4:], uint32(r.Pick(5, 4)))
	putBE32(f[12:], uint32(seq))
	return append(f, body...)
}

// safeReadPDU classifies a frame with the library's own decoder; a panic counts as an undecodable body.
func safeReadPDU(b []byte) (p interface{}, err error) {
	defer func() {
		if e := recover(); e != nil {
			p, err = new(pdu.GenericNACK), fmt.Errorf("panic: %v", e)
		}
	}()
	return pdu.ReadPDU(bytes.NewReader(b))
}

// ---------------------------------------------------------------- C15: the keep-alive loop (implementation only)

// opConnKA: `connka <variant>` — EnquireLink(tick, timeout) on a real Conn over the scripted transport.
//
//	answered-cancel   keep-alives are answered, then the parent context is cancelled
//	answered-eof      keep-alives are answered, then the peer hangs up
//	unanswered        the first keep-alive goes unanswered: EnquireLink must Close (unbind, unanswered too) and return
//	unanswered-unbind-ok   as above but the peer answers the unbind
//	writefail         writes fail from the start
//
// Oracle: the loop returns, Done() is closed, Watch returns where the transport ended, no panic.
func opConnKA(args []string) string {
	if len(args) != 1 {
		return "bad-op"
	}
	variant := args[0]
	tr := newScriptConn(0)
	parentCtx, cancelAll := context.WithCancel(context.Background())
	defer cancelAll()
	conn := smpp.NewConn(parentCtx, tr)
	var seq int32
	var smu sync.Mutex
	conn.NextSequence = func() int32 { smu.Lock(); defer smu.Unlock(); seq++; return seq }
	var panics []string
	var pmu sync.Mutex
	guard := func(name string) {
		if e := recover(); e != nil {
			pmu.Lock()
			panics = append(panics, name+":"+fmt.Sprint(e))
			pmu.Unlock()
		}
	}
	watchRet := make(chan struct{})
	go func() { defer close(watchRet); defer guard("watch"); conn.Watch() }()
	if variant != "unanswered-undrained" {
		go func() {
			defer guard("consumer")
			for range conn.PDU() {
			}
		}()
	} else {
		// nobody receives from PDU(): an unsolicited PDU parks Watch on the queue before the keep-alive fails
		tr.feed(frameOf(&pdu.DeliverSM{Header: pdu.Header{Sequence: 777}, ServiceType: "u"}))
		time.Sleep(5 * time.Millisecond)
	}
	if variant == "writefail" {
		tr.mu.Lock()
		tr.broken = true
		tr.mu.Unlock()
	}
	kaRet := make(chan struct{})
	go func() {
		defer close(kaRet)
		defer guard("keepalive")
		conn.EnquireLink(5*time.Millisecond, 60*time.Millisecond)
	}()
	// the peer: releases every held Write at once and answers according to the variant
	stopPeer := make(chan struct{})
	answered := 0
	go func() {
		handled := 0
		for {
			select {
			case <-stopPeer:
				return
			case <-time.After(500 * time.Microsecond):
			}
			tr.mu.Lock()
			var todo [][]byte
			for handled < len(tr.writes) {
				todo = append(todo, tr.writes[handled].data)
				handled++
			}
			tr.releaseAll()
			tr.mu.Unlock()
			for _, w := range todo {
				if len(w) < 16 {
					continue
				}
				id := binary.BigEndian.Uint32(w[4:8])
				s := int32(binary.BigEndian.Uint32(w[12:16]))
				switch {
				case id == 0x00000015 && strings.HasPrefix(variant, "answered"):
					tr.feed(frameOf(&pdu.EnquireLinkResp{Header: pdu.Header{Sequence: s}}))
					answered++
				case id == 0x00000006 && variant == "unanswered-unbind-ok":
					tr.feed(frameOf(&pdu.UnbindResp{Header: pdu.Header{Sequence: s}}))
				}
			}
		}
	}()
	switch variant {
	case "answered-cancel":
		time.Sleep(40 * time.Millisecond)
		cancelAll()
	case "answered-eof":
		time.Sleep(40 * time.Millisecond)
		tr.mu.Lock()
		tr.readEnd = io.EOF
		tr.cond.Broadcast()
		tr.mu.Unlock()
	}
	marker := ""
	fail := func(s string) {
		if marker == "" {
			marker = " !! " + s
		}
	}
	returned := false
	select {
	case <-kaRet:
		returned = true
	case <-time.After(2500 * time.Millisecond):
		fail("C15:keepalive-loop-did-not-return variant=" + variant)
	}
	done := false
	select {
	case <-conn.Done():
		done = true
	case <-time.After(200 * time.Millisecond):
		fail("C15:done-not-closed-after-keepalive-ended variant=" + variant)
	}
	close(stopPeer)
	watch := "running"
	wait := 50 * time.Millisecond
	if variant == "answered-eof" || variant == "unanswered-unbind-ok" {
		wait = time.Second
	}
	select {
	case <-watchRet:
		watch = "returned"
	case <-time.After(wait):
		if variant == "answered-eof" || variant == "unanswered-unbind-ok" {
			fail("C15:watch-did-not-return variant=" + variant)
		}
	}
	pmu.Lock()
	if len(panics) > 0 {
		fail("C15:panic " + strings.ReplaceAll(panics[0], " ", "_"))
	}
	pmu.Unlock()
	// let everything end
	tr.mu.Lock()
	tr.releaseAll()
	tr.closed = true
	tr.cond.Broadcast()
	tr.mu.Unlock()
	cancelAll()
	return fmt.Sprintf("ka variant=%s returned=%v done=%v watch=%s answered>0=%v", variant, returned, done, watch, answered > 0) + marker
}
