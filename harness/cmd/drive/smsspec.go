package main

// C19 — SMS-DELIVER / SMS-SUBMIT laid out by an independent GSM 03.40 model (written from the
// standard, not from package sms), decoded by sms.Unmarshal, re-encoded by sms.Marshal.
//
//	smsd <scton> <scnpi> <scdigits> <fo> <oaton> <oanpi> <n|a> <oa> <pid> <dcs> <yy.mo.dd.hh.mi.ss.q> <udl> <udhex>
//	smss <fo> <mr> <daton> <danpi> <n|a> <da> <pid> <dcs> <none|r<n>|e<hex14>|a<ts>> <udl> <udhex>

import (
	"bytes"
	"fmt"
	"strconv"
	"strings"
	"time"

	"verifharness/internal/canon"
	"verifharness/internal/gen"

	"github.com/M2MGateway/go-smpp/sms"
)

func init() {
	ops["smsd"] = opSmsDeliver
	ops["smss"] = opSmsSubmit
	gens["C19"] = genC19
}

// ---- the layout model (GSM 03.40 §9.1.2.3-5, §9.2.2.1-2, §9.2.3.11-12)

type specAddr struct {
	ton, npi int
	alpha    bool
	digits   string // decimal digits, or
	septets  []int  // default-alphabet septets (the ASCII-coincident part: septet value = code point)
}

func specSemi(digits string) []byte {
	var out []byte
	for i := 0; i+1 < len(digits); i += 2 {
		out = append(out, (digits[i+1]-'0')<<4|(digits[i]-'0'))
	}
	if len(digits)%2 == 1 {
		out = append(out, 0xF0|(digits[len(digits)-1]-'0'))
	}
	return out
}

func specPack(septets []int) []byte {
	out := make([]byte, (7*len(septets)+7)/8)
	for i, s := range septets {
		for b := 0; b < 7; b++ {
			if s>>b&1 == 1 {
				pos := 7*i + b
				out[pos/8] |= 1 << (pos % 8)
			}
		}
	}
	return out
}

func (a specAddr) toa() byte { return byte(0x80 | a.ton&7<<4 | a.npi&15) }

// TP-OA / TP-DA: length = useful semi-octets
func (a specAddr) field() []byte {
	if a.alpha {
		return append([]byte{byte((7*len(a.septets) + 3) / 4), byte(0x80 | 5<<4 | a.npi&15)}, specPack(a.septets)...)
	}
	return append([]byte{byte(len(a.digits)), a.toa()}, specSemi(a.digits)...)
}

// RP SC address: length = octets that follow
func (a specAddr) scField() []byte {
	d := specSemi(a.digits)
	return append([]byte{byte(1 + len(d)), a.toa()}, d...)
}

type specTime struct{ yy, mo, dd, hh, mi, ss, q int }

func bcdSwapped(v int) byte { return byte(v%10<<4 | v/10) }

func (t specTime) field() []byte {
	q := t.q
	sign := byte(0)
	if q < 0 {
		q = -q
		sign = 0x08
	}
	return []byte{bcdSwapped(t.yy), bcdSwapped(t.mo), bcdSwapped(t.dd), bcdSwapped(t.hh), bcdSwapped(t.mi), bcdSwapped(t.ss), bcdSwapped(q) | sign}
}

func (t specTime) instant() time.Time {
	return time.Date(2000+t.yy, time.Month(t.mo), t.dd, t.hh, t.mi, t.ss, 0, time.FixedZone("", t.q*900))
}

func specRelative(n int) time.Duration {
	switch {
	case n <= 143:
		return time.Duration(n+1) * 5 * time.Minute
	case n <= 167:
		return 12*time.Hour + time.Duration(n-143)*30*time.Minute
	case n <= 196:
		return time.Duration(n-166) * 24 * time.Hour
	}
	return time.Duration(n-192) * 7 * 24 * time.Hour
}

func parseSpecAddr(ton, npi, kind, val string) (specAddr, bool) {
	a := specAddr{ton: atoi(ton), npi: atoi(npi)}
	switch kind {
	case "n":
		if val == "-" {
			val = ""
		}
		for _, c := range val {
			if c < '0' || c > '9' {
				return a, false
			}
		}
		a.digits = val
	case "a":
		rs, ok := parseRunes(val)
		if !ok {
			return a, false
		}
		a.alpha = true
		for _, r := range rs {
			a.septets = append(a.septets, int(r))
		}
	default:
		return a, false
	}
	return a, true
}

func parseSpecTime(s string) (specTime, bool) {
	f := strings.Split(s, ".")
	if len(f) != 7 {
		return specTime{}, false
	}
	v := make([]int, 7)
	for i := range f {
		n, err := strconv.Atoi(f[i])
		if err != nil {
			return specTime{}, false
		}
		v[i] = n
	}
	return specTime{v[0], v[1], v[2], v[3], v[4], v[5], v[6]}, true
}

// ---- oracle

type fieldSpan struct {
	name     string
	from, to int
}

type c19check struct {
	marker  string
	classes map[string]bool // known deviation classes this TPDU falls into, per field
}

func (c *c19check) fail(what, field string, known string) {
	if c.marker != "" {
		return
	}
	k := "none"
	if known != "" && c.classes[known] {
		k = known
	}
	c.marker = fmt.Sprintf(" !! C19:%s field=%s known-class=%s", what, field, k)
}

func firstDiff(a, b []byte) int {
	n := len(a)
	if len(b) < n {
		n = len(b)
	}
	for i := 0; i < n; i++ {
		if a[i] != b[i] {
			return i
		}
	}
	if len(a) != len(b) {
		return n
	}
	return -1
}

func spanOf(spans []fieldSpan, pos int) string {
	for _, s := range spans {
		if pos >= s.from && pos < s.to {
			return s.name
		}
	}
	if len(spans) > 0 && pos >= spans[len(spans)-1].to {
		return spans[len(spans)-1].name
	}
	return "?"
}

var knownByField = map[string]string{"fo": "deliver-fo-bits67", "oa": "alnum-4to7", "da": "alnum-4to7", "scts": "negative-zone", "vp": "negative-zone", "ud": "ud-zero"}

func addrValueOK(got sms.Address, want specAddr) bool {
	if want.alpha {
		text, ok := specText(want.septets)
		return ok && got.TON == 5 && int(got.NPI) == want.npi&15 && got.No == text
	}
	return int(got.TON) == want.ton&7 && int(got.NPI) == want.npi&15 && got.No == want.digits
}

func timeValueOK(got sms.Time, want specTime) bool {
	w := want.instant()
	_, off := got.Time.Zone()
	return got.Time.Equal(w) && off == want.q*900
}

func udValueOK(got []byte, want []byte) bool { return bytes.Equal(got, want) }

func finishC19(tpdu []byte, spans []fieldSpan, chk *c19check, values func(p interface{})) string {
	p, shown, uerr, upanic, out, merr, mpanic := smsRoundTrip(tpdu)
	head := canon.Hex(tpdu) + " | "
	switch {
	case upanic:
		return head + "panic !! C19:unmarshal-panics field=? known-class=none"
	case uerr != nil:
		return head + "err !! C19:unmarshal-error field=? known-class=none"
	}
	values(p)
	s := head + "ok " + shown + " -> "
	switch {
	case mpanic:
		return s + "panic !! C19:marshal-panics field=? known-class=none"
	case merr != nil:
		return s + "err !! C19:marshal-error field=? known-class=none"
	}
	if d := firstDiff(tpdu, out); d >= 0 {
		f := spanOf(spans, d)
		chk.fail("reencode-differs", f, knownByField[f])
	}
	return s + "ok " + canon.Hex(out) + chk.marker
}

func opSmsDeliver(args []string) string {
	if len(args) != 13 {
		return "bad-op"
	}
	sc, ok1 := parseSpecAddr(args[0], args[1], "n", args[2])
	fo := atoi(args[3])
	oa, ok2 := parseSpecAddr(args[4], args[5], args[6], args[7])
	pid, dcs := atoi(args[8]), atoi(args[9])
	ts, ok3 := parseSpecTime(args[10])
	udl := atoi(args[11])
	ud, err := canon.UnHex(args[12])
	if !ok1 || !ok2 || !ok3 || err != nil {
		return "bad-op"
	}
	var tpdu []byte
	var spans []fieldSpan
	add := func(name string, b []byte) {
		spans = append(spans, fieldSpan{name, len(tpdu), len(tpdu) + len(b)})
		tpdu = append(tpdu, b...)
	}
	add("sc", sc.scField())
	add("fo", []byte{byte(fo / 4 * 4)})
	add("oa", oa.field())
	add("pid", []byte{byte(pid)})
	add("dcs", []byte{byte(dcs)})
	add("scts", ts.field())
	add("ud", append([]byte{byte(udl)}, ud...))
	chk := &c19check{classes: map[string]bool{
		"deliver-fo-bits67": fo&0xC0 != 0,
		"alnum-4to7":        oa.alpha && len(oa.septets) >= 4 && len(oa.septets) <= 7,
		"negative-zone":     ts.q < 0,
		"ud-zero":           (len(ud) > 0 && ud[len(ud)-1] == 0) || udl != len(ud),
	}}
	return finishC19(tpdu, spans, chk, func(p interface{}) {
		d, ok := p.(*sms.Deliver)
		if !ok {
			chk.fail("wrong-structure", "fo", "")
			return
		}
		if !addrValueOK(sms.Address(d.SCAddress), sc) {
			chk.fail("value-differs", "sc", "")
		}
		if !addrValueOK(d.OriginatingAddress, oa) {
			chk.fail("value-differs", "oa", "alnum-4to7")
		}
		if int(d.ProtocolIdentifier) != pid&255 {
			chk.fail("value-differs", "pid", "")
		}
		if int(d.DataCoding) != dcs&255 {
			chk.fail("value-differs", "dcs", "")
		}
		if !timeValueOK(d.ServiceCentreTimestamp, ts) {
			chk.fail("value-differs", "scts", "negative-zone")
		}
		if !udValueOK(d.UserData, ud) {
			chk.fail("value-differs", "ud", "ud-zero")
		}
	})
}

func opSmsSubmit(args []string) string {
	if len(args) != 11 {
		return "bad-op"
	}
	fo, mr := atoi(args[0]), atoi(args[1])
	da, ok2 := parseSpecAddr(args[2], args[3], args[4], args[5])
	pid, dcs := atoi(args[6]), atoi(args[7])
	udl := atoi(args[9])
	ud, err := canon.UnHex(args[10])
	if !ok2 || err != nil {
		return "bad-op"
	}
	vps := args[8]
	var vpf int
	var vpField []byte
	var vpTime specTime
	var vpEnh []byte
	vpRel := -1
	switch {
	case vps == "none":
	case strings.HasPrefix(vps, "r"):
		vpf, vpRel = 2, atoi(vps[1:])
		vpField = []byte{byte(vpRel)}
	case strings.HasPrefix(vps, "e"):
		b, err := canon.UnHex(vps[1:])
		if err != nil || len(b) != 7 {
			return "bad-op"
		}
		vpf, vpEnh, vpField = 1, b, b
	case strings.HasPrefix(vps, "a"):
		t, ok := parseSpecTime(vps[1:])
		if !ok {
			return "bad-op"
		}
		vpf, vpTime, vpField = 3, t, t.field()
	default:
		return "bad-op"
	}
	first := fo/32*32 + vpf*8 + fo/4%2*4 + 1
	var tpdu []byte
	var spans []fieldSpan
	add := func(name string, b []byte) {
		spans = append(spans, fieldSpan{name, len(tpdu), len(tpdu) + len(b)})
		tpdu = append(tpdu, b...)
	}
	add("sc", []byte{0})
	add("fo", []byte{byte(first)})
	add("mr", []byte{byte(mr)})
	add("da", da.field())
	add("pid", []byte{byte(pid)})
	add("dcs", []byte{byte(dcs)})
	add("vp", vpField)
	add("ud", append([]byte{byte(udl)}, ud...))
	chk := &c19check{classes: map[string]bool{
		"alnum-4to7":    da.alpha && len(da.septets) >= 4 && len(da.septets) <= 7,
		"negative-zone": vpf == 3 && vpTime.q < 0,
		"ud-zero":       (len(ud) > 0 && ud[len(ud)-1] == 0) || udl != len(ud),
	}}
	return finishC19(tpdu, spans, chk, func(p interface{}) {
		d, ok := p.(*sms.Submit)
		if !ok {
			chk.fail("wrong-structure", "fo", "")
			return
		}
		if d.SCAddress.No != "" {
			chk.fail("value-differs", "sc", "")
		}
		if int(d.MessageReference) != mr&255 {
			chk.fail("value-differs", "mr", "")
		}
		if !addrValueOK(d.DestinationAddress, da) {
			chk.fail("value-differs", "da", "alnum-4to7")
		}
		if int(d.ProtocolIdentifier) != pid&255 || int(d.DataCoding) != dcs&255 {
			chk.fail("value-differs", "pid/dcs", "")
		}
		switch vpf {
		case 0:
			if d.ValidityPeriod != nil {
				chk.fail("value-differs", "vp", "")
			}
		case 2:
			v, ok := d.ValidityPeriod.(sms.Duration)
			if !ok || v.Duration != specRelative(vpRel) {
				chk.fail("value-differs", "vp", "")
			}
		case 3:
			v, ok := d.ValidityPeriod.(sms.Time)
			if !ok || !timeValueOK(v, vpTime) {
				chk.fail("value-differs", "vp", "negative-zone")
			}
		case 1:
			v, ok := d.ValidityPeriod.(sms.EnhancedDuration)
			var want time.Duration
			switch vpEnh[0] & 7 {
			case 1:
				want = specRelative(int(vpEnh[1]))
			case 2:
				want = time.Duration(vpEnh[1]) * time.Second
			case 3:
				bcd := func(b byte) time.Duration { return time.Duration(int(b&15)*10 + int(b>>4)) }
				want = bcd(vpEnh[1])*time.Hour + bcd(vpEnh[2])*time.Minute + bcd(vpEnh[3])*time.Second
			}
			if !ok || v.Duration != want || v.Indicator != vpEnh[0] {
				chk.fail("value-differs", "vp", "")
			}
		}
		if !udValueOK(d.UserData, ud) {
			chk.fail("value-differs", "ud", "ud-zero")
		}
	})
}

// ------------------------------------------------------------------ generator

func digitString(r *gen.Rng, n int, leadingZeros bool) string {
	b := make([]byte, n)
	for i := range b {
		b[i] = byte('0' + r.Intn(10))
	}
	if leadingZeros && n > 0 {
		for i := 0; i <= r.Intn(n); i++ {
			b[i] = '0'
		}
	} else if n > 0 && b[0] == '0' {
		b[0] = '1'
	}
	return string(b)
}

const alnumChars = "ABCDEFGHIJKLMNOPQRSTUVWXYZabcdefghijklmnopqrstuvwxyz0123456789 !#%&*+-./:;<=>?"

// gsm0338 is GSM 03.38 §6.2.1 transcribed from the specification table (NOT from the library): the character of each
// default-alphabet septet; 0x1B escapes to the extension table gsm0338ext.  Position 0x09 is read as U+00E7 (ç) as in
// C08 (DESIGN.md §9.5).
var gsm0338 = [128]rune{
	'@', '£', '$', '¥', 'è', 'é', 'ù', 'ì', 'ò', 'ç', '\n', 'Ø', 'ø', '\r', 'Å', 'å',
	'Δ', '_', 'Φ', 'Γ', 'Λ', 'Ω', 'Π', 'Ψ', 'Σ', 'Θ', 'Ξ', 0x1B, 'Æ', 'æ', 'ß', 'É',
	' ', '!', '"', '#', '¤', '%', '&', '\'', '(', ')', '*', '+', ',', '-', '.', '/',
	'0', '1', '2', '3', '4', '5', '6', '7', '8', '9', ':', ';', '<', '=', '>', '?',
	'¡', 'A', 'B', 'C', 'D', 'E', 'F', 'G', 'H', 'I', 'J', 'K', 'L', 'M', 'N', 'O',
	'P', 'Q', 'R', 'S', 'T', 'U', 'V', 'W', 'X', 'Y', 'Z', 'Ä', 'Ö', 'Ñ', 'Ü', '§',
	'¿', 'a', 'b', 'c', 'd', 'e', 'f', 'g', 'h', 'i', 'j', 'k', 'l', 'm', 'n', 'o',
	'p', 'q', 'r', 's', 't', 'u', 'v', 'w', 'x', 'y', 'z', 'ä', 'ö', 'ñ', 'ü', 'à',
}

var gsm0338ext = map[int]rune{0x0A: '\f', 0x14: '^', 0x28: '{', 0x29: '}', 0x2F: '\\', 0x3C: '[', 0x3D: '~', 0x3E: ']', 0x40: '|', 0x65: '€'}

// specText: the text a septet sequence stands for (escape pairs resolved); ok=false outside the tables.
func specText(septets []int) (string, bool) {
	var rs []rune
	for i := 0; i < len(septets); i++ {
		s := septets[i]
		if s < 0 || s > 127 {
			return "", false
		}
		if s == 0x1B {
			if i+1 >= len(septets) {
				return "", false
			}
			e, ok := gsm0338ext[septets[i+1]]
			if !ok {
				return "", false
			}
			rs = append(rs, e)
			i++
			continue
		}
		rs = append(rs, gsm0338[s])
	}
	return string(rs), true
}

// alnumSeptets: n septets of an alphanumeric address: mostly the ASCII-coincident part, with national characters
// (septet value differs from the code point, UTF-8 length differs from the septet count) and escape pairs mixed in.
func alnumSeptets(r *gen.Rng, n int) []rune {
	national := []int{0x01, 0x04, 0x05, 0x06, 0x09, 0x0B, 0x0C, 0x1C, 0x1E, 0x1F, 0x24, 0x40, 0x5B, 0x5C, 0x5D, 0x5E, 0x5F, 0x60, 0x7B, 0x7C, 0x7D, 0x7E, 0x7F, 0x10, 0x12, 0x18}
	ext := []int{0x3C, 0x3E, 0x65, 0x28, 0x29, 0x14, 0x2F, 0x3D, 0x40}
	plain := r.Chance(55)
	var out []rune
	for len(out) < n {
		switch c := r.Intn(100); {
		case !plain && c < 30:
			out = append(out, rune(national[r.Intn(len(national))]))
		case !plain && c < 42 && len(out)+2 <= n:
			out = append(out, 0x1B, rune(ext[r.Intn(len(ext))]))
		default:
			out = append(out, rune(alnumChars[r.Intn(len(alnumChars))]))
		}
	}
	return out
}

func genSpecAddr(r *gen.Rng) string {
	if r.Chance(25) {
		n := r.Pick(1, 2, 3, 8, 9, 10, 11, 1, 2, 3, 8, 9, 10, 11, 4, 5, 6, 7)
		return fmt.Sprintf("5 %d a %s", r.Intn(16), showRunes(alnumSeptets(r, n)))
	}
	ton := r.Pick(0, 1, 2, 3, 4, 6, 7)
	n := r.Range(1, 20)
	return fmt.Sprintf("%d %d n %s", ton, r.Intn(16), digitString(r, n, r.Chance(30)))
}

func smsDaysIn(y, m int) int {
	return time.Date(2000+y, time.Month(m)+1, 0, 0, 0, 0, 0, time.UTC).Day()
}

func genSpecTime(r *gen.Rng, negPct int) string {
	y := r.Pick(0, 99, r.Intn(100), r.Intn(100))
	m := r.Pick(1, 12, r.Range(1, 12), 2)
	d := r.Pick(1, smsDaysIn(y, m), r.Range(1, smsDaysIn(y, m)))
	q := r.Pick(0, 1, 48, r.Intn(49), 32, 22)
	if r.Chance(negPct) {
		q = -r.Pick(1, 48, 1+r.Intn(48), 10)
	}
	return fmt.Sprintf("%d.%d.%d.%d.%d.%d.%d", y, m, d, r.Pick(0, 23, r.Intn(24)), r.Pick(0, 59, r.Intn(60)), r.Pick(0, 59, r.Intn(60)), q)
}

func genSpecUD(r *gen.Rng, zeroPct int) (dcs int, udl int, ud []byte) {
	switch r.Intn(3) {
	case 0: // default alphabet: UDL counts septets
		dcs = r.Pick(0x00, 0x00, 0xF0, 0x10)
		n := r.Pick(0, 1, 7, 8, 9, 50, 152, 153, 159, 160, r.Intn(161))
		septets := make([]int, n)
		for i := range septets {
			septets[i] = 1 + r.Intn(127)
		}
		ud = specPack(septets)
		udl = n
	case 1:
		dcs = r.Pick(0x04, 0xF4, 0x15)
		ud = r.Bytes(r.Pick(0, 1, 2, 70, 139, 140, r.Intn(141)))
		udl = len(ud)
	default:
		dcs = r.Pick(0x08, 0x18)
		ud = r.Bytes(2 * r.Pick(0, 1, 35, 69, 70, r.Intn(71)))
		udl = len(ud)
	}
	if len(ud) > 1 && r.Chance(12) {
		ud[0] = 0 // leading zero octets are data (UCS-2 Latin text, 8-bit data, '@' in the default alphabet)
		if r.Bool() && len(ud) > 2 {
			ud[1] = 0
		}
	}
	if len(ud) > 0 {
		if r.Chance(zeroPct) {
			ud[len(ud)-1] = 0
		} else if ud[len(ud)-1] == 0 {
			ud[len(ud)-1] = 0x41
		}
	}
	return
}

func genC19(r *gen.Rng, tier string, emit func(string)) {
	base := "17.8.31.11.21.54.32"
	// every first octet of both types
	for fo := 0; fo < 256; fo += 4 {
		emit(fmt.Sprintf("smsd 1 1 61409865629 %d 1 1 n 61409865629 0 4 %s 2 4142", fo, base))
	}
	for fo := 0; fo < 256; fo++ {
		vp := []string{"none", "e01a70000000000", "r167", "a" + base}[fo>>3&3]
		emit(fmt.Sprintf("smss %d 7 1 1 n 61409865629 0 4 %s 2 4142", fo, vp))
	}
	// all 256 relative validity values, plain and inside the enhanced format
	for n := 0; n < 256; n++ {
		emit(fmt.Sprintf("smss 1 7 1 1 n 61409865629 0 4 r%d 2 4142", n))
		emit(fmt.Sprintf("smss 1 7 1 1 n 61409865629 0 4 e01%02x0000000000 2 4142", n))
		emit(fmt.Sprintf("smss 1 7 1 1 n 61409865629 0 4 e02%02x0000000000 2 4142", n))
	}
	// zone offsets -48..48
	for q := -48; q <= 48; q++ {
		emit(fmt.Sprintf("smsd 1 1 61409865629 4 1 1 n 61409865629 0 4 17.8.31.11.21.54.%d 2 4142", q))
	}
	// digit strings: every length 1..20, with and without leading zeros; alphanumeric 1..11
	for n := 1; n <= 20; n++ {
		for _, lz := range []bool{false, true} {
			emit(fmt.Sprintf("smsd 1 1 %s 4 %d 1 n %s 0 4 %s 2 4142", digitString(r, r.Range(1, 20), lz), r.Pick(0, 1, 2), digitString(r, n, lz), base))
			emit(fmt.Sprintf("smss 1 7 %d 1 n %s 0 4 none 2 4142", r.Pick(0, 1, 2), digitString(r, n, lz)))
		}
	}
	for n := 1; n <= 11; n++ {
		for rep := 0; rep < 4; rep++ {
			rs := alnumSeptets(r, n)
			emit(fmt.Sprintf("smsd 1 1 61409865629 4 5 0 a %s 0 4 %s 2 4142", showRunes(rs), base))
			emit(fmt.Sprintf("smss 1 7 5 1 a %s 0 4 none 2 4142", showRunes(rs)))
		}
	}
	// hh:mm:ss enhanced periods
	for i := 0; i < 40; i++ {
		emit(fmt.Sprintf("smss 1 7 1 1 n 61409865629 0 4 e03%02x%02x%02x000000 2 4142", bcdSwapped(r.Intn(100)), bcdSwapped(r.Intn(60)), bcdSwapped(r.Intn(60))))
	}
	n := scale(tier, 2500, 60000)
	for i := 0; i < n; i++ {
		// mostly TPDUs outside every known deviation class; each class visited separately
		cls := r.Intn(10)
		neg, zero := 0, 0
		if cls == 0 {
			neg = 100
		}
		if cls == 1 {
			zero = 100
		}
		addr := genSpecAddr(r)
		for cls > 2 && strings.Contains(addr, " a ") && func() bool {
			n := len(strings.Split(addr[strings.LastIndex(addr, " ")+1:], ","))
			return n >= 4 && n <= 7
		}() {
			addr = genSpecAddr(r)
		}
		dcs, udl, ud := genSpecUD(r, zero)
		if cls > 2 && udl != len(ud) {
			// septet-counted user data is itself in the ud-zero class; keep most cases octet-counted
			if r.Chance(70) {
				dcs, ud = 0x04, r.Bytes(r.Range(1, 140))
				ud[len(ud)-1] |= 1
				udl = len(ud)
			}
		}
		if r.Bool() {
			fo := 4 * r.Intn(16)
			if cls == 2 {
				fo = 4 * r.Range(16, 63)
			}
			emit(fmt.Sprintf("smsd %d %d %s %d %s %d %d %s %d %s", r.Pick(0, 1, 1, 2), r.Pick(0, 1, 1, 8), digitString(r, r.Range(1, 20), r.Chance(20)),
				fo, addr, r.Intn(256), dcs, genSpecTime(r, neg), udl, canon.Hex(ud)))
		} else {
			var vp string
			switch r.Intn(6) {
			case 0, 1:
				vp = "none"
			case 2:
				vp = fmt.Sprintf("r%d", r.Intn(256))
			case 3:
				vp = "a" + genSpecTime(r, neg)
			case 4:
				vp = fmt.Sprintf("e%02x%02x0000000000", r.Pick(1, 2, 0x41, 0x42), r.Intn(256))
			default:
				vp = fmt.Sprintf("e%02x%02x%02x%02x000000", r.Pick(3, 0x43), bcdSwapped(r.Intn(100)), bcdSwapped(r.Intn(60)), bcdSwapped(r.Intn(60)))
			}
			emit(fmt.Sprintf("smss %d %d %s %d %d %s %d %s", r.Intn(256), r.Intn(256), addr, r.Intn(256), dcs, vp, udl, canon.Hex(ud)))
		}
	}
}
