package main

// C18 / C19 — package sms.  Ops:
//
//	sms <hex>        sms.Unmarshal on the octets, canonical values, then sms.Marshal of the result
//	smsd / smss …    (smsspec.go) TPDUs laid out by an independent GSM 03.40 model

import (
	"bytes"
	"fmt"
	"reflect"
	"strings"
	"time"

	"verifharness/internal/canon"
	"verifharness/internal/gen"

	"github.com/M2MGateway/go-smpp/sms"
)

func init() {
	ops["sms"] = opSms
	gens["C18"] = genC18
}

func showGoTime(t time.Time) string {
	_, off := t.Zone()
	return fmt.Sprintf("%d.%d.%d.%d.%d.%d.%d", t.Year(), int(t.Month()), t.Day(), t.Hour(), t.Minute(), t.Second(), off)
}

func showSecs(d time.Duration) string {
	if d%time.Second != 0 {
		return fmt.Sprintf("%dns", int64(d))
	}
	return fmt.Sprint(int64(d / time.Second))
}

func showSmsField(v reflect.Value) string {
	if v.Kind() == reflect.Interface {
		if v.IsNil() {
			return "vnone"
		}
		switch x := v.Elem().Interface().(type) {
		case sms.EnhancedDuration:
			return fmt.Sprintf("venh:%s:%d", showSecs(x.Duration), x.Indicator)
		case sms.Duration:
			return "vrel:" + showSecs(x.Duration)
		case sms.Time:
			return "vabs:" + showGoTime(x.Time)
		}
		return "v?"
	}
	switch x := v.Interface().(type) {
	case byte:
		return fmt.Sprint(x)
	case []byte:
		return "x" + canon.Hex(x)
	case sms.Address:
		return fmt.Sprintf("a%d.%d.%s", x.NPI, x.TON, showRunes([]rune(x.No)))
	case sms.SCAddress:
		return fmt.Sprintf("a%d.%d.%s", x.NPI, x.TON, showRunes([]rune(x.No)))
	case sms.Time:
		return "t" + showGoTime(x.Time)
	case sms.EnhancedDuration:
		return fmt.Sprintf("venh:%s:%d", showSecs(x.Duration), x.Indicator)
	case sms.Duration:
		return "vrel:" + showSecs(x.Duration)
	case sms.Flags, sms.DeliverFlags, sms.SubmitFlags, sms.ParameterIndicator:
		var parts []string
		for i := 0; i < v.NumField(); i++ {
			switch f := v.Field(i).Interface().(type) {
			case sms.MessageType:
				parts = append(parts, fmt.Sprint(int(f)))
			case byte:
				parts = append(parts, fmt.Sprint(f))
			case bool:
				parts = append(parts, fmt.Sprint(b01(f)))
			default:
				parts = append(parts, "?")
			}
		}
		return "f" + strings.Join(parts, ".")
	}
	return "_"
}

func showTpdu(p interface{}) string {
	v := reflect.ValueOf(p)
	if v.Kind() == reflect.Ptr {
		v = v.Elem()
	}
	parts := []string{v.Type().Name()}
	for i := 0; i < v.NumField(); i++ {
		parts = append(parts, showSmsField(v.Field(i)))
	}
	return strings.Join(parts, " ")
}

// smsRoundTrip runs Unmarshal then Marshal, each under its own recover.
func smsRoundTrip(b []byte) (p interface{}, shown string, uerr error, upanic bool, out []byte, merr error, mpanic bool) {
	func() {
		defer func() {
			if e := recover(); e != nil {
				upanic = true
			}
		}()
		p, uerr = sms.Unmarshal(bytes.NewReader(b))
	}()
	if upanic || uerr != nil {
		return
	}
	shown = showTpdu(p) // before Marshal, which rewrites SubmitFlags.ValidityPeriodFormat in place
	func() {
		defer func() {
			if e := recover(); e != nil {
				mpanic = true
			}
		}()
		var buf bytes.Buffer
		_, merr = sms.Marshal(&buf, p)
		out = buf.Bytes()
	}()
	return
}

func opSms(args []string) string {
	if len(args) != 1 {
		return "bad-op"
	}
	b, err := canon.UnHex(args[0])
	if err != nil {
		return "bad-op"
	}
	_, shown, uerr, upanic, out, merr, mpanic := smsRoundTrip(b)
	if upanic {
		return "panic !! C18:unmarshal-panics"
	}
	if uerr != nil {
		return "err"
	}
	s := "ok " + shown + " -> "
	switch {
	case mpanic:
		return s + "panic !! C18:marshal-panics"
	case merr != nil:
		return s + "err"
	}
	return s + "ok " + canon.Hex(out)
}

// ------------------------------------------------------------------ generator (C18: hostile input)

// structured TPDUs of all six message types and both report flavours
func smsSeedTpdus(r *gen.Rng) [][]byte {
	addr := func() []byte {
		switch r.Intn(4) {
		case 0:
			return []byte{0x0B, 0x91, 0x16, 0x04, 0x89, 0x56, 0x26, 0xF9}
		case 1:
			return []byte{0x0E, 0xD1, 0xED, 0xF2, 0x7C, 0x1E, 0x3E, 0x97, 0xE7}
		case 2:
			return []byte{0x04, 0x81, 0x21, 0x43}
		}
		return []byte{0x00}
	}
	sc := func() []byte { return []byte{0x07, 0x91, 0x16, 0x04, 0x89, 0x56, 0x26, 0xF9} }
	ts := func() []byte { return []byte{0x71, 0x80, 0x13, 0x11, 0x12, 0x45, 0x23} }
	ud := func() []byte {
		n := r.Pick(0, 1, 5, 20)
		return append([]byte{byte(n)}, r.Bytes(n)...)
	}
	cat := func(parts ...[]byte) []byte {
		var out []byte
		for _, p := range parts {
			out = append(out, p...)
		}
		return out
	}
	var l [][]byte
	// Deliver (SC address present, MTI 00)
	l = append(l, cat(sc(), []byte{0x04}, addr(), []byte{0x00, 0x00}, ts(), ud()))
	// SubmitReport (SC present, MTI 01): ack with PI, and error flavour (second octet > 0x7F)
	l = append(l, cat(sc(), []byte{0x01, 0x07}, ts(), []byte{0x00, 0x00}, ud()))
	l = append(l, cat(sc(), []byte{0x01, 0x03}, ts(), []byte{0x00, 0x04}))
	l = append(l, cat(sc(), []byte{0x01, 0xD5}))
	// StatusReport (SC present, MTI 10)
	l = append(l, cat(sc(), []byte{0x02, 0x21}, addr(), ts(), ts(), []byte{0x00}))
	// DeliverReport (no SC, MTI 00): ack / error
	l = append(l, cat([]byte{0x00, 0x00, 0x07, 0x00, 0x00}, ud()))
	l = append(l, cat([]byte{0x00, 0x00, 0xC4}))
	// Submit (no SC, MTI 01) with each validity-period format
	l = append(l, cat([]byte{0x00, 0x01, 0x2A}, addr(), []byte{0x00, 0x00}, ud()))
	l = append(l, cat([]byte{0x00, 0x11, 0x2A}, addr(), []byte{0x00, 0x00, 0xA7}, ud()))
	l = append(l, cat([]byte{0x00, 0x19, 0x2A}, addr(), []byte{0x00, 0x00}, ts(), ud()))
	l = append(l, cat([]byte{0x00, 0x09, 0x2A}, addr(), []byte{0x00, 0x00, 0x01, 0xA7, 0, 0, 0, 0, 0}, ud()))
	l = append(l, cat([]byte{0x00, 0x09, 0x2A}, addr(), []byte{0x00, 0x00, 0x02, 0x3C, 0, 0, 0, 0, 0}, ud()))
	l = append(l, cat([]byte{0x00, 0x09, 0x2A}, addr(), []byte{0x00, 0x00, 0x03, 0x30, 0x21, 0x54, 0, 0, 0}, ud()))
	// Command (no SC, MTI 10)
	l = append(l, cat([]byte{0x00, 0x02, 0x2A, 0x00, 0x01, 0x05}, addr(), ud()))
	return l
}

func genC18(r *gen.Rng, tier string, emit func(string)) {
	em := func(b []byte) { emit("sms " + canon.Hex(b)) }
	em(nil)
	// every one- and two-octet prefix class
	for a := 0; a < 256; a++ {
		em([]byte{byte(a)})
	}
	for _, a := range []int{0, 1, 2, 7} {
		for b := 0; b < 256; b += scale(tier, 5, 1) {
			em([]byte{byte(a), byte(b), byte(r.Intn(256)), byte(r.Intn(256))})
		}
	}
	seeds := smsSeedTpdus(r)
	for _, s := range seeds {
		em(s)
		// cut at every position
		for k := 0; k < len(s); k++ {
			em(s[:k])
		}
		// every octet replaced by the interesting values (filler nibbles, non-decimal nibbles, extremes)
		for k := 0; k < len(s); k++ {
			for _, v := range []byte{0x00, 0xFF, 0xF0, 0x0F, 0xAB, 0x7F, 0x80} {
				if tier != "thorough" && r.Chance(60) {
					continue
				}
				m := append([]byte(nil), s...)
				m[k] = v
				em(m)
			}
		}
	}
	n := scale(tier, 3000, 120000)
	for i := 0; i < n; i++ {
		switch c := r.Intn(100); {
		case c < 25:
			em(r.Bytes(r.Pick(1, 2, 3, 5, 10, 20, 40, 300)))
		case c < 40:
			// valid first octets, random rest
			b := r.Bytes(r.Pick(3, 8, 20, 40))
			if r.Bool() {
				b[0] = 0
				b[1] = byte(r.Intn(256))
			} else {
				b[0] = byte(r.Pick(1, 2, 3, 7))
			}
			em(b)
		default:
			s := append([]byte(nil), seeds[r.Intn(len(seeds))]...)
			// one field at a time replaced by arbitrary octets: a random window overwritten, inserted or removed
			for k := r.Pick(1, 1, 2, 3); k > 0 && len(s) > 0; k-- {
				pos := r.Intn(len(s))
				switch r.Intn(4) {
				case 0:
					s[pos] = r.Byte()
				case 1:
					w := r.Range(1, 8)
					for j := pos; j < pos+w && j < len(s); j++ {
						s[j] = byte(r.Pick(r.Intn(256), 0xFF, 0xF0|r.Intn(16), r.Intn(16)<<4|0xF, 0xA0|r.Intn(16)))
					}
				case 2:
					s = append(s[:pos], append(r.Bytes(r.Range(1, 4)), s[pos:]...)...)
				case 3:
					end := pos + r.Range(1, 4)
					if end > len(s) {
						end = len(s)
					}
					s = append(s[:pos], s[end:]...)
				}
			}
			if r.Chance(30) {
				s = s[:r.Intn(len(s)+1)]
			}
			em(s)
		}
	}
}
