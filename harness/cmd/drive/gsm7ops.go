package main

import (
	"fmt"
	"sort"
	"strconv"
	"strings"
	"unicode/utf8"

	"verifharness/internal/canon"
	"verifharness/internal/gen"

	"github.com/M2MGateway/go-smpp/coding"
	"github.com/M2MGateway/go-smpp/coding/gsm7bit"
)

func init() {
	ops["gsm7enc"] = opGsm7Enc
	ops["gsm7dec"] = opGsm7Dec
	ops["gsm7rt"] = opGsm7RT
	ops["gsm7repertoire"] = opGsm7Repertoire
	ops["gsm7bytes"] = opGsm7Bytes
	gens["C08"] = genC08
}

// independent transcription of GSM 03.38 (default alphabet with 0x09 = ç, extension table)
var gsmDefault = []rune("@£$¥èéùìòç\nØø\rÅåΔ_ΦΓΛΩΠΨΣΘΞ\x1bÆæßÉ !\"#¤%&'()*+,-./0123456789:;<=>?¡ABCDEFGHIJKLMNOPQRSTUVWXYZÄÖÑÜ§¿abcdefghijklmnopqrstuvwxyzäöñüà")
var gsmExt = map[rune]byte{'\f': 0x0A, '^': 0x14, '{': 0x28, '}': 0x29, '\\': 0x2F, '[': 0x3C, '~': 0x3D, ']': 0x3E, '|': 0x40, '€': 0x65}

func specSeptets(text []rune) ([]byte, bool) {
	var out []byte
	for _, r := range text {
		found := false
		for i, c := range gsmDefault {
			if c == r && i != 0x1B {
				out = append(out, byte(i))
				found = true
				break
			}
		}
		if !found {
			if v, ok := gsmExt[r]; ok {
				out = append(out, 0x1B, v)
			} else {
				return nil, false
			}
		}
	}
	return out, true
}

func gsmRepertoire() []rune {
	var out []rune
	for i, c := range gsmDefault {
		if i != 0x1B {
			out = append(out, c)
		}
	}
	for r := range gsmExt {
		out = append(out, r)
	}
	sort.Slice(out, func(i, j int) bool { return out[i] < out[j] })
	return out
}

func parseRunes(s string) ([]rune, bool) {
	if s == "-" {
		return nil, true
	}
	var out []rune
	for _, p := range strings.Split(s, ",") {
		n, err := strconv.Atoi(p)
		if err != nil {
			return nil, false
		}
		out = append(out, rune(n))
	}
	return out, true
}

func showRunes(rs []rune) string {
	if len(rs) == 0 {
		return "-"
	}
	parts := make([]string, len(rs))
	for i, r := range rs {
		parts[i] = strconv.Itoa(int(r))
	}
	return strings.Join(parts, ",")
}

func opGsm7Enc(args []string) string {
	rs, ok := parseRunes(args[0])
	if !ok {
		return "bad-op"
	}
	out, err := gsm7bit.Packed.NewEncoder().Bytes([]byte(string(rs)))
	if err != nil {
		return "err"
	}
	return "ok " + canon.Hex(out)
}

func opGsm7Dec(args []string) string {
	b, err := canon.UnHex(args[0])
	if err != nil {
		return "bad-op"
	}
	out, derr := gsm7bit.Packed.NewDecoder().Bytes(b)
	if derr != nil {
		return "err"
	}
	if !utf8.Valid(out) {
		return "ok " + showRunes([]rune(string(out))) + " !! C08:decoder-emitted-invalid-utf8"
	}
	return "ok " + showRunes([]rune(string(out)))
}

// opGsm7Bytes: arbitrary (possibly invalid UTF-8) input to the encoder: value or error, never a panic.
func opGsm7Bytes(args []string) string {
	b, err := canon.UnHex(args[0])
	if err != nil {
		return "bad-op"
	}
	rs := []rune(string(b)) // what `range` yields: U+FFFD for invalid sequences
	out, eerr := gsm7bit.Packed.NewEncoder().Bytes(b)
	_, inRep := specSeptets(rs)
	if (eerr == nil) != inRep {
		return "x !! C08:alphabet-bytes"
	}
	if eerr != nil {
		return "err"
	}
	return "ok " + canon.Hex(out)
}

func bitAt(b []byte, i int) int {
	if i/8 >= len(b) {
		return -1
	}
	return int(b[i/8]>>uint(i%8)) & 1
}

func opGsm7RT(args []string) string {
	rs, ok := parseRunes(args[0])
	if !ok {
		return "bad-op"
	}
	sept, inRep := specSeptets(rs)
	out, err := gsm7bit.Packed.NewEncoder().Bytes([]byte(string(rs)))
	if err != nil {
		if inRep {
			return "err !! C08:repertoire-text-rejected"
		}
		return "err"
	}
	s := "ok " + canon.Hex(out)
	if !inRep {
		return s + " !! C08:foreign-character-accepted"
	}
	n := len(sept)
	// packing clauses, against the independent septets
	if len(rs) > 0 {
		want := (7*n + 7) / 8
		extraCR := n%8 == 0 && n > 0 && sept[n-1] == 0x0D && len(out) == want+1
		if len(out) != want && !extraCR {
			return s + fmt.Sprintf(" !! C08:length=%d-want=%d", len(out), want)
		}
		for i := 0; i < n; i++ {
			for j := 0; j < 7; j++ {
				if bitAt(out, 7*i+j) != int(sept[i]>>uint(j))&1 {
					return s + fmt.Sprintf(" !! C08:bit-%d-of-septet-%d", j, i)
				}
			}
		}
		if n%8 == 7 {
			for j := 0; j < 7; j++ {
				if bitAt(out, 7*n+j) != (0x0D>>uint(j))&1 {
					return s + " !! C08:filler-missing"
				}
			}
		} else if !extraCR {
			for i := 7 * n; i < 8*len(out); i++ {
				if bitAt(out, i) != 0 {
					return s + " !! C08:spare-bits-not-zero"
				}
			}
		}
	}
	dec, derr := gsm7bit.Packed.NewDecoder().Bytes(out)
	if derr != nil {
		return s + " -> err !! C08:own-output-rejected"
	}
	back := []rune(string(dec))
	s += " -> ok " + showRunes(back)
	if string(back) != string(rs) {
		ambiguous := n%8 == 0 && n > 0 && sept[n-1] == 0x0D
		oneCR := string(back)+"\r" == string(rs) || string(back) == string(rs)+"\r"
		if !(ambiguous && oneCR) {
			return s + " !! C08:round-trip"
		}
	}
	return s
}

// opGsm7Repertoire: EXHAUSTIVE sweep of all 1,112,064 scalar values through the real encoder
// and the real detector; prints both accepted sets (sorted) for comparison with the model's.
func opGsm7Repertoire(args []string) string {
	enc := gsm7bit.Packed.NewEncoder()
	var acc, det []rune
	rep := map[rune]bool{}
	for _, r := range gsmRepertoire() {
		rep[r] = true
	}
	marker := ""
	for r := rune(0); r <= 0x10FFFF; r++ {
		if r >= 0xD800 && r <= 0xDFFF {
			continue
		}
		_, err := enc.Bytes([]byte(string(r)))
		a := err == nil
		d := coding.GSM7BitCoding.Validate(string(r))
		if a {
			acc = append(acc, r)
		}
		if d {
			det = append(det, r)
		}
		if a != rep[r] && marker == "" {
			marker = fmt.Sprintf(" !! C08:alphabet-scalar-%d-accepted=%v", r, a)
		}
		if a != d && marker == "" {
			marker = fmt.Sprintf(" !! C08:detector-scalar-%d-encoder=%v-detector=%v", r, a, d)
		}
		if r != 0 && coding.BestCoding(string(r)) == coding.GSM7BitCoding != a && marker == "" {
			marker = fmt.Sprintf(" !! C08:bestcoding-scalar-%d", r)
		}
	}
	return showRunes(acc) + " | " + showRunes(det) + marker
}

func genC08(r *gen.Rng, tier string, emit func(string)) {
	rep := gsmRepertoire()
	emit("gsm7repertoire")
	emit("gsm7rt -")
	for _, c := range rep {
		emit("gsm7rt " + showRunes([]rune{c}))
	}
	// strings of length 2: all (thorough) or a sample (quick)
	if tier == "thorough" {
		for _, a := range rep {
			for _, b := range rep {
				emit("gsm7rt " + showRunes([]rune{a, b}))
			}
		}
	} else {
		for i := 0; i < 1500; i++ {
			emit("gsm7rt " + showRunes([]rune{rep[r.Intn(len(rep))], rep[r.Intn(len(rep))]}))
		}
	}
	ext := []rune{'\f', '^', '{', '}', '\\', '[', '~', ']', '|', '€'}
	tails := [][]rune{{'\r'}, {'@'}, {'\r', '\r'}, {'@', '\r'}, {'\r', '@'}, {'[', '\r'}, {'\r', '['}, {'€'}, {'@', '@'}, {'a', '\r'}, {'\r', 'a'}, {}}
	n := scale(tier, 2500, 60000)
	for i := 0; i < n; i++ {
		switch c := r.Intn(100); {
		case c < 55:
			// every residue of the septet count x every interesting ending
			l := r.Intn(40)
			if r.Chance(20) {
				l = r.Range(120, 170)
			}
			var t []rune
			for k := 0; k < l; k++ {
				if r.Chance(15) {
					t = append(t, ext[r.Intn(len(ext))])
				} else {
					t = append(t, rep[r.Intn(len(rep))])
				}
			}
			t = append(t, tails[r.Intn(len(tails))]...)
			emit("gsm7rt " + showRunes(t))
		case c < 65:
			// one foreign character somewhere
			l := r.Range(1, 12)
			t := make([]rune, l)
			for k := range t {
				t[k] = rep[r.Intn(len(rep))]
			}
			t[r.Intn(l)] = rune(r.Pick(0, 0xA0, 0x60, 0x7F, 0x80, 0xC7, 0x391, 0x20AD, 0xFFFD, 0x1F600, 9, 0x1B))
			emit("gsm7rt " + showRunes(t))
		case c < 90:
			emit("gsm7dec " + canon.Hex(r.Bytes(r.Pick(1, 2, 3, 6, 7, 8, 9, 14, 15, r.Intn(160)))))
		default:
			emit("gsm7bytes " + canon.Hex(r.Bytes(r.Range(1, 12))))
		}
	}
	// long texts handed to the encoder directly (the property is unbounded in length)
	for _, l := range []int{250, 255, 256, 257, 285, 292, 293, 294, 300, 511, 512, 513, 1000, 2047, 4096, 5000} {
		t := make([]rune, l)
		for k := range t {
			t[k] = rep[(k*7+l)%len(rep)]
		}
		emit("gsm7rt " + showRunes(t))
		for k := range t {
			t[k] = rune('a' + k%26)
		}
		emit("gsm7rt " + showRunes(t))
	}
	for i := 0; i < scale(tier, 40, 800); i++ {
		l := r.Range(200, 700)
		t := make([]rune, l)
		for k := range t {
			t[k] = rep[r.Intn(len(rep))]
		}
		emit("gsm7rt " + showRunes(append(t, tails[r.Intn(len(tails))]...)))
	}
	// exact lengths 0..24 ending in CR / ESC-prefixed / '@', all residues
	for l := 0; l <= 24; l++ {
		for _, tl := range tails {
			t := make([]rune, l)
			for k := range t {
				t[k] = rune('a' + k%26)
			}
			emit("gsm7rt " + showRunes(append(t, tl...)))
		}
	}
}
