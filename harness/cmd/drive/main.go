// drive runs the REAL go-smpp code on operation lines.
//
//	drive gen <property> <quick|thorough> <seed> <outdir>
//	    generate the operation lines of a property (corpus first), execute each on the
//	    implementation, evaluate the property's own clauses on the implementation's
//	    output (oracle markers " !! <clause>"), write ops.txt / impl.txt / stats.json
//	drive exec
//	    read operation lines from stdin, print one result line each (replay)
package main

import (
	"bufio"
	"encoding/json"
	"fmt"
	"os"
	"path/filepath"
	"runtime/debug"
	"strconv"
	"strings"

	"verifharness/internal/gen"
)

type opFunc func(args []string) string

var ops = map[string]opFunc{}

type genFunc func(r *gen.Rng, tier string, emit func(string))

var gens = map[string]genFunc{}

func init() {
	ops["marshal"] = opMarshal
	ops["readpdu"] = opReadPDU
	ops["stream"] = opStream
	ops["rt"] = opRT
	ops["reenc"] = opReenc
	ops["det"] = opDet
	ops["spec"] = opSpec
	ops["wfail"] = opWFail
	ops["respbatch"] = opRespBatch
}

func execOp(line string) (res string) {
	defer func() {
		if e := recover(); e != nil {
			res = "panic !! PANIC:" + strings.ReplaceAll(fmt.Sprint(e), " ", "_")
			if os.Getenv("VERIF_TRACE") != "" {
				fmt.Fprintf(os.Stderr, "panic on %.200s\n%s\n", line, debug.Stack())
			}
		}
	}()
	f := strings.Fields(line)
	if len(f) == 0 {
		return "bad-op"
	}
	op, ok := ops[f[0]]
	if !ok {
		return "bad-op"
	}
	return op(f[1:])
}

func main() {
	debug.SetMemoryLimit(6 << 30)
	if len(os.Args) >= 2 && os.Args[1] == "exec" {
		sc := bufio.NewScanner(os.Stdin)
		sc.Buffer(make([]byte, 1<<20), 1<<26)
		w := bufio.NewWriter(os.Stdout)
		for sc.Scan() {
			fmt.Fprintln(w, execOp(sc.Text()))
			w.Flush()
		}
		return
	}
	if len(os.Args) != 6 || os.Args[1] != "gen" {
		fmt.Fprintln(os.Stderr, "usage: drive gen <property> <tier> <seed> <outdir> | drive exec")
		os.Exit(2)
	}
	prop, tier, outdir := os.Args[2], os.Args[3], os.Args[5]
	seed, _ := strconv.ParseUint(os.Args[4], 10, 64)
	g, ok := gens[prop]
	if !ok {
		fmt.Fprintln(os.Stderr, "drive: no generator for", prop)
		os.Exit(2)
	}
	if err := os.MkdirAll(outdir, 0o755); err != nil {
		panic(err)
	}
	fo, _ := os.Create(filepath.Join(outdir, "ops.txt"))
	fi, _ := os.Create(filepath.Join(outdir, "impl.txt"))
	wo, wi := bufio.NewWriterSize(fo, 1<<20), bufio.NewWriterSize(fi, 1<<20)
	n := 0
	emit := func(line string) {
		// the operation is on disk before it runs: if it kills the process (fatal runtime error, stack overflow — nothing
		// recover() can catch) the last line of ops.txt without a line in impl.txt names it
		fmt.Fprintln(wo, line)
		wo.Flush()
		fmt.Fprintln(wi, execOp(line))
		wi.Flush()
		n++
	}
	// corpus of minimised past failures and regression inputs runs first
	if corpus := os.Getenv("VERIF_CORPUS"); corpus != "" {
		if f, err := os.Open(filepath.Join(corpus, prop+".txt")); err == nil {
			sc := bufio.NewScanner(f)
			sc.Buffer(make([]byte, 1<<20), 1<<26)
			for sc.Scan() {
				if l := strings.TrimSpace(sc.Text()); l != "" && !strings.HasPrefix(l, "#") {
					emit(l)
				}
			}
			f.Close()
		}
	}
	nCorpus := n
	h := uint64(0)
	for _, c := range prop {
		h = h*131 + uint64(c)
	}
	g(gen.New(seed^h<<20), tier, emit)
	wo.Flush()
	wi.Flush()
	fo.Close()
	fi.Close()
	st, _ := json.Marshal(map[string]interface{}{"property": prop, "tier": tier, "seed": seed, "cases": n, "corpus_cases": nCorpus})
	_ = os.WriteFile(filepath.Join(outdir, "stats.json"), st, 0o644)
}

func scale(tier string, quick, thorough int) int {
	if tier == "thorough" {
		return thorough
	}
	return quick
}
