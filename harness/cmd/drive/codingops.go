package main

import (
	"bytes"
	"fmt"
	"strings"
	"unicode/utf16"

	"verifharness/internal/canon"
	"verifharness/internal/gen"

	"github.com/M2MGateway/go-smpp/coding"
	"github.com/M2MGateway/go-smpp/pdu"
)

func init() {
	ops["best"] = opBest
	ops["bestsweep"] = opBestSweep
	ops["enc"] = opEnc
	ops["dec"] = opDec
	ops["mbrt"] = opMbRT
	ops["codingsweep"] = opCodingSweep
	ops["avail"] = opAvail
	ops["composeauto"] = opComposeAuto
	gens["C09"] = genC09
	gens["C17"] = genC17
}

func encodeWith(c coding.DataCoding, text string) ([]byte, bool) {
	e := c.Encoding()
	if e == nil {
		return nil, false
	}
	out, err := e.NewEncoder().Bytes([]byte(text))
	return out, err == nil
}

func decodeWith(c coding.DataCoding, b []byte) (string, bool) {
	e := c.Encoding()
	if e == nil {
		return "", false
	}
	out, err := e.NewDecoder().Bytes(b)
	return string(out), err == nil
}

// sameModuloCR: equality, or (GSM 7-bit only) the C08 trailing-CR ambiguity
func sameModuloCR(c coding.DataCoding, a, b string) bool {
	if a == b {
		return true
	}
	if c != coding.GSM7BitCoding {
		return false
	}
	return a+"\r" == b || a == b+"\r"
}

// opBest: C09.  `best <runes>` -> "<BestCoding> <BestSafeCoding> <1 if the chosen encoder accepts the text>"
func opBest(args []string) string {
	rs, ok := parseRunes(args[0])
	if !ok {
		return "bad-op"
	}
	text := string(rs)
	c := coding.BestCoding(text)
	safe := coding.BestSafeCoding(text)
	out, acc := encodeWith(c, text)
	s := fmt.Sprintf("%d %d %d", c, safe, b01(acc))
	if !acc {
		// name the offending runes (each one alone is what the known-finding intervals list)
		var bad []string
		for _, r := range rs {
			if _, ok := encodeWith(c, string(r)); !ok {
				bad = append(bad, fmt.Sprint(int(r)))
			}
		}
		if len(bad) == 0 {
			bad = []string{"none-alone"}
		}
		return s + fmt.Sprintf(" !! C09:best-coding-rejects coding=%d scalars=%s", c, strings.Join(uniq(bad), ","))
	}
	if back, ok := decodeWith(c, out); !ok || !sameModuloCR(c, back, text) {
		return s + fmt.Sprintf(" !! C09:round-trip coding=%d", c)
	}
	if _, sacc := encodeWith(safe, text); !sacc {
		return s + fmt.Sprintf(" !! C09:best-safe-coding-rejects coding=%d", safe)
	}
	// Compose / Parse clause: a text that fits one message
	if c.Splitter().Len(text) <= pdu.MaxShortMessageLength {
		var m pdu.ShortMessage
		if err := m.Compose(text); err != nil {
			return s + " !! C09:compose-failed"
		}
		if parsed, err := m.Parse(); err != nil || !sameModuloCR(m.DataCoding, parsed, text) {
			return s + " !! C09:compose-parse-differs"
		}
	}
	return s
}

func uniq(l []string) []string {
	seen := map[string]bool{}
	var out []string
	for _, x := range l {
		if !seen[x] {
			seen[x] = true
			out = append(out, x)
		}
	}
	return out
}

func showIntervals(iv [][2]int) string {
	if len(iv) == 0 {
		return "-"
	}
	parts := make([]string, len(iv))
	for i, p := range iv {
		if p[0] == p[1] {
			parts[i] = fmt.Sprint(p[0])
		} else {
			parts[i] = fmt.Sprintf("%d-%d", p[0], p[1])
		}
	}
	return strings.Join(parts, ",")
}

func scalarIntervals(pred func(rune) bool) [][2]int {
	var out [][2]int
	start := -1
	for r := rune(0); r <= 0x110000; r++ {
		ok := r <= 0x10FFFF && !(r >= 0xD800 && r <= 0xDFFF) && pred(r)
		if ok && start < 0 {
			start = int(r)
		}
		if !ok && start >= 0 {
			out = append(out, [2]int{start, int(r) - 1})
			start = -1
		}
	}
	return out
}

// opBestSweep: C09, EXHAUSTIVE.  `bestsweep <c>`: every scalar value r with BestCoding(r) == c is encoded
// with c and decoded again; the failing scalars are reported as intervals.
func opBestSweep(args []string) string {
	c := coding.DataCoding(atoi(args[0]))
	total := 0
	fails := scalarIntervals(func(r rune) bool {
		text := string(r)
		if coding.BestCoding(text) != c {
			return false
		}
		total++
		out, ok := encodeWith(c, text)
		if !ok {
			return true
		}
		back, ok := decodeWith(c, out)
		return !ok || !sameModuloCR(c, back, text)
	})
	s := fmt.Sprintf("selected=%d failing-intervals=%d", total, len(fails))
	if len(fails) > 0 {
		return s + fmt.Sprintf(" !! C09:best-coding-rejects coding=%d intervals=%s", c, showIntervals(fails))
	}
	return s
}

// opEnc / opDec: C17 (single-octet charsets and UCS-2 are modelled on the Lean side)
func opEnc(args []string) string {
	if len(args) != 2 {
		return "bad-op"
	}
	rs, ok := parseRunes(args[1])
	if !ok {
		return "bad-op"
	}
	out, acc := encodeWith(coding.DataCoding(atoi(args[0])), string(rs))
	if !acc {
		return "err" + composeMismatch(coding.DataCoding(atoi(args[0])), string(rs), nil, false)
	}
	if m := composeMismatch(coding.DataCoding(atoi(args[0])), string(rs), out, true); m != "" {
		return "ok " + canon.Hex(out) + m
	}
	if back, ok := decodeWith(coding.DataCoding(atoi(args[0])), out); ok && back == string(rs) {
		if m := parseMismatch(coding.DataCoding(atoi(args[0])), out, string(rs)); m != "" {
			return "ok " + canon.Hex(out) + m
		}
	}
	return "ok " + canon.Hex(out)
}

func opDec(args []string) string {
	if len(args) != 2 {
		return "bad-op"
	}
	b, err := canon.UnHex(args[1])
	if err != nil {
		return "bad-op"
	}
	out, ok := decodeWith(coding.DataCoding(atoi(args[0])), b)
	if !ok {
		return "err"
	}
	return "ok " + showRunes([]rune(out))
}

// opMbRT: C17 multi-octet codecs, string level (oracle only).
func opMbRT(args []string) string {
	if len(args) != 2 {
		return "bad-op"
	}
	c := coding.DataCoding(atoi(args[0]))
	rs, ok := parseRunes(args[1])
	if !ok {
		return "bad-op"
	}
	out, acc := encodeWith(c, string(rs))
	if !acc {
		return "err"
	}
	back, ok := decodeWith(c, out)
	if !ok || back != string(rs) {
		return "ok " + canon.Hex(out) + fmt.Sprintf(" !! C17:multi-octet-round-trip coding=%d", c)
	}
	if m := parseMismatch(c, out, string(rs)); m != "" {
		return "ok " + canon.Hex(out) + m
	}
	if m := composeMismatch(c, string(rs), out, true); m != "" {
		return "ok " + canon.Hex(out) + m
	}
	return "ok " + canon.Hex(out)
}

// composeMismatch: pdu.ComposeMultipartShortMessage is the library's encoding entry point for a text and a data_coding: for a
// text that fits one part it must produce exactly the coding's encoder output, and refuse what the encoder refuses.
func composeMismatch(c coding.DataCoding, text string, octets []byte, accepted bool) string {
	if c.Splitter() == nil || c.Splitter().Len(text) > pdu.MaxShortMessageLength {
		return ""
	}
	parts, err := pdu.ComposeMultipartShortMessage(text, c, 1)
	if !accepted {
		if err == nil {
			return fmt.Sprintf(" !! C17:compose-accepts-text-the-encoder-rejects coding=%d", c)
		}
		return ""
	}
	if err != nil || len(parts) != 1 || string(parts[0].Message) != string(octets) {
		return fmt.Sprintf(" !! C17:compose-octets-differ-from-encoder coding=%d", c)
	}
	return ""
}

// opComposeAuto: `composeauto <runes>` — ShortMessage.Compose picks the coding itself: whatever it stores must be the octets
// the announced coding's own encoder gives for exactly this text; a text that encoder cannot represent must be refused, never
// stored in an altered form (substitution characters).
func opComposeAuto(args []string) string {
	if len(args) != 1 {
		return "bad-op"
	}
	rs, ok := parseRunes(args[0])
	if !ok {
		return "bad-op"
	}
	text := string(rs)
	var sm pdu.ShortMessage
	if err := sm.Compose(text); err != nil {
		return "rejected"
	}
	enc := sm.DataCoding.Encoding()
	if enc == nil {
		return fmt.Sprintf("stored coding=%d !! C17:compose-announces-coding-without-encoder coding=%d", sm.DataCoding, sm.DataCoding)
	}
	want, err := enc.NewEncoder().Bytes([]byte(text))
	if err != nil {
		return fmt.Sprintf("stored coding=%d %s !! C17:compose-accepts-text-the-encoder-rejects coding=%d", sm.DataCoding, canon.Hex(sm.Message), sm.DataCoding)
	}
	if !bytes.Equal(want, sm.Message) {
		return fmt.Sprintf("stored coding=%d %s !! C17:compose-octets-differ-from-encoder coding=%d", sm.DataCoding, canon.Hex(sm.Message), sm.DataCoding)
	}
	return fmt.Sprintf("stored coding=%d octets=%d", sm.DataCoding, len(sm.Message))
}

// parseMismatch: the library's own decoding entry point for a stored message (pdu.ShortMessage.Parse, which decodes by
// the data_coding label) must give what the coding's decoder gives.
func parseMismatch(c coding.DataCoding, octets []byte, text string) string {
	sm := pdu.ShortMessage{DataCoding: c, Message: octets}
	got, err := sm.Parse()
	if err != nil || got != text {
		return fmt.Sprintf(" !! C17:parse-differs-from-decoder coding=%d", c)
	}
	return ""
}

// independent references, written from the standards
func refLatin1(r rune) (byte, bool) { return byte(r), r <= 0xFF }

func refCyrillic(r rune) (byte, bool) {
	switch {
	case r <= 0xA0:
		return byte(r), true
	case r >= 0x0401 && r <= 0x040C:
		return byte(0xA1 + r - 0x0401), true
	case r == 0x00AD:
		return 0xAD, true
	case r == 0x040E || r == 0x040F:
		return byte(0xAE + r - 0x040E), true
	case r >= 0x0410 && r <= 0x044F:
		return byte(0xB0 + r - 0x0410), true
	case r == 0x2116:
		return 0xF0, true
	case r >= 0x0451 && r <= 0x045C:
		return byte(0xF1 + r - 0x0451), true
	case r == 0x00A7:
		return 0xFD, true
	case r == 0x045E || r == 0x045F:
		return byte(0xFE + r - 0x045E), true
	}
	return 0, false
}

func refHebrew(r rune) (byte, bool) {
	switch {
	case r <= 0xA0:
		return byte(r), true
	case r >= 0xA2 && r <= 0xA9, r >= 0xAB && r <= 0xB9, r >= 0xBB && r <= 0xBE:
		return byte(r), true
	case r == 0x00D7:
		return 0xAA, true
	case r == 0x00F7:
		return 0xBA, true
	case r == 0x2017:
		return 0xDF, true
	case r >= 0x05D0 && r <= 0x05EA:
		return byte(0xE0 + r - 0x05D0), true
	case r == 0x200E:
		return 0xFD, true
	case r == 0x200F:
		return 0xFE, true
	}
	return 0, false
}

// opCodingSweep: C17, EXHAUSTIVE over all scalar values for one coding.
func opCodingSweep(args []string) string {
	c := coding.DataCoding(atoi(args[0]))
	n, accepted := 0, 0
	marker := ""
	fail := func(r rune, why string) {
		if marker == "" {
			marker = fmt.Sprintf(" !! C17:%s coding=%d scalar=%d", why, c, r)
		}
	}
	for r := rune(0); r <= 0x10FFFF; r++ {
		if r >= 0xD800 && r <= 0xDFFF {
			continue
		}
		n++
		text := string(r)
		out, acc := encodeWith(c, text)
		if acc {
			accepted++
		}
		c1 := r >= 0x80 && r <= 0x9F
		switch c {
		case coding.ASCIICoding:
			if r <= 0x7F && (!acc || len(out) != 1 || out[0] != byte(r)) {
				fail(r, "ascii")
			}
		case coding.Latin1Coding, coding.CyrillicCoding, coding.HebrewCoding:
			ref := map[coding.DataCoding]func(rune) (byte, bool){coding.Latin1Coding: refLatin1, coding.CyrillicCoding: refCyrillic, coding.HebrewCoding: refHebrew}[c]
			want, ok := ref(r)
			if c != coding.Latin1Coding && c1 {
				break // unspecified (DESIGN.md §9.4)
			}
			if ok != acc || (acc && (len(out) != 1 || out[0] != want)) {
				fail(r, "charset-conformance")
			}
		case coding.UCS2Coding:
			u := utf16.Encode([]rune{r})
			var want []byte
			for _, x := range u {
				want = append(want, byte(x>>8), byte(x))
			}
			if !acc || string(out) != string(want) {
				fail(r, "utf16be-conformance")
			}
		}
		if acc {
			if c == coding.ISO2022JPCoding && (r == 0x1B || r == 0x0E || r == 0x0F) {
				continue // RFC 1468 reserves ESC, SO, SI
			}
			if c == coding.GSM7BitCoding {
				continue // C08
			}
			back, ok := decodeWith(c, out)
			if !ok || back != text {
				if c == coding.ASCIICoding && r > 0x7F {
					continue
				}
				fail(r, "per-rune-round-trip")
			}
			// per-rune law: a following ASCII letter must not be swallowed or altered
			if out2, ok2 := encodeWith(c, text+"A"+text); ok2 {
				if b2, ok3 := decodeWith(c, out2); !ok3 || b2 != text+"A"+text {
					fail(r, "per-rune-law")
				}
			}
		}
	}
	return fmt.Sprintf("scalars=%d accepted=%d", n, accepted) + marker
}

func opAvail(args []string) string {
	c := coding.DataCoding(atoi(args[0]))
	e, s := 0, 0
	if enc := c.Encoding(); enc != nil {
		e = 1
		if enc.NewDecoder() == nil || enc.NewEncoder() == nil {
			e = 2
		}
	}
	if c.Splitter() != nil {
		s = 1
	}
	r := fmt.Sprintf("%d %d", e, s)
	if e == 1 && s != 1 || e == 2 {
		r += " !! C17:encoder-without-decoder-or-splitter"
	}
	return r
}

// ---------------------------------------------------------------- generators

// script samples for mixed-script texts
var scriptPools = [][]rune{
	[]rune("abcXYZ019 @£$_{}[]~€\r\n"),
	[]rune("éàüñßÆøÅ¿¡§"),
	[]rune("ĀāŁłŒœſǅ"), // Latin script beyond Latin-1 (known finding)
	[]rune("АБВабвЖжЁё№"),
	[]rune("ѠѢҐ"), // Cyrillic script beyond 8859-5 (known finding)
	[]rune("אבגדהת"),
	[]rune("ְֱ׳"), // Hebrew script beyond 8859-8 (known finding)
	[]rune("日本語テストｶﾅ漢字、。"),
	[]rune("안녕하세요한국어"),
	[]rune("💊🌍𝄞"),
	[]rune("ΨΠΦΓΔΘΛΞΣΩ"),
}

func mixedText(r *gen.Rng) []rune {
	var t []rune
	n := r.Pick(1, 1, 2, 3, 5, 10, 40, 70, 160)
	k := r.Pick(1, 1, 1, 2, 3)
	pools := make([][]rune, k)
	for i := range pools {
		pools[i] = scriptPools[r.Intn(len(scriptPools))]
	}
	for i := 0; i < n; i++ {
		p := pools[r.Intn(k)]
		t = append(t, p[r.Intn(len(p))])
	}
	return t
}

func genC09(r *gen.Rng, tier string, emit func(string)) {
	for _, c := range []int{0, 1, 3, 6, 7, 5, 14, 8} {
		emit(fmt.Sprintf("bestsweep %d", c))
	}
	emit("best -")
	n := scale(tier, 4000, 80000)
	for i := 0; i < n; i++ {
		switch c := r.Intn(100); {
		case c < 70:
			emit("best " + showRunes(mixedText(r)))
		case c < 90:
			// single random scalars from interesting blocks
			blocks := [][2]int{{0, 0x17F}, {0x370, 0x52F}, {0x590, 0x5FF}, {0x2000, 0x27FF}, {0x3000, 0x33FF}, {0x4E00, 0x9FFF}, {0xAC00, 0xD7A3}, {0xF900, 0xFFEF}, {0x10000, 0x1FFFF}}
			b := blocks[r.Intn(len(blocks))]
			emit("best " + fmt.Sprint(r.Range(b[0], b[1])))
		default:
			t := mixedText(r)
			t = append(t, rune(r.Pick(0xA0, 0, 0x7F, 0x80, 0x9F, 0xFFFD, 0x5C, 0x7E, 0xA5, 0x203E)))
			emit("best " + showRunes(t))
		}
	}
}

func genC17(r *gen.Rng, tier string, emit func(string)) {
	for _, c := range []int{1, 3, 6, 7, 8, 5, 10, 13, 14} {
		emit(fmt.Sprintf("codingsweep %d", c))
	}
	for c := 0; c < 256; c++ {
		emit(fmt.Sprintf("avail %d", c))
	}
	// texts whose encoding ends in a zero octet (a trailing U+0000; a UCS-2 character whose low octet is 00)
	for _, dc := range []int{1, 3, 6, 7, 5, 10, 13, 14} {
		op := "enc"
		if dc == 5 || dc == 10 || dc == 13 || dc == 14 {
			op = "mbrt"
		}
		emit(fmt.Sprintf("%s %d 65,66,0", op, dc))
		emit(fmt.Sprintf("%s %d 0", op, dc))
	}
	// texts that are not in Unicode normal form: a codec must take them as they are (reject or encode), never alter them
	for _, dc := range []int{1, 3, 6, 7, 8} {
		for _, t := range []string{"8491", "101,769", "894", "8486", "64016", "65,776", "8490,65", "1080,774"} {
			emit(fmt.Sprintf("enc %d %s", dc, t))
		}
	}
	for _, dc := range []int{5, 13, 14} {
		emit(fmt.Sprintf("mbrt %d 64016", dc))
		emit(fmt.Sprintf("mbrt %d 12459,12441", dc))
	}
	// the coding is picked by the library (ShortMessage.Compose): single scalars across the repertoires' edges, and mixed texts
	for _, sc := range []int{0x41, 0xE9, 0x100, 0x17E, 0x401, 0x472, 0x4FF, 0x5B0, 0x5D0, 0x5EA, 0x2017, 0x20AC, 0x3042, 0xAC00, 0x1F600, 0x60, 0xA4} {
		emit(fmt.Sprintf("composeauto %d", sc))
		emit(fmt.Sprintf("composeauto 68,118,%d,225,107", sc))
	}
	for i := 0; i < scale(tier, 300, 4000); i++ {
		emit("composeauto " + showRunes(mixedText(r)))
	}
	emit("enc 8 65,256")
	emit("enc 8 12288")
	emit("enc 8 65,0")
	n := scale(tier, 3000, 60000)
	single := []int{1, 3, 6, 7}
	for i := 0; i < n; i++ {
		switch c := r.Intn(100); {
		case c < 35:
			dc := single[r.Intn(len(single))]
			t := mixedText(r)
			emit(fmt.Sprintf("enc %d %s", dc, showRunes(t)))
		case c < 45:
			// every octet position through the encoder's repertoire
			dc := single[r.Intn(len(single))]
			var t []rune
			for k := r.Range(1, 30); k > 0; k-- {
				t = append(t, rune(r.Pick(r.Intn(0x100), 0x400+r.Intn(0x60), 0x5D0+r.Intn(0x1B), 0x2116, 0x2017, 0x200E, 0x200F, 0xD7, 0xF7)))
			}
			emit(fmt.Sprintf("enc %d %s", dc, showRunes(t)))
		case c < 65:
			var t []rune
			for k := r.Pick(0, 1, 2, 5, 30, 70); k > 0; k-- {
				t = append(t, rune(r.Pick(r.Intn(0xD800), 0xE000+r.Intn(0x2000), 0x10000+r.Intn(0x100000), 0xFFFF, 0x10000, 0x10FFFF, 0xD7FF, 0xE000, 0xFEFF, 0xFFFE)))
			}
			emit("enc 8 " + showRunes(t))
			if out, ok := encodeWith(coding.UCS2Coding, string(t)); ok {
				emit("dec 8 " + canon.Hex(out))
			}
		case c < 75:
			emit("dec 8 " + canon.Hex(r.Bytes(r.Pick(0, 1, 2, 3, 4, 5, 8, 20))))
		default:
			mb := []int{5, 10, 13, 14}
			dc := mb[r.Intn(len(mb))]
			pool := scriptPools[7]
			if dc == 14 {
				pool = scriptPools[8]
			}
			var t []rune
			for k := r.Pick(1, 2, 3, 10, 40, 70); k > 0; k-- {
				if r.Chance(30) {
					t = append(t, rune('a'+r.Intn(26)))
				} else {
					t = append(t, pool[r.Intn(len(pool))])
				}
			}
			emit(fmt.Sprintf("mbrt %d %s", dc, showRunes(t)))
		}
	}
}
