package main

import (
	"bytes"
	"errors"
	"fmt"
	"io"
	"reflect"
	"runtime"
	"strconv"
	"strings"

	"verifharness/internal/canon"

	"github.com/M2MGateway/go-smpp/pdu"
)

// ---------------------------------------------------------------- error classes

func errClass(err error) string {
	switch {
	case err == nil:
		return "nil"
	case err == io.EOF:
		return "eof"
	case err == io.ErrUnexpectedEOF:
		return "ueof"
	case err == pdu.ErrUnmarshalPDUFailed:
		return "unmarshal"
	case err == pdu.ErrInvalidSequence:
		return "invalidseq"
	case err == pdu.ErrItemTooMany:
		return "itemtoomany"
	case err == pdu.ErrDataTooLarge:
		return "datatoolarge"
	case err == pdu.ErrShortMessageTooLarge:
		return "smtoolarge"
	case err == pdu.ErrUnknownDataCoding:
		return "unknowncoding"
	case err == pdu.ErrMultipartTooMuch:
		return "multiparttoomuch"
	}
	var st pdu.CommandStatus
	if errors.As(err, &st) {
		return "st" + strconv.Itoa(int(st))
	}
	return "other:" + strings.ReplaceAll(err.Error(), " ", "_")
}

// ---------------------------------------------------------------- chunked reader

type chunkReader struct {
	data     []byte
	sizes    []int
	i        int
	cur      int // octets left in the current chunk
	consumed int
	reads    int
	zero     int // zero-length Read calls
}

func chunkSizes(spec string, total int) []int {
	body := spec[1:]
	switch spec[0] {
	case 'u':
		n, _ := strconv.Atoi(body)
		if n < 1 {
			n = 1
		}
		out := make([]int, total/n+1)
		for i := range out {
			out[i] = n
		}
		return out
	case 's':
		k, _ := strconv.Atoi(body)
		return []int{k, total}
	case 'l':
		var sizes []int
		for _, p := range strings.Split(body, ",") {
			if v, err := strconv.Atoi(p); err == nil && v > 0 {
				sizes = append(sizes, v)
			}
		}
		if len(sizes) == 0 {
			return []int{total}
		}
		out := make([]int, total+1)
		for i := range out {
			out[i] = sizes[i%len(sizes)]
		}
		return out
	}
	return []int{total}
}

func newChunkReader(spec string, data []byte) *chunkReader {
	return &chunkReader{data: data, sizes: chunkSizes(spec, len(data))}
}

func (c *chunkReader) Read(p []byte) (int, error) {
	c.reads++
	if len(p) == 0 {
		c.zero++
		return 0, nil
	}
	for c.cur == 0 {
		if len(c.data) == 0 {
			return 0, io.EOF
		}
		if c.i < len(c.sizes) {
			c.cur = c.sizes[c.i]
			c.i++
		} else {
			c.cur = len(c.data)
		}
		if c.cur > len(c.data) {
			c.cur = len(c.data)
		}
	}
	n := len(p)
	if n > c.cur {
		n = c.cur
	}
	copy(p, c.data[:n])
	c.data = c.data[n:]
	c.cur -= n
	c.consumed += n
	return n, nil
}

// ---------------------------------------------------------------- helpers

type countWriter struct {
	buf    bytes.Buffer
	writes int
}

func (w *countWriter) Write(p []byte) (int, error) {
	w.writes++
	return w.buf.Write(p)
}

func typeName(p interface{}) string {
	t := reflect.TypeOf(p)
	for t.Kind() == reflect.Ptr {
		t = t.Elem()
	}
	return t.Name()
}

func toks(p interface{}) string { return strings.Join(canon.Tokens(p), " ") }

func parsePDU(args []string) (interface{}, error) {
	if len(args) < 1 {
		return nil, fmt.Errorf("no type")
	}
	t := canon.TypeByName(args[0])
	if t == nil {
		return nil, fmt.Errorf("unknown type %s", args[0])
	}
	return canon.FromTokens(t, args[1:])
}

func doMarshal(p interface{}) (frame []byte, cls string, writes int, n int64) {
	var w countWriter
	n, err := pdu.Marshal(&w, p)
	return w.buf.Bytes(), errClass(err), w.writes, n
}

func showRead(p interface{}, err error, consumed int) string {
	if err == nil {
		if p == nil {
			return fmt.Sprintf("ok %d nil", consumed)
		}
		return fmt.Sprintf("ok %d %s %s", consumed, typeName(p), toks(p))
	}
	if p == nil || reflect.ValueOf(p).IsNil() {
		return fmt.Sprintf("err %s %d nil", errClass(err), consumed)
	}
	return fmt.Sprintf("err %s %d %s %d", errClass(err), consumed, typeName(p), pdu.ReadSequence(p))
}

// ---------------------------------------------------------------- ops

func opMarshal(args []string) string {
	p, err := parsePDU(args)
	if err != nil {
		return "bad-op"
	}
	frame, cls, writes, n := doMarshal(p)
	if cls != "nil" {
		s := "err " + cls
		if writes != 0 || len(frame) != 0 {
			s += fmt.Sprintf(" !! C12:wrote-on-error writes=%d octets=%d", writes, len(frame))
		}
		return s
	}
	s := fmt.Sprintf("ok %s | %s", canon.Hex(frame), toks(p))
	if writes != 1 {
		s += fmt.Sprintf(" !! C12:writes=%d", writes)
	} else if int(n) != len(frame) || len(frame) < 4 || int(be32(frame)) != len(frame) {
		s += " !! C12:length-mismatch"
	} else if len(frame) >= 16 {
		// "exactly one frame": the octets written are THIS pdu's frame — its command_id (from the type's tag) and its
		// sequence number head them; anything else in front means octets of an earlier (failed) call reached the destination
		idTag := reflect.TypeOf(p).Elem().Field(0).Tag.Get("id")
		want, _ := strconv.ParseUint(idTag, 16, 32)
		if uint32(want) != be32(frame[4:]) || int32(be32(frame[12:])) != pdu.ReadSequence(p) {
			s += " !! C12:written-octets-do-not-start-with-this-pdus-header"
		}
	}
	return s
}

func be32(b []byte) uint32 {
	return uint32(b[0])<<24 | uint32(b[1])<<16 | uint32(b[2])<<8 | uint32(b[3])
}

func opReadPDU(args []string) string {
	if len(args) != 2 {
		return "bad-op"
	}
	data, err := canon.UnHex(args[1])
	if err != nil {
		return "bad-op"
	}
	r := newChunkReader(args[0], data)
	var m0, m1 runtime.MemStats
	measure := len(data) >= 16 && (len(data) >= 4096 || allocSample())
	if measure {
		runtime.ReadMemStats(&m0)
	}
	p, rerr := pdu.ReadPDU(r)
	if measure {
		runtime.ReadMemStats(&m1)
	}
	s := showRead(p, rerr, r.consumed)
	// memory-bounded: what one call allocates is a small multiple of the largest frame, whatever came before it
	if measure && m1.TotalAlloc-m0.TotalAlloc > 12*65536 {
		s += fmt.Sprintf(" !! C04:allocated-%d-octets-in-one-call", m1.TotalAlloc-m0.TotalAlloc)
	}
	// C04 clauses evaluated on the implementation
	if r.consumed > 65536 {
		s += " !! C04:consumed>65536"
	}
	if rerr == nil && (p == nil || reflect.ValueOf(p).IsNil()) {
		s += " !! C04:neither-error-nor-pdu"
	}
	if len(data) >= 16 {
		l := be32(data)
		if (l < 16 || l > 65536) && (r.consumed != 16 || rerr == nil) {
			s += " !! C04:bad-length-not-rejected-after-16"
		}
		// C03: acceptable header => exactly command_length octets are taken when they are there
		if l >= 16 && l <= 65536 && int(l) <= len(data) && r.consumed != int(l) {
			s += fmt.Sprintf(" !! C03:consumed=%d-want=%d", r.consumed, l)
		}
		if l >= 16 && l <= 65536 && int(l) > len(data) && rerr == nil {
			s += " !! C03:truncated-frame-decoded"
		}
	}
	return s
}

func runStream(spec string, data []byte) (parts []string) {
	r := newChunkReader(spec, data)
	for i := 0; i < 64; i++ {
		before := r.consumed
		p, rerr := pdu.ReadPDU(r)
		parts = append(parts, showRead(p, rerr, r.consumed-before))
		if rerr != nil {
			break
		}
	}
	return
}

// opStream: C03.  args: <chunk> <hex> [n<N> | t<N> | x]
func opStream(args []string) string {
	if len(args) < 2 {
		return "bad-op"
	}
	data, err := canon.UnHex(args[1])
	if err != nil {
		return "bad-op"
	}
	parts := runStream(args[0], data)
	s := strings.Join(parts, " ; ")
	if whole := strings.Join(runStream("w", data), " ; "); whole != s {
		return s + " !! C03:fragmentation-dependent"
	}
	if len(args) == 3 && len(args[2]) > 1 {
		want, _ := strconv.Atoi(args[2][1:])
		oks := 0
		for _, p := range parts {
			if strings.HasPrefix(p, "ok ") {
				oks++
			}
		}
		last := parts[len(parts)-1]
		switch args[2][0] {
		case 'n':
			if oks != want || last != "err eof 0 nil" {
				return s + fmt.Sprintf(" !! C03:want-%d-pdus-then-eof", want)
			}
		case 't':
			if oks != want || !strings.HasPrefix(last, "err ") || strings.HasPrefix(last, "err eof") {
				return s + fmt.Sprintf(" !! C03:truncated-stream-want-%d-pdus-then-error", want)
			}
		}
	}
	return s
}

// opRT: C01.  Marshal, then ReadPDU under a chunking; oracle compares decoded and original.
func opRT(args []string) string {
	if len(args) < 2 {
		return "bad-op"
	}
	p, err := parsePDU(args[1:])
	if err != nil {
		return "bad-op"
	}
	frame, cls, _, _ := doMarshal(p)
	if cls != "nil" {
		return "err " + cls
	}
	r := newChunkReader(args[0], frame)
	q, rerr := pdu.ReadPDU(r)
	s := fmt.Sprintf("ok %s => %s", canon.Hex(frame), showRead(q, rerr, r.consumed))
	if len(frame) > 65536 {
		return s // outside the property's domain (whole frame at most 64 KiB): ReadPDU refuses it by design
	}
	if rerr != nil {
		return s + " !! C01:readpdu-failed"
	}
	if typeName(q) != typeName(p) {
		return s + " !! C01:type-differs"
	}
	// expected: the original after Marshal's own normalisation, header carrying the frame length
	setHeaderLen(p, uint32(len(frame)))
	want, got := toks(p), toks(q)
	if pdu.ReadCommandStatus(p) != 0 {
		// only the header has to survive
		hw, hg := strings.Join(canon.Tokens(p)[:4], " "), strings.Join(canon.Tokens(q)[:4], " ")
		if hw != hg {
			return s + " !! C01:header-differs"
		}
		return s
	}
	if want != got {
		return s + " !! C01:value-differs fields=" + strings.Join(diffFields(p, q), ",")
	}
	if r.consumed != len(frame) {
		return s + " !! C01:consumed"
	}
	return s
}

func setHeaderLen(p interface{}, n uint32) {
	v := reflect.ValueOf(p).Elem()
	if h, ok := v.Field(0).Addr().Interface().(*pdu.Header); ok {
		h.CommandLength = n
	}
}

// dropEmptyTags: C13 counts a TLV with an empty value as absent.
func dropEmptyTags(p interface{}) {
	v := reflect.ValueOf(p).Elem()
	for i := 0; i < v.NumField(); i++ {
		if t, ok := v.Field(i).Addr().Interface().(*pdu.Tags); ok && *t != nil {
			for k, val := range *t {
				if len(val) == 0 {
					delete(*t, k)
				}
			}
		}
	}
}

func usesNoCoding(p interface{}) bool {
	v := reflect.ValueOf(p).Elem()
	if _, ok := p.(*pdu.ReplaceSM); ok {
		return false
	}
	for i := 0; i < v.NumField(); i++ {
		if m, ok := v.Field(i).Addr().Interface().(*pdu.ShortMessage); ok && m.DataCoding == 0xBF {
			return true
		}
	}
	return false
}

// opReenc: C13.  decode -> encode -> decode -> encode.
func opReenc(args []string) string {
	if len(args) != 1 {
		return "bad-op"
	}
	data, err := canon.UnHex(args[0])
	if err != nil {
		return "bad-op"
	}
	p, rerr := pdu.ReadPDU(bytes.NewReader(data))
	if rerr != nil {
		return "skip read:" + errClass(rerr)
	}
	if usesNoCoding(p) {
		return "skip nocoding"
	}
	f1, cls, _, _ := doMarshal(p)
	if cls != "nil" {
		return "skip marshal:" + cls
	}
	s := "ok " + canon.Hex(f1)
	q, rerr := pdu.ReadPDU(bytes.NewReader(f1))
	if rerr != nil {
		return s + " !! C13:reread-failed:" + errClass(rerr)
	}
	dropEmptyTags(p)
	setHeaderLen(p, uint32(len(f1)))
	if toks(p) != toks(q) {
		return s + " !! C13:value-differs"
	}
	for i := 0; i < 8; i++ {
		f2, cls2, _, _ := doMarshal(q)
		if cls2 != "nil" || !bytes.Equal(f1, f2) {
			return s + " !! C13:bytes-differ"
		}
	}
	return s
}

// opDet: C13 determinism on generated values: marshal the same value 16 times.
func opDet(args []string) string {
	p, err := parsePDU(args)
	if err != nil {
		return "bad-op"
	}
	f1, cls, _, _ := doMarshal(p)
	if cls != "nil" {
		return "err " + cls
	}
	s := "ok " + canon.Hex(f1)
	// the very same value again (Marshal may have touched it: Prepare)
	if f1b, _, _, _ := doMarshal(p); !bytes.Equal(f1, f1b) {
		return s + " !! C13:second-marshal-of-same-value-differs"
	}
	for i := 0; i < 16; i++ {
		// rebuild the maps so that Go's randomised iteration order is re-drawn: from the value as Marshal
		// left it (even rounds) and from the value as given (odd rounds)
		src := append([]string{typeName(p)}, canon.Tokens(p)...)
		if i%2 == 1 {
			src = args
		}
		q, _ := parsePDU(src)
		f2, _, _, _ := doMarshal(q)
		if !bytes.Equal(f1, f2) {
			return s + " !! C13:nondeterministic"
		}
	}
	return s
}

// diffFields names the top-level struct fields whose canonical tokens differ.
func diffFields(p, q interface{}) []string {
	a, b := reflect.ValueOf(p).Elem(), reflect.ValueOf(q).Elem()
	var out []string
	for i := 0; i < a.NumField(); i++ {
		x := strings.Join(canon.Tokens(a.Field(i).Addr().Interface()), " ")
		y := strings.Join(canon.Tokens(b.Field(i).Addr().Interface()), " ")
		if x != y {
			out = append(out, a.Type().Field(i).Name)
		}
	}
	return out
}

// opSpec: C02.  Prints Marshal's frame; the Lean side prints the frame its independent SMPP v5
// table prescribes, so a differing line is a deviation from the specification.  The converse
// (ReadPDU of that frame returns the values laid out) is evaluated here.
func opSpec(args []string) string {
	p, err := parsePDU(args)
	if err != nil {
		return "bad-op"
	}
	orig := toks(p)
	frame, cls, _, _ := doMarshal(p)
	switch cls {
	case "nil":
	case "st51", "itemtoomany", "datatoolarge", "smtoolarge", "st194", "invalidseq":
		return "not-carried"
	default:
		return "err " + cls
	}
	if len(frame) > 65536 {
		return "not-carried"
	}
	s := "ok " + canon.Hex(frame)
	q, rerr := pdu.ReadPDU(bytes.NewReader(frame))
	if rerr != nil {
		return s + " !! C02:spec-frame-not-decoded:" + errClass(rerr)
	}
	// compare with the values that were laid out (header length/id are derived data)
	po, _ := parsePDU(append([]string{args[0]}, strings.Fields(orig)...))
	copyHeader(po, q)
	if d := diffFields(po, q); len(d) > 0 && !onlyPrepared(po, p) {
		return s + " !! C02:decoded-differs fields=" + strings.Join(d, ",")
	}
	return s
}

func copyHeader(dst, src interface{}) {
	d := reflect.ValueOf(dst).Elem().Field(0).Addr().Interface().(*pdu.Header)
	h := reflect.ValueOf(src).Elem().Field(0).Addr().Interface().(*pdu.Header)
	d.CommandLength, d.CommandID = h.CommandLength, h.CommandID
}

// onlyPrepared: did Marshal's Prepare change the value (replace_sm data_coding marker)?
func onlyPrepared(orig, after interface{}) bool { return toks(orig) != toks(after) }

var allocCounter int

// allocSample: measure every 8th small input (ReadMemStats stops the world)
func allocSample() bool {
	allocCounter++
	return allocCounter%8 == 0
}

// failingWriter accepts k octets and then fails.
type failingWriter struct{ left int }

func (w *failingWriter) Write(p []byte) (int, error) {
	if len(p) <= w.left {
		w.left -= len(p)
		return len(p), nil
	}
	n := w.left
	w.left = 0
	return n, fmt.Errorf("writer failed")
}

// opWFail: `wfail <k> <PDU…>` — Marshal into a destination that fails after k octets (implementation only; the result
// of THIS call is not judged, what it may leave behind for the next call is)
func opWFail(args []string) string {
	if len(args) < 2 {
		return "bad-op"
	}
	p, err := parsePDU(args[1:])
	if err != nil {
		return "bad-op"
	}
	_, _ = pdu.Marshal(&failingWriter{left: atoi(args[0])}, p)
	return "wfail done"
}

// opRespBatch: C05 clause 3.  `respbatch <seq> <seq> <seq>`: for every request type, build the responses for
// several received requests BEFORE sending any of them (a pipelining server does) and check each carries
// its own request's sequence number and the paired command_id, in the struct and in the marshalled octets.
func opRespBatch(args []string) string {
	if len(args) == 0 {
		return "bad-op"
	}
	var seqs []int32
	for _, a := range args {
		v, err := strconv.ParseInt(a, 10, 32)
		if err != nil || v <= 0 {
			return "bad-op"
		}
		seqs = append(seqs, int32(v))
	}
	count := 0
	for _, t := range canon.Types() {
		var reqs, resps []interface{}
		for _, s := range seqs {
			p := reflect.New(t).Interface()
			r, ok := p.(pdu.Responsable)
			if !ok {
				break
			}
			reflect.ValueOf(p).Elem().FieldByName("Header").Set(reflect.ValueOf(pdu.Header{Sequence: s}))
			reqs = append(reqs, p)
			resps = append(resps, r.Resp())
		}
		if len(reqs) == 0 {
			continue
		}
		count++
		for i, s := range seqs {
			reqFrame, cls, _, _ := doMarshal(reqs[i])
			if cls != "nil" {
				return fmt.Sprintf("request-marshal-failed type=%s !! C05:resp-batch", t.Name())
			}
			if got := pdu.ReadSequence(resps[i]); got != s {
				return fmt.Sprintf("type=%s request=%d response-carries=%d !! C05:resp-foreign-sequence type=%s", t.Name(), s, got, t.Name())
			}
			f, cls, _, _ := doMarshal(resps[i])
			if cls != "nil" || len(f) < 16 {
				return fmt.Sprintf("type=%s response-marshal-failed !! C05:resp-batch", t.Name())
			}
			if int32(be32(f[12:])) != s || be32(f[4:]) != be32(reqFrame[4:])|0x80000000 {
				return fmt.Sprintf("type=%s request=%d frame=%s !! C05:resp-foreign-sequence type=%s", t.Name(), s, canon.Hex(f[:16]), t.Name())
			}
		}
	}
	return fmt.Sprintf("ok types=%d", count)
}
