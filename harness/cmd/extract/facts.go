package main

func genPduFacts() {}
func genExtra()    {}
