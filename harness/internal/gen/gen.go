// Package gen holds the seeded generators.  Every random choice derives from
// one splitmix64 state, so a (seed, property, tier) triple replays exactly.
package gen

import (
	"reflect"

	"github.com/M2MGateway/go-smpp/coding"
	"github.com/M2MGateway/go-smpp/pdu"
)

type Rng struct{ s uint64 }

// New scrambles the seed through the output function first: consecutive seeds must not give shifted copies of one stream.
func New(seed uint64) *Rng {
	r := &Rng{s: seed*0x9E3779B97F4A7C15 + 0x1234567}
	r.s = r.U64() ^ (seed << 32) ^ 0xD1B54A32D192ED03
	return r
}

func (r *Rng) U64() uint64 {
	r.s += 0x9E3779B97F4A7C15
	z := r.s
	z = (z ^ (z >> 30)) * 0xBF58476D1CE4E5B9
	z = (z ^ (z >> 27)) * 0x94D049BB133111EB
	return z ^ (z >> 31)
}

func (r *Rng) Intn(n int) int {
	if n <= 0 {
		return 0
	}
	return int(r.U64() % uint64(n))
}

func (r *Rng) Range(lo, hi int) int { return lo + r.Intn(hi-lo+1) }
func (r *Rng) Bool() bool           { return r.U64()&1 == 1 }
func (r *Rng) Chance(pct int) bool  { return r.Intn(100) < pct }
func (r *Rng) Byte() byte           { return byte(r.U64()) }

func (r *Rng) Pick(xs ...int) int { return xs[r.Intn(len(xs))] }

func (r *Rng) PickStr(xs ...string) string { return xs[r.Intn(len(xs))] }

func (r *Rng) Bytes(n int) []byte {
	b := make([]byte, n)
	for i := range b {
		b[i] = r.Byte()
	}
	return b
}

// NulFree returns n octets none of which is 0.
func (r *Rng) NulFree(n int) []byte {
	b := make([]byte, n)
	for i := range b {
		b[i] = byte(1 + r.Intn(255))
	}
	return b
}

// Domain selects how PDU field values are drawn.
type Domain int

const (
	// Representable: the domain of C01/C02 (what the wire format can carry).
	Representable Domain = iota
	// Unconstrained: any value the Go types can hold (C12).
	Unconstrained
)

// Budget keeps a generated PDU below the 64 KiB frame limit.
type Budget struct {
	Left     int
	BigUsed  bool
	Boundary bool // bias sizes to the boundaries named in the properties
}

func (r *Rng) strLen(b *Budget) int {
	var n int
	switch c := r.Intn(100); {
	case c < 60:
		n = r.Intn(13)
	case c < 80:
		n = r.Range(13, 64)
	case c < 92:
		n = r.Pick(254, 255, 256, 139, 140, 141, 1, 2)
	case c < 97 && !b.BigUsed:
		n = r.Range(4060, 4120)
		b.BigUsed = true
	default:
		n = r.Intn(400)
	}
	if n > b.Left-64 {
		n = 0
	}
	b.Left -= n + 1
	return n
}

var (
	tHeader = reflect.TypeOf(pdu.Header{})
	tESM    = reflect.TypeOf(pdu.ESMClass{})
	tReg    = reflect.TypeOf(pdu.RegisteredDelivery{})
	tAddr   = reflect.TypeOf(pdu.Address{})
	tDests  = reflect.TypeOf(pdu.DestinationAddresses{})
	tUnsucc = reflect.TypeOf(pdu.UnsuccessfulRecords{})
	tTags   = reflect.TypeOf(pdu.Tags{})
	tSM     = reflect.TypeOf(pdu.ShortMessage{})
)

func (r *Rng) address(d Domain, b *Budget) pdu.Address {
	a := pdu.Address{TON: r.Byte(), NPI: r.Byte()}
	n := r.strLen(b)
	if r.Chance(30) {
		// the values real traffic carries: international / national / alphanumeric numbers in the E.164 plan, written
		// with and without dialling prefixes
		a.TON, a.NPI = byte(r.Pick(0, 1, 1, 2, 5)), byte(r.Pick(0, 1, 1, 8))
		digits := make([]byte, r.Range(0, 15))
		for i := range digits {
			digits[i] = byte('0' + r.Intn(10))
		}
		a.No = []string{"", "+", "00", "0"}[r.Pick(0, 0, 1, 1, 2, 3)] + string(digits)
		b.Left -= len(a.No)
		return a
	}
	if d == Unconstrained && r.Chance(10) {
		a.No = string(r.Bytes(n))
	} else {
		a.No = string(r.NulFree(n))
	}
	return a
}

func (r *Rng) count(d Domain) int {
	switch c := r.Intn(100); {
	case c < 50:
		return r.Intn(4)
	case c < 80:
		return r.Range(4, 20)
	case c < 95:
		return r.Pick(254, 255, 127, 128)
	default:
		if d == Unconstrained {
			return r.Pick(256, 257, 300)
		}
		return 255
	}
}

// PDU fills a new value of type t (a struct type of package pdu) and returns the pointer.
func (r *Rng) PDU(t reflect.Type, d Domain) interface{} {
	p := reflect.New(t)
	v := p.Elem()
	b := &Budget{Left: 60000}
	udhi := false
	hasESM := false
	for i := 0; i < v.NumField(); i++ {
		f := v.Field(i)
		switch f.Type() {
		case tHeader:
			h := pdu.Header{CommandLength: uint32(r.Intn(100)), CommandID: pdu.CommandID(r.Intn(5))}
			h.Sequence = int32(1 + r.Intn(0x7FFFFFFF))
			if r.Chance(10) {
				h.Sequence = int32(r.Pick(1, 2, 0x7FFFFFFF, 0x7FFFFFFE, 255, 256, 65536))
			}
			if d == Unconstrained {
				switch c := r.Intn(100); {
				case c < 15:
					h.Sequence = int32(r.Pick(0, -1, -2147483648, -2147483647))
				case c < 25:
					h.Sequence = int32(r.U64())
				}
				if r.Chance(30) {
					h.CommandStatus = pdu.CommandStatus(r.Pick(1, 2, 3, 0xFF, 0x400, int(r.U64()&0xFFFFFFFF)))
				}
			}
			f.Set(reflect.ValueOf(h))
		case tESM:
			e := pdu.ESMClass{MessageMode: byte(r.Intn(4)), MessageType: byte(r.Intn(16)), UDHIndicator: r.Chance(40), ReplyPath: r.Bool()}
			if d == Unconstrained && r.Chance(30) {
				e.MessageMode, e.MessageType = r.Byte(), r.Byte()
			}
			if f.Type() == tESM && t.Field(i).Name == "ESMClass" {
				udhi = e.UDHIndicator
				hasESM = true
			}
			f.Set(reflect.ValueOf(e))
		case tReg:
			g := pdu.RegisteredDelivery{MCDeliveryReceipt: byte(r.Intn(4)), SMEOriginatedAcknowledgment: byte(r.Intn(4)), IntermediateNotification: r.Bool(), Reserved: byte(r.Intn(8))}
			if d == Unconstrained && r.Chance(30) {
				g.MCDeliveryReceipt, g.SMEOriginatedAcknowledgment, g.Reserved = r.Byte(), r.Byte(), r.Byte()
			}
			f.Set(reflect.ValueOf(g))
		case tAddr:
			f.Set(reflect.ValueOf(r.address(d, b)))
		case tDests:
			var x pdu.DestinationAddresses
			n := r.count(d)
			na := r.Intn(n + 1)
			if r.Chance(20) {
				na = r.Pick(0, n)
			}
			for k := 0; k < na; k++ {
				x.Addresses = append(x.Addresses, r.address(d, b))
			}
			for k := na; k < n; k++ {
				x.DistributionList = append(x.DistributionList, string(r.NulFree(r.strLen(b))))
			}
			f.Set(reflect.ValueOf(x))
		case tUnsucc:
			var x pdu.UnsuccessfulRecords
			n := r.count(d)
			for k := 0; k < n; k++ {
				x = append(x, pdu.UnsuccessfulRecord{DestAddr: r.address(d, b), ErrorStatusCode: pdu.CommandStatus(r.U64())})
				b.Left -= 4
			}
			if n > 0 || r.Bool() {
				f.Set(reflect.ValueOf(x))
			}
		case tTags:
			f.Set(reflect.ValueOf(r.Tags(d, b)))
		case tSM:
			f.Set(reflect.ValueOf(r.shortMessage(d, b, udhi, hasESM, t.Name() == "ReplaceSM")))
		default:
			switch f.Kind() {
			case reflect.String:
				n := r.strLen(b)
				if d == Unconstrained && r.Chance(5) {
					f.SetString(string(r.Bytes(n)))
				} else {
					f.SetString(string(r.NulFree(n)))
				}
			case reflect.Uint8:
				x := r.Byte()
				if f.Type() == reflect.TypeOf(coding.DataCoding(0)) && x == 0xBF && d == Representable {
					x = 0
				}
				if r.Chance(20) {
					x = byte(r.Pick(0, 1, 2, 3, 8, 9, 10, 11, 254, 255))
				}
				f.SetUint(uint64(x))
			case reflect.Bool:
				f.SetBool(r.Bool())
			case reflect.Uint16, reflect.Uint32, reflect.Uint64, reflect.Uint:
				if r.Chance(50) {
					f.SetUint(r.U64() % (1 << uint(f.Type().Bits())))
				}
			case reflect.Int8, reflect.Int16, reflect.Int32, reflect.Int64, reflect.Int:
				if r.Chance(50) {
					f.SetInt(int64(r.Intn(1 << 15)))
				}
			}
		}
	}
	return p.Interface()
}

func (r *Rng) Tags(d Domain, b *Budget) pdu.Tags {
	if r.Chance(35) {
		return nil
	}
	n := r.Pick(1, 1, 2, 3, 5, 12, 50)
	t := pdu.Tags{}
	for k := 0; k < n; k++ {
		var l int
		switch c := r.Intn(100); {
		case c < 70:
			l = r.Range(1, 16)
		case c < 85:
			l = r.Pick(1, 2, 255, 256, 257)
		case c < 93 && !b.BigUsed:
			l = r.Range(4060, 5200)
			b.BigUsed = true
		case c < 96 && b.Left > 59000:
			l = r.Pick(58000, 20000)
		default:
			l = r.Range(1, 300)
		}
		if d == Unconstrained {
			switch c := r.Intn(100); {
			case c < 6:
				l = 0
			case c < 9:
				l = r.Pick(65534, 65535, 65536)
			}
		}
		if d == Representable && l+4 > b.Left-64 {
			continue
		}
		b.Left -= l + 4
		tag := uint16(r.U64())
		if r.Chance(30) {
			tag = uint16(r.Pick(0, 1, 5, 0x0204, 0x0424, 0xFFFF, 0x1400))
		}
		t[tag] = r.Bytes(l)
	}
	return t
}

func (r *Rng) UDH(d Domain, room int) pdu.UserDataHeader {
	h := pdu.UserDataHeader{}
	n := r.Pick(0, 1, 1, 1, 2, 2, 3, 5, 12)
	used := 1
	for k := 0; k < n; k++ {
		l := r.Pick(0, 1, 2, 3, 4, 4, 6, r.Intn(40))
		if d == Unconstrained && r.Chance(10) {
			l = r.Pick(120, 250, 255, 256, 300)
		}
		if d == Representable && used+2+l > room {
			continue
		}
		id := r.Byte()
		if r.Chance(40) {
			id = byte(r.Pick(0, 8, 5, 4, 0x24, 0x25))
		}
		if old, ok := h[id]; ok {
			used -= 2 + len(old)
		}
		h[id] = r.Bytes(l)
		used += 2 + l
	}
	return h
}

func (r *Rng) shortMessage(d Domain, b *Budget, udhi, hasESM, isReplace bool) pdu.ShortMessage {
	var m pdu.ShortMessage
	m.DefaultMessageID = r.Byte()
	m.DataCoding = coding.DataCoding(r.Byte())
	if r.Chance(40) {
		m.DataCoding = coding.DataCoding(r.Pick(0, 1, 3, 4, 8, 0xF5, 0xBF))
	}
	if d == Representable && m.DataCoding == coding.NoCoding {
		m.DataCoding = 0
	}
	ml := r.Pick(0, 1, 7, 20, 100, 139, 140, r.Intn(141))
	if d == Unconstrained && r.Chance(15) {
		ml = r.Pick(141, 142, 200, 255, 256, 300)
	}
	switch {
	case d == Representable:
		if udhi && hasESM && !isReplace {
			room := 255 - ml
			if r.Chance(50) && ml > 100 {
				ml = r.Intn(100)
				room = 255 - ml
			}
			m.UDHeader = r.UDH(d, room)
		}
	default:
		if r.Chance(50) {
			m.UDHeader = r.UDH(d, 1000)
		}
	}
	m.Message = r.Bytes(ml)
	b.Left -= 300
	return m
}

// PickUdhPlain: a user data header without a usable concatenation element (token form).
func (r *Rng) PickUdhPlain() string {
	return []string{"~", "0", "5:0102", "0:01", "8:010203", "0:0102+8:01", "36:01"}[r.Intn(7)]
}
