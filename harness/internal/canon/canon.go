// Package canon turns go-smpp PDU values into a canonical, order-defined token
// list and back, by reflection over the real types.  The same token grammar is
// parsed and printed by the Lean driver from the regenerated layouts.
//
// Grammar (space separated tokens):
//
//	string            hex of its octets, "-" when empty
//	[]byte            hex, "-" when empty or nil
//	uint8/16/32,int32 decimal
//	bool              0 | 1
//	struct            its fields in declaration order
//	[]T               count, then the elements
//	map[K][]byte      "~" when nil (only kept distinct where the code distinguishes nil: UserDataHeader),
//	                  else count, then (key value) pairs sorted by key
package canon

import (
	"encoding/hex"
	"fmt"
	"reflect"
	"sort"
	"strconv"

	"github.com/M2MGateway/go-smpp/pdu"
)

var pduTypes = []interface{}{
	pdu.AlertNotification{}, pdu.GenericNACK{}, pdu.Outbind{},
	pdu.BindReceiver{}, pdu.BindReceiverResp{},
	pdu.BindTransceiver{}, pdu.BindTransceiverResp{},
	pdu.BindTransmitter{}, pdu.BindTransmitterResp{},
	pdu.BroadcastSM{}, pdu.BroadcastSMResp{},
	pdu.CancelBroadcastSM{}, pdu.CancelBroadcastSMResp{},
	pdu.CancelSM{}, pdu.CancelSMResp{},
	pdu.DataSM{}, pdu.DataSMResp{},
	pdu.DeliverSM{}, pdu.DeliverSMResp{},
	pdu.EnquireLink{}, pdu.EnquireLinkResp{},
	pdu.QueryBroadcastSM{}, pdu.QueryBroadcastSMResp{},
	pdu.QuerySM{}, pdu.QuerySMResp{},
	pdu.ReplaceSM{}, pdu.ReplaceSMResp{},
	pdu.SubmitMulti{}, pdu.SubmitMultiResp{},
	pdu.SubmitSM{}, pdu.SubmitSMResp{},
	pdu.Unbind{}, pdu.UnbindResp{},
}

// Types lists the PDU struct types this harness knows (package pdu exports no
// registry; the extractor checks this list against factory.go).
func Types() []reflect.Type {
	out := make([]reflect.Type, 0, len(pduTypes))
	for _, v := range pduTypes {
		out = append(out, reflect.TypeOf(v))
	}
	sort.Slice(out, func(i, j int) bool { return out[i].Name() < out[j].Name() })
	return out
}

func TypeByName(name string) reflect.Type {
	for _, t := range Types() {
		if t.Name() == name {
			return t
		}
	}
	return nil
}

func Hex(b []byte) string {
	if len(b) == 0 {
		return "-"
	}
	return hex.EncodeToString(b)
}

func UnHex(s string) ([]byte, error) {
	if s == "-" {
		return []byte{}, nil
	}
	return hex.DecodeString(s)
}

var udhType = reflect.TypeOf(pdu.UserDataHeader{})

// Tokens serialises the value v (a struct or pointer to struct).
func Tokens(v interface{}) []string {
	rv := reflect.ValueOf(v)
	for rv.Kind() == reflect.Ptr {
		rv = rv.Elem()
	}
	var out []string
	emit(rv, &out)
	return out
}

func emit(v reflect.Value, out *[]string) {
	switch v.Kind() {
	case reflect.String:
		*out = append(*out, Hex([]byte(v.String())))
	case reflect.Uint8, reflect.Uint16, reflect.Uint32, reflect.Uint64, reflect.Uint:
		*out = append(*out, strconv.FormatUint(v.Uint(), 10))
	case reflect.Int8, reflect.Int16, reflect.Int32, reflect.Int64, reflect.Int:
		*out = append(*out, strconv.FormatInt(v.Int(), 10))
	case reflect.Bool:
		if v.Bool() {
			*out = append(*out, "1")
		} else {
			*out = append(*out, "0")
		}
	case reflect.Struct:
		for i := 0; i < v.NumField(); i++ {
			emit(v.Field(i), out)
		}
	case reflect.Slice:
		if v.Type().Elem().Kind() == reflect.Uint8 {
			*out = append(*out, Hex(v.Bytes()))
			return
		}
		*out = append(*out, strconv.Itoa(v.Len()))
		for i := 0; i < v.Len(); i++ {
			emit(v.Index(i), out)
		}
	case reflect.Map:
		if v.IsNil() && v.Type() == udhType {
			*out = append(*out, "~")
			return
		}
		keys := v.MapKeys()
		sort.Slice(keys, func(i, j int) bool { return keys[i].Uint() < keys[j].Uint() })
		*out = append(*out, strconv.Itoa(len(keys)))
		for _, k := range keys {
			*out = append(*out, strconv.FormatUint(k.Uint(), 10))
			emit(v.MapIndex(k), out)
		}
	default:
		panic(fmt.Sprintf("canon: unsupported kind %s", v.Kind()))
	}
}

// FromTokens builds a new *T from tokens; returns the pointer.
func FromTokens(t reflect.Type, toks []string) (interface{}, error) {
	p := reflect.New(t)
	rest, err := parse(p.Elem(), toks)
	if err != nil {
		return nil, err
	}
	if len(rest) != 0 {
		return nil, fmt.Errorf("canon: %d trailing tokens", len(rest))
	}
	return p.Interface(), nil
}

func parse(v reflect.Value, toks []string) ([]string, error) {
	need := func() error {
		if len(toks) == 0 {
			return fmt.Errorf("canon: out of tokens")
		}
		return nil
	}
	switch v.Kind() {
	case reflect.String:
		if err := need(); err != nil {
			return nil, err
		}
		b, err := UnHex(toks[0])
		if err != nil {
			return nil, err
		}
		v.SetString(string(b))
		return toks[1:], nil
	case reflect.Uint8, reflect.Uint16, reflect.Uint32, reflect.Uint64, reflect.Uint:
		if err := need(); err != nil {
			return nil, err
		}
		n, err := strconv.ParseUint(toks[0], 10, 64)
		if err != nil {
			return nil, err
		}
		v.SetUint(n)
		return toks[1:], nil
	case reflect.Int8, reflect.Int16, reflect.Int32, reflect.Int64, reflect.Int:
		if err := need(); err != nil {
			return nil, err
		}
		n, err := strconv.ParseInt(toks[0], 10, 64)
		if err != nil {
			return nil, err
		}
		v.SetInt(n)
		return toks[1:], nil
	case reflect.Bool:
		if err := need(); err != nil {
			return nil, err
		}
		v.SetBool(toks[0] == "1")
		return toks[1:], nil
	case reflect.Struct:
		var err error
		for i := 0; i < v.NumField(); i++ {
			if toks, err = parse(v.Field(i), toks); err != nil {
				return nil, err
			}
		}
		return toks, nil
	case reflect.Slice:
		if err := need(); err != nil {
			return nil, err
		}
		if v.Type().Elem().Kind() == reflect.Uint8 {
			b, err := UnHex(toks[0])
			if err != nil {
				return nil, err
			}
			v.SetBytes(b)
			return toks[1:], nil
		}
		n, err := strconv.Atoi(toks[0])
		if err != nil {
			return nil, err
		}
		toks = toks[1:]
		s := reflect.MakeSlice(v.Type(), n, n)
		for i := 0; i < n; i++ {
			if toks, err = parse(s.Index(i), toks); err != nil {
				return nil, err
			}
		}
		if n > 0 {
			v.Set(s)
		}
		return toks, nil
	case reflect.Map:
		if err := need(); err != nil {
			return nil, err
		}
		if toks[0] == "~" {
			return toks[1:], nil
		}
		n, err := strconv.Atoi(toks[0])
		if err != nil {
			return nil, err
		}
		toks = toks[1:]
		m := reflect.MakeMap(v.Type())
		for i := 0; i < n; i++ {
			k := reflect.New(v.Type().Key()).Elem()
			if toks, err = parse(k, toks); err != nil {
				return nil, err
			}
			e := reflect.New(v.Type().Elem()).Elem()
			if toks, err = parse(e, toks); err != nil {
				return nil, err
			}
			m.SetMapIndex(k, e)
		}
		if n > 0 || v.Type() == udhType {
			v.Set(m)
		}
		return toks, nil
	}
	return nil, fmt.Errorf("canon: unsupported kind %s", v.Kind())
}
